#!/usr/bin/env python3
"""Writes MANIFEST.json from the table below (kept as code so that it stays consistent)."""
import json, os
VERIF = os.path.dirname(os.path.dirname(os.path.abspath(__file__)))

NOTE = ("Lean 4 kernel; axioms propext/Classical.choice/Quot.sound only; tools/extract.py and the correspondence harness; "
        "CPython and clingo (parser, grounder, solver, backend) are modelled or assumed, not verified — see DESIGN.md §8")

CHECKS = {
 "C08": dict(
    text="Theorems (Lean 4, unbounded in options, result sequences and run length) about the loop test, option parsers and "
         "defaults that are re-extracted from telingo/__init__.py on every run: horizons 0,1,2,… without gap or repeat, ≤ imax, "
         "≥ min(imin,imax), stop exactly at the first matching horizon, no read of `ret` while None, refinement to the "
         "specification function specCalls, option values accepted/rejected without exceptions.  The hand-written call-log "
         "model is tied to imain by running both on generated option/result/part/atom scripts (recording Control proxy); "
         "the real loop is compared exhaustively with the specification on a small space.",
    design="§6 C08", technique="Lean 4 proof over source-extracted definitions + model/implementation correspondence"),
}

CHECKS["C03"] = dict(
    text="Theorems (Lean 4): (a) doc_eq_sem — the transcription of create_formula applied to the fully parenthesised term of any "
         "README formula yields a code-level formula whose semantics is the documented LTL_f reading (incl. the expansions of ;> <; >> << "
         "keywords, n-fold); (b) tseitin_unique — for every horizon, trace and closed set of (formula, step) pairs, any valuation "
         "solving the one-step equations (the transcription of every do_translate, with placeholders beyond the horizon resolved by "
         "weakness) is that semantics; (c) C03_value / C03_redecided combine them per horizon.  No bound on nesting, sharing, horizon.  "
         "Tie: on every run the real implementation's literal valuation in every answer set is checked to solve exactly these equations on "
         "all reachable pairs and each theory atom to equal its root formula (instrumentation from outside, no hook).  Search: witness "
         "atoms at every state against the executable LTL_f specification on all traces.  occurrences_equated / occurrences_follow — "
         "model StepData of BodyFormula.translate / add_atom / StepData.add_literal: after any sequence of registrations of occurrence "
         "literals and translations of a (formula, step) pair ending with a translation, every occurrence is the formula's literal or has "
         "been made equivalent to it and nothing else is written (random call sequences on the real methods vs the model); theory_atoms_equated — the same over any number of Theory.translate calls (model TheoryCall; its hypothesis GoodCall and the per-pair StepData are checked on every call of real runs).  placeholder_life — the life cycle of the obligation of a `>` beyond the horizon (model of Next.do_translate and the todo list; every call of the real method is compared with the model): pending with the end-of-trace value and queued under its own step exactly while the target state does not exist, resolved in the one call in which the horizon reaches the target.",
    design="§6 C03", technique="Lean 4 proof (unique solution of the translation's equation system = LTL_f) + equation-level correspondence with the real translation")

CHECKS["C05"] = dict(
    text="Theorems (Lean 4): del_unique — for path expressions in the documented normal form, any valuation solving the one-step "
         "equations of DiamondFormula/BoxFormula (transcribed from translate_ChoicePath/SequencePath/CheckPath/KleeneStarPath/SkipPath) "
         "is the LDL_f semantics (runs relation; diamond = some run, box = every run), by induction on the path with an inner induction "
         "on the distance to the end of the trace for iteration, including the sufficiency of the iteration fuel; del_doc_eq — the code's "
         "create_dynamic_formula/create_path build a formula with the specified semantics (atoms as test-then-step, &final as [T]false); "
         "runs_within — runs never leave 0..h.  Tie and search as for C03 (equation-level correspondence on real runs; witness atoms vs "
         "the executable LDL_f specification on all traces, normal-form generator).  normal_form_necessary — the hypothesis cannot be "
         "dropped: for <(a?)*> b at horizon 1 the equations have two solutions, one of them not the LDL_f value; the real code is run at "
         "that point on every run (two answer sets for one trace, recorded in the evidence) and the equation-level tie is also evaluated "
         "on formulas outside the normal form.",
    design="§6 C05", technique="Lean 4 proof (unique solution of the Diamond/Box equation system = LDL_f under normal form) + equation-level correspondence")

CHECKS["C01"] = dict(
    text="Theorem C01_core (Lean 4): for every ground temporal program of the core rule fragment (every head form × body literal "
         "form × program part), every horizon h reached through the incremental history of steps 0..h, the stable models of the "
         "model's accumulated ground program G(P,h) — per step the instances of the parts selected by the partCond regenerated from "
         "imain, atoms unknown at grounding time frozen to false, __initial(0), __final(h) the only true external — are exactly the "
         "embeddings of the temporal stable models TSM(P,h) (temporal equilibrium logic on finite traces); partCond_spec, "
         "ground_call_eq and instance_reading are the supporting lemmas; directive_spec / directive_parts — visit_Program as regenerated from "
         "the source maps `final` to `always` with the final flag (under which exactly `__final(t)` is appended, E12), `base` to `initial` "
         "and keeps every other name, which is the model's rule classification.  Tie: the model's part list/future signatures are compared "
         "with transform's return value and its ground program (solved by clingo) with the real incremental run at every horizon; "
         "search: real runs vs the brute-force TSM enumerator on the head×literal×part grid and random programs with varying layout "
         "(`base`, omitted directives).",
    design="§6 C01", technique="Lean 4 proof (stable models of the incremental ground program = temporal stable models) + answer-set correspondence of the model with the implementation")
CHECKS["C02"] = dict(
    text="Theorems (Lean 4), for every program of the rule fragment with future heads of any depth (p', p'', …) and look-ahead "
         "integrity constraints / `not` / `not not` heads of any depth (progFut) and EVERY horizon h of the incremental history: "
         "C02_future — the stable models of the model's accumulated ground program G(P,h) (per step the instances of the parts "
         "selected by the generated partCond, temporary look-ahead copies guarded by __final(s), permanent copies, __future bridge "
         "rules, the assumptions of the generated assumeCond) are exactly the embeddings of the temporal stable models TSM(P,h), in "
         "which a future head beyond the last state is a contradiction and a future body literal beyond it is false "
         "(beyond_end_false); C02_traces is the projection to user atoms; core_sub_fut shows C01 is the special case.  Supporting "
         "invariants: stale_dead (copies grounded at an earlier step are dead at every later horizon), window_temp / window_perm / "
         "always_window_cover (every position is covered exactly), assumptions_exact, future_head.  The statement without the "
         "syntactic side condition (C02_statement) is kept visible: programs outside progFut are rejected by telingo (C11).  Tie: "
         "part list / future signatures vs transform's return value, and G(P,h) solved by clingo vs the real incremental run at "
         "every horizon; search: real runs vs the brute-force TSM enumerator (depths ≤ 2, horizons incl. h < n, both classical signs).",
    design="§6 C02", technique="Lean 4 proof (stable models of the incremental ground program with look-ahead parts, bridge rules and assumptions = temporal stable models) + answer-set correspondence")
CHECKS["C09"] = dict(
    text="Theorems (Lean 4) about every stable model X of the model's accumulated ground program G(P,h), for every program of the "
         "typed rule fragment and every horizon: user atoms carry times in 0..h (times_in_range), __initial(k) ∈ X ↔ k = 0, "
         "__final(k) ∈ X ↔ k = h (by induction-free reading of the history: release precedes ground, assign follows — stepScript "
         "extracted), a __future atom comes with its target and lies within h (future_target).  Tie: L1/L5 correspondence; search: a "
         "direct monitor on every answer set of real runs (random programs of all fragments, the shipped examples).",
    design="§6 C09", technique="Lean 4 proof (supportedness in stable models of the accumulated ground program) + runtime monitor on real answer sets")

CHECKS["C04"] = dict(
    text="Theorems (Lean 4): head_doc_eq — the head create_formula implements the documented THT reading of every head-admissible "
         "formula; emitted_heads_in_ranges — the time ranges TheoryAtomTransformer computes for the atoms of a head formula cover "
         "every atom that stands in a clause of the formula shifted by d steps (the domain rule introduces every atom the step-wise "
         "translation can put into a rule head); head_clauses_mean_formula; unshift_equiv — the head formula shifted by d steps by the code's until→next→shift recursion means, d "
         "states later, what the formula means now, in every world of every THT interpretation, any nesting (termination is part of "
         "the definition); unfold_cnf — unfold_formula is distribution into CNF; clauses_at_step combines them; shift_iff — "
         "time-stratified shifting (moving off-time disjuncts into the body under default negation, as translate_clause does) "
         "preserves stable models; emitted_rule_reads_clause / head_as_body / emitted_rules_total — the rule ClauseToRule / "
         "translate_clause write for a clause (atoms of the current step as head, the negated literal of the body formula of every "
         "shifted part, head_formula_to_body_formula) holds in a here-and-there world exactly when the clause holds with its shifted "
         "parts read in the there-world (double negation), for every clause of every head formula at every distance; on total traces "
         "all rules of a step hold iff the formula holds at its own step; neg_is_default / choice_reading.  PARTIAL: the end-to-end "
         "statement C04_statement is kept visible "
         "and is validated, not proved: the composition with incremental grounding (domain rule ranges, head atoms that are facts, "
         "several formulas per state) is exercised by the search against the brute-force THT equilibrium enumerator on the head "
         "operator-pair grid, interaction programs and random programs.  Tie: representation equality of create_formula / "
         "shift_formula / unfold_formula between implementation and model at shifts 0..3 (size-capped); the model's time ranges vs "
         "the real transform_theory_atom; the real IntervalSet vs the model; every rule really written for a head formula during a run "
         "(translate_clause wrapped: the atom base's view of the clause's atoms, the literals of the body formulas) vs the model's "
         "ruleShape, clause by clause, element by element.",
    design="§6 C04", technique="Lean 4 proof (THT equivalence of shifting/unfolding, stratified shifting lemma; partial end-to-end) + function-level correspondence")

CHECKS["C16"] = dict(
    text="Theorems (Lean 4): every documented abbreviation and duality as an equivalence of the specification semantics — in every "
         "world of every THT interpretation for the head-admissible ones (&false, &initial, &final, <<, >>, ;>, ;>:, <;, <:;, n-fold = "
         "nested, nested step operators of one strength add up (and those of different strength do not: no_law_mixed_next/prev), 0-fold, unary >? >* <? <*), on total traces for the classical dualities (>: , >*, <*) — the substitution theorem "
         "that lifts an equivalence to every sub-formula position of every context (in_every_context / in_every_body_context), the "
         "past/future mirror symmetry on reversed traces, and code_level which transports the result to the formulas create_formula "
         "builds.  Tie: the C03 equation-level correspondence on C[lhs], C[rhs]; search: metamorphic on the implementation (witnesses "
         "of both sides must agree in every answer set; head versions must give equal answer sets; mirror on reversed traces).",
    design="§6 C16", technique="Lean 4 proof (semantic equivalences + substitution theorem + mirror symmetry) + metamorphic search on the implementation")
CHECKS["C17"] = dict(
    text="Theorems (Lean 4): tsm_prefix — for past-only programs of the core fragment (no final part, no &final, no future "
         "reference) the first h+1 states of a temporal stable model of horizon h+1 form one of horizon h; C17_prefix / "
         "C17_prefix_iter — the same for the stable models of the model's accumulated ground programs G(P,h+d) and G(P,h) (through "
         "C01_core), i.e. for the incremental history; tsm_prefix_tel / past_formula_horizon_free — the prefix theorem on the "
         "specification also for rule bodies with past `&tel` formulas (any nesting of < <: <? <* << <; <:; and Boolean connectives): a "
         "past-only formula has the same value at every horizon.  PARTIAL: for programs with `&tel` atoms the link from the "
         "specification to the implementation is the C03 equation-level tie, not the ground-program model; search: consecutive "
         "horizons of one real run (past-only rule programs, the past operator-pair grid incl. n-fold variants as observers and "
         "constraints).",
    design="§6 C17", technique="Lean 4 proof (prefix theorem on TSM, lifted to the incremental ground program) + prefix monitor on consecutive horizons of real runs")
CHECKS["C12"] = dict(
    text="Theorems (Lean 4): G_congr — the ground program accumulated at horizon h depends on the temporal program only through "
         "membership of its rules (typed rule fragment incl. future heads and look-ahead constraints); stable_mem_congr / "
         "tsm_mem_congr — stable models and temporal stable models depend on the rule set; hence permutation, duplication and "
         "redistribution over files leave the answer sets unchanged (perm_answer_sets, dup_answer_sets, files_same); "
         "formula_values_order_indep — solutions of the theory's equation system are unique whatever the processing order.  The "
         "layout of the text (directives, files starting in `base`, aux-atom numbering) is exercised by the metamorphic search on "
         "the implementation: permuted / duplicated / split into 2, 3, n files, with body formulas, head formulas and dynamic formulas.",
    design="§6 C12", technique="Lean 4 proof (membership-invariance of the ground program and of stable models) + metamorphic search on the implementation")
CHECKS["C13"] = dict(
    text="Theorems (Lean 4): formula_exists (the semantics solves the translation's equation system for every trace and horizon), "
         "formula_definite / del_definite (any two solutions agree), constraint_split (each formula literal has exactly the value "
         "the trace gives it); observer_cut / observer_conservative (generic answer-set programs, any atom type): adding only choice "
         "rules on fresh atoms, integrity constraints and negative-body definitions of fresh atoms (`w :- not not t`) to a program never "
         "invents an answer set of the old atoms, and when the added constraints hold exactly if each fresh atom has the value a "
         "function of the old atoms gives it, cutting is a bijection of stable models — nothing created, destroyed or duplicated.  "
         "definition_chain_conservative with bool_group_defines / tel_group_defines / eq_group_defines / placeholder_defines: the "
         "clause groups the code writes (clause model, tied to the code literal for literal) for a Boolean connective, a temporal "
         "induction step, an equivalence, and the fixed external of a `>` beyond the horizon are clause definitions, and every chain of "
         "clause definitions (each fresh atom new to the program and the definitions before it) is a conservative extension.  "
         "PARTIAL: that clingo's multi-shot state after add_external(Free) / release_external is this per-call program is the "
         "solver's contract; checked on the implementation: (H1) "
         "every backend statement recorded while body formulas are translated is a fresh atom, a choice on one, an external on one or "
         "an integrity constraint; (H2) the recorded literal values solve the equations in every answer set (L4), also when the "
         "observer is another spelling of one of the program's own formulas (shared formula objects).  Search: P vs P + observer "
         "projected to P's atoms as multisets, and P's answer sets = disjoint union of those with `:- &tel{f}` and `:- not &tel{f}`, on "
         "rule programs incl. shifted constraints, head-formula programs, formula constraints, observers sharing sub-formulas or "
         "aliasing own formulas, shipped examples.",
    design="§6 C13", technique="Lean 4 proof (existence and uniqueness of the formula values; conservativity of definitional extensions for stable models; hypotheses checked on recorded backend statements) + metamorphic search on the implementation")

CHECKS["C07"] = dict(
    text="Theorems (Lean 4): tables_agree — the operator tables regenerated from the source on every run (#theory tel body/head "
         "term definitions, #theory del, TheoryParser.table) are the documented tables; head_sub_body; *_pairs_triples — for EVERY "
         "operator pair and triple of each table (unary × binary × binary with the unary operator in front of any operand, unary × "
         "unary; 15 122 strings for the body table) the transcription of TheoryParser's stack machine reads the string exactly as "
         "the documented precedence-climbing rule (an independent recursive specification): the property's quantifier is this "
         "finite set, enumerated completely and evaluated by the Lean kernel (decide +kernel, no native_decide); arith_prefix — "
         "create_number evaluates arithmetic prefixes.  Tie (L7): gringo's theory-term parser with the #theory text taken from the "
         "source, and the real TheoryParser.parse, against the model on random operator strings incl. rejected ones.  Search: raw "
         "formula vs its documented fully parenthesised reading, equal answer sets, in bodies, heads and &del.",
    design="§6 C07", technique="Lean 4 proof (kernel-evaluated complete enumeration of operator pairs/triples against an independent precedence-climbing specification; tables extracted from source) + parser correspondence")

CHECKS["C11"] = dict(
    text="Theorems (Lean 4): flags_table — at each of 30 syntactic positions the flag expressions regenerated from "
         "visit_SymbolicAtom, applied to the traversal state of that position, coincide with the documented categories (future "
         "atoms fail unless normal head or inside a constraint; past/initially atoms fail exactly in positive head positions); "
         "accept_regular — __get_param on '^l core '^t (any l, t, any clean core incl. __ prefixes and inner primes) computes the "
         "shift t-l, rejects iff (fail_future ∧ t>l) ∨ (fail_past ∧ t<l); prime_uniform; reject_iff / accepts_iff_doc — rejection "
         "exactly for the documented placements (specification TelSpec.docAccepts); theory_guard for &tel/&del body atoms; "
         "element_terms_guard — a theory element of a body &tel or a &del atom is rejected exactly if it has not exactly one term "
         "(checks regenerated from visit_TheoryAtom); flags_from_classification / classification_spec — the constraint and normal "
         "columns of the position table are the values of is_constraint / is_normal (regenerated from transformers/transformer.py) "
         "on the statement the position lives in.  The "
         "head column of the traversal-state table and the statement shape per position are hand-transcribed; the table it is validated on every run against the real transform on the "
         "full grid (30 positions with 40 templates × 63 atom forms × parts) and random nestings; theory-atom placements, primes "
         "and head-forbidden operators in formulas, multi-term elements are checked on the real code.",
    design="§6 C11", technique="Lean 4 proof (prime arithmetic for all names; acceptance = documented categories via extracted flag expressions) + exhaustive position×form grid against the real transform")

CHECKS["C10"] = dict(
    text="Theorems (Lean 4) about the transcription of TelApp.print_model, for every list of shown symbols, every horizon and "
         "every ranking standing for clingo's symbol order: the states 0..h are printed once each in order (print_states); an atom "
         "appears under State k iff it is a shown symbol whose last argument is the number k and whose name does not start with __ "
         "(print_exact, print_no_aux); no atom under two states (print_state_unique); nothing dropped or duplicated (print_count); "
         "shown terms without a time stamp are skipped and cannot make printing fail (print_untimed_skipped).  Tie (L6): the real "
         "print_model called in-process on constructed symbol lists (numbers, strings, tuples, nested functions, classical "
         "negation, __ names, untimed terms) byte for byte against the model.  Search: the real command line (1–3 files, stdin, "
         "#show, -t 2, --imin/--imax) — printed State blocks of every answer against an in-process run of transform+imain on the "
         "same inputs (which bypasses TelApp.main and print_model), so that file handling (each file starts in the initial part) "
         "is covered.  PARTIAL: stdout buffering, file-system errors, thread scheduling are outside the model.",
    design="§6 C10", technique="Lean 4 proof about the print_model transcription + byte-level correspondence + command-line differential search")

CHECKS["C15"] = dict(
    text="Theorems (Lean 4): every Python exception is a value in the model, RuntimeError apart from the internal kinds, and each "
         "assert / attribute read on None / list index of the transcribed code has an explicit failure branch.  Proved: "
         "create_number, create_symbol, create_atom and the n-fold prefix never end in an internal error on any theory term; "
         "create_formula does not on any term gringo's parser can produce with the #theory tel body table (gringoOK: operator names "
         "only with table arities) — the final assert of the operator chain, Previous(None,…) of unary sequence operators and "
         "args[-1] on [] are unreachable; likewise create_path, create_dynamic_formula and translate_elements under the #theory del "
         "table, and the head create_formula; TheoryParser.parse on every non-empty unparsed term of the shape clingo's grammar "
         "produces with any operator table (stack-shape invariant: no underflow, no missing table entry, loops terminate); "
         "__get_param for every name and flag combination; the loop and option parsers (C08).  All are total Lean definitions (no "
         "input loops).  The recursion of the step-wise translation (BodyFormula.translate over (formula, step) pairs, model TranslateRec): "
         "translate_returns — defined by well-founded recursion, so it returns for every graph in which operands-first pairs point to "
         "pairs of smaller rank, cyclic unfoldings through box / diamond pairs included; add_literal_assertion_holds — with the second "
         "look of the Boolean connectives the assertion of StepData.add_literal never fails; add_literal_assertion_fails_without_second_look. "
         "Its hypotheses are checked on the recorded nesting of the real translate calls.  PARTIAL: the AST rewriting of transformers/ "
         "beyond __get_param / TheoryParser and what the step-wise translate methods write besides (C03/C05) are covered by the error-class correspondence and the near-valid search on the real code (in-process "
         "exception types, time limit, command line: PANIC / non-RuntimeError traceback / status 0 on rejection).",
    design="§6 C15", technique="Lean 4 proof (internal-error branches unreachable under the parser's arity contract; partial) + error-class correspondence + near-valid grammar search")

CHECKS["C14"] = dict(
    text="Theorems (Lean 4): sorted_iteration_independent — whatever order a hash-ordered container yields its elements in (any "
         "permutation), sorting by a total order gives one list, which is why future_sigs and the bridge rules (sorted(...) over the "
         "set of future predicates) do not depend on the hash seed; variable_tuple_order_independent — the argument tuple of the "
         "auxiliary atom of a head formula (get_variables) depends on the set of its variables only; "
         "ranges_insertion_order_independent — the time points covered by the merged ranges of a head-formula atom do not depend on "
         "the order in which they were added; the model of the translation is a pure function of the program, so independence of "
         "earlier or interleaved runs holds by construction on the model side.  "
         "PARTIAL: CPython hash randomisation, module state and re-entrancy cannot be exhibited by the model; they are exercised on "
         "the real code: PYTHONHASHSEED ∈ {0,1,2,3,12345,…} in subprocesses, repeated / interleaved / re-entrant translations and "
         "solving runs in one process — statements, future_sigs, parts and answer sets identical — on programs with several future "
         "predicates (names, arities, signs, depths), head formulas with variables, body formulas.",
    design="§6 C14", technique="Lean 4 proof (sorting makes set iteration order irrelevant; model is a pure function; partial) + perturbation runs of the real code")

CHECKS["C06"] = dict(
    text="Theorems (Lean 4) about telingo's own part in treating schemata: time_arg_uniform — TermTransformer (transformers/term.py, "
         "modelled on predicate / classical-negation / pool terms incl. the side effects on future_predicates and max_shift) adds the "
         "time parameter uniformly: rewriting commutes with pool expansion and classical negation, every instance gets the parameters "
         "its own predicate name asks for; time_arg_commutes_with_substitution — the rewriting never looks at arguments, so rewriting a "
         "schema atom and then replacing its variables is rewriting the instance; term_conversion_preserves_value — "
         "theory_term_to_term (arguments of head-formula atoms, n-fold prefixes) yields a plain term with the value of the theory "
         "term under every assignment (arithmetic, constant folding, tuples); aux_atom_identifies_instance — get_variables returns "
         "exactly the variables of the head theory atom, each once, ordered by name, so equal auxiliary atoms mean equal instances "
         "of the head formula; max_shift_is_max / future_sign_recorded; symbol_roundtrip — create_symbol applied to the "
         "theory term by which clingo presents a ground symbol (numbers, strings, #inf/#sup, functions, tuples, classical negation, any "
         "nesting) gives that symbol back; elements_sem / element_sem — the formula built from the ground elements of "
         "`&tel{ f(X) : c(X) }` is the conjunction over the elements of (condition → element formula), for any number of elements in "
         "any order; interval_add / interval_addAll — IntervalSet.add keeps the sorted-disjoint-nonadjacent invariant and the point set "
         "is exactly the union of the added ranges.  PARTIAL: that the grounder computes the instances is clingo's contract; "
         "commutation of the rewriting with substitution on whole statements (conditions, aggregates, theory atoms) is proved for the "
         "terms of atoms only.  "
         "Tie: the real TermTransformer vs the model on random atom terms (result, future predicates, max_shift, error class); the real "
         "theory_term_to_term and get_variables vs the model on random theory terms / head atoms; clingo's "
         "theory terms of random ground symbols vs the model's symTerm and the real create_symbol; the real IntervalSet vs the model; "
         "the L4 equation check on theory atoms with several elements and conditions (incl. equal formulas under different "
         "conditions); transform_commutes_with_substitution / program_transform_commutes_with_substitution — the rewriting commutes with "
         "substitution on whole statements and programs (a statement as the sequence of its atom occurrences with the flags of their "
         "positions; one real TermTransformer over random sequences vs the model addTimeStmt).  Search: a rule schema over d(1..2) vs its own textual instantiation (variables, pools, intervals, arithmetic, "
         "comparisons, classical negation, aggregates, n-fold prefixes given by variables also inside unbounded head operators, #show, "
         "#external; element conditions with local variables are instantiated as the documented conjunction of implications), equal "
         "answer sets per horizon.",
    design="§6 C06", technique="Lean 4 proof (uniform time-parameter insertion, symbol round trip, element conjunction semantics, IntervalSet invariant; partial) + class-level correspondence + schema-vs-instantiation metamorphic search")

NOT_YET = {}

def main():
    props = [json.loads(l) for l in open(os.path.join(VERIF, "properties.jsonl"))]
    checks = []
    na = []
    for p in props:
        pid = p["id"]
        if pid in CHECKS:
            c = CHECKS[pid]
            checks.append({
                "property_id": pid,
                "quick_cmd": "./check {} --tier quick".format(pid),
                "thorough_cmd": "./check {} --tier thorough".format(pid),
                "evidence_file": "evidence/{}.json".format(pid),
                "replay_cmd_template": "./check {} --replay {{path}}".format(pid),
                "engine": "lean4-proof+correspondence",
                "level_claimed": {"category": "proof", "text": c["text"], "design_ref": c["design"]},
                "level_note": c.get("note", NOTE),
                "technique": c["technique"],
            })
        else:
            na.append({"property_id": pid, "reason": NOT_YET.get(pid, "check not built yet in this revision (work in progress; the technique applies, see DESIGN.md §6)")})
    m = {
        "version": 1,
        "setup_cmd": "cd lean && lake build",
        "hooks": {
            "guard": "TELINGO_VERIF",
            "enable": "no hooks are compiled into /repo: the harness wraps telingo from outside (recording Control proxy, Theory subclass, clingo Observer)",
            "baseline_off_cmd": "cd /repo && /venv/bin/python -m pytest -ra -q -p no:cacheprovider --timeout=900 --continue-on-collection-errors",
            "source_commits": [],
            "add_only": True,
        },
        "engines": [{
            "name": "lean4-proof+correspondence", "path": "check",
            "serves_properties": sorted(CHECKS),
            "kind_free_text": "Lean 4 theorems about a model of telingo (lean/), parts of which are regenerated from /repo's Python source on every run (tools/extract.py); the hand-written parts are run side by side with the real code (tools/props/*.py); a failing-input search against the executable specification (lean/TelSpec, `telspec`) runs when anything no longer checks",
        }],
        "checks": checks,
        "not_applicable": na,
        "notes": "Genuine defects found and repaired are listed in known_findings.json (fixed: entries) and DESIGN.md §9.",
    }
    with open(os.path.join(VERIF, "MANIFEST.json"), "w") as f:
        json.dump(m, f, indent=1, ensure_ascii=False)
        f.write("\n")

if __name__ == "__main__":
    main()
