#!/usr/bin/env python3
"""Writes MANIFEST.json from the table below (kept as code so that it stays consistent)."""
import json, os
VERIF = os.path.dirname(os.path.dirname(os.path.abspath(__file__)))

NOTE = ("Lean 4 kernel; axioms propext/Classical.choice/Quot.sound only; tools/extract.py and the correspondence harness; "
        "CPython and clingo (parser, grounder, solver, backend) are modelled or assumed, not verified — see DESIGN.md §8")

CHECKS = {
 "C08": dict(
    text="Theorems (Lean 4, unbounded in options, result sequences and run length) about the loop test, option parsers and "
         "defaults that are re-extracted from telingo/__init__.py on every run: horizons 0,1,2,… without gap or repeat, ≤ imax, "
         "≥ min(imin,imax), stop exactly at the first matching horizon, no read of `ret` while None, refinement to the "
         "specification function specCalls, option values accepted/rejected without exceptions.  The hand-written call-log "
         "model is tied to imain by running both on generated option/result/part/atom scripts (recording Control proxy); "
         "the real loop is compared exhaustively with the specification on a small space.",
    design="§6 C08", technique="Lean 4 proof over source-extracted definitions + model/implementation correspondence"),
}

CHECKS["C03"] = dict(
    text="Theorems (Lean 4): (a) doc_eq_sem — the transcription of create_formula applied to the fully parenthesised term of any "
         "README formula yields a code-level formula whose semantics is the documented LTL_f reading (incl. the expansions of ;> <; >> << "
         "keywords, n-fold); (b) tseitin_unique — for every horizon, trace and closed set of (formula, step) pairs, any valuation "
         "solving the one-step equations (the transcription of every do_translate, with placeholders beyond the horizon resolved by "
         "weakness) is that semantics; (c) C03_value / C03_redecided combine them per horizon.  No bound on nesting, sharing, horizon.  "
         "Tie: on every run the real implementation's literal valuation in every answer set is checked to solve exactly these equations on "
         "all reachable pairs and each theory atom to equal its root formula (instrumentation from outside, no hook).  Search: witness "
         "atoms at every state against the executable LTL_f specification on all traces.",
    design="§6 C03", technique="Lean 4 proof (unique solution of the translation's equation system = LTL_f) + equation-level correspondence with the real translation")

CHECKS["C05"] = dict(
    text="Theorems (Lean 4): del_unique — for path expressions in the documented normal form, any valuation solving the one-step "
         "equations of DiamondFormula/BoxFormula (transcribed from translate_ChoicePath/SequencePath/CheckPath/KleeneStarPath/SkipPath) "
         "is the LDL_f semantics (runs relation; diamond = some run, box = every run), by induction on the path with an inner induction "
         "on the distance to the end of the trace for iteration, including the sufficiency of the iteration fuel; del_doc_eq — the code's "
         "create_dynamic_formula/create_path build a formula with the specified semantics (atoms as test-then-step, &final as [T]false); "
         "runs_within — runs never leave 0..h.  Tie and search as for C03 (equation-level correspondence on real runs; witness atoms vs "
         "the executable LDL_f specification on all traces, normal-form generator).",
    design="§6 C05", technique="Lean 4 proof (unique solution of the Diamond/Box equation system = LDL_f under normal form) + equation-level correspondence")

NOT_YET = {}

def main():
    props = [json.loads(l) for l in open(os.path.join(VERIF, "properties.jsonl"))]
    checks = []
    na = []
    for p in props:
        pid = p["id"]
        if pid in CHECKS:
            c = CHECKS[pid]
            checks.append({
                "property_id": pid,
                "quick_cmd": "./check {} --tier quick".format(pid),
                "thorough_cmd": "./check {} --tier thorough".format(pid),
                "evidence_file": "evidence/{}.json".format(pid),
                "replay_cmd_template": "./check {} --replay {{path}}".format(pid),
                "engine": "lean4-proof+correspondence",
                "level_claimed": {"category": "proof", "text": c["text"], "design_ref": c["design"]},
                "level_note": c.get("note", NOTE),
                "technique": c["technique"],
            })
        else:
            na.append({"property_id": pid, "reason": NOT_YET.get(pid, "check not built yet in this revision (work in progress; the technique applies, see DESIGN.md §6)")})
    m = {
        "version": 1,
        "setup_cmd": "cd lean && lake build",
        "hooks": {
            "guard": "TELINGO_VERIF",
            "enable": "no hooks are compiled into /repo: the harness wraps telingo from outside (recording Control proxy, Theory subclass, clingo Observer)",
            "baseline_off_cmd": "cd /repo && /venv/bin/python -m pytest -ra -q -p no:cacheprovider --timeout=900 --continue-on-collection-errors",
            "source_commits": [],
            "add_only": True,
        },
        "engines": [{
            "name": "lean4-proof+correspondence", "path": "check",
            "serves_properties": sorted(CHECKS),
            "kind_free_text": "Lean 4 theorems about a model of telingo (lean/), parts of which are regenerated from /repo's Python source on every run (tools/extract.py); the hand-written parts are run side by side with the real code (tools/props/*.py); a failing-input search against the executable specification (lean/TelSpec, `telspec`) runs when anything no longer checks",
        }],
        "checks": checks,
        "not_applicable": na,
        "notes": "Genuine defects found and repaired are listed in known_findings.json (fixed: entries) and DESIGN.md §9.",
    }
    with open(os.path.join(VERIF, "MANIFEST.json"), "w") as f:
        json.dump(m, f, indent=1, ensure_ascii=False)
        f.write("\n")

if __name__ == "__main__":
    main()
