"""
Seeded generators of typed temporal programs and formulas.  Every random choice
comes from the `random.Random` passed in, so a case replays from (seed, index).
"""
import itertools

PARTS = ["initial", "always", "dynamic", "final"]
SIGNS = ["pos", "pos", "not", "notnot"]

# --------------------------------------------------------------------------- body formulas (&tel in bodies)

def gen_sform(r, depth, atoms, past=True, future=True, share=None):
    """random SForm over the full body operator set; `share` is a pool of sub-formulas reused on purpose"""
    if share and depth > 0 and r.random() < 0.15:
        return r.choice(share)
    if depth == 0 or r.random() < 0.22:
        k = r.random()
        if k < 0.75:
            return ("a", r.choice(atoms))
        return ("k", r.choice(["true", "false", "initial", "final"]))
    ops = ["~", "b", "b"]
    if past:
        ops += ["prev", "since", "trigger", "evP", "alP", "init", "seqp"]
    if future:
        ops += ["next", "unt", "rel", "evF", "alF", "fin", "seqn"]
    t = r.choice(ops)
    G = lambda: gen_sform(r, depth - 1, atoms, past, future, share)
    if t == "~":
        f = ("~", G())
    elif t == "b":
        f = ("b", r.choice(["and", "or", "limp", "rimp", "equiv"]), G(), G())
    elif t in ("prev", "next"):
        f = (t, r.choice([1, 1, 1, 0, 2, 3]), r.random() < 0.5, G())
    elif t in ("since", "trigger", "unt", "rel"):
        f = (t, G(), G())
    elif t in ("evP", "alP", "evF", "alF", "init", "fin"):
        f = (t, G())
    else:
        f = (t, r.random() < 0.5, G(), G())
    if share is not None and len(share) < 6:
        share.append(f)
    return f

def gen_hform(r, depth, atoms):
    """head-admissible formulas"""
    if depth == 0 or r.random() < 0.25:
        k = r.random()
        if k < 0.8:
            return ("a", r.choice(atoms))
        return ("k", r.choice(["true", "false", "initial", "final"]))
    k = r.random()
    G = lambda: gen_hform(r, depth - 1, atoms)
    if k < 0.15:
        return ("~", G())
    if k < 0.30:
        return ("next", r.choice([1, 1, 1, 0, 2]), r.random() < 0.5, G())
    if k < 0.45:
        return (r.choice(["evF", "alF", "fin"]), G())
    if k < 0.75:
        return ("b", r.choice(["and", "or", "or"]), G(), G())
    if k < 0.9:
        return (r.choice(["unt", "rel"]), G(), G())
    return ("seqn", r.random() < 0.5, G(), G())

# --------------------------------------------------------------------------- dynamic formulas (normal form)

def gen_dtest(r, atoms):
    if r.random() < 0.75:
        return ("a", r.choice(atoms))
    return ("c", r.random() < 0.5)

def gen_dpath(r, depth, atoms, consuming):
    """normal-form path; `consuming`: every run must consume a state"""
    k = r.random()
    if depth == 0 or k < 0.25:
        if consuming:
            return r.choice([("skip",), ("step", r.choice(atoms))])
        return r.choice([("skip",), ("step", r.choice(atoms)), ("test", gen_dtest(r, atoms))])
    if k < 0.5:
        return ("choice", gen_dpath(r, depth - 1, atoms, consuming), gen_dpath(r, depth - 1, atoms, consuming))
    if k < 0.8:
        if consuming:
            if r.random() < 0.5:
                return ("seq", gen_dpath(r, depth - 1, atoms, True), gen_dpath(r, depth - 1, atoms, False))
            return ("seq", gen_dpath(r, depth - 1, atoms, False), gen_dpath(r, depth - 1, atoms, True))
        return ("seq", gen_dpath(r, depth - 1, atoms, False), gen_dpath(r, depth - 1, atoms, False))
    if consuming:
        return ("seq", ("star", gen_dpath(r, depth - 1, atoms, True)), gen_dpath(r, depth - 1, atoms, True))
    return ("star", gen_dpath(r, depth - 1, atoms, True))

def gen_dform(r, depth, atoms, pdepth=2):
    if depth == 0 or r.random() < 0.25:
        k = r.random()
        if k < 0.6:
            return ("a", r.choice(atoms))
        if k < 0.8:
            return ("final",)
        return ("c", r.random() < 0.5)
    return (r.choice(["dia", "box"]), gen_dpath(r, pdepth, atoms, False), gen_dform(r, depth - 1, atoms, pdepth))

# --------------------------------------------------------------------------- rule fragment

def gen_blit(r, atoms, allow_future, neg_atoms=False):
    k = r.random()
    sign = r.choice(SIGNS)
    if k < 0.10:
        return ("kw", sign, r.choice(["initial", "final", "initial", "final", "true", "false"]))
    a = r.choice(atoms)
    if neg_atoms and r.random() < 0.15:
        a = "-" + a
    if k < 0.20:
        return ("init", sign, a)
    sh = r.choice([0, 0, 0, -1, -1, -2] + ([1, 1, 2] if allow_future else []))
    return ("atom", sign, a, sh)

def gen_rule(r, atoms, future=True, parts=PARTS, neg_atoms=False):
    k = r.random()
    nb = r.randint(0, 3)
    A = lambda: ("-" + r.choice(atoms)) if (neg_atoms and r.random() < 0.15) else r.choice(atoms)
    if future and k < 0.12:
        head = ("nlit", r.choice(["not", "notnot"]), A(), r.choice([0, 1, 1, 2]))
        body = [gen_blit(r, atoms, True, neg_atoms) for _ in range(nb)]
    elif k < 0.27:
        head = ("falsum",)
        body = [gen_blit(r, atoms, future, neg_atoms) for _ in range(max(1, nb))]
    elif k < 0.52:
        head = ("atom", A(), r.choice([0, 0, 0, 1, 1, 2]) if future else 0)
        body = [gen_blit(r, atoms, False, neg_atoms) for _ in range(nb)]
    elif k < 0.70:
        head = ("disj",) + tuple(r.sample(atoms, min(2, len(atoms))))
        body = [gen_blit(r, atoms, False, neg_atoms) for _ in range(nb)]
    else:
        head = ("choice",) + tuple(r.sample(atoms, r.randint(1, len(atoms))))
        body = [gen_blit(r, atoms, False, neg_atoms) for _ in range(nb)]
    return ("rule", r.choice(parts), head, tuple(body))

def grid_rules(atoms):
    """every head form x body literal form x part at least once (C01/C02 quantifier grid)"""
    a, b = atoms[0], atoms[1 % len(atoms)]
    heads = [("atom", a, 0), ("disj", a, b), ("choice", a, b), ("falsum",)]
    lits = []
    for s in ("pos", "not", "notnot"):
        lits += [("atom", s, b, 0), ("atom", s, b, -1), ("init", s, b), ("kw", s, "initial"), ("kw", s, "final")]
    out = []
    for p, h, l in itertools.product(PARTS, heads, lits):
        out.append(("rule", p, h, (l,)))
    return out

def gen_core_prog(r, atoms, future, neg_atoms=False):
    rules = [gen_rule(r, atoms, future, neg_atoms=neg_atoms) for _ in range(r.randint(1, 5))]
    if r.random() < 0.5:
        rules.append(("rule", r.choice(["initial", "always", "dynamic"]), ("choice",) + tuple(atoms), ()))
    return rules

def past_only_lit(r, atoms):
    k = r.random()
    sign = r.choice(SIGNS)
    if k < 0.1:
        return ("kw", sign, r.choice(["initial", "true", "false"]))
    if k < 0.2:
        return ("init", sign, r.choice(atoms))
    return ("atom", sign, r.choice(atoms), r.choice([0, 0, -1, -1, -2]))

# --------------------------------------------------------------------------- systematic operator grids (C03/C07/C16)

def unary_shapes():
    """every unary operator shape of the body language, n-fold variants with n in 1..3"""
    sh = [lambda f: ("~", f)]
    for n in (1, 2, 3):
        for w in (False, True):
            sh.append(lambda f, n=n, w=w: ("prev", n, w, f))
            sh.append(lambda f, n=n, w=w: ("next", n, w, f))
    for t in ("evP", "alP", "evF", "alF", "init", "fin"):
        sh.append(lambda f, t=t: (t, f))
    return sh

def binary_shapes():
    sh = []
    for op in ("and", "or", "limp", "rimp", "equiv"):
        sh.append(lambda f, g, op=op: ("b", op, f, g))
    for t in ("since", "trigger", "unt", "rel"):
        sh.append(lambda f, g, t=t: (t, f, g))
    for t in ("seqp", "seqn"):
        for w in (False, True):
            sh.append(lambda f, g, t=t, w=w: (t, w, f, g))
    return sh

def pair_grid(atoms):
    """all compositions op1(op2(.)) of operator shapes over atoms: unary∘unary, unary∘binary, binary∘unary (both sides)"""
    a, b = ("a", atoms[0]), ("a", atoms[1 % len(atoms)])
    U, B = unary_shapes(), binary_shapes()
    out = []
    for u1 in U:
        for u2 in U:
            out.append(u1(u2(a)))
        for b2 in B:
            out.append(u1(b2(a, b)))
    for b1 in B:
        for u2 in U:
            out.append(b1(u2(a), b))
            out.append(b1(a, u2(b)))
    return out

def triple_sample(r, atoms, n):
    a, b = ("a", atoms[0]), ("a", atoms[1 % len(atoms)])
    U, B = unary_shapes(), binary_shapes()
    out = []
    for _ in range(n):
        f = r.choice([a, b])
        for _ in range(3):
            if r.random() < 0.6:
                f = r.choice(U)(f)
            else:
                g = r.choice([a, b])
                f = r.choice(B)(f, g) if r.random() < 0.5 else r.choice(B)(g, f)
        out.append(f)
    return out

# --------------------------------------------------------------------------- programs with head formulas (C04)

def gen_head_prog(r, atoms, depth=3):
    prog = []
    for _ in range(r.randint(1, 2)):
        body = []
        if r.random() < 0.3:
            body.append(("atom", "pos", r.choice(atoms), 0))
        if r.random() < 0.15:
            body.append(("atom", "not", r.choice(atoms), 0))
        prog.append(("rule", r.choice(["initial", "always", "dynamic"]), ("tel", gen_hform(r, r.randint(1, depth), atoms)), tuple(body)))
    if r.random() < 0.5:
        prog.append(("rule", r.choice(["initial", "always", "dynamic"]), ("choice",) + tuple(r.sample(atoms, r.randint(1, len(atoms)))), ()))
    if r.random() < 0.4:
        prog.append(("rule", r.choice(["initial", "always", "dynamic"]), ("atom", r.choice(atoms), 0),
                     tuple([("atom", "pos", r.choice(atoms), 0)] if r.random() < .6 else [])))
    return prog

def head_unary_shapes():
    sh = [lambda f: ("~", f)]
    for n in (0, 1, 2):
        for w in (False, True):
            sh.append(lambda f, n=n, w=w: ("next", n, w, f))
    for t in ("evF", "alF", "fin"):
        sh.append(lambda f, t=t: (t, f))
    return sh

def head_binary_shapes():
    sh = [lambda f, g: ("b", "and", f, g), lambda f, g: ("b", "or", f, g), lambda f, g: ("unt", f, g), lambda f, g: ("rel", f, g)]
    for w in (False, True):
        sh.append(lambda f, g, w=w: ("seqn", w, f, g))
    return sh

def head_pair_grid(atoms):
    a, b = ("a", atoms[0]), ("a", atoms[1 % len(atoms)])
    leaves = [a, ("k", "true"), ("k", "false"), ("k", "initial"), ("k", "final")]
    U, B = head_unary_shapes(), head_binary_shapes()
    out = []
    for u1 in U:
        for lf in leaves:
            out.append(u1(lf))
        for u2 in U:
            out.append(u1(u2(a)))
        for b2 in B:
            out.append(u1(b2(a, b)))
    for b1 in B:
        for lf in leaves[1:]:
            out.append(b1(a, lf)); out.append(b1(lf, a))
        for u2 in U:
            out.append(b1(u2(a), b)); out.append(b1(a, u2(b)))
    return out


def future_sign_cases():
    """future heads of one predicate with both classical signs, several depths, several parts (C02/C09)"""
    out = []
    for n1, n2 in ((1, 1), (1, 2), (2, 1)):
        for part in ("always", "dynamic", "initial"):
            out.append([("rule", "always", ("choice", "t"), ()),
                        ("rule", "initial", ("atom", "-a", 0), ()),
                        ("rule", part, ("atom", "a", n1), (("atom", "pos", "t", 0), ("atom", "pos", "-a", 0))),
                        ("rule", part, ("atom", "-a", n2), (("atom", "pos", "t", 0), ("atom", "pos", "a", 0))),
                        ("rule", "dynamic", ("atom", "a", 0), (("atom", "pos", "a", -1), ("atom", "not", "t", -1))),
                        ("rule", "dynamic", ("atom", "-a", 0), (("atom", "pos", "-a", -1), ("atom", "not", "t", -1)))])
    return out

# --------------------------------------------------------------------------- aliases and near-duplicates
# telingo caches formulas (and todo entries) by their printed representation; mistakes in that mechanism only show
# when ONE program contains two theory atoms that are different for clingo but equal — or nearly equal — for telingo.

def alias_pair(r, atoms, head=False, depth=1):
    """(f1, f2): two differently written formulas that telingo normalises to the same internal formula
    (`l ;> r` = `l & > r`, `l <; r` = `(< l) & r`, `>> f` = `>* (~ &final | f)`, `0 > f` = `f`, `> f` = `1 > f`)"""
    G = (lambda d: gen_hform(r, d, atoms)) if head else (lambda d: gen_sform(r, d, atoms))
    kinds = ["seqn", "fin", "next0", "next1"] + ([] if head else ["seqp", "prev0", "prev1"])
    k = r.choice(kinds)
    w = r.random() < 0.5
    if k == "seqn":
        l, x = G(depth), G(depth)
        p = (("seqn", w, l, x), ("b", "and", l, ("next", 1, w, x)))
    elif k == "seqp":
        l, x = G(depth), G(depth)
        p = (("seqp", w, l, x), ("b", "and", ("prev", 1, w, l), x))
    elif k == "fin":
        g = G(depth)
        p = (("fin", g), ("alF", ("b", "or", ("~", ("k", "final")), g)))
    elif k in ("next0", "prev0"):
        g = ("b", r.choice(["and", "or"]), G(depth), G(depth)) if r.random() < 0.6 else G(depth + 1)
        p = ((k[:4], 0, w, g), g)
    else:
        g = G(depth)
        p = ((k[:4], 1, w, g), (k[:4], 1, w, g))      # spelled `> g` / `1 > g` by the renderer (see alias_texts)
    # the same context around both
    c = r.random()
    if c < 0.35:
        return p
    if c < 0.6:
        o = G(0); op = r.choice(["and", "or"])
        return (("b", op, p[0], o), ("b", op, p[1], o))
    if c < 0.8:
        return (("next", 1, w, p[0]), ("next", 1, w, p[1]))
    if head:
        return (("alF", p[0]), ("alF", p[1]))
    return (("~", p[0]), ("~", p[1]))

class _Fixed:
    """a render style that always / never uses the n-fold spelling of unary next / previous"""
    def __init__(self, v):
        self.v = v
    def random(self):
        return self.v
    def choice(self, xs):
        return xs[0]
    def randint(self, a, b):
        return a

def alias_texts(pair):
    """texts of an alias pair: the first with `> f`, the second with `1 > f`"""
    import tl
    return tl.render_tel(pair[0], _Fixed(0.0)), tl.render_tel(pair[1], _Fixed(0.99))

def flatten_path(p):
    """in-order leaves and operators of the binary skeleton of a path (stars and leaves are atomic)"""
    if p[0] in ("choice", "seq"):
        l1, o1 = flatten_path(p[1]); l2, o2 = flatten_path(p[2])
        return l1 + l2, o1 + [p[0]] + o2
    return [p], []

def rebuild_path(r, leaves, ops):
    """a random binary tree over the same in-order sequence"""
    if len(leaves) == 1:
        return leaves[0]
    i = r.randrange(len(ops))
    return (ops[i], rebuild_path(r, leaves[:i + 1], ops[:i]), rebuild_path(r, leaves[i + 1:], ops[i + 1:]))

def confusable_dforms(r, atoms):
    """two `&del` formulas whose paths have the same leaves and operators in the same order but are bracketed differently"""
    for _ in range(50):
        p = gen_dpath(r, 3, atoms, False)
        leaves, ops = flatten_path(p)
        if len(ops) < 2 or len(set(ops)) < 2:
            continue
        q = rebuild_path(r, leaves, ops)
        if q != p:
            kind = r.choice(["dia", "box"])
            g = gen_dform(r, r.randint(0, 1), atoms, pdepth=1)
            return [(kind, p, g), (kind, q, g)]
    A = lambda x: ("test", ("a", x))
    return [("dia", ("choice", ("seq", A(atoms[0]), A(atoms[1])), ("skip",)), ("c", True)),
            ("dia", ("seq", A(atoms[0]), ("choice", A(atoms[1]), ("skip",))), ("c", True))]

def near_variants(r, f):
    """a formula that differs from f in one detail only (weak/strong flag, n-fold count, operand order, bracketing)"""
    t = f[0]
    if t in ("a", "k"):
        return f
    if r.random() < 0.5:
        # descend
        idx = [i for i, x in enumerate(f) if isinstance(x, tuple)]
        if idx:
            i = r.choice(idx)
            return f[:i] + (near_variants(r, f[i]),) + f[i + 1:]
    if t in ("prev", "next"):
        return (t, f[1], not f[2], f[3]) if r.random() < 0.5 else (t, f[1] + 1, f[2], f[3])
    if t in ("seqn", "seqp"):
        return (t, not f[1], f[2], f[3])
    if t == "b" and isinstance(f[2], tuple) and f[2][0] == "b" and f[2][1] != f[1]:
        # (x op1 y) op2 z  ->  x op1 (y op2 z)
        return ("b", f[2][1], f[2][2], ("b", f[1], f[2][3], f[3]))
    if t in ("since", "trigger", "unt", "rel", "b") and len(f) >= 3:
        return f[:-2] + (f[-1], f[-2])
    return f

# --------------------------------------------------------------------------- dynamic formulas outside the normal form

def gen_dpath_any(r, depth, atoms, star=True):
    """path expressions without the normal-form restriction: iteration over tests allowed.  No iteration inside an iteration:
    there the unfolding is cyclic and the code (since the repair of D17) leaves the inner visit's clauses in place, which the
    one-step equations of the model do not describe."""
    k = r.random()
    if depth == 0 or k < 0.25:
        return r.choice([("skip",), ("step", r.choice(atoms)), ("test", gen_dtest(r, atoms)), ("test", gen_dtest(r, atoms))])
    if k < 0.45:
        return ("choice", gen_dpath_any(r, depth - 1, atoms, star), gen_dpath_any(r, depth - 1, atoms, star))
    if k < 0.65 or not star:
        return ("seq", gen_dpath_any(r, depth - 1, atoms, star), gen_dpath_any(r, depth - 1, atoms, star))
    return ("star", gen_dpath_any(r, depth - 1, atoms, False))

def gen_dform_any(r, depth, atoms, pdepth=2):
    if depth == 0 or r.random() < 0.25:
        return gen_dform(r, 0, atoms)
    return (r.choice(["dia", "box"]), gen_dpath_any(r, pdepth, atoms), gen_dform_any(r, depth - 1, atoms, pdepth))
