#!/bin/bash
# what a fresh restore does first: build the whole Lean project (all libraries, both drivers), then validate the manifest
set -e
cd /verif/lean && lake build 2>&1 | grep -E "^error|✖|Build completed" ; test ${PIPESTATUS[0]} -eq 0
cd /verif && python3 tools/mkmanifest.py && /opt/veriftools/pyvenv/bin/python - <<'PY'
import json, jsonschema
jsonschema.validate(json.load(open('/verif/MANIFEST.json')), json.load(open('/root/.vp/MANIFEST.schema.json')))
print("MANIFEST ok")
PY
c=$(python3 /verif/tools/fingerprint.py); [ "$c" = "[]" ] || echo "NOTE: /repo differs from notes/source_fingerprints.json: $c (run tools/fingerprint.py --update after a fix: commit)"
