"""the shipped example programs of /repo/examples as lists of input files (each file starts in the initial part)"""
import os, glob
import tl

def example_sets():
    ex = os.path.join(tl.REPO, "examples")
    sets = {
        "hanoi": ["hanoi/encoding.lp", "hanoi/instance.lp"],
        "logistics": ["logistics/encoding.lp", "logistics/instance.lp"],
        "monkey": ["monkey/encoding.lp"],
        "moore-basic": ["moore/moore-basic.lp"],
        "moore-complex": ["moore/moore-complex.lp"],
        "river": ["river-crossing/encoding.lp"],
        "simple": ["simple/encoding.lp", "simple/instance.lp"],
        "del": ["del/ex1.lp"],
    }
    out = {}
    for k, fs in sets.items():
        paths = [os.path.join(ex, f) for f in fs]
        if all(os.path.exists(p) for p in paths):
            out[k] = [open(p).read() for p in paths]
    return out
