"""
Shared machinery of ./check: extraction + Lean build + axiom audit, evidence files,
replays, known findings, the VIOLATION protocol.
"""
import os, sys, re, json, time, subprocess, fcntl, hashlib, glob

VERIF = os.path.dirname(os.path.dirname(os.path.abspath(__file__)))
LEAN_DIR = os.path.join(VERIF, "lean")
REPO = os.environ.get("TELINGO_REPO", "/repo")
PY = sys.executable

ALLOWED_AXIOMS = {"propext", "Classical.choice", "Quot.sound"}
FORBIDDEN = re.compile(r"\bsorry\b|\badmit\b|^\s*axiom\s|native_decide|bv_decide|implemented_by|\bunsafe\s|maxHeartbeats\s+0")

TRUSTED_BASE = [
    "Lean 4.33 kernel (lake build; thorough tier re-checks the .olean files with leanchecker)",
    "axioms: propext, Classical.choice, Quot.sound only (audited with #print axioms on every run); no native_decide/bv_decide/sorry",
    "tools/extract.py (Python-source -> Lean translator for the generated definitions)",
    "the correspondence harness (tools/*.py): canonicalisation, recording proxies, s-expression bridge",
    "modelled, not verified: CPython semantics of the transcribed constructs; clingo parser/grounder/solver/backend/atom table",
    "clasp is run with --eq=0 by the in-process harness: its equivalence preprocessing misbehaves in multi-shot solving (DESIGN 11.8, 11.13)",
    "the search oracle `telspec tsm` is proved to decide the specification (enumerator_is_spec / enumerator_complete); `telspec ltl/ldl` evaluate the specification's definitions directly",
]

class Lock:
    def __init__(self, path):
        self.path = path
    def __enter__(self):
        self.f = open(self.path, "w")
        fcntl.flock(self.f, fcntl.LOCK_EX)
        return self
    def __exit__(self, *a):
        fcntl.flock(self.f, fcntl.LOCK_UN)
        self.f.close()

def run(cmd, cwd=None, timeout=3600, env=None):
    e = dict(os.environ)
    if env:
        e.update(env)
    p = subprocess.run(cmd, cwd=cwd, capture_output=True, text=True, timeout=timeout, env=e)
    return p.returncode, p.stdout + p.stderr

def extract():
    """regenerate lean/TelModel/Generated from the current /repo source"""
    rc, out = run([PY, os.path.join(VERIF, "tools", "extract.py")], env={"TELINGO_REPO": REPO})
    return rc == 0, out.strip()

def import_closure(module):
    """the Lean modules of this project that `module` imports, transitively"""
    seen, todo = set(), [module]
    while todo:
        m = todo.pop()
        if m in seen:
            continue
        seen.add(m)
        f = os.path.join(LEAN_DIR, m.replace(".", "/") + ".lean")
        if os.path.exists(f):
            todo += [x for x in re.findall(r"^import\s+(\S+)", open(f).read(), re.M) if x.startswith("Tel")]
    return seen

def lake_build(targets):
    rc, out = run(["lake", "build"] + list(targets), cwd=LEAN_DIR, timeout=3000)
    errs = [l for l in out.split("\n") if l.startswith("error:") or "✖" in l]
    return rc == 0, errs[:20], out

def theorems_of(module_file):
    """names of the theorems stated in a Props file (with namespace)"""
    src = open(module_file).read()
    ns = re.search(r"^namespace\s+(\S+)", src, re.M)
    ns = ns.group(1) + "." if ns else ""
    return [ns + m.group(1) for m in re.finditer(r"^theorem\s+(\S+)", src, re.M)]

def audit(prop_module, thms):
    """#print axioms for every property theorem; returns {thm: [axioms]} or raises"""
    os.makedirs(os.path.join(LEAN_DIR, ".audit"), exist_ok=True)
    path = os.path.join(LEAN_DIR, ".audit", prop_module.replace(".", "_") + ".lean")
    with open(path, "w") as f:
        f.write("import {}\n".format(prop_module))
        for t in thms:
            f.write("#print axioms {}\n".format(t))
    rc, out = run(["lake", "env", "lean", path], cwd=LEAN_DIR, timeout=1200)
    res = {}
    for m in re.finditer(r"'([^']+)' depends on axioms: \[([^\]]*)\]", out.replace("\n", " ")):
        res[m.group(1)] = [a.strip() for a in m.group(2).split(",") if a.strip()]
    for m in re.finditer(r"'([^']+)' does not depend on any axioms", out):
        res[m.group(1)] = []
    return rc, res, out

def grep_forbidden(files):
    hits = []
    for p in files:
        in_comment = 0
        for i, line in enumerate(open(p), 1):
            # crude comment stripping: block comments /- -/ and line comments --
            l = line
            if in_comment:
                if "-/" in l:
                    l = l.split("-/", 1)[1]; in_comment = 0
                else:
                    continue
            while "/-" in l:
                pre, rest = l.split("/-", 1)
                if "-/" in rest:
                    l = pre + rest.split("-/", 1)[1]
                else:
                    l = pre; in_comment = 1
            l = l.split("--")[0]
            if FORBIDDEN.search(l):
                hits.append("{}:{}: {}".format(os.path.relpath(p, VERIF), i, line.strip()))
    return hits

def lean_sources():
    out = []
    for root in ("TelSpec", "TelModel", "TelProofs", "Drivers"):
        out += glob.glob(os.path.join(LEAN_DIR, root, "**", "*.lean"), recursive=True)
    return sorted(out)

def leanchecker(modules):
    rc, out = run(["lake", "env", "leanchecker"] + modules, cwd=LEAN_DIR, timeout=3000)
    return rc == 0, out[-2000:]

# --------------------------------------------------------------------------- proof stage

def proof_stage(pid, prop_module, extra_modules=(), thorough=False):
    """
    extract -> build -> audit.  Returns a dict:
      ok            everything rebuilt and audited
      broken        list of (kind, detail) for what no longer checks
      obligations   list of theorem names
      discharged    list of theorem names rebuilt + audited now
      exes          {"telspec": bool, "telmodel": bool}
    """
    res = {"broken": [], "obligations": [], "discharged": [], "exes": {}, "log": []}
    with Lock(os.path.join(LEAN_DIR, ".check.lock")):
        ok, msg = extract()
        res["log"].append(msg)
        if not ok:
            # every generated file is extracted on its own; a file that could not be regenerated keeps its previous content.
            # That breaks an obligation of this property only if its theorems (transitively) import that file.
            failed = re.findall(r"EXTRACT-ERROR (\w+)\.lean:", msg)
            deps = import_closure(prop_module)
            hit = [f for f in failed if "TelModel.Generated." + f in deps]
            if hit or not failed:
                res["broken"].append(("extraction", msg))
            else:
                res["log"].append("not imported by {}: {}".format(prop_module, ", ".join(failed)))
        ok_spec, errs, _ = lake_build(["telspec"])
        res["exes"]["telspec"] = ok_spec
        if not ok_spec:
            res["broken"].append(("build-telspec", "; ".join(errs)))
        ok_model, errs, _ = lake_build(["telmodel"])
        res["exes"]["telmodel"] = ok_model
        if not ok_model:
            res["broken"].append(("build-telmodel", "; ".join(errs)))
        prop_file = os.path.join(LEAN_DIR, prop_module.replace(".", "/") + ".lean")
        thms = theorems_of(prop_file)
        res["obligations"] = thms
        ok_proofs, errs, out = lake_build([prop_module] + list(extra_modules))
        if not ok_proofs:
            res["broken"].append(("proof", "lake build {} failed: {}".format(prop_module, "; ".join(errs))))
        else:
            rc, ax, out = audit(prop_module, thms)
            bad = []
            for t in thms:
                if t not in ax:
                    bad.append("{}: not reported by #print axioms".format(t))
                elif not set(ax[t]) <= ALLOWED_AXIOMS:
                    bad.append("{}: axioms {}".format(t, ax[t]))
                else:
                    res["discharged"].append(t)
            if bad:
                res["broken"].append(("audit", "; ".join(bad)))
            res["axioms"] = ax
        hits = grep_forbidden(lean_sources())
        if hits:
            res["broken"].append(("forbidden-construct", "; ".join(hits[:5])))
        if thorough and ok_proofs:
            okc, outc = leanchecker([prop_module])
            res["leanchecker"] = okc
            if not okc:
                res["broken"].append(("leanchecker", outc[-500:]))
    res["ok"] = not res["broken"]
    return res

# --------------------------------------------------------------------------- evidence, replays, findings

def write_evidence(pid, tier, seed, coverage, wall, violations, assumptions=None, level="proof"):
    # VERIF_EVIDENCE_DIR: used by tools/seedall.py / seedtest.sh so that runs against a deliberately
    # broken tree do not overwrite the evidence of the unchanged tree
    evdir = os.environ.get("VERIF_EVIDENCE_DIR") or os.path.join(VERIF, "evidence")
    os.makedirs(evdir, exist_ok=True)
    ev = {
        "property_id": pid, "tier": tier, "seed": seed, "level": level,
        "coverage": coverage, "wall_s": round(wall, 2), "violations": violations,
        "assumptions": assumptions or [],
    }
    with open(os.path.join(evdir, pid + ".json"), "w") as f:
        json.dump(ev, f, indent=1, default=str)
        f.write("\n")

def write_replay(pid, seed, obj):
    os.makedirs(os.path.join(VERIF, "replays"), exist_ok=True)
    path = os.path.join(VERIF, "replays", "{}-{}.json".format(pid, seed))
    with open(path, "w") as f:
        json.dump(obj, f, indent=1, default=str)
        f.write("\n")
    return os.path.relpath(path, VERIF)

def load_known():
    p = os.path.join(VERIF, "known_findings.json")
    if not os.path.exists(p):
        return {"findings": [], "fixed": []}
    return json.load(open(p))

def finding_key(fail):
    """identity of a failing input: hash of its canonical text"""
    t = fail.get("text") or json.dumps(fail.get("input"), sort_keys=True, default=str)
    return hashlib.sha1(" ".join(str(t).split()).encode()).hexdigest()[:16]

def split_known(pid, fails):
    """(new violations, known findings) according to known_findings.json"""
    known = {f["key"]: f for f in load_known().get("findings", []) if f["property"] == pid}
    new, old = [], []
    for f in fails:
        k = finding_key(f)
        (old if k in known else new).append(f)
    return new, old, known
