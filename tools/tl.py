"""
Core library of the verification harness.

* typed syntax for temporal programs / formulas as nested tuples that are at the
  same time the s-expressions sent to the Lean drivers (`sexp`) and the source of
  the telingo text (`render_*`)
* `run_telingo`: drive the real implementation (from /repo's working tree)
  in-process up to a horizon and collect canonical answer sets per horizon
* `LeanExe`: batch interface to the `telspec` / `telmodel` executables
"""
import os, sys, subprocess, signal, contextlib, io

VERIF = os.path.dirname(os.path.dirname(os.path.abspath(__file__)))
REPO = os.environ.get("TELINGO_REPO", "/repo")
LEAN_DIR = os.path.join(VERIF, "lean")
BIN = os.path.join(LEAN_DIR, ".lake", "build", "bin")

if REPO not in sys.path:
    sys.path.insert(0, REPO)

# --------------------------------------------------------------------------- sexp

def _q(s):
    if s != "" and all(c.isalnum() or c in "_-+*/<>=!?.:;&|~@'" for c in s):
        return s
    return '"' + s.replace("\\", "\\\\").replace('"', '\\"') + '"'

def sexp(o):
    if isinstance(o, bool):
        return "1" if o else "0"
    if isinstance(o, int):
        return str(o)
    if isinstance(o, str):
        return _q(o)
    if isinstance(o, (tuple, list)):
        return "(" + " ".join(sexp(x) for x in o) + ")"
    raise TypeError(repr(o))

class LeanExe:
    """One-shot batch runs of a Lean driver: write all command lines, read all result lines."""
    def __init__(self, name):
        self.path = os.path.join(BIN, name)

    def available(self):
        return os.path.exists(self.path)

    def batch(self, lines, timeout=600):
        if not lines:
            return []
        inp = "\n".join(lines) + "\n"
        p = subprocess.run([self.path], input=inp, capture_output=True, text=True, timeout=timeout)
        out = p.stdout.split("\n")
        if out and out[-1] == "":
            out.pop()
        if len(out) != len(lines):
            raise RuntimeError("driver {} returned {} lines for {} commands (rc={}, stderr={})".format(
                self.path, len(out), len(lines), p.returncode, p.stderr[:500]))
        return out

# --------------------------------------------------------------------------- rendering

BIN_TXT = {"and": "&", "or": "|", "limp": "<-", "rimp": "->", "equiv": "<>"}

def prime(atom, shift):
    """attach primes to the predicate name of a printed ground atom: p(1) , -1 -> 'p(1)"""
    sign = ""
    if atom.startswith("-"):
        sign, atom = "-", atom[1:]
    i = atom.find("(")
    name, rest = (atom, "") if i < 0 else (atom[:i], atom[i:])
    if shift < 0:
        name = "'" * (-shift) + name
    elif shift > 0:
        name = name + "'" * shift
    return sign + name + rest

def render_num(n, style=None):
    """n-fold prefix; `style` (a random.Random) varies the arithmetic spelling"""
    if style is None or n == 0:
        return str(n)
    k = style.random()
    if k < 0.6:
        return str(n)
    if k < 0.8 and n >= 1:
        a = style.randint(0, n)
        return "({}+{})".format(a, n - a)
    a = style.randint(0, 2)
    return "({}-{})".format(n + a, a)

def render_tel(f, style=None):
    """fully parenthesised telingo text of an SForm"""
    t = f[0]
    R = lambda x: render_tel(x, style)
    if t == "a":
        return f[1]
    if t == "k":
        return "&" + f[1]
    if t == "~":
        return "(~ {})".format(R(f[1]))
    if t == "b":
        return "({} {} {})".format(R(f[2]), BIN_TXT[f[1]], R(f[3]))
    if t in ("prev", "next"):
        n, w, g = f[1], f[2], f[3]
        op = {("prev", False): "<", ("prev", True): "<:", ("next", False): ">", ("next", True): ">:"}[(t, bool(w))]
        if n == 1 and (style is None or style.random() < 0.7):
            return "({} {})".format(op, R(g))
        return "({} {} {})".format(render_num(n, style), op, R(g))
    two = {"since": "<?", "trigger": "<*", "unt": ">?", "rel": ">*"}
    one = {"evP": "<?", "alP": "<*", "evF": ">?", "alF": ">*", "init": "<<", "fin": ">>"}
    if t in two:
        return "({} {} {})".format(R(f[1]), two[t], R(f[2]))
    if t in one:
        return "({} {})".format(one[t], R(f[1]))
    if t == "seqp":
        return "({} {} {})".format(R(f[2]), "<:;" if f[1] else "<;", R(f[3]))
    if t == "seqn":
        return "({} {} {})".format(R(f[2]), ";>:" if f[1] else ";>", R(f[3]))
    raise ValueError(f)

def render_path(p):
    t = p[0]
    if t == "skip":
        return "&true"
    if t == "test":
        x = p[1]
        return "(? {})".format(x[1] if x[0] == "a" else ("&true" if x[1] else "&false"))
    if t == "step":
        return p[1]
    if t == "choice":
        return "({} + {})".format(render_path(p[1]), render_path(p[2]))
    if t == "seq":
        return "({} ;; {})".format(render_path(p[1]), render_path(p[2]))
    if t == "star":
        return "(* {})".format(render_path(p[1]))
    raise ValueError(p)

def render_del(f):
    t = f[0]
    if t == "a":
        return f[1]
    if t == "c":
        return "&true" if f[1] else "&false"
    if t == "final":
        return "&final"
    if t == "dia":
        return "({} .>? {})".format(render_path(f[1]), render_del(f[2]))
    if t == "box":
        return "({} .>* {})".format(render_path(f[1]), render_del(f[2]))
    raise ValueError(f)

SIGN_TXT = {"pos": "", "not": "not ", "notnot": "not not "}

def render_blit(l, style=None):
    t = l[0]
    if t == "atom":
        return SIGN_TXT[l[1]] + prime(l[2], l[3])
    if t == "init":
        a = l[2]
        return SIGN_TXT[l[1]] + (("-_" + a[1:]) if a.startswith("-") else "_" + a)
    if t == "kw":
        return SIGN_TXT[l[1]] + "&" + l[2]
    if t == "tel":
        return SIGN_TXT[l[1]] + "&tel { " + render_tel(l[2], style) + " }"
    if t == "del":
        return SIGN_TXT[l[1]] + "&del { " + render_del(l[2]) + " }"
    raise ValueError(l)

def render_head(h, style=None):
    t = h[0]
    if t == "atom":
        return prime(h[1], h[2])
    if t == "disj":
        return " | ".join(h[1:])
    if t == "choice":
        return "{ " + "; ".join(h[1:]) + " }"
    if t == "falsum":
        return ""
    if t == "nlit":
        return SIGN_TXT[h[1]] + prime(h[2], h[3])
    if t == "tel":
        return "&tel { " + render_tel(h[1], style) + " }"
    raise ValueError(h)

def render_rule(r, style=None, with_part=True):
    _, part, head, body = r
    hs = render_head(head, style)
    bs = ", ".join(render_blit(l, style) for l in body)
    txt = hs + (" :- " + bs if bs or not hs else "") + "."
    if not hs and not bs:
        txt = ":- ."  # never generated
    return ("#program {}. ".format(part) if with_part else "") + txt

def render_prog(rules, style=None):
    """
    telingo text of a typed program.  With a `style` (random.Random) the layout varies the way users write
    programs: `#program base.` for the initial part, directives omitted while the part does not change
    (every input starts in `base`), several rules per line.
    """
    if style is None:
        return "\n".join(render_rule(r, style) for r in rules)
    out = []
    cur = "base"
    for r in rules:
        part = r[1]
        name = "base" if (part == "initial" and style.random() < 0.4) else part
        same = (cur == name) or (cur in ("base", "initial") and name in ("base", "initial") and False)
        if same and style.random() < 0.6:
            out.append(render_rule(r, style, with_part=False))
        else:
            out.append("#program {}. ".format(name) + render_rule(r, style, with_part=False))
        cur = name
    return "\n".join(out)

# --------------------------------------------------------------------------- running the implementation

# clasp's equivalence preprocessing is not reliable in multi-shot solving with free externals and disjunctions: with the
# default `--eq` the incremental run of a correct ground program lists answer sets twice
# (corpus/clasp_duplicate_free_external.py) and, for `#program dynamic. p(X) | q(X) :- _p(X), not ''p, d(X).` next to a
# final-part rule with `&tel`, reports 28 answer sets with an unsupported atom while the same ground program solved in one
# shot — or incrementally with `--eq=0` — gives the right ones (DESIGN §11.13).  The solver is trusted base, not the subject:
# the in-process harness switches that preprocessing off; VERIF_CLASP_EQ=default restores clasp's default.
SOLVER_OPTS = [] if os.environ.get("VERIF_CLASP_EQ") == "default" else ["--eq=0"]

class Timeout(Exception):
    pass

@contextlib.contextmanager
def time_limit(seconds):
    def handler(signum, frame):
        raise Timeout()
    old = signal.signal(signal.SIGALRM, handler)
    signal.setitimer(signal.ITIMER_REAL, seconds)
    try:
        yield
    finally:
        signal.setitimer(signal.ITIMER_REAL, 0)
        signal.signal(signal.SIGALRM, old)

def sym_key(sym):
    """(printed atom without its time argument, time) or None for symbols without numeric last argument"""
    import clingo
    if sym.type != clingo.SymbolType.Function or len(sym.arguments) == 0:
        return None
    last = sym.arguments[-1]
    if last.type != clingo.SymbolType.Number:
        return None
    return (str(clingo.Function(sym.name, sym.arguments[:-1], sym.positive)), last.number)

def run_telingo(texts, H, all_atoms=False, keep_aux=False, imin=None, imax=None, istop="SAT",
                limit=30.0, max_models=0, record=None, solver_opts=None):
    """
    Run the real telingo up to horizon H (inclusive).  `texts`: a string or list of strings (files).
    Returns {h: sorted list of models}, a model = tuple of sorted "atom@k" strings.
    Exceptions propagate (callers classify them).
    """
    import clingo, telingo
    import telingo.transformers as tf
    from clingo.ast import ProgramBuilder
    if isinstance(texts, str):
        texts = [texts]
    res = {}
    with time_limit(limit):
        prg = clingo.Control([str(max_models)] + (SOLVER_OPTS if solver_opts is None else list(solver_opts)), message_limit=0, logger=lambda c, m: None)
        with ProgramBuilder(prg) as bld:
            fs, parts = tf.transform(list(texts), bld.add)
        def om(m, step):
            out = []
            for x in m.symbols(atoms=True) if all_atoms else m.symbols(shown=True):
                if not keep_aux and x.name.startswith("__"):
                    continue
                k = sym_key(x)
                out.append("{}@{}".format(*k) if k else str(x))
            res.setdefault(step, []).append(tuple(sorted(out)))
            if record is not None:
                record(m, step)
        telingo.imain(prg, fs, parts, om,
                      imin=(H + 1 if imin is None else imin),
                      imax=(H + 1 if imax is None else imax), istop=istop)
    return {k: sorted(v) for k, v in res.items()}

def classify_exc(e):
    """small error enum used on both sides of every comparison"""
    n = type(e).__name__
    if isinstance(e, Timeout):
        return "Timeout"
    if isinstance(e, RuntimeError):
        msg = str(e)
        if msg.startswith(("parsing failed", "grounding stopped", "syntax error")) or "error" in msg[:40] and "<block>" in msg:
            return "ClingoError"
        return "RuntimeError"
    return "Internal:" + n

def parse_spec_models(line):
    """telspec `tsm` output -> sorted list of tuples"""
    if line == "-":
        return []
    if line.startswith("ERR"):
        raise RuntimeError("telspec: " + line)
    return sorted(tuple(sorted(m.split())) for m in line.split("|"))

# --------------------------------------------------------------------------- reading s-expressions back

def parse_sexp(s):
    """inverse of `sexp` for the driver outputs: nested lists of strings"""
    i, n = 0, len(s)
    stack = [[]]
    while i < n:
        c = s[i]
        if c in " \t\n\r":
            i += 1
        elif c == "(":
            stack.append([]); i += 1
        elif c == ")":
            top = stack.pop(); stack[-1].append(top); i += 1
        elif c == '"':
            i += 1; buf = []
            while s[i] != '"':
                if s[i] == "\\":
                    i += 1
                buf.append(s[i]); i += 1
            i += 1
            stack[-1].append("".join(buf))
        else:
            j = i
            while j < n and s[j] not in ' \t\n\r()"':
                j += 1
            stack[-1].append(s[i:j]); i = j
    if len(stack) != 1 or len(stack[0]) != 1:
        raise ValueError("bad s-expression: " + s[:200])
    return stack[0][0]

def dump_tterm(t):
    """clingo.TheoryTerm -> tuple form understood by `telmodel` (decTTerm)"""
    import clingo
    T = clingo.TheoryTermType
    if t.type == T.Number:
        return ("n", t.number)
    if t.type == T.Symbol:
        return ("s", QStr(t.name))
    if t.type == T.Function:
        return ("f", QStr(t.name)) + tuple(dump_tterm(a) for a in t.arguments)
    tag = {T.Tuple: "t", T.List: "l", T.Set: "c"}[t.type]
    return (tag,) + tuple(dump_tterm(a) for a in t.arguments)

class QStr(str):
    """a string that `sexp` always quotes"""
    pass

_old_sexp = sexp
def sexp(o):  # noqa: F811
    if isinstance(o, QStr):
        return '"' + o.replace("\\", "\\\\").replace('"', '\\"') + '"'
    if isinstance(o, (tuple, list)):
        return "(" + " ".join(sexp(x) for x in o) + ")"
    return _old_sexp(o)
