"""subprocess worker: translate (and solve) the programs given on stdin as JSON, print a JSON digest"""
import sys, json, os
sys.path.insert(0, os.environ.get("TELINGO_REPO", "/repo"))
sys.path.insert(0, os.path.dirname(os.path.abspath(__file__)))
import tl

def translate(texts):
    import telingo.transformers as tf
    out = []
    try:
        fs, parts = tf.transform(list(texts), lambda s: out.append(str(s)))
        return {"stm": out, "sigs": [list(x) for x in fs], "parts": [[r, n, list(rg)] for r, n, rg in parts]}
    except BaseException as e:  # noqa
        return {"err": tl.classify_exc(e)}

def main():
    cases = json.load(sys.stdin)
    res = []
    for texts, H in cases:
        d = translate(texts)
        if "err" not in d and H is not None:
            try:
                m = tl.run_telingo(texts, H)
                d["models"] = {str(h): [list(x) for x in v] for h, v in m.items()}
            except BaseException as e:  # noqa
                d["models"] = "ERR " + tl.classify_exc(e)
        res.append(d)
    json.dump(res, sys.stdout)

if __name__ == "__main__":
    main()
