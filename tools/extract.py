#!/usr/bin/env python3
"""
Translator: pieces of /repo's Python source  ->  Lean definitions (lean/TelModel/Generated/*.lean).

Run on every check.  Only the standard `ast` module is used (the source is parsed, never
imported or executed).  The translator understands a deliberately small Python subset; when
a piece no longer has a shape it understands it raises ExtractError, which the check treats
like a broken proof obligation (it triggers the failing-input search, it is not a violation
by itself).

Pieces (DESIGN.md section 2.3):
  E1  imain: `while` test                      -> loopCond
  E2  imain: part selection `if`               -> partCond
  E3  imain: assumption filter, statement order-> assumeCond, assumeNegated, stepScript
  E4  #theory tel / #theory del text           -> bodyTable, headTableTheory, delTable
  E5  TheoryParser.table                       -> headTablePy
  E6  g_*_operators sets, g_tel_keywords       -> operator lists
  E7  flag triple in visit_SymbolicAtom, theory-atom guards -> atomFlags, telBodyAllowed, delBodyAllowed
  E8  is_constraint / is_normal (and their use in visit_Rule) -> isConstraint, isNormal
  E9  name constants                           -> strings
  E10 option parsers                           -> parseImin, parseImax, parseIstop
  E11 visit_Program, E12 __append_final guard  -> visitProgram (Directive.lean)
  E13 element term-count checks of visit_TheoryAtom -> telElemRejected, delElemRejected
"""
import ast, re, os, sys, re, json

class ExtractError(Exception):
    pass

def fail(msg, node=None):
    where = "" if node is None else " (line {})".format(getattr(node, "lineno", "?"))
    raise ExtractError(msg + where)

def lean_str(s):
    return '"' + s.replace("\\", "\\\\").replace('"', '\\"') + '"'

# --------------------------------------------------------------------------- expression compiler

class Env:
    """types of the free names of an expression: int | optint | str | optres | bool"""
    def __init__(self, types, rename=None):
        self.types = types
        self.rename = rename or {}

def is_none(n):
    return isinstance(n, ast.Constant) and n.value is None

class ExprC:
    """compile a Python expression to a Lean term; returns (code, type, pure)"""
    def __init__(self, env):
        self.env = env

    def lift(self, c):
        code, ty, pure = c
        return code if not pure else "(pure {})".format(code)

    def expr(self, n):
        if isinstance(n, ast.BoolOp):
            parts = [self.expr(v) for v in n.values]
            for p in parts:
                if p[1] != "bool":
                    fail("non-boolean operand of and/or", n)
            if all(p[2] for p in parts):
                op = " && " if isinstance(n.op, ast.And) else " || "
                return ("(" + op.join(p[0] for p in parts) + ")", "bool", True)
            fn = "pyAnd" if isinstance(n.op, ast.And) else "pyOr"
            code = self.lift(parts[-1])
            for p in reversed(parts[:-1]):
                code = "({} {} {})".format(fn, self.lift(p), code)
            return (code, "bool", False)
        if isinstance(n, ast.UnaryOp) and isinstance(n.op, ast.Not):
            c = self.expr(n.operand)
            if c[1] != "bool":
                fail("`not` of a non-boolean", n)
            if c[2]:
                return ("(!{})".format(c[0]), "bool", True)
            return ("(pyNot {})".format(c[0]), "bool", False)
        if isinstance(n, ast.UnaryOp) and isinstance(n.op, ast.USub):
            c = self.expr(n.operand)
            if c[1] != "int" or not c[2]:
                fail("unary minus of a non-integer", n)
            return ("(-{})".format(c[0]), "int", True)
        if isinstance(n, ast.Compare):
            if len(n.ops) != 1:
                fail("chained comparison", n)
            op, l, r = n.ops[0], n.left, n.comparators[0]
            if isinstance(op, (ast.Is, ast.IsNot)) and is_none(r):
                c = self.expr(l)
                if c[1] not in ("optint", "optres") or not c[2]:
                    fail("`is None` on a non-optional", n)
                return ("({}{}.isNone)".format("!" if isinstance(op, ast.IsNot) else "", c[0]), "bool", True)
            if isinstance(op, (ast.In, ast.NotIn)):
                c = self.expr(l)
                if not isinstance(r, (ast.List, ast.Tuple, ast.Set)) or not all(isinstance(e, ast.Constant) and isinstance(e.value, str) for e in r.elts):
                    fail("`in` needs a literal list of strings", n)
                if c[1] != "str" or not c[2]:
                    fail("`in` on a non-string", n)
                return ("({}[{}].contains {})".format("!" if isinstance(op, ast.NotIn) else "", ", ".join(lean_str(e.value) for e in r.elts), c[0]), "bool", True)
            a, b = self.expr(l), self.expr(r)
            sym = {ast.Lt: "<", ast.LtE: "≤", ast.Gt: ">", ast.GtE: "≥", ast.Eq: "==", ast.NotEq: "!="}.get(type(op))
            if sym is None:
                fail("unsupported comparison", n)
            if a[1] == "int" and b[1] == "optint" and isinstance(op, ast.Lt) and a[2] and b[2]:
                return ("(pyLtOpt {} {})".format(a[0], b[0]), "bool", False)
            if a[1] != b[1] or a[1] not in ("int", "str") or not (a[2] and b[2]):
                fail("unsupported comparison operand types {} {}".format(a[1], b[1]), n)
            if sym in ("==", "!="):
                return ("({} {} {})".format(a[0], sym, b[0]), "bool", True)
            if a[1] != "int":
                fail("ordering on non-integers", n)
            return ("(decide ({} {} {}))".format(a[0], sym, b[0]), "bool", True)
        if isinstance(n, ast.BinOp) and isinstance(n.op, (ast.Add, ast.Sub)):
            a, b = self.expr(n.left), self.expr(n.right)
            if a[1] != "int" or b[1] != "int" or not (a[2] and b[2]):
                fail("arithmetic on non-integers", n)
            return ("({} {} {})".format(a[0], "+" if isinstance(n.op, ast.Add) else "-", b[0]), "int", True)
        if isinstance(n, ast.Name):
            if n.id not in self.env.types:
                fail("unknown name {}".format(n.id), n)
            return (self.env.rename.get(n.id, n.id), self.env.types[n.id], True)
        if isinstance(n, ast.Constant):
            if isinstance(n.value, bool):
                return ("true" if n.value else "false", "bool", True)
            if isinstance(n.value, int):
                return ("({} : Int)".format(n.value), "int", True)
            if isinstance(n.value, str):
                return (lean_str(n.value), "str", True)
            fail("unsupported constant", n)
        if isinstance(n, ast.Attribute) and isinstance(n.value, ast.Name) and self.env.types.get(n.value.id) == "optres":
            return ("(retAttr {} {})".format(n.value.id, lean_str(n.attr)), "bool", False)
        # self.__x  (private attributes of TelApp in the option parsers)
        if isinstance(n, ast.Attribute) and isinstance(n.value, ast.Name) and n.value.id == "self":
            key = "self." + n.attr
            if key in self.env.types:
                return (self.env.rename[key], self.env.types[key], True)
        # atom.symbol.arguments[-1].number
        if (isinstance(n, ast.Attribute) and n.attr == "number" and isinstance(n.value, ast.Subscript)
                and ast.unparse(n.value) == "atom.symbol.arguments[-1]" and "lastArg" in self.env.types):
            return ("lastArg", "int", True)
        if (isinstance(n, ast.Call) and isinstance(n.func, ast.Attribute) and n.func.attr == "upper" and not n.args
                and not n.keywords):
            c = self.expr(n.func.value)
            if c[1] != "str" or not c[2]:
                fail("upper() of a non-string", n)
            return ("(pyUpper {})".format(c[0]), "str", True)
        if isinstance(n, ast.Call) and isinstance(n.func, ast.Name) and n.func.id == "len" and len(n.args) == 1:
            c = self.expr(n.args[0])
            if c[1] != "str":
                fail("len of a non-string", n)
            return ("(({}.length : Nat) : Int)".format(c[0]), "int", True)
        fail("unsupported expression: " + ast.unparse(n), n)

class _Subst(ast.NodeTransformer):
    def __init__(self, mapping):
        self.mapping = mapping
    def visit_Name(self, node):
        if isinstance(node.ctx, ast.Load) and node.id in self.mapping:
            return ast.copy_location(ast.parse(ast.unparse(self.mapping[node.id]), mode="eval").body, node)
        return node

def subst(node, mapping):
    """copy of `node` with the names of `mapping` replaced by their expressions"""
    import copy
    return ast.fix_missing_locations(_Subst(mapping).visit(copy.deepcopy(node)))

class _Inline(ast.NodeTransformer):
    """replace calls of local single-`return` functions by their body (arguments substituted)"""
    def __init__(self, funcs):
        self.funcs = funcs
    def visit_Call(self, node):
        self.generic_visit(node)
        if isinstance(node.func, ast.Name) and node.func.id in self.funcs and not node.keywords:
            fn = self.funcs[node.func.id]
            params = [a.arg for a in fn.args.args]
            if len(params) == len(node.args) and not fn.args.defaults and not fn.args.vararg and not fn.args.kwarg:
                body = [st for st in fn.body if not (isinstance(st, ast.Expr) and isinstance(st.value, ast.Constant))]
                if len(body) == 1 and isinstance(body[0], ast.Return) and body[0].value is not None:
                    return subst(body[0].value, dict(zip(params, node.args)))
        return node

def inline_local_functions(fn):
    """local helper functions of `fn` that consist of one return statement are inlined where they are called"""
    import copy
    funcs = {st.name: st for st in fn.body if isinstance(st, ast.FunctionDef)}
    if not funcs:
        return fn
    fn = copy.deepcopy(fn)
    fn.body = [st for st in fn.body if not isinstance(st, ast.FunctionDef)]
    return ast.fix_missing_locations(_Inline(funcs).visit(fn))

# --------------------------------------------------------------------------- helpers to find code

def parse_file(repo, rel):
    path = os.path.join(repo, rel)
    with open(path) as f:
        return ast.parse(f.read(), filename=path)

def find_func(tree, name, cls=None):
    for node in ast.walk(tree):
        if cls is not None:
            if isinstance(node, ast.ClassDef) and node.name == cls:
                for sub in node.body:
                    if isinstance(sub, ast.FunctionDef) and sub.name == name:
                        return sub
        elif isinstance(node, ast.FunctionDef) and node.name == name:
            return node
    fail("function {}{} not found".format((cls + ".") if cls else "", name))

# --------------------------------------------------------------------------- E1-E3, E10: telingo/__init__.py

STEP_OPS = {
    ("prg", "release_external"): "releaseFinalPrev",
    ("prg", "cleanup"): "cleanup",
    ("prg", "ground"): "ground",
    ("thy", "translate"): "translate",
    ("prg", "assign_external"): "assignFinalTrue",
    ("prg", "solve"): "solve",
}

def calls_in(stmt):
    out = []
    for n in ast.walk(stmt):
        if isinstance(n, ast.Call) and isinstance(n.func, ast.Attribute) and isinstance(n.func.value, ast.Name):
            key = (n.func.value.id, n.func.attr)
            if key in STEP_OPS:
                out.append((STEP_OPS[key], n))
    return out

def _stmt(src):
    return ast.parse(src).body[0]

def normalise_imain(fn, loop):
    """
    Statement-level rewrites into the shapes the extraction below reads; each is an equivalence of Python programs:
      step = 0 ; ret = None  (adjacent or not, before the loop)    ->  step, ret = 0, None
      a, b = [], []                                                  ->  a = [] ; b = []
      xs.extend(e for v in it if c) / xs.extend([e for v in it if c]) / xs += [e for ...]
                                                                     ->  for v in it: if c: xs.append(e)
      if not (x <= y) / not x <= y                                    ->  x > y     (and the three other comparisons; ints)
      ret = prg.solve(...) ; step += 1   (last two statements)       ->  ret, step = prg.solve(...), step + 1
    """
    # before the loop
    idx = fn.body.index(loop)
    pre = fn.body[:idx]
    singles = {}
    for st in pre:
        if isinstance(st, ast.Assign) and len(st.targets) == 1 and isinstance(st.targets[0], ast.Name) and st.targets[0].id in ("step", "ret"):
            singles[st.targets[0].id] = st
    if set(singles) == {"step", "ret"} and ast.unparse(singles["step"].value) == "0" and is_none(singles["ret"].value):
        pre = [st for st in pre if st is not singles["step"] and st is not singles["ret"]]
        pre.append(_stmt("step, ret = 0, None"))
        fn.body[:idx] = pre
    # in the loop
    body = []
    for st in loop.body:
        if (isinstance(st, ast.Assign) and len(st.targets) == 1 and isinstance(st.targets[0], ast.Tuple) and isinstance(st.value, ast.Tuple)
                and len(st.targets[0].elts) == len(st.value.elts)
                and all(isinstance(t, ast.Name) for t in st.targets[0].elts)
                and all(isinstance(v, ast.List) and not v.elts for v in st.value.elts)):
            body += [_stmt("{} = []".format(t.id)) for t in st.targets[0].elts]
        else:
            body.append(st)
    if (len(body) >= 2 and isinstance(body[-2], ast.Assign) and ast.unparse(body[-2].targets[0]) == "ret" and len(body[-2].targets) == 1
            and ast.unparse(body[-1]) in ("step += 1", "step = step + 1", "step = 1 + step")):
        body[-2:] = [_stmt("ret, step = {}, step + 1".format(ast.unparse(body[-2].value)))]
    loop.body = body
    class Comp(ast.NodeTransformer):
        def visit_Expr(self, node):
            v = node.value
            if (isinstance(v, ast.Call) and isinstance(v.func, ast.Attribute) and v.func.attr == "extend" and len(v.args) == 1
                    and not v.keywords and isinstance(v.args[0], (ast.GeneratorExp, ast.ListComp)) and len(v.args[0].generators) == 1):
                g = v.args[0].generators[0]
                if not g.is_async and len(g.ifs) <= 1:
                    inner = "{}.append({})".format(ast.unparse(v.func.value), ast.unparse(v.args[0].elt))
                    if g.ifs:
                        src = "for {} in {}:\n    if {}:\n        {}".format(ast.unparse(g.target), ast.unparse(g.iter), ast.unparse(g.ifs[0]), inner)
                    else:
                        src = "for {} in {}:\n    {}".format(ast.unparse(g.target), ast.unparse(g.iter), inner)
                    return _stmt(src)
            return node
        def visit_UnaryOp(self, node):
            self.generic_visit(node)
            flip = {ast.LtE: ">", ast.Lt: ">=", ast.GtE: "<", ast.Gt: "<="}
            if isinstance(node.op, ast.Not) and isinstance(node.operand, ast.Compare) and len(node.operand.ops) == 1 \
                    and type(node.operand.ops[0]) in flip and ast.unparse(node.operand.left).endswith(".number"):
                return ast.parse("{} {} {}".format(ast.unparse(node.operand.left), flip[type(node.operand.ops[0])],
                                                   ast.unparse(node.operand.comparators[0])), mode="eval").body
            return node
    Comp().visit(loop)
    Comp().visit(loop)          # comparisons inside the loops that the first pass created
    ast.fix_missing_locations(fn)

def extract_imain(repo):
    tree = parse_file(repo, "telingo/__init__.py")
    fn = inline_local_functions(find_func(tree, "imain"))
    whiles = [n for n in fn.body if isinstance(n, ast.While)]
    if len(whiles) != 1:
        fail("imain: expected exactly one while loop")
    loop = whiles[0]
    normalise_imain(fn, loop)
    env = Env({"imax": "optint", "imin": "int", "istop": "str", "step": "int", "ret": "optres"})
    c = ExprC(env).expr(loop.test)
    if c[1] != "bool":
        fail("while test is not boolean")
    loop_code = ExprC(env).lift(c)

    # initial values  step, ret = 0, None
    init_ok = False
    for st in fn.body:
        if isinstance(st, ast.Assign) and ast.unparse(st) in ("step, ret = (0, None)", "(step, ret) = (0, None)"):
            init_ok = True
    if not init_ok:
        fail("imain: expected `step, ret = 0, None` before the loop")

    # E2: the part selection if  (inside for root_name, part_name, rng ... for i in rng)
    part_if = None
    for n in ast.walk(loop):
        if isinstance(n, ast.For) and ast.unparse(n.target) == "i" and ast.unparse(n.iter) == "rng":
            # local names bound by simple assignments before the `if` (e.g. `start = step - i`) are substituted
            loc, rest = {}, list(n.body)
            while rest and isinstance(rest[0], ast.Assign) and len(rest[0].targets) == 1 and isinstance(rest[0].targets[0], ast.Name) \
                    and rest[0].targets[0].id not in ("step", "i", "root_name", "part_name", "rng", "parts"):
                loc[rest[0].targets[0].id] = subst(rest[0].value, loc)
                rest = rest[1:]
            if len(rest) == 1 and isinstance(rest[0], ast.If) and not rest[0].orelse:
                part_if = subst(rest[0], loc) if loc else rest[0]
                n.body = [part_if]
    if part_if is None:
        fail("imain: part selection `if` not found")
    app = part_if.body
    if len(app) != 1 or ast.unparse(app[0]) != "parts.append((part_name, [Number(step - i), Number(step)]))":
        fail("imain: unexpected ground-part tuple: " + ast.unparse(app[0]))
    env2 = Env({"step": "int", "i": "int", "root_name": "str"})
    pc = ExprC(env2).expr(part_if.test)
    if not pc[2] or pc[1] != "bool":
        fail("part condition is not a pure boolean")

    # E3: assumption filter
    asm_if = None
    for n in ast.walk(loop):
        if isinstance(n, ast.For) and ast.unparse(n.target) == "atom" and "by_signature" in ast.unparse(n.iter):
            ifs = [s for s in n.body if isinstance(s, ast.If)]
            if len(ifs) == 1 and len(n.body) == 1 and not ifs[0].orelse:
                asm_if = ifs[0]
            by_sig = ast.unparse(n.iter)
    if asm_if is None:
        fail("imain: assumption filter not found")
    if by_sig != "prg.symbolic_atoms.by_signature(name, arity, positive)":
        fail("imain: unexpected signature iteration " + by_sig)
    env3 = Env({"step": "int", "lastArg": "int"})
    ac = ExprC(env3).expr(asm_if.test)
    if not ac[2]:
        fail("assumption condition is not pure")
    app = asm_if.body
    if len(app) != 1:
        fail("assumption body")
    txt = ast.unparse(app[0])
    if txt == "assumptions.append(-atom.literal)":
        negated = "true"
    elif txt == "assumptions.append(atom.literal)":
        negated = "false"
    else:
        fail("unexpected assumption literal: " + txt)

    # the loop body must consist of exactly the statement shapes the model transcribes — anything else
    # (an extra guard, a `continue`, an early `break`, another assignment) is not silently ignored
    for st in loop.body:
        txt = ast.unparse(st)
        if isinstance(st, ast.Assign) and txt in ("parts = []", "assumptions = []"):
            continue
        if isinstance(st, ast.For):
            tgt, it = ast.unparse(st.target), ast.unparse(st.iter)
            if (tgt, it) == ("(root_name, part_name, rng)", "program_parts"):
                inner_ok = (len(st.body) == 1 and isinstance(st.body[0], ast.For) and not st.orelse
                            and ast.unparse(st.body[0].target) == "i" and ast.unparse(st.body[0].iter) == "rng"
                            and st.body[0].body == [part_if] and not st.body[0].orelse)
                if not inner_ok:
                    fail("imain: unexpected statements in the part-selection loop", st)
                continue
            if (tgt, it) == ("(name, arity, positive)", "future_sigs"):
                inner_ok = (len(st.body) == 1 and isinstance(st.body[0], ast.For) and not st.orelse
                            and ast.unparse(st.body[0].target) == "atom"
                            and st.body[0].body == [asm_if] and not st.body[0].orelse)
                if not inner_ok:
                    fail("imain: unexpected statements in the assumption loop", st)
                continue
            fail("imain: unexpected for loop: " + txt.split("\n")[0], st)
        if isinstance(st, ast.If):
            if ast.unparse(st.test) != "step > 0" or st.orelse or not all(isinstance(x, ast.Expr) and isinstance(x.value, ast.Call) for x in st.body):
                fail("imain: unexpected conditional in the loop body: " + txt.split("\n")[0], st)
            continue
        if isinstance(st, ast.Expr) and isinstance(st.value, ast.Call):
            continue
        if st is loop.body[-1] and isinstance(st, ast.Assign):
            continue
        fail("imain: unexpected statement in the loop body: " + txt.split("\n")[0], st)
    if loop.orelse:
        fail("imain: while-else")

    # step script: ordered calls in the loop body, with the `if step > 0` guard
    script = []
    for st in loop.body:
        if isinstance(st, ast.If):
            g = ast.unparse(st.test)
            if g != "step > 0":
                if calls_in(st):
                    fail("unexpected guard around control calls: " + g)
                continue
            if st.orelse and calls_in(ast.Module(body=st.orelse, type_ignores=[])):
                fail("control calls in else branch")
            for s2 in st.body:
                for name, call in calls_in(s2):
                    script.append((True, name, call))
        elif isinstance(st, ast.For):
            if calls_in(st):
                fail("control calls inside a for loop")
        else:
            for name, call in calls_in(st):
                script.append((False, name, call))
    # argument shapes
    for guarded, name, call in script:
        t = ast.unparse(call)
        if name == "releaseFinalPrev" and t != "prg.release_external(Function('__final', [Number(step - 1)]))":
            fail("unexpected release_external call: " + t)
        if name == "assignFinalTrue" and t != "prg.assign_external(Function('__final', [Number(step)]), True)":
            fail("unexpected assign_external call: " + t)
        if name == "ground" and t != "prg.ground(parts)":
            fail("unexpected ground call: " + t)
        if name == "translate" and t != "thy.translate(step, prg)":
            fail("unexpected translate call: " + t)
        if name == "solve" and t != "prg.solve(on_model=lambda m: on_model(m, step), assumptions=assumptions)":
            fail("unexpected solve call: " + t)
    # the solve statement also advances step
    last = loop.body[-1]
    if ast.unparse(last.targets[0] if isinstance(last, ast.Assign) else last) not in ("ret, step", "(ret, step)"):
        fail("imain: expected `ret, step = prg.solve(...), step+1` as last statement")
    if not ast.unparse(last.value).endswith(", step + 1)"):
        fail("imain: step increment")

    script_code = "[" + ", ".join("({}, StepOp.{})".format("true" if g else "false", n) for g, n, _ in script) + "]"
    return {
        "loopCond": loop_code, "partCond": pc[0], "assumeCond": ac[0], "assumeNegated": negated,
        "stepScript": script_code,
        "src": {"loopCond": ast.unparse(loop.test), "partCond": ast.unparse(part_if.test),
                "assumeCond": ast.unparse(asm_if.test)},
    }

def compile_parser(fn, attr, ty):
    """
    Option parser body -> Lean `Py (T x Bool)` where T is the new value of self.__<attr>.
    Supported statements: self.__x = int(value) | value.upper() | value | None | <local> ; <local> = int(value) ;
    try: <target> = int(value) / except ValueError: return False ; return <bool expr> ; if <test>: ... return ...
    (an `if` without else whose body returns: the rest of the body is the else branch).
    """
    key = "self._TelApp__" + attr
    alt = "self.__" + attr
    lines = []
    # cur: Lean term of the current value of self.__<attr>; rawty: its Python type; locals: local name -> (lean name, type)
    state = {"cur": None, "rawty": None, "locals": {}}
    def env_now():
        env = Env({"value": "str"}, {})
        if state.get("rawty") in ("int", "str"):
            for k in (alt, key):
                env.types[k] = state["rawty"]; env.rename[k] = "x"
        for name, (lean, t) in state["locals"].items():
            env.types[name] = t; env.rename[name] = lean
        return env
    def bind_int(target, st):
        """the statement `<target> = int(value)` succeeded and bound Lean `x`"""
        t = ast.unparse(target)
        if t in (key, alt):
            if ty not in ("optint", "int"):
                fail("int() into non-int option", st)
            state["cur"] = "some x" if ty == "optint" else "x"
            state["rawty"] = "int"
        elif isinstance(target, ast.Name) and target.id != "value":
            state["locals"] = dict(state["locals"]); state["locals"][target.id] = ("x", "int")
        else:
            fail("unsupported target of int(value)", st)
    def stmts(body, indent):
        for st in body:
            if isinstance(st, ast.Assign) and len(st.targets) == 1 and ast.unparse(st.value) == "int(value)":
                lines.append(indent + "let x ← pyInt value")
                bind_int(st.targets[0], st)
            elif isinstance(st, ast.Assign) and len(st.targets) == 1 and ast.unparse(st.targets[0]) in (key, alt):
                v = st.value
                if isinstance(v, ast.Call) and ast.unparse(v) == "value.upper()":
                    lines.append(indent + "let x := pyUpper value")
                    state["cur"] = "x"; state["rawty"] = "str"
                elif isinstance(v, ast.Name) and v.id == "value" and ty == "str":
                    lines.append(indent + "let x := value")
                    state["cur"] = "x"; state["rawty"] = "str"
                elif isinstance(v, ast.Name) and v.id in state["locals"] and state["locals"][v.id] == ("x", "int") and ty in ("optint", "int"):
                    state["cur"] = "some x" if ty == "optint" else "x"; state["rawty"] = "int"
                elif is_none(v):
                    state["cur"] = "none"; state["rawty"] = "none"
                else:
                    fail("unsupported assignment in option parser", st)
            elif isinstance(st, ast.Return):
                c = ExprC(env_now()).expr(st.value)
                if not c[2] or c[1] != "bool":
                    fail("option parser returns a non-pure/non-boolean", st)
                if state["cur"] is None:
                    fail("return before assignment", st)
                lines.append(indent + "pure ({}, {})".format(state["cur"], c[0]))
                return True
            elif isinstance(st, ast.If) and not st.orelse:
                env = env_now()
                test = st.test
                if isinstance(test, ast.Name) and env.types.get(test.id) == "str":
                    test = ast.parse("len({}) > 0".format(test.id), mode="eval").body       # truthiness of a string
                elif isinstance(test, ast.UnaryOp) and isinstance(test.op, ast.Not) and isinstance(test.operand, ast.Name) \
                        and env.types.get(test.operand.id) == "str":
                    test = ast.parse("len({}) == 0".format(test.operand.id), mode="eval").body
                c = ExprC(env).expr(test)
                if not c[2]:
                    fail("impure test in option parser", st)
                lines.append(indent + "if {} then do".format(c[0]))
                saved = dict(state)
                if not stmts(st.body, indent + "  "):
                    fail("if-branch of option parser must return", st)
                state.clear(); state.update(saved)
                lines.append(indent + "else do")
                indent = indent + "  "
            elif isinstance(st, ast.Expr) and isinstance(st.value, ast.Constant):
                continue
            elif (isinstance(st, ast.Try) and len(st.body) == 1 and len(st.handlers) == 1 and not st.orelse and not st.finalbody
                  and isinstance(st.handlers[0].type, ast.Name) and st.handlers[0].type.id == "ValueError"
                  and len(st.handlers[0].body) == 1 and ast.unparse(st.handlers[0].body[0]) == "return False"
                  and isinstance(st.body[0], ast.Assign) and len(st.body[0].targets) == 1
                  and ast.unparse(st.body[0].value) == "int(value)"):
                # try: <target> = int(value) / except ValueError: return False      (the option keeps its previous value:
                # the default — the parser runs once per option occurrence, and clingo stops at the first rejected value)
                dflt = state["cur"] if state["cur"] is not None else ("none" if ty == "optint" else "0")
                lines.append(indent + "match pyInt value with")
                lines.append(indent + "| .error .valueError => pure ({}, false)".format(dflt))
                lines.append(indent + "| .error e => throw e")
                lines.append(indent + "| .ok x => do")
                indent = indent + "  "
                bind_int(st.body[0].targets[0], st)
            else:
                fail("unsupported statement in option parser: " + ast.unparse(st), st)
        return False
    if not stmts(fn.body, "  "):
        fail("option parser does not end in return", fn)
    return "\n".join(lines)

def extract_options(repo):
    tree = parse_file(repo, "telingo/__init__.py")
    out = {}
    for attr, name, ty in (("imin", "__parse_imin", "int"), ("imax", "__parse_imax", "optint"), ("istop", "__parse_istop", "str")):
        fn = find_func(tree, name, "TelApp")
        out[attr] = compile_parser(fn, attr, ty)
    # defaults from __init__
    init = find_func(tree, "__init__", "TelApp")
    defaults = {}
    for st in init.body:
        if isinstance(st, ast.Assign):
            t = ast.unparse(st.targets[0])
            for attr in ("imin", "imax", "istop"):
                if t == "self.__" + attr:
                    defaults[attr] = st.value
    if set(defaults) != {"imin", "imax", "istop"}:
        fail("TelApp.__init__: option defaults not found")
    d = {}
    d["imin"] = "({} : Int)".format(defaults["imin"].value) if isinstance(defaults["imin"], ast.Constant) and isinstance(defaults["imin"].value, int) else fail("imin default")
    d["imax"] = "none" if is_none(defaults["imax"]) else ("(some ({} : Int))".format(defaults["imax"].value) if isinstance(defaults["imax"], ast.Constant) and isinstance(defaults["imax"].value, int) else fail("imax default"))
    d["istop"] = lean_str(defaults["istop"].value) if isinstance(defaults["istop"], ast.Constant) and isinstance(defaults["istop"].value, str) else fail("istop default")
    # imain keyword defaults
    fn = find_func(tree, "imain")
    names = [a.arg for a in fn.args.args]
    dflt = dict(zip(names[len(names) - len(fn.args.defaults):], fn.args.defaults))
    if [ast.unparse(dflt.get(k)) if k in dflt else None for k in ("imin", "imax", "istop")] != ["0", "None", "'SAT'"]:
        fail("imain: unexpected keyword defaults")
    out["defaults"] = d
    return out

# --------------------------------------------------------------------------- E4-E6, E9: tables and constants

def theory_tables(repo):
    """parse the #theory definitions embedded as string constants in transformers/__init__.py"""
    tree = parse_file(repo, "telingo/transformers/__init__.py")
    texts = [n.value for n in ast.walk(tree) if isinstance(n, ast.Constant) and isinstance(n.value, str) and "#theory" in n.value and "formula_body" in n.value]
    tables = {}
    atoms = {}
    for txt in texts:
        m = re.search(r"#theory\s+(\w+)\s*\{", txt)
        if not m:
            fail("cannot find theory name")
        thy = m.group(1)
        inner = txt[m.end():]
        for tm in re.finditer(r"(\w+)\s*\{(.*?)\}\s*;", inner, re.S):
            name, body = tm.group(1), tm.group(2)
            entries = []
            for line in body.split("\n"):
                line = line.split("%")[0].strip().rstrip(";").strip()
                if not line:
                    continue
                mm = re.match(r"^(\S+)\s*:\s*(\d+)\s*,\s*(unary|binary)\s*(?:,\s*(left|right))?$", line)
                if not mm:
                    fail("cannot parse operator line {!r} in theory {}".format(line, thy))
                op, prio, ar, assoc = mm.groups()
                if ar == "binary" and assoc is None:
                    fail("binary operator without associativity: " + line)
                entries.append((op, int(prio), ar == "unary", assoc))
            tables[(thy, name)] = entries
        atoms[thy] = re.findall(r"&(\w+)/(\d+)\s*:\s*(\w+)\s*,\s*(\w+)", txt)
    for need in (("tel", "formula_body"), ("tel", "formula_head"), ("del", "formula_body")):
        if need not in tables:
            fail("theory table {} not found".format(need))
    return tables, atoms

def py_table(repo):
    tree = parse_file(repo, "telingo/transformers/head.py")
    cls = [n for n in ast.walk(tree) if isinstance(n, ast.ClassDef) and n.name == "TheoryParser"]
    if not cls:
        fail("TheoryParser not found")
    consts = {}
    table = None
    for st in cls[0].body:
        if isinstance(st, ast.Assign):
            t = ast.unparse(st.targets[0])
            if t in ("unary, binary", "(unary, binary)", "left, right", "(left, right)"):
                names = [e.id for e in st.targets[0].elts]
                vals = [e.value for e in st.value.elts]
                consts.update(dict(zip(names, vals)))
            elif t == "table":
                table = st.value
    if table is None or set(consts) != {"unary", "binary", "left", "right"}:
        fail("TheoryParser.table / constants not found")
    if consts["unary"] is not True or consts["binary"] is not False or consts["left"] is not True or consts["right"] is not False:
        fail("TheoryParser constants changed meaning")
    entries = []
    for k, v in zip(table.keys, table.values):
        op = k.elts[0].value
        un = consts[k.elts[1].id]
        prio = v.elts[0].value
        a = v.elts[1]
        assoc = None if is_none(a) else ("left" if consts[a.id] else "right")
        entries.append((op, prio, un, assoc))
    return entries

def _str_set(node):
    """a set of string constants written as a display, or as set()/frozenset() of a list / tuple / set display"""
    if isinstance(node, ast.Call) and isinstance(node.func, ast.Name) and node.func.id in ("set", "frozenset") and len(node.args) == 1 and not node.keywords:
        node = node.args[0]
    if isinstance(node, (ast.Set, ast.List, ast.Tuple)) and all(isinstance(e, ast.Constant) and isinstance(e.value, str) for e in node.elts):
        return sorted(set(e.value for e in node.elts))
    return None

def _union_names(node):
    """names joined by `.union(...)` or `|`"""
    if isinstance(node, ast.Name):
        return [node.id]
    if isinstance(node, ast.BinOp) and isinstance(node.op, ast.BitOr):
        l, r = _union_names(node.left), _union_names(node.right)
        return None if l is None or r is None else l + r
    if isinstance(node, ast.Call) and isinstance(node.func, ast.Attribute) and node.func.attr == "union" and not node.keywords:
        parts = [_union_names(node.func.value)] + [_union_names(a) for a in node.args]
        return None if any(p is None for p in parts) else [x for p in parts for x in p]
    return None

def op_sets(repo):
    tree = parse_file(repo, "telingo/theory/formula.py")
    want = ["g_binary_operators", "g_unary_operators", "g_arithmetic_operators", "g_tel_operators",
            "g_del_operators", "g_path_unary_operators", "g_path_binary_operators"]
    out = {}
    for st in tree.body:
        if isinstance(st, ast.Assign) and isinstance(st.targets[0], ast.Name) and st.targets[0].id in want:
            v = _str_set(st.value)
            if v is None:
                fail("operator set is not a set of string constants", st)
            out[st.targets[0].id] = v
        if isinstance(st, ast.Assign) and isinstance(st.targets[0], ast.Name) and st.targets[0].id == "g_all_operators":
            names = _union_names(st.value)
            if names is None or sorted(names) != sorted(want):
                fail("g_all_operators changed: " + ast.unparse(st.value))
    if set(out) != set(want):
        fail("operator sets missing: {}".format(set(want) - set(out)))
    return out

def constants(repo):
    out = {}
    tree = parse_file(repo, "telingo/transformers/transformer.py")
    for st in tree.body:
        if isinstance(st, ast.Assign) and isinstance(st.targets[0], ast.Name) and st.targets[0].id.startswith("g_") and isinstance(st.value, ast.Constant):
            out[st.targets[0].id] = st.value.value
    tree = parse_file(repo, "telingo/transformers/head.py")
    for st in tree.body:
        if isinstance(st, ast.Assign) and isinstance(st.targets[0], ast.Name) and st.targets[0].id.startswith("g_tel"):
            if isinstance(st.value, ast.Constant):
                out[st.targets[0].id] = st.value.value
            elif isinstance(st.value, ast.List):
                out[st.targets[0].id] = [e.value for e in st.value.elts]
    for k in ("g_future_prefix", "g_variable_prefix", "g_time_parameter_name", "g_time_parameter_name_alt",
              "g_tel_false_atom", "g_tel_keywords", "g_tel_shift_variable"):
        if k not in out:
            fail("constant {} not found".format(k))
    return out

# --------------------------------------------------------------------------- E7, E8: flags

def extract_flags(repo):
    tree = parse_file(repo, "telingo/transformers/program.py")
    fn = find_func(tree, "visit_SymbolicAtom", "ProgramTransformer")
    call = None
    for n in ast.walk(fn):
        if isinstance(n, ast.Call) and ast.unparse(n.func) == "self.__term_transformer.visit":
            call = n
    if call is None or len(call.args) != 5:
        fail("visit_SymbolicAtom: term transformer call not found")
    # straight-line local names (`in_head = self.__head`, ...) are substituted: every statement before the call must be a
    # single assignment to a fresh local name, so that the substituted expression is evaluated in the same state
    local = {}
    for st in fn.body:
        if isinstance(st, ast.Expr) and isinstance(st.value, ast.Constant):
            continue
        if any(n is call for n in ast.walk(st)):
            break
        if (isinstance(st, ast.Assign) and len(st.targets) == 1 and isinstance(st.targets[0], ast.Name)
                and st.targets[0].id not in local and not any(isinstance(n, ast.Call) for n in ast.walk(st.value))):
            local[st.targets[0].id] = subst(st.value, local)
        else:
            fail("visit_SymbolicAtom: unsupported statement before the term transformer call", st)
    if local:
        call = subst(call, local)
    ren = {"self.__head": "head", "self.__constraint": "constraint", "self.__normal": "normal", "self.__negation": "negation"}
    def flag(n):
        src = ast.unparse(n)
        for k, v in ren.items():
            src = src.replace(k, v)
        t = ast.parse(src, mode="eval").body
        env = Env({"head": "bool", "constraint": "bool", "normal": "bool", "negation": "bool"})
        c = ExprC(env).expr(t)
        if not c[2] or c[1] != "bool":
            fail("flag expression not a pure boolean: " + src)
        return c[0]
    if ast.unparse(call.args[0]) != "atom.symbol" or ast.unparse(call.args[4]) != "self.__max_shift":
        fail("visit_SymbolicAtom: unexpected arguments")
    flags = [flag(call.args[i]) for i in (1, 2, 3)]
    # theory atom guards
    fn = find_func(tree, "visit_TheoryAtom", "ProgramTransformer")
    guards = {}
    for n in ast.walk(fn):
        if isinstance(n, ast.If) and len(n.body) == 1 and isinstance(n.body[0], ast.Raise):
            msg = ast.unparse(n.body[0])
            if "dynamic formulas not supported" in msg:
                guards["del"] = flag(n.test)
            elif "temporal formulas not supported" in msg:
                guards["tel"] = flag(n.test)
    if set(guards) != {"del", "tel"}:
        fail("visit_TheoryAtom: context guards not found")
    # body &tel term visit flags
    tcall = None
    for n in ast.walk(fn):
        if isinstance(n, ast.Call) and ast.unparse(n.func) == "self.__term_transformer.visit" and ast.unparse(n.args[0]) == "atom.term":
            tcall = n
    if tcall is None or [ast.unparse(a) for a in tcall.args[1:4]] != ["False", "True", "True"]:
        fail("visit_TheoryAtom: flags for the theory term changed")
    # E8: is_constraint / is_normal as Boolean functions of the shape of a statement
    ttree = parse_file(repo, "telingo/transformers/transformer.py")
    shape = [("s.ast_type == _ast.ASTType.Rule", "isRule"), ("s.head.ast_type == _ast.ASTType.Literal", "headIsLiteral"),
             ("s.head.atom.ast_type == _ast.ASTType.BooleanConstant", "atomIsBoolConst"), ("s.head.atom.value", "atomValue"),
             ("s.head.atom.ast_type == _ast.ASTType.SymbolicAtom", "atomIsSymbolic"),
             ("s.head.sign == _ast.Sign.NoSign", "signNone"), ("s.head.sign != _ast.Sign.NoSign", "(not signNone)")]
    def classifier(name):
        f = find_func(ttree, name)
        if [a.arg for a in f.args.args] != ["s"]:
            fail(name + ": expected one parameter `s`")
        body = [st for st in f.body if not (isinstance(st, ast.Expr) and isinstance(st.value, ast.Constant))]
        # leading aliases (`head = s.head`) are substituted; comparisons are written attribute-first
        local = {}
        while len(body) > 1 and isinstance(body[0], ast.Assign) and len(body[0].targets) == 1 and isinstance(body[0].targets[0], ast.Name) \
                and body[0].targets[0].id not in local and body[0].targets[0].id != "s" \
                and not any(isinstance(n, ast.Call) for n in ast.walk(body[0].value)):
            local[body[0].targets[0].id] = subst(body[0].value, local)
            body = body[1:]
        if len(body) != 1 or not isinstance(body[0], ast.Return):
            fail(name + ": expected a single return statement")
        class Norm(ast.NodeTransformer):
            def visit_Compare(self, node):
                self.generic_visit(node)
                if len(node.ops) == 1 and isinstance(node.ops[0], (ast.Eq, ast.NotEq)) and ast.unparse(node.left).startswith("_ast.") \
                        and not ast.unparse(node.comparators[0]).startswith("_ast."):
                    node.left, node.comparators[0] = node.comparators[0], node.left
                return node
        ret = Norm().visit(subst(body[0].value, local) if local else body[0].value)
        src = ast.unparse(ast.fix_missing_locations(ret))
        for k, v in shape:
            src = src.replace(k, v)
            if " == " in k:
                src = src.replace(k.replace(" == ", " != "), "(not {})".format(v))
        if "s." in src or "_ast" in src:
            fail(name + ": reads something other than the statement shape: " + src)
        c = ExprC(Env({v: "bool" for _, v in shape[:6]})).expr(ast.parse(src, mode="eval").body)
        if not c[2] or c[1] != "bool":
            fail(name + ": not a pure boolean")
        return c[0], ast.unparse(ret)
    is_constraint, src_c = classifier("is_constraint")
    is_normal, src_n = classifier("is_normal")
    # visit_Rule must set the two flags from exactly these classifiers
    vr = find_func(tree, "visit_Rule", "ProgramTransformer")
    assigns = {ast.unparse(n.targets[0]): ast.unparse(n.value) for n in ast.walk(vr)
               if isinstance(n, ast.Assign) and len(n.targets) == 1 and ast.unparse(n.value) not in ("False", "[0]")}
    if assigns.get("self.__constraint") != "_tf.is_constraint(rule)" or assigns.get("self.__normal") != "_tf.is_normal(rule)":
        fail("visit_Rule: the constraint / normal flags are not set from is_constraint / is_normal")

    # E13: the check on the number of terms of a theory element, per theory (`for element in atom.elements: if <test over
    # len(element.terms)>: raise RuntimeError(...)` in the branch of that theory); no such check: never rejected
    def elem_guard(theory):
        conds = []
        for n in ast.walk(fn):
            if isinstance(n, ast.If) and ast.unparse(n.test) == "atom.term.name == '{}'".format(theory):
                for m in ast.walk(ast.Module(body=n.body, type_ignores=[])):
                    if isinstance(m, ast.For) and ast.unparse(m.iter) == "atom.elements" and isinstance(m.target, ast.Name):
                        v = m.target.id
                        for st in m.body:
                            if (isinstance(st, ast.If) and not st.orelse and len(st.body) == 1 and isinstance(st.body[0], ast.Raise)
                                    and isinstance(st.body[0].exc, ast.Call) and ast.unparse(st.body[0].exc.func) == "RuntimeError"
                                    and "len({}.terms)".format(v) in ast.unparse(st.test)):
                                src = ast.unparse(st.test).replace("len({}.terms)".format(v), "nterms")
                                c = ExprC(Env({"nterms": "int"})).expr(ast.parse(src, mode="eval").body)
                                if not c[2] or c[1] != "bool":
                                    fail("visit_TheoryAtom: element check is not a pure boolean: " + src)
                                conds.append(c[0])
        return "(" + " || ".join(conds) + ")" if conds else "false"
    return {"replaceFuture": flags[0], "failFuture": flags[1], "failPast": flags[2], "telGuard": guards["tel"], "delGuard": guards["del"],
            "telElems": elem_guard("tel"), "delElems": elem_guard("del"),
            "isConstraint": is_constraint, "isNormal": is_normal, "srcConstraint": src_c, "srcNormal": src_n}


def extract_directive(repo):
    """
    E11. ProgramTransformer.visit_Program: what a `#program <name>.` directive becomes — the new part name, the final flag,
    the part recorded for the following statements — compiled statement by statement (assignments to prg.name / self.__final /
    self.__part, one-armed ifs over them); the two appended parameters must be the time parameter names.
    E12. ProgramTransformer.visit: rules of the final part get the `__final(t)` literal exactly under the guard found here.
    """
    tree = parse_file(repo, "telingo/transformers/program.py")
    fn = find_func(tree, "visit_Program", "ProgramTransformer")
    ren = {"prg.name": "name", "self.__final": "final", "self.__part": "part"}
    def cexpr(n, types):
        src = ast.unparse(n)
        for k, v in ren.items():
            src = src.replace(k, v)
        c = ExprC(Env(types)).expr(ast.parse(src, mode="eval").body)
        if not c[2]:
            fail("visit_Program: impure expression " + src, n)
        return c
    types = {"name": "str"}
    lines = []
    params = []
    returned = False
    def assign(st, guard=None):
        tgt = ast.unparse(st.targets[0]) if len(st.targets) == 1 else None
        if tgt not in ren:
            fail("visit_Program: unexpected assignment target", st)
        var = ren[tgt]
        c = cexpr(st.value, types)
        want = {"name": "str", "final": "bool", "part": "str"}[var]
        if c[1] != want:
            fail("visit_Program: type of the assigned value", st)
        if guard is None:
            lines.append("  let {} := {}".format(var, c[0]))
        else:
            if var not in types:
                fail("visit_Program: conditional assignment to an unset variable", st)
            lines.append("  let {} := if {} then {} else {}".format(var, guard, c[0], var))
        types[var] = want
    body = [st for st in fn.body if not (isinstance(st, ast.Expr) and isinstance(st.value, ast.Constant))]   # docstring
    for st in body:
        if returned:
            fail("visit_Program: statement after return", st)
        if isinstance(st, ast.Assign):
            assign(st)
        elif isinstance(st, ast.If):
            # if / elif chain of assignments: the guard of a later branch is "no earlier guard held and its own test"
            node, k, prev = st, 0, []
            while node is not None:
                if not all(isinstance(x, ast.Assign) for x in node.body):
                    fail("visit_Program: unexpected conditional", node)
                g = cexpr(node.test, types)
                if g[1] != "bool":
                    fail("visit_Program: non-boolean test", node)
                gname = "g{}_{}".format(len(lines), k)
                lines.append("  let {} := {}".format(gname, " && ".join(["!" + p for p in prev] + [g[0]])))
                for x in node.body:
                    assign(x, gname)
                prev.append(gname)
                k += 1
                if not node.orelse:
                    node = None
                elif len(node.orelse) == 1 and isinstance(node.orelse[0], ast.If):
                    node = node.orelse[0]
                else:
                    fail("visit_Program: unexpected else branch", node)
        elif (isinstance(st, ast.For) and isinstance(st.target, ast.Name) and isinstance(st.iter, (ast.Tuple, ast.List)) and not st.orelse
              and len(st.body) == 1 and isinstance(st.body[0], ast.Expr) and isinstance(st.body[0].value, ast.Call)
              and ast.unparse(st.body[0].value.func) == "prg.parameters.append"
              and ast.unparse(st.body[0].value.args[0]) == "_ast.Id(prg.location, {})".format(st.target.id)):
            for e in st.iter.elts:
                m = re.match(r"^_tf\.(g_time_parameter_name(?:_alt)?)$", ast.unparse(e))
                if not m:
                    fail("visit_Program: unexpected parameter " + ast.unparse(e), st)
                params.append(m.group(1))
        elif isinstance(st, ast.Expr) and isinstance(st.value, ast.Call) and ast.unparse(st.value.func) == "prg.parameters.append":
            a = ast.unparse(st.value.args[0])
            m = re.match(r"^_ast\.Id\(prg\.location, _tf\.(g_time_parameter_name(?:_alt)?)\)$", a)
            if not m:
                fail("visit_Program: unexpected parameter " + a, st)
            params.append(m.group(1))
        elif isinstance(st, ast.Return) and ast.unparse(st.value) == "prg":
            returned = True
        else:
            fail("visit_Program: unexpected statement " + ast.unparse(st).split("\n")[0], st)
    if params != ["g_time_parameter_name", "g_time_parameter_name_alt"]:
        fail("visit_Program: the program parameters are not (time, time_alt): {}".format(params))
    for v in ("name", "final", "part"):
        if v not in types:
            fail("visit_Program: {} is never set".format(v))
    # E12: the guard under which `__append_final` is applied
    vf = find_func(tree, "visit", "ProgramTransformer")
    guard = None
    for n in ast.walk(vf):
        if isinstance(n, ast.If) and len(n.body) == 1 and ast.unparse(n.body[0]) == "self.__append_final(x)" and not n.orelse:
            guard = ast.unparse(n.test)
    if guard != "self.__final and isinstance(x, _ast.AST) and hasattr(x, 'body')":
        fail("visit: unexpected guard of __append_final: {}".format(guard))
    af = find_func(tree, "__append_final", "ProgramTransformer")
    src = ast.unparse(af)
    if "'__final'" not in src and '"__final"' not in src:
        fail("__append_final: the literal is not __final")
    if src.count("x.body.append(") != 1:
        fail("__append_final: expected exactly one appended body literal")
    return "\n".join(lines)

# --------------------------------------------------------------------------- writers

HEADER = "/- GENERATED by tools/extract.py from /repo — do not edit.  Regenerated on every check. -/\n"

def table_lean(name, entries):
    rows = []
    for op, prio, un, assoc in entries:
        a = {None: "none", "left": "(some true)", "right": "(some false)"}[assoc]
        rows.append("  ⟨{}, {}, {}, {}⟩".format(lean_str(op), "true" if un else "false", prio, a))
    return "def {} : List OpEntry := [\n{}]\n".format(name, ",\n".join(rows))

def strlist(xs):
    return "[" + ", ".join(lean_str(x) for x in xs) + "]"

def _gen_imain(repo):
    im = extract_imain(repo)
    op = extract_options(repo)
    return HEADER + """import TelModel.Py
set_option linter.unusedVariables false
namespace TelModel.Generated

inductive StepOp where
  | releaseFinalPrev | cleanup | ground | translate | assignFinalTrue | solve
  deriving Repr, DecidableEq, Inhabited

/-- E1.  source: {src_loop} -/
def loopCond (imin : Int) (imax : Option Int) (istop : String) (step : Int) (ret : Option SolveResult) : Py Bool :=
  {loop}

/-- E2.  source: {src_part} -/
def partCond (root_name : String) (step i : Int) : Bool :=
  {part}

/-- E3.  source: {src_asm} ; `lastArg` = atom.symbol.arguments[-1].number -/
def assumeCond (lastArg step : Int) : Bool :=
  {asm}

/-- E3.  the assumption is the negated literal -/
def assumeNegated : Bool := {neg}

/-- E3.  order of the control calls in the loop body; the flag marks calls guarded by `if step > 0` -/
def stepScript : List (Bool × StepOp) := {script}

/-- E10. TelApp.__parse_imin: (new value, accepted) -/
def parseImin (value : String) : Py (Int × Bool) := do
{pimin}

/-- E10. TelApp.__parse_imax -/
def parseImax (value : String) : Py (Option Int × Bool) := do
{pimax}

/-- E10. TelApp.__parse_istop -/
def parseIstop (value : String) : Py (String × Bool) := do
{pistop}

def defaultImin : Int := {dimin}
def defaultImax : Option Int := {dimax}
def defaultIstop : String := {distop}

end TelModel.Generated
""".format(src_loop=im["src"]["loopCond"].replace("-/", "- /"), src_part=im["src"]["partCond"], src_asm=im["src"]["assumeCond"],
           loop=im["loopCond"], part=im["partCond"], asm=im["assumeCond"], neg=im["assumeNegated"], script=im["stepScript"],
           pimin=op["imin"], pimax=op["imax"], pistop=op["istop"],
           dimin=op["defaults"]["imin"], dimax=op["defaults"]["imax"], distop=op["defaults"]["istop"])


def _gen_tables(repo):
    tables, atoms = theory_tables(repo)
    ops = op_sets(repo)
    cs = constants(repo)
    t = HEADER + """namespace TelModel.Generated

/-- operator table entry: name, unary?, priority, associativity (binary only: some true = left) -/
structure OpEntry where
  op : String
  unary : Bool
  prio : Nat
  left : Option Bool
  deriving Repr, DecidableEq, Inhabited

"""
    t += "/-- E4. `#theory tel`, formula_body -/\n" + table_lean("bodyTable", tables[("tel", "formula_body")]) + "\n"
    t += "/-- E4. `#theory tel`, formula_head -/\n" + table_lean("headTableTheory", tables[("tel", "formula_head")]) + "\n"
    t += "/-- E4. `#theory del`, formula_body -/\n" + table_lean("delTable", tables[("del", "formula_body")]) + "\n"
    t += "/-- E5. TheoryParser.table -/\n" + table_lean("headTablePy", py_table(repo)) + "\n"
    t += "/-- E4. theory atom declarations: (theory, name, arity, term table, position) -/\n"
    decls = []
    for thy in sorted(atoms):
        for name, ar, tab, pos in atoms[thy]:
            decls.append("({}, {}, {}, {}, {})".format(lean_str(thy), lean_str(name), ar, lean_str(tab), lean_str(pos)))
    t += "def theoryAtomDecls : List (String × String × Nat × String × String) := [{}]\n\n".format(", ".join(decls))
    for k in sorted(ops):
        t += "/-- E6. {} -/\ndef {} : List String := {}\n".format(k, k[2:].replace("_o", "O").replace("_u", "U").replace("_b", "B"), strlist(ops[k]))
    t += "\n/-- E6. g_tel_keywords -/\ndef telKeywords : List String := {}\n".format(strlist(cs["g_tel_keywords"]))
    t += "\n/-- E9. name constants -/\n"
    t += "def futurePrefix : String := {}\n".format(lean_str(cs["g_future_prefix"]))
    t += "def variablePrefix : String := {}\n".format(lean_str(cs["g_variable_prefix"]))
    t += "def timeParam : String := {}\n".format(lean_str(cs["g_time_parameter_name"]))
    t += "def timeParamAlt : String := {}\n".format(lean_str(cs["g_time_parameter_name_alt"]))
    t += "def falseAtom : String := {}\n".format(lean_str(cs["g_tel_false_atom"]))
    t += "def shiftVariable : String := {}\n".format(lean_str(cs["g_tel_shift_variable"]))
    t += "\nend TelModel.Generated\n"
    return t


def _gen_directive(repo):
    dr = extract_directive(repo)
    return HEADER + """namespace TelModel.Generated

/-- E11. `ProgramTransformer.visit_Program`: (new part name, final flag, part recorded for the following statements)
    for a `#program name.` directive; the directive also gets the parameters `(__t, __u)` -/
def visitProgram (name : String) : String × Bool × String :=
""" + dr + """
  (name, final, part)

end TelModel.Generated
"""

def _gen_flags(repo):
    fl = extract_flags(repo)
    return HEADER + """set_option linter.unusedVariables false
namespace TelModel.Generated

/-- E7. arguments passed to the term transformer for a symbolic atom, as functions of the
    traversal state (head, constraint, normal) -/
def replaceFuture (head constraint normal : Bool) : Bool := {rf}
def failFuture (head constraint normal : Bool) : Bool := {ff}
def failPast (head constraint normal : Bool) : Bool := {fp}

/-- E7. a body `&tel` atom is rejected when this holds -/
def telRejected (negation constraint : Bool) : Bool := {tg}
/-- E7. a `&del` atom is rejected when this holds -/
def delRejected (negation constraint : Bool) : Bool := {dg}

/-- E8. `is_constraint(s)` as a function of the shape of the statement.  source: {sc} -/
def isConstraint (isRule headIsLiteral atomIsBoolConst atomValue atomIsSymbolic signNone : Bool) : Bool := {ic}
/-- E8. `is_normal(s)`.  source: {sn} -/
def isNormal (isRule headIsLiteral atomIsBoolConst atomValue atomIsSymbolic signNone : Bool) : Bool := {inn}

/-- E13. an element with `nterms` terms in a body `&tel` atom is rejected (RuntimeError) when this holds -/
def telElemRejected (nterms : Int) : Bool := {te}
/-- E13. an element with `nterms` terms in a `&del` atom is rejected (RuntimeError) when this holds -/
def delElemRejected (nterms : Int) : Bool := {de}

end TelModel.Generated
""".format(rf=fl["replaceFuture"], ff=fl["failFuture"], fp=fl["failPast"], tg=fl["telGuard"], dg=fl["delGuard"],
           te=fl["telElems"], de=fl["delElems"], ic=fl["isConstraint"], inn=fl["isNormal"],
           sc=fl["srcConstraint"].replace("-/", "- /"), sn=fl["srcNormal"].replace("-/", "- /"))

def generate(repo):
    """every generated file on its own: a source shape the translator does not understand makes that file fail, not the others"""
    files, errors = {}, {}
    for name, fn in (("Imain.lean", _gen_imain), ("Tables.lean", _gen_tables), ("Directive.lean", _gen_directive), ("Flags.lean", _gen_flags)):
        try:
            files[name] = fn(repo)
        except ExtractError as e:
            errors[name] = str(e)
    return files, errors

def main():
    repo = os.environ.get("TELINGO_REPO", "/repo")
    out = os.path.join(os.path.dirname(os.path.dirname(os.path.abspath(__file__))), "lean", "TelModel", "Generated")
    if len(sys.argv) > 1:
        out = sys.argv[1]
    files, errors = generate(repo)
    os.makedirs(out, exist_ok=True)
    changed = []
    for name, content in files.items():
        p = os.path.join(out, name)
        old = open(p).read() if os.path.exists(p) else None
        if old != content:
            with open(p, "w") as f:
                f.write(content)
            changed.append(name)
    for name, msg in errors.items():
        # the file keeps its previous content (the model of the code as it was); the checks whose proofs depend on it report this
        print("EXTRACT-ERROR {}: {}".format(name, msg))
    print("extract: {}, {} file(s) changed{}".format("ok" if not errors else "{} file(s) failed".format(len(errors)), len(changed), (": " + ", ".join(changed)) if changed else ""))
    if errors:
        sys.exit(3)

if __name__ == "__main__":
    main()
