#!/bin/bash
# usage: tools/seedtest.sh <seed dir> <property ids...>
# applies the seeded change to /repo, confirms tests pass / demo fails, runs the given checks, and always reverts.
set -u
SEED=$1; shift
cd /verif
if ! git -C /repo diff --quiet; then echo "repo not clean"; exit 2; fi
echo "== demo on unchanged tree"; (cd /repo && PYTHONPATH=/repo /venv/bin/python $OLDPWD/$SEED/demo.py >/dev/null 2>&1; echo "   demo rc=$? (want 0)")
git -C /repo apply $PWD/$SEED/patch.diff || { echo "patch does not apply"; exit 2; }
trap 'git -C /repo checkout -- . ; /venv/bin/python /verif/tools/extract.py >/dev/null' EXIT
echo "== test-suite with the change"; (cd /repo && /venv/bin/python -m pytest -q -p no:cacheprovider 2>&1 | tail -1)
echo "== demo with the change"; (cd /repo && PYTHONPATH=/repo /venv/bin/python /verif/$SEED/demo.py >/dev/null 2>&1; echo "   demo rc=$? (want non-zero)")
for P in "$@"; do
  echo "== check $P"; VERIF_EVIDENCE_DIR=/verif/replays/seed-evidence ./check $P 2>&1 | cut -c1-600 | head -8; echo "   rc=${PIPESTATUS[0]}"
done
