#!/bin/bash
# usage: tools/runall.sh [quick|thorough]  -- runs every check on the current tree, one after the other
cd "$(dirname "$0")/.."
TIER=${1:-quick}
for i in 01 02 03 04 05 06 07 08 09 10 11 12 13 14 15 16 17; do
  s=$(date +%s)
  out=$(./check C$i --tier $TIER 2>&1); rc=$?
  echo "C$i rc=$rc $(( $(date +%s) - s ))s $(echo "$out" | grep -E '^(OK|VIOLATION|INFRA|KNOWN)' | cut -c1-160 | head -3)"
done
