"""
L1 for telingo/transformers/term.py: the real `TermTransformer` on the term of an atom (predicate, classical negation, pools)
versus the model's `addTime` — result term, recorded future predicates, max_shift, error class.
"""
import random
import tl

NAMES = ["p", "q", "'p", "''p", "p'", "p''", "'q'", "_p", "__p", "p_", "p__", "_p'", "'_p", "_'p", "p_'", "r'''", "'''r", "_", "__", "a_b", "_a_"]
ARGS = [[], ["X"], ["1", "f(Y)"], ["X+1", "\"s\"", "(1,2)"]]

def gen_term(r, depth=2):
    k = r.random()
    if depth == 0 or k < 0.55:
        return ("fn", r.choice(NAMES), list(r.choice(ARGS)))
    if k < 0.75:
        return ("neg", gen_term(r, depth - 1))
    return ("pool",) + tuple(gen_term(r, depth - 1) for _ in range(r.randint(1, 3)))

def to_ast(t):
    import clingo
    from clingo import ast
    loc = ast.Location(ast.Position("<term>", 1, 1), ast.Position("<term>", 1, 1))
    if t[0] == "fn":
        args = []
        for a in t[2]:
            holder = []
            ast.parse_string("x({}).".format(a), holder.append)
            args.append(holder[1].head.atom.symbol.arguments[0])
        return ast.Function(loc, t[1], args, 0)
    if t[0] == "neg":
        return ast.UnaryOperation(loc, ast.UnaryOperator.Minus, to_ast(t[1]))
    return ast.Pool(loc, [to_ast(x) for x in t[1:]])

def from_text(text):
    """typed term of an atom as clingo's parser delivers it (pools in arguments become pools of predicates)"""
    from clingo import ast
    holder = []
    ast.parse_string("x :- {}.".format(text), holder.append)
    return holder[1].body[0].atom.symbol

def ast_to_sexp(a):
    from clingo import ast
    if a.ast_type == ast.ASTType.Function:
        return ("fn", tl.QStr(a.name), tuple(tl.QStr(str(x)) for x in a.arguments))
    if a.ast_type == ast.ASTType.UnaryOperation:
        return ("neg", ast_to_sexp(a.argument))
    if a.ast_type == ast.ASTType.Pool:
        return ("pool",) + tuple(ast_to_sexp(x) for x in a.arguments)
    raise ValueError(str(a))

def arities(a):
    from clingo import ast
    if a.ast_type == ast.ASTType.Function:
        return [len(a.arguments)]
    if a.ast_type == ast.ASTType.UnaryOperation:
        return arities(a.argument)
    return [n for x in a.arguments for n in arities(x)]

def param_sexp(p):
    from clingo import ast
    import clingo
    if p.ast_type == ast.ASTType.SymbolicTerm:
        if p.symbol.type == clingo.SymbolType.Number:
            return "(num {})".format(p.symbol.number)
        if str(p.symbol) == "__t":
            return "(time 0)"
    if p.ast_type == ast.ASTType.BinaryOperation and p.operator_type == ast.BinaryOperator.Plus and str(p.left) == "__t":
        return "(time {})".format(p.right.symbol.number)
    return "(unknown {})".format(str(p))

def result_sexp(a, ar):
    """print the rewritten term in the model's output format; `ar` = original arities in traversal order (consumed)"""
    from clingo import ast
    if a.ast_type == ast.ASTType.Function:
        n = ar.pop(0)
        args, params = list(a.arguments)[:n], list(a.arguments)[n:]
        return "(fn {} ({}) ({}))".format(tl.sexp(tl.QStr(a.name)), " ".join(tl.sexp(tl.QStr(str(x))) for x in args), " ".join(param_sexp(p) for p in params))
    if a.ast_type == ast.ASTType.UnaryOperation:
        return "(neg {})".format(result_sexp(a.argument, ar))
    return "(pool {})".format(" ".join(result_sexp(x, ar) for x in a.arguments))

def run_impl(term_ast, rf, ff, fp):
    import telingo.transformers.term as tt
    futures = set()
    ms = [0]
    ar = arities(term_ast)
    try:
        res = tt.TermTransformer(futures).visit(term_ast, rf, ff, fp, ms)
    except BaseException as e:  # noqa
        if isinstance(e, KeyboardInterrupt):
            raise
        c = tl.classify_exc(e)
        return "ERR " + c
    fs = sorted(futures)
    return "ok {} ({}) {}".format(result_sexp(res, ar), " ".join("({} {} {} {})".format(tl.sexp(tl.QStr(n)), a, "true" if p else "false", s) for n, a, p, s in fs), ms[0])

def norm_model(out):
    """sort the model's future list (a Python set on the other side)"""
    if not out.startswith("ok "):
        return out
    body = out[3:]
    # ok <term> (<futures>) <maxshift>
    depth = 0
    for i, ch in enumerate(body):
        if ch == "(":
            depth += 1
        elif ch == ")":
            depth -= 1
            if depth == 0:
                term, rest = body[:i + 1], body[i + 1:].strip()
                break
    j = rest.rfind(")")
    futs, ms = rest[1:j], rest[j + 1:].strip()
    items = []
    d = 0; cur = ""
    for ch in futs:
        cur += ch
        if ch == "(":
            d += 1
        elif ch == ")":
            d -= 1
            if d == 0:
                items.append(cur.strip()); cur = ""
    def key(it):
        p = tl.parse_sexp(it)
        return (str(p[0]), int(p[1]), p[2] == "true", int(p[3]))
    items.sort(key=key)
    return "ok {} ({}) {}".format(term, " ".join(items), ms)

TEXTS = ["p(1;2)", "-p(X)", "'p(1;2,3)", "-p'(1;2)", "_p(X;Y)", "p''", "-''q(f(1;2))", "__p'(1)", "p_(1)"]

def run(seed, n, model_exe):
    """returns (stats, disagreements)"""
    r = random.Random(seed)
    cases = []
    for t in TEXTS:
        try:
            cases.append(("text " + t, from_text(t)))
        except Exception:
            pass
    for _ in range(n):
        t = gen_term(r)
        cases.append(("ast " + str(t), to_ast(t)))
    lines, metas = [], []
    for desc, a in cases:
        for rf, ff, fp in ((True, False, False), (False, False, False), (False, True, False), (False, False, True), (False, True, True), (True, False, True)):
            lines.append(tl.sexp(("addtime", int(rf), int(ff), int(fp), ast_to_sexp(a))))
            metas.append((desc, a, rf, ff, fp))
    outs = model_exe.batch(lines)
    dis = []
    hist = {"ok": 0}
    import copy
    for (desc, a, rf, ff, fp), mo in zip(metas, outs):
        got = run_impl(copy.deepcopy(a), rf, ff, fp)
        want = norm_model(mo)
        hist["ok" if got.startswith("ok") else got] = hist.get("ok" if got.startswith("ok") else got, 0) + 1
        if got != want:
            dis.append({"layer": "L1-term", "text": "{} with replace_future={} fail_future={} fail_past={}".format(desc, rf, ff, fp),
                        "model": want, "impl": got})
    return {"term_cases": len(metas), "term_outcomes": hist}, dis

def norm_stmt(out):
    """`ok (<terms>) (<futures>) <maxshift>` with the futures sorted"""
    if not out.startswith("ok "):
        return out
    p = tl.parse_sexp("(" + out[3:] + ")")
    terms, futs, ms = p[0], p[1], p[2]
    futs = sorted(futs, key=lambda f: (str(f[0]), int(f[1]), f[2] == "true", int(f[3])))
    return "ok {} {} {}".format(tl.sexp(tuple(terms)), tl.sexp(tuple(tuple(f) for f in futs)), ms)

def run_statements(seed, n, model_exe):
    """a statement as the sequence of its atom occurrences: one real `TermTransformer` with one set of future predicates and one
    `max_shift` cell visits the atoms in order, each with the flags of its position — against the model `addTimeStmt`
    (terms in order, bookkeeping at the end, the first rejection)"""
    import telingo.transformers.term as tt, copy
    r = random.Random(seed)
    FLAGS = ((True, False, False), (False, False, False), (False, True, False), (False, False, True), (False, True, True), (True, False, True))
    lines, metas, impl = [], [], []
    for _ in range(n):
        # mostly positions that accept everything (constraint bodies, heads with replaced future atoms): naive flags reject 85 %
        pick = lambda: FLAGS[1] if r.random() < 0.5 else (FLAGS[0] if r.random() < 0.6 else r.choice(FLAGS))
        occs = [(pick(), to_ast(gen_term(r))) for _ in range(r.randint(1, 5))]
        lines.append(tl.sexp(("addtimestmt",) + tuple((int(f[0]), int(f[1]), int(f[2]), ast_to_sexp(a)) for f, a in occs)))
        futures, ms = set(), [0]
        tr = tt.TermTransformer(futures)
        outs = []
        try:
            for (rf, ff, fp), a in occs:
                ar = arities(a)
                outs.append(result_sexp(tr.visit(copy.deepcopy(a), rf, ff, fp, ms), ar))
            fs = sorted(futures)
            got = "ok ({}) ({}) {}".format(" ".join(outs), " ".join("({} {} {} {})".format(tl.sexp(tl.QStr(nm)), a_, "true" if p_ else "false", s_)
                                                                     for nm, a_, p_, s_ in fs), ms[0])
        except BaseException as e:  # noqa
            if isinstance(e, KeyboardInterrupt):
                raise
            got = "ERR " + tl.classify_exc(e)
        impl.append(got)
        metas.append(occs)
    outs = model_exe.batch(lines)
    dis, hist = [], {}
    for occs, mo, got, line in zip(metas, outs, impl, lines):
        k = "ok" if got.startswith("ok") else got
        hist[k] = hist.get(k, 0) + 1
        a = norm_stmt(" ".join(mo.split()))
        b = norm_stmt(" ".join(got.split()))
        if a != b:
            dis.append({"layer": "L1-statement", "text": "atom occurrences of one statement: " + line, "model": a[:400], "impl": b[:400]})
    return {"statements": len(metas), "statement_outcomes": hist}, dis

if __name__ == "__main__":
    import sys
    exe = tl.LeanExe("telmodel")
    st, dis = run(int(sys.argv[1]) if len(sys.argv) > 1 else 1, 200, exe)
    print(st)
    for d in dis[:10]:
        print(d)

# --------------------------------------------------------------------------- symbols inside theory atoms (create_symbol)

def gen_sym(r, depth=2):
    """(text, typed) of a random ground symbol"""
    k = r.random()
    if depth == 0 or k < 0.35:
        j = r.random()
        if j < 0.4:
            n = r.choice([0, 1, 7, -1, -12])
            return str(n), ("n", n)
        if j < 0.55:
            s = r.choice(["x", "x y", "", "a-b", "<?", "#inf"])
            return '"{}"'.format(s), ("s", tl.QStr(s))
        if j < 0.65:
            return r.choice([("#inf", ("inf",)), ("#sup", ("sup",))])
        c = r.choice(["c", "d", "abc", "x1"])
        if r.random() < 0.25:
            return "-" + c, ("f", tl.QStr(c), 0)
        return c, ("f", tl.QStr(c), 1)
    args = [gen_sym(r, depth - 1) for _ in range(r.randint(1, 3))]
    if k < 0.55:
        name = r.choice(["f", "g", "h"])
        pos = r.random() < 0.75
        return ("" if pos else "-") + name + "(" + ",".join(a[0] for a in args) + ")", ("f", tl.QStr(name), int(pos)) + tuple(a[1] for a in args)
    txt = "(" + ",".join(a[0] for a in args) + ("," if len(args) == 1 else "") + ")"
    return txt, ("f", tl.QStr(""), 1) + tuple(a[1] for a in args)

def run_symbols(seed, n, model_exe):
    import clingo, telingo
    import telingo.transformers as tf
    import telingo.theory.formula as frm
    from clingo.ast import ProgramBuilder
    r = random.Random(seed)
    syms = [gen_sym(r) for _ in range(n)] + [("()", ("f", tl.QStr(""), 1))]
    text = "#program initial.\n" + "\n".join(":- &tel {{ probe({},{}) }}.".format(i, s[0]) for i, s in enumerate(syms))
    prg = clingo.Control(["0"], message_limit=0, logger=lambda c, m: None)
    with ProgramBuilder(prg) as b:
        tf.transform([text], b.add)
    prg.ground([("initial", [clingo.Number(0), clingo.Number(0)])])
    seen = {}
    for a in prg.theory_atoms:
        if a.term.name != "tel":
            continue
        for e in a.elements:
            t = e.terms[0]
            if t.type == clingo.TheoryTermType.Function and t.name == "probe":
                seen[t.arguments[0].number] = t.arguments[1]
    outs = model_exe.batch([tl.sexp(("symterm", s[1])) for s in syms])
    dis = []
    nsame = 0
    for i, ((txt, typed), mo) in enumerate(zip(syms, outs)):
        if i not in seen:
            dis.append({"layer": "L3-symbol", "text": txt, "what": "probe atom not found among the ground theory atoms"})
            continue
        tt = seen[i]
        dumped = tl.sexp(tl.dump_tterm(tt))
        mterm, _, back = mo.partition(") same")
        mterm = (mterm + ")") if _ else mo.rsplit(" ", 1)[0]
        if _ == "":
            # the model's round trip did not give the symbol back: outside the theorem's scope (`okSym`) — still compare terms
            mterm = mo[:mo.rfind(")") + 1] if mo.startswith("(") else mo
            # find the end of the first s-expression
            d = 0
            for j, ch in enumerate(mo):
                if ch == "(":
                    d += 1
                elif ch == ")":
                    d -= 1
                    if d == 0:
                        mterm = mo[:j + 1]; break
        else:
            nsame += 1
        if dumped != mterm:
            dis.append({"layer": "L3-symbol", "text": txt, "what": "clingo presents the symbol by another theory term than the model's symTerm",
                        "model": mterm, "impl": dumped})
            continue
        try:
            real = frm.create_symbol(tt)
            want = clingo.parse_term(txt)
            if real != want:
                dis.append({"layer": "L3-symbol", "text": txt, "what": "create_symbol does not give the symbol back", "impl": str(real)})
        except BaseException as e:  # noqa
            if isinstance(e, KeyboardInterrupt):
                raise
            dis.append({"layer": "L3-symbol", "text": txt, "what": "create_symbol raised " + tl.classify_exc(e)})
    return {"symbols": len(syms), "model_round_trips": nsame}, dis


# ---- transformers/head.py: theory_term_to_term vs `convTerm`

def gen_tterm(r, depth=3):
    """text of a theory term as it may occur as an argument of a head-formula atom or as an n-fold prefix"""
    k = r.random()
    if depth == 0 or k < 0.3:
        return r.choice(["1", "2", "0", "X", "Y", "a", "b", "\"s\"", "10", "#inf", "#sup"])
    if k < 0.42:
        return "{} {} {}".format(gen_tterm(r, depth - 1), r.choice(["+", "-"]), gen_tterm(r, depth - 1))
    if k < 0.5:
        return "{} {} {} {} {}".format(gen_tterm(r, depth - 1), r.choice(["+", "-"]), gen_tterm(r, depth - 1), r.choice(["+", "-"]), gen_tterm(r, 0))
    if k < 0.6:
        return "- {}".format(gen_tterm(r, depth - 1))
    if k < 0.7:
        return "({})".format(gen_tterm(r, depth - 1))
    if k < 0.8:
        return "{}({})".format(r.choice(["f", "g"]), ", ".join(gen_tterm(r, depth - 1) for _ in range(r.randint(1, 3))))
    if k < 0.88:
        n = r.randint(0, 3)
        return "(" + ", ".join(gen_tterm(r, depth - 1) for _ in range(n)) + ("," if n == 1 else "") + ")"
    if k < 0.92:
        return r.choice(["[{}]", "{{{}}}"]).format(", ".join(gen_tterm(r, depth - 1) for _ in range(r.randint(0, 2))))
    if k < 0.97:
        return "{} {} {}".format(gen_tterm(r, depth - 1), r.choice([">", "&", "|", ">?", ";>"]), gen_tterm(r, depth - 1))
    return "{} {}".format(r.choice([">", "~", ">>", "&"]), gen_tterm(r, depth - 1))

def hterm_sexp(x):
    """a clingo theory-term AST -> the model's HTerm (unparsed terms are parsed by the real TheoryParser first, as the
    transformer does)"""
    import clingo
    from clingo import ast
    import telingo.transformers.head as th
    T = ast.ASTType
    if x.ast_type == T.TheoryUnparsedTerm:
        return hterm_sexp(th.parse_raw_formula(x))
    if x.ast_type == T.SymbolicTerm:
        if x.symbol.type == clingo.SymbolType.Number:
            return ("n", x.symbol.number)
        return ("s", tl.QStr(str(x.symbol)))
    if x.ast_type == T.Variable:
        return ("v", tl.QStr(x.name))
    if x.ast_type == T.TheoryFunction:
        return ("f", tl.QStr(x.name)) + tuple(hterm_sexp(a) for a in x.arguments)
    if x.ast_type == T.TheorySequence:
        tag = "t" if x.sequence_type == ast.TheorySequenceType.Tuple else "q"
        return (tag,) + tuple(hterm_sexp(a) for a in x.terms)
    raise ValueError("unexpected theory term node " + str(x.ast_type))

def pterm_sexp(x):
    import clingo
    from clingo import ast
    T = ast.ASTType
    if x.ast_type == T.SymbolicTerm:
        if x.symbol.type == clingo.SymbolType.Number:
            return ("n", x.symbol.number)
        return ("s", tl.QStr(str(x.symbol)))
    if x.ast_type == T.Variable:
        return ("v", tl.QStr(x.name))
    if x.ast_type == T.Function:
        return ("f", tl.QStr(x.name)) + tuple(pterm_sexp(a) for a in x.arguments)
    if x.ast_type == T.UnaryOperation and x.operator_type == ast.UnaryOperator.Minus:
        return ("neg", pterm_sexp(x.argument))
    if x.ast_type == T.BinaryOperation and x.operator_type in (ast.BinaryOperator.Plus, ast.BinaryOperator.Minus):
        return ("bin", "+" if x.operator_type == ast.BinaryOperator.Plus else "-", pterm_sexp(x.left), pterm_sexp(x.right))
    return ("not-a-plain-term", tl.QStr(str(x.ast_type)))

def run_conv(seed, n, model_exe):
    """the real `theory_term_to_term` vs the model's `convTerm` on random theory terms: same plain term or both RuntimeError"""
    from clingo import ast
    import telingo.transformers.head as th
    r = random.Random(seed)
    texts, lines, impl = [], [], []
    stats = {}
    for _ in range(n):
        text = gen_tterm(r)
        holder = []
        try:
            ast.parse_string("&tel {{ w({}) }}.".format(text), holder.append)
            term = holder[1].head.elements[0].terms[0]
            if term.ast_type == ast.ASTType.TheoryUnparsedTerm:
                term = th.parse_raw_formula(term)
            arg = term.arguments[0]
            hs = hterm_sexp(arg)
        except (RuntimeError, ValueError, IndexError, AttributeError):
            stats["unparsable"] = stats.get("unparsable", 0) + 1
            continue
        try:
            got = tl.sexp(pterm_sexp(th.theory_term_to_term(arg)))
        except RuntimeError:
            got = "ERR RuntimeError"
        except BaseException as e:  # noqa
            if isinstance(e, KeyboardInterrupt):
                raise
            got = "ERR " + tl.classify_exc(e)
        texts.append(text); lines.append(tl.sexp(("convterm", hs))); impl.append(got)
    outs = model_exe.batch(lines)
    dis = []
    for text, mo, got in zip(texts, outs, impl):
        k = "rejected" if got.startswith("ERR") else "converted"
        stats[k] = stats.get(k, 0) + 1
        if " ".join(mo.split()) != " ".join(got.split()):
            dis.append({"layer": "L1-term-conversion", "text": "&tel { w(" + text + ") }.", "model": mo, "impl": got})
    return {"theory_terms": len(texts), "outcomes": stats}, dis


# ---- transformers/head.py: get_variables vs `getVariables`

def gen_vform(r, depth=2):
    """text of a head formula with variables in atom arguments and n-fold prefixes"""
    V = ["X", "Y", "Z", "_A", "Ab", "X1", "Xa", "x"]
    def arg():
        k = r.random()
        if k < 0.45:
            return r.choice(V)
        if k < 0.6:
            return "{} {} {}".format(r.choice(V), r.choice(["+", "-"]), r.choice(["1", "2", r.choice(V)]))
        if k < 0.75:
            return "f({},{})".format(r.choice(V + ["a", "1"]), r.choice(V + ["b"]))
        if k < 0.85:
            return "({},{})".format(r.choice(V), r.choice(V + ["1"]))
        return r.choice(["a", "1", "\"s\""])
    def atom():
        n = r.randint(0, 3)
        return r.choice(["p", "q", "-p"]) + ("({})".format(", ".join(arg() for _ in range(n))) if n else "")
    k = r.random()
    if depth == 0 or k < 0.3:
        return atom()
    if k < 0.5:
        return "{} {} {}".format(gen_vform(r, depth - 1), r.choice(["&", "|", ">?", ">*", ";>"]), gen_vform(r, depth - 1))
    if k < 0.7:
        return "{} ({})".format(r.choice([">", ">:", "~", ">?", ">*", ">>"]), gen_vform(r, depth - 1))
    if k < 0.9:
        return "{} {} ({})".format(r.choice(V + ["2", "X+1", "Y-Z"]), r.choice([">", ">:"]), gen_vform(r, depth - 1))
    return "({})".format(gen_vform(r, depth - 1))

def run_vars(seed, n, model_exe):
    """the real `get_variables` on head theory atoms vs the model's `getVariables`: the same names in the same order"""
    from clingo import ast
    import telingo.transformers.head as th
    r = random.Random(seed)
    texts, lines, impl = [], [], []
    skipped = 0
    for _ in range(n):
        els = [gen_vform(r) for _ in range(r.choice([1, 1, 1, 2]))]
        text = "&tel {{ {} }} :- dom(X).".format("; ".join(els))
        holder = []
        try:
            ast.parse_string(text, holder.append)
            atom = holder[1].head
            hs = ("t",) + tuple(hterm_sexp(el.terms[0]) for el in atom.elements)
            got = [str(v) for v in th.get_variables(atom)]
        except (RuntimeError, ValueError, IndexError, AttributeError):
            skipped += 1
            continue
        texts.append(text); lines.append(tl.sexp(("getvars", hs))); impl.append(got)
    outs = model_exe.batch(lines)
    dis = []
    hist = {}
    for text, mo, got in zip(texts, outs, impl):
        hist[len(got)] = hist.get(len(got), 0) + 1
        want = "(" + " ".join(tl.sexp(tl.QStr(v)) for v in got) + ")"
        if " ".join(mo.split()) != want:
            dis.append({"layer": "L1-head-variables", "text": text, "model": mo, "impl": want})
    return {"head_atoms": len(texts), "skipped": skipped, "number_of_variables": hist}, dis
