"""process-pool helper: map a top-level function over chunks of work, with deterministic chunking"""
import os, concurrent.futures as cf

def pmap(fn, items, jobs=None, chunk=None):
    items = list(items)
    if not items:
        return []
    jobs = jobs or int(os.environ.get("VERIF_JOBS", str(os.cpu_count() or 4)))
    jobs = max(1, min(jobs, len(items)))
    if jobs == 1:
        return [fn(x) for x in items]
    with cf.ProcessPoolExecutor(max_workers=jobs) as ex:
        return list(ex.map(fn, items, chunksize=chunk or 1))

def chunks(xs, n):
    xs = list(xs)
    k = max(1, (len(xs) + n - 1) // n)
    return [xs[i:i + k] for i in range(0, len(xs), k)]
