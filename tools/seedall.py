#!/usr/bin/env python3
"""Run every seeded change against the checks and record the outcome in seeded/<id>/meta.json (field `verified`)
and seeded/RESULTS.md.  Applies each patch to /repo and always reverts it."""
import json, os, subprocess, sys, glob
V = os.path.dirname(os.path.dirname(os.path.abspath(__file__)))
os.chdir(V)
ALSO = {"S_C09": ["C02", "C14"], "S_C16": ["C03"], "S_C03": ["C16", "C13"], "S_C15": ["C07"], "S_C13": ["C03"], "S_C12": ["C14"], "S_C01": ["C12"],
        "S_C10": [], "S_C17": ["C03"], "S_C05": ["C13"],
        "S3_C09": ["C02", "C06"], "S3_C16": ["C03"], "S3_C03": ["C16"], "S3_C17": ["C13"],
        "S4_A_C04": ["C06"], "S4_G_C14": ["C04"], "S4_H_C10": ["C12"], "S4_D_C13": ["C03"],
        "S6_C03": ["C12", "C13"], "S6_C12": ["C03"], "S6_C13": ["C03"], "S6_C04": ["C16"], "S6_C01": ["C12", "C10"], "S6_C02": ["C09"],
        "S7_C09": ["C08"], "S7_C16": ["C03"], "S7_C17": ["C03", "C13"], "S7_C11": ["C06"], "S7_C15": ["C05"],
        "S8_C12": ["C03"], "S8_C13": ["C03"], "S8_C02": ["C11"], "S8_C14": ["C06"],
        "S11_C13": ["C03"], "S11_C17": ["C03"], "S11_C15": ["C11"], "S11_C01": ["C12"],
        "S10_C03": ["C13"], "S10_C16": ["C03"], "S10_C09": ["C02"], "S10_C12": ["C04"],
        "S9_C16": ["C04"], "S9_C07": ["C15"], "S9_C06": ["C03"], "S9_C09": ["C02"], "S9_C17": ["C09"],
        "S5_C16": ["C04"], "S5_C06": ["C04"], "S5_C09": ["C02"], "S5_C15": ["C05"], "S5_C07": ["C05"],
        "S2_C02": ["C01"], "S2_C13": ["C03"], "S2_C04": ["C12"], "S2_C12": ["C04"], "S2_C06": ["C03"]}
def sh(cmd, **kw):
    return subprocess.run(cmd, shell=True, capture_output=True, text=True, **kw)
rows = []
PATTERN = sys.argv[1] if len(sys.argv) > 1 else "S*_C*"       # e.g. tools/seedall.py 'S5_*' : only these seeds; RESULTS.md is merged
for d in sorted(glob.glob("seeded/" + PATTERN)):
    sid = os.path.basename(d)
    meta = json.load(open(os.path.join(d, "meta.json")))
    prop = meta.get("property", sid.split("_")[1])
    assert sh("git -C /repo diff --quiet").returncode == 0, "repo dirty"
    r0 = sh("cd /repo && PYTHONPATH=/repo /venv/bin/python {}/{}/demo.py".format(V, d)).returncode
    ap = sh("git -C /repo apply {}/{}/patch.diff".format(V, d))
    ver = {"demo_rc_unchanged": r0, "applies": ap.returncode == 0}
    try:
        if ap.returncode == 0:
            t = sh("cd /repo && /venv/bin/python -m pytest -q -p no:cacheprovider 2>&1 | tail -1").stdout.strip()
            ver["test_suite_with_change"] = t
            ver["demo_rc_with_change"] = sh("cd /repo && PYTHONPATH=/repo /venv/bin/python {}/{}/demo.py".format(V, d)).returncode
            ver["checks"] = {}
            for c in [prop] + ALSO.get(sid, []):
                p = sh("VERIF_EVIDENCE_DIR=/verif/replays/seed-evidence ./check {} 2>/dev/null".format(c))
                line = [l for l in p.stdout.split("\n") if l.startswith(("VIOLATION", "OK", "INFRA"))]
                ver["checks"][c] = {"rc": p.returncode, "line": (line[0] if line else "")[:160]}
    finally:
        sh("git -C /repo checkout -- .")
        sh("/venv/bin/python tools/extract.py")
    meta["verified"] = ver
    json.dump(meta, open(os.path.join(d, "meta.json"), "w"), indent=1)
    rows.append((sid, prop, ver))
    print(sid, json.dumps(ver)[:300], flush=True)
old_rows = {}
if os.path.exists("seeded/RESULTS.md"):
    for l in open("seeded/RESULTS.md"):
        c = [x.strip() for x in l.strip().strip("|").split("|")]
        if len(c) == 5 and c[0].startswith("S"):
            old_rows[c[0]] = l
with open("seeded/RESULTS.md", "w") as f:
    f.write("| seed | property | tests pass with change | demo unchanged/with change | checks (exit code) |\n|---|---|---|---|---|\n")
    done = {sid for sid, _, _ in rows}
    for sid in sorted(set(old_rows) - done):
        f.write(old_rows[sid])
    for sid, prop, v in rows:
        f.write("| {} | {} | {} | {}/{} | {} |\n".format(sid, prop, v.get("test_suite_with_change", "-"), v.get("demo_rc_unchanged"), v.get("demo_rc_with_change"),
                "; ".join("{}: {}{}".format(c, x["rc"], " (no-failing-input-found)" if "no-failing" in x["line"] else "") for c, x in v.get("checks", {}).items())))
