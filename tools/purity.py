"""
Static scan for C14: state that could survive between two translations in one process.

A sufficient *syntactic* condition for "translation is a function of the input text" on the Python side: no function has a
mutable default argument, no module or class body binds a name to a mutable object (list / dict / set display, comprehension,
or a call), no function uses `global` / `nonlocal` on module state, and no function assigns to an attribute of a module or class
object.  Everything found is listed; entries that are immutable in effect (tuples of constants, compiled theory text, …) are
recognised by shape, the rest is reported.
"""
import ast, os

def _const(v):
    if isinstance(v, ast.Constant):
        return True
    if isinstance(v, ast.Tuple):
        return all(_const(x) for x in v.elts)
    if isinstance(v, ast.UnaryOp) and isinstance(v.operand, ast.Constant):
        return True
    if isinstance(v, (ast.Name, ast.Attribute)):
        return True                      # an alias of something else that is scanned where it is defined
    if isinstance(v, ast.JoinedStr):
        return True
    if isinstance(v, ast.BinOp):
        return _const(v.left) and _const(v.right)
    return False

def scan(repo):
    out = []
    root = os.path.join(repo, "telingo")
    for dp, _, fs in os.walk(root):
        for f in sorted(fs):
            if not f.endswith(".py"):
                continue
            path = os.path.join(dp, f)
            rel = os.path.relpath(path, repo)
            tree = ast.parse(open(path).read())
            classes = {n.name for n in ast.walk(tree) if isinstance(n, ast.ClassDef)}
            for node in ast.walk(tree):
                if isinstance(node, (ast.FunctionDef, ast.AsyncFunctionDef, ast.Lambda)):
                    a = node.args
                    for d in list(a.defaults) + [x for x in a.kw_defaults if x is not None]:
                        if not _const(d):
                            out.append({"file": rel, "line": d.lineno, "kind": "mutable default argument",
                                        "where": getattr(node, "name", "<lambda>"), "code": ast.unparse(d)})
                if isinstance(node, (ast.Global, ast.Nonlocal)):
                    out.append({"file": rel, "line": node.lineno, "kind": "global/nonlocal statement", "where": "", "code": ast.unparse(node)})
                if isinstance(node, (ast.Assign, ast.AugAssign)) and not isinstance(node, ast.AnnAssign):
                    targets = node.targets if isinstance(node, ast.Assign) else [node.target]
                    for t in targets:
                        # assignment to an attribute of a class object or module from inside a function
                        if isinstance(t, ast.Attribute) and isinstance(t.value, ast.Name) and (t.value.id in classes or t.value.id.startswith("_") and t.value.id not in ("_",)) \
                                and t.value.id != "self":
                            # `_x.attr = …` where _x is an imported module alias (telingo's import convention `import m as _m`)
                            out.append({"file": rel, "line": node.lineno, "kind": "assignment to an attribute of a module or class object",
                                        "where": "", "code": ast.unparse(node)})
            def body_scan(body, where):
                for st in body:
                    if isinstance(st, ast.Assign):
                        if not _const(st.value):
                            out.append({"file": rel, "line": st.lineno, "kind": "module/class level binding to a non-constant object",
                                        "where": where, "code": ast.unparse(st)[:120]})
                    elif isinstance(st, ast.ClassDef):
                        body_scan(st.body, where + st.name + ".")
            body_scan(tree.body, "")
    return out

if __name__ == "__main__":
    import sys, json
    for x in scan(sys.argv[1] if len(sys.argv) > 1 else "/repo"):
        print(json.dumps(x))
