"""
Static scan for C14: state that could survive between two translations in one process.

A sufficient *syntactic* condition for "translation is a function of the input text" on the Python side: no function has a
mutable default argument, no module or class body binds a name to a mutable object (list / dict / set display, comprehension,
or a call), no function uses `global` / `nonlocal` on module state, and no function assigns to an attribute of a module or class
object.  Everything found is listed; entries that are immutable in effect (tuples of constants, compiled theory text, …) are
recognised by shape, the rest is reported.  A module / class level *container of constants* (a list / set / dict display, or
`set([...])`, a union of such, …) is immutable in effect when no code of the package mutates it: those are not listed at all unless
a mutating method call, a subscript assignment / deletion or an augmented assignment on that name is found anywhere in the
package (then: kind "mutation of a module/class level container").  Rewriting or reordering the contents of such a container is
therefore not a finding.
"""
import ast, os

def _const(v):
    if isinstance(v, ast.Constant):
        return True
    if isinstance(v, ast.Tuple):
        return all(_const(x) for x in v.elts)
    if isinstance(v, ast.UnaryOp) and isinstance(v.operand, ast.Constant):
        return True
    if isinstance(v, (ast.Name, ast.Attribute)):
        return True                      # an alias of something else that is scanned where it is defined
    if isinstance(v, ast.JoinedStr):
        return True
    if isinstance(v, ast.BinOp):
        return _const(v.left) and _const(v.right)
    return False

_CTORS = {"set", "frozenset", "list", "tuple", "dict", "sorted"}
_SETOPS = {"union", "intersection", "difference", "symmetric_difference", "copy"}
MUTATORS = {"append", "extend", "insert", "add", "update", "pop", "popitem", "remove", "discard", "clear", "setdefault", "sort",
            "reverse", "__setitem__", "__delitem__", "intersection_update", "difference_update", "symmetric_difference_update"}

def _container(v):
    """a container whose contents are constants (or such containers, or names of things scanned where they are defined)"""
    ok = lambda x: _const(x) or _container(x)
    if isinstance(v, (ast.List, ast.Set, ast.Tuple)):
        return all(ok(x) for x in v.elts)
    if isinstance(v, ast.Dict):
        return all(k is not None and ok(k) for k in v.keys) and all(ok(x) for x in v.values)
    if isinstance(v, ast.Call) and not v.keywords:
        if isinstance(v.func, ast.Name) and v.func.id in _CTORS:
            return all(ok(a) for a in v.args)
        if isinstance(v.func, ast.Attribute) and v.func.attr in _SETOPS:
            return ok(v.func.value) and all(ok(a) for a in v.args)
    if isinstance(v, ast.BinOp) and isinstance(v.op, (ast.BitOr, ast.BitAnd, ast.Sub, ast.Add, ast.BitXor)):
        return ok(v.left) and ok(v.right)
    return False

def _refers(node, names):
    if isinstance(node, ast.Name):
        return node.id if node.id in names else None
    if isinstance(node, ast.Attribute):
        return node.attr if node.attr in names else None
    return None

def _locals(fn):
    out = {a.arg for a in fn.args.args + fn.args.kwonlyargs + fn.args.posonlyargs}
    if fn.args.vararg:
        out.add(fn.args.vararg.arg)
    if fn.args.kwarg:
        out.add(fn.args.kwarg.arg)
    for n in ast.walk(fn):
        if isinstance(n, ast.Name) and isinstance(n.ctx, ast.Store):
            out.add(n.id)
    return out

def _mutations(tree, rel, names):
    """mutating uses of the container names: method calls, subscript stores / deletes, augmented assignments"""
    out = []
    def visit(node, local):
        if isinstance(node, (ast.FunctionDef, ast.AsyncFunctionDef, ast.Lambda)):
            local = local | (_locals(node) if not isinstance(node, ast.Lambda) else {a.arg for a in node.args.args})
        hit = None
        if isinstance(node, ast.Call) and isinstance(node.func, ast.Attribute) and node.func.attr in MUTATORS:
            hit = node.func.value
        elif isinstance(node, (ast.Assign, ast.Delete, ast.AugAssign)):
            tg = node.targets if not isinstance(node, ast.AugAssign) else [node.target]
            for t in tg:
                if isinstance(t, ast.Subscript):
                    hit = t.value
                elif isinstance(node, ast.AugAssign) and local:      # `name |= ...` inside a function
                    hit = t
        if hit is not None:
            nm = _refers(hit, names)
            if nm is not None and not (isinstance(hit, ast.Name) and hit.id in local):
                out.append({"file": rel, "line": node.lineno, "kind": "mutation of a module/class level container",
                            "where": nm, "code": ast.unparse(node)[:120]})
        for ch in ast.iter_child_nodes(node):
            visit(ch, local)
    visit(tree, frozenset())
    return out

def scan(repo):
    out = []
    containers = set()
    trees = []
    root = os.path.join(repo, "telingo")
    for dp, _, fs in os.walk(root):
        for f in sorted(fs):
            if not f.endswith(".py"):
                continue
            path = os.path.join(dp, f)
            rel = os.path.relpath(path, repo)
            tree = ast.parse(open(path).read())
            trees.append((tree, rel))
            classes = {n.name for n in ast.walk(tree) if isinstance(n, ast.ClassDef)}
            for node in ast.walk(tree):
                if isinstance(node, (ast.FunctionDef, ast.AsyncFunctionDef, ast.Lambda)):
                    a = node.args
                    for d in list(a.defaults) + [x for x in a.kw_defaults if x is not None]:
                        if not _const(d):
                            out.append({"file": rel, "line": d.lineno, "kind": "mutable default argument",
                                        "where": getattr(node, "name", "<lambda>"), "code": ast.unparse(d)})
                if isinstance(node, (ast.Global, ast.Nonlocal)):
                    out.append({"file": rel, "line": node.lineno, "kind": "global/nonlocal statement", "where": "", "code": ast.unparse(node)})
                if isinstance(node, (ast.Assign, ast.AugAssign)) and not isinstance(node, ast.AnnAssign):
                    targets = node.targets if isinstance(node, ast.Assign) else [node.target]
                    for t in targets:
                        # assignment to an attribute of a class object or module from inside a function
                        if isinstance(t, ast.Attribute) and isinstance(t.value, ast.Name) and (t.value.id in classes or t.value.id.startswith("_") and t.value.id not in ("_",)) \
                                and t.value.id != "self":
                            # `_x.attr = …` where _x is an imported module alias (telingo's import convention `import m as _m`)
                            out.append({"file": rel, "line": node.lineno, "kind": "assignment to an attribute of a module or class object",
                                        "where": "", "code": ast.unparse(node)})
            def body_scan(body, where):
                for st in body:
                    if isinstance(st, ast.Assign):
                        if not _const(st.value) and _container(st.value) and all(isinstance(t, ast.Name) for t in st.targets):
                            containers.update(t.id for t in st.targets)
                        elif not _const(st.value):
                            out.append({"file": rel, "line": st.lineno, "kind": "module/class level binding to a non-constant object",
                                        "where": where, "code": ast.unparse(st)[:120]})
                    elif isinstance(st, ast.ClassDef):
                        body_scan(st.body, where + st.name + ".")
            body_scan(tree.body, "")
    for tree, rel in trees:
        out += _mutations(tree, rel, containers)
    return out

if __name__ == "__main__":
    import sys, json
    for x in scan(sys.argv[1] if len(sys.argv) > 1 else "/repo"):
        print(json.dumps(x))
