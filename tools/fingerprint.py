"""
Structural fingerprints of telingo's source files (AST without docstrings and positions).  They never decide anything: when the
source differs from the fingerprints recorded for the tree the models were written against (notes/source_fingerprints.json), the
checks run their failing-input search in its deep mode (three times the samples) — more effort exactly when the code has changed.
"""
import ast, hashlib, json, os, sys

BASE = os.path.join(os.path.dirname(os.path.dirname(os.path.abspath(__file__))), "notes", "source_fingerprints.json")

def _strip(tree):
    for node in ast.walk(tree):
        if isinstance(node, (ast.FunctionDef, ast.AsyncFunctionDef, ast.ClassDef, ast.Module)):
            if node.body and isinstance(node.body[0], ast.Expr) and isinstance(node.body[0].value, ast.Constant) and isinstance(node.body[0].value.value, str):
                node.body = node.body[1:] or [ast.Pass()]
    return tree

def _canon(node):
    """interpreter-independent rendering of an AST: node types, identifiers and constants; empty / absent fields are skipped, so
    that optional fields added by newer Python versions (type_params, ...) do not change the fingerprint"""
    if isinstance(node, ast.AST):
        parts = []
        for f in node._fields:
            if f in ("type_comment", "type_params", "kind", "ctx"):
                continue
            v = getattr(node, f, None)
            if v is None or v == []:
                continue
            parts.append(f + "=" + _canon(v))
        return type(node).__name__ + "(" + ",".join(parts) + ")"
    if isinstance(node, list):
        return "[" + ",".join(_canon(x) for x in node) + "]"
    return repr(node)

def fingerprints(repo):
    out = {}
    root = os.path.join(repo, "telingo")
    for dp, dn, fs in os.walk(root):
        if "tests" in dp.split(os.sep):
            continue
        for f in sorted(fs):
            if f.endswith(".py"):
                p = os.path.join(dp, f)
                try:
                    dump = _canon(_strip(ast.parse(open(p).read())))
                except SyntaxError:
                    dump = "syntax error"
                out[os.path.relpath(p, repo)] = hashlib.sha256(dump.encode()).hexdigest()[:16]
    return out

def changed_files(repo):
    try:
        base = json.load(open(BASE))["files"]
    except Exception:
        return []
    cur = fingerprints(repo)
    return sorted(f for f in set(base) | set(cur) if base.get(f) != cur.get(f))

if __name__ == "__main__":
    repo = os.environ.get("TELINGO_REPO", "/repo")
    if "--update" in sys.argv:
        json.dump({"comment": "AST fingerprints of /repo's telingo package at the state the models describe; tools/fingerprint.py --update",
                   "files": fingerprints(repo)}, open(BASE, "w"), indent=1)
    print(changed_files(repo))
