"""
Shared by C01/C02/C09/C17: the rule fragment.

correspondence (L1-lite + L5):
  * `telmodel parts`  vs the (root, name, range) list and future signatures returned by the real `transform`
  * `telmodel ground` (the model's accumulated ground program G(P,h), solved by clingo) vs the answer sets
    of the real incremental run at every horizon
search: the real run vs `telspec tsm` (oracles.compare_with_spec)
"""
import random, re
import tl, gen, oracles, par

MODEL = tl.LeanExe("telmodel")

def solve_asp(text, atoms):
    import clingo
    extra = []
    for a in atoms:
        if not a.startswith("-") and ("-" + a) in atoms:
            extra.append(':- u("{}",K), u("-{}",K).'.format(a, a))
    c = clingo.Control(["0"], message_limit=0, logger=lambda c, m: None)
    c.add("base", [], text + "\n" + "\n".join(extra))
    c.ground([("base", [])])
    ms = []
    def om(m):
        out = []
        for x in m.symbols(atoms=True):
            if x.name == "u":
                out.append("{}@{}".format(x.arguments[0].string, x.arguments[1].number))
        ms.append(tuple(sorted(out)))
    c.solve(on_model=om)
    return sorted(ms)

def impl_parts(text):
    import telingo.transformers as tf
    fs, parts = tf.transform([text], lambda s: None)
    return ([(r, n, list(rg)) for r, n, rg in parts], sorted(set((n, a, p) for n, a, p in fs)))

def sig_of(atom, n):
    pos = not atom.startswith("-")
    a = atom.lstrip("-")
    name = a.split("(")[0]
    arity = 0 if "(" not in a else a.count(",") + 1   # generator atoms have flat arguments
    return ("__future_" + name, arity + 2, pos)

def corr_chunk(args):
    seed, cases, H = args
    dis = []
    n5 = 0
    lines = []
    for rules in cases:
        lines.append(tl.sexp(("parts", tuple(rules))))
        for h in range(H + 1):
            lines.append(tl.sexp(("ground", h, tuple(rules))))
    outs = MODEL.batch(lines)
    for i, rules in enumerate(cases):
        text = tl.render_prog(rules, random.Random(seed * 7 + i))
        base = i * (H + 2)
        # L1-lite
        try:
            iparts, isigs = impl_parts(text)
        except BaseException as e:  # noqa
            if isinstance(e, KeyboardInterrupt):
                raise
            dis.append({"layer": "L1", "text": text, "rules": rules, "what": "transform raised {}: {}".format(tl.classify_exc(e), str(e)[:200])})
            continue
        mp, mf = tl.parse_sexp(outs[base])
        mparts = [(r, n, [int(x) for x in rg]) for r, n, rg in mp]
        msigs = sorted(set(sig_of(a, int(n)) for a, n in mf))
        if mparts != iparts or msigs != isigs:
            dis.append({"layer": "L1", "text": text, "rules": rules, "what": "parts / future signatures differ",
                        "model": [mparts, msigs], "impl": [iparts, isigs]})
            continue
        # L5
        r = oracles.impl_models(text, H)
        if r[0] == "err":
            if r[1] == "Timeout":
                continue      # slow is not wrong: the case is skipped (telingo's clause unfolding can be exponential)
            dis.append({"layer": "L5", "text": text, "rules": rules, "what": "implementation raised " + r[1] + ": " + r[2]})
            continue
        atoms = oracles.atoms_of_rules(rules)
        for h in range(H + 1):
            want = solve_asp(outs[base + 1 + h], atoms)
            got = r[1].get(h, [])
            n5 += 1
            if want != got:
                dis.append({"layer": "L5", "text": text, "rules": rules, "h": h, "what": "answer sets of the model's ground program differ",
                            "model": [list(m) for m in want][:6], "impl": [list(m) for m in got][:6]})
                break
    return {"programs": len(cases), "L5_horizon_comparisons": n5}, dis

def run_corr(ctx, cases, H):
    work = [(ctx.seed + j, c, H) for j, c in enumerate(par.chunks(cases, ctx.jobs * 2))]
    tot = {"programs": 0, "L5_horizon_comparisons": 0}
    dis = []
    for st, d in par.pmap(corr_chunk, work, ctx.jobs):
        for k in st:
            tot[k] = tot.get(k, 0) + st[k]
        dis += d
    return tot, dis

def search_chunk(args):
    seed, cases, H = args
    return oracles.compare_with_spec(cases, H, style_seed=seed)

def run_search(ctx, cases, H):
    work = [(ctx.seed + j, c, H) for j, c in enumerate(par.chunks(cases, ctx.jobs * 2))]
    fails = []
    for f in par.pmap(search_chunk, work, ctx.jobs):
        fails += f
    out = []
    for f in fails[:3]:
        if f.get("kind") == "models":
            rules, h = oracles.shrink_rules([tuple(r) if not isinstance(r, tuple) else r for r in f["rules"]], f["h"], oracles.fails_against_spec)
            ff = oracles.compare_with_spec([rules], h)
            if ff:
                f = ff[0]
        out.append(f)
    return out + fails[3:]

def histogram(cases):
    hist = {}
    for rules in cases:
        for _, part, head, body in rules:
            k = "head:{}@{}".format(head[0] if head[0] != "atom" else ("atom" if head[2] == 0 else "future"), part)
            hist[k] = hist.get(k, 0) + 1
            for l in body:
                kk = "lit:" + l[0] + ("" if l[0] != "atom" else (":past" if l[3] < 0 else ":future" if l[3] > 0 else ":now")) + ":" + l[1]
                hist[kk] = hist.get(kk, 0) + 1
    return hist
