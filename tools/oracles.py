"""
Property oracles: searches for a concrete failing input on the real code against
the executable specification (`telspec`).  Used (a) on every run as a cheap
conformance sample and (b) as the failing-input search when a proof obligation,
an extraction or a correspondence check breaks.

Every function returns (stats, failures); a failure is a JSON-able dict that
`replay` can re-run.
"""
import random, itertools, collections
import tl, gen

SPEC = tl.LeanExe("telspec")

def atoms_of_rules(rules):
    s = set()
    def form(f):
        if f[0] == "a":
            s.add(f[1])
        else:
            for x in f[1:]:
                if isinstance(x, tuple):
                    form(x)
    def dpath(p):
        if p[0] == "step":
            s.add(p[1])
        elif p[0] == "test":
            if p[1][0] == "a":
                s.add(p[1][1])
        else:
            for x in p[1:]:
                dpath(x)
    def dform(f):
        if f[0] == "a":
            s.add(f[1])
        elif f[0] in ("dia", "box"):
            dpath(f[1]); dform(f[2])
    for _, part, head, body in rules:
        if head[0] in ("atom",):
            s.add(head[1])
        elif head[0] in ("disj", "choice"):
            s.update(head[1:])
        elif head[0] == "nlit":
            s.add(head[2])
        elif head[0] == "tel":
            form(head[1])
        for l in body:
            if l[0] in ("atom", "init"):
                s.add(l[2])
            elif l[0] == "tel":
                form(l[2])
            elif l[0] == "del":
                dform(l[2])
    return sorted(s)

def impl_models(text, H, **kw):
    """run the implementation; returns ('ok', {h: models}) or ('err', class, message)"""
    dedup = kw.pop("dedup", False)
    try:
        res = tl.run_telingo(text, H, **kw)
        if dedup:
            # as sets: an answer set that clasp's incremental enumeration lists twice (see compare_with_spec) counts once
            res = {h: sorted(set(ms)) for h, ms in res.items()}
        return ("ok", res)
    except BaseException as e:  # noqa
        if isinstance(e, KeyboardInterrupt):
            raise
        return ("err", tl.classify_exc(e), str(e)[:300])

def spec_tsm_lines(rules, atoms, H):
    return [tl.sexp(("tsm", h, tuple(atoms), tuple(rules))) for h in range(H + 1)]

MAX_BITS = 12

def has_theory_atoms(rules):
    return any(head[0] == "tel" or any(l[0] in ("tel", "del") for l in body) for _, _, head, body in rules)

def compare_with_spec(cases, H, style_seed=None, extra_text=""):
    """
    cases: list of typed rule lists.  Runs telingo and `telspec tsm` on each, for h = 0..H.
    Returns list of failures.
    """
    lines, metas = [], []
    for idx, rules in enumerate(cases):
        Hcase = H
        if isinstance(rules, tuple) and len(rules) == 3 and rules[0] == "H":
            Hcase, rules = rules[1], rules[2]           # a case with its own horizon
        atoms = atoms_of_rules(rules)
        style = random.Random(style_seed * 1000003 + idx) if style_seed is not None else None
        text = tl.render_prog(rules, style) + extra_text
        inp = text
        if style is not None and not extra_text and style.random() < 0.2:
            # two inputs: every input starts in the initial part, whatever the previous one ended with — also when its last line
            # is a comment without a newline
            ini = [x for x in rules if x[1] == "initial"]
            rest = [x for x in rules if x[1] != "initial"]
            if ini and rest:
                tail = style.choice(["\n% end of the first input", " % trailing comment", "", "\n"])
                inp = [tl.render_prog(rest, None) + tail, "\n".join(tl.render_rule(x, None, with_part=False) for x in ini) + style.choice(["", "\n"])]
                text = "\n%%% next input\n".join(inp)
        # the brute-force enumerator is exponential in atoms x states: keep every instance within MAX_BITS
        Hc = min(Hcase, MAX_BITS // max(1, len(atoms)) - 1)
        if Hc < 0:
            continue
        metas.append((idx, rules, atoms, (text, inp), Hc, len(lines)))
        lines += spec_tsm_lines(rules, atoms, Hc)
    outs = SPEC.batch(lines, timeout=3000)
    fails = []
    for (idx, rules, atoms, (text, inp), Hc, off) in metas:
        r = impl_models(inp, Hc)
        if r[0] == "err":
            if r[1] == "Timeout":
                continue      # slow is not wrong: the case is skipped (telingo's clause unfolding can be exponential)
            fails.append({"kind": "exception", "text": text, "rules": rules, "error": r[1], "message": r[2], "index": idx})
            continue
        for h in range(Hc + 1):
            exp = tl.parse_spec_models(outs[off + h])
            got = r[1].get(h, [])
            if got != exp and has_theory_atoms(rules) and sorted(set(got)) == exp:
                # the same answer set reported twice: clasp's incremental enumeration does that when an external atom that
                # was false in an earlier solve call is set free (telingo's placeholders for `>` beyond the horizon) — reproduced
                # with backend statements alone (DESIGN §11.7); the properties checked through this oracle speak about which
                # answer sets exist, not how often one is listed
                continue
            if got != exp:
                fails.append({"kind": "models", "text": text, "rules": rules, "h": h, "index": idx,
                              "expected": [list(m) for m in exp][:8], "got": [list(m) for m in got][:8],
                              "n_expected": len(exp), "n_got": len(got)})
                break
    return fails

def shrink_rules(rules, H, still_fails):
    """greedy: drop rules, then body literals, then lower the horizon"""
    rules = list(rules)
    changed = True
    while changed:
        changed = False
        for i in range(len(rules)):
            cand = rules[:i] + rules[i + 1:]
            if cand and still_fails(cand, H):
                rules = cand; changed = True; break
        if changed:
            continue
        for i, (_, part, head, body) in enumerate(rules):
            for j in range(len(body)):
                nb = body[:j] + body[j + 1:]
                if head[0] == "falsum" and not nb:
                    continue
                cand = rules[:i] + [("rule", part, head, tuple(nb))] + rules[i + 1:]
                if still_fails(cand, H):
                    rules = cand; changed = True; break
            if changed:
                break
    while H > 0 and still_fails(rules, H - 1):
        H -= 1
    return rules, H

def fails_against_spec(rules, H):
    return bool(compare_with_spec([rules], H))

# --------------------------------------------------------------------------- witness oracles (C03 / C05)

def witness_program(forms, atoms, kind, part="always", style=None):
    """free atoms in every state + one witness atom per formula: w_i :- not not &tel{f_i}."""
    lines = ["#program always. { " + "; ".join(atoms) + " }."]
    for i, f in enumerate(forms):
        body = tl.render_tel(f, style) if kind == "tel" else tl.render_del(f)
        lines.append("#program {}. w{} :- not not &{} {{ {} }}.".format(part, i, kind, body))
    return "\n".join(lines)

def split_model(model, nforms):
    """model (tuple of 'x@k') -> (trace as list of atom lists, witness set)"""
    wit = set(); tr = collections.defaultdict(list)
    for s in model:
        a, k = s.rsplit("@", 1)
        k = int(k)
        if a.startswith("w") and a[1:].isdigit() and int(a[1:]) < nforms:
            wit.add((int(a[1:]), k))
        else:
            tr[k].append(a)
    return tr, wit

def compare_witness(cases, H, kind, style_seed=None):
    """
    cases: list of (forms, atoms).  For every horizon h <= H and every answer set, the witness atom
    w_i@k must be present iff the specification evaluates f_i to true at k of that trace; and the
    answer sets must be exactly one per trace over `atoms` (formulas are observers).
    """
    fails = []
    lines, metas = [], []
    cmd = "ltl" if kind == "tel" else "ldl"
    for idx, (forms, atoms) in enumerate(cases):
        style = random.Random(style_seed * 1000003 + idx) if style_seed is not None else None
        text = witness_program(forms, atoms, kind, style=style)
        r = impl_models(text, H)
        if r[0] == "err":
            if r[1] == "Timeout":
                continue      # slow is not wrong: the case is skipped (telingo's clause unfolding can be exponential)
            fails.append({"kind": "exception", "text": text, "forms": forms, "error": r[1], "message": r[2], "index": idx})
            continue
        for h in range(H + 1):
            models = r[1].get(h, [])
            nexp = (2 ** len(atoms)) ** (h + 1)
            traces = []
            seen = set()
            for m in models:
                tr, wit = split_model(m, len(forms))
                key = tuple(tuple(sorted(tr.get(k, []))) for k in range(h + 1))
                seen.add(key)
                traces.append((key, wit))
            if len(models) != nexp or len(seen) != nexp:
                fails.append({"kind": "count", "text": text, "forms": forms, "h": h, "index": idx,
                              "n_expected": nexp, "n_got": len(models), "n_distinct_traces": len(seen)})
                break
            for i, f in enumerate(forms):
                lines.append(tl.sexp((cmd, h, f) + tuple(k for k, _ in traces)))
                metas.append((idx, text, forms, h, i, traces))
    outs = SPEC.batch(lines)
    bad_idx = set()
    for out, (idx, text, forms, h, i, traces) in zip(outs, metas):
        if idx in bad_idx:
            continue
        if out.startswith("ERR"):
            raise RuntimeError("telspec: " + out)
        vals = out.split(" ") if traces else []
        for bits, (key, wit) in zip(vals, traces):
            got = "".join("1" if (i, k) in wit else "0" for k in range(h + 1))
            if got != bits:
                bad_idx.add(idx)
                fails.append({"kind": "value", "text": text, "forms": forms, "h": h, "index": idx, "formula": i,
                              "trace": [list(s) for s in key], "expected_bits": bits, "got_bits": got})
                break
    return fails

# --------------------------------------------------------------------------- C09 monitor

def wellformed_violations(texts, H, **kw):
    """
    Run the implementation and check every answer set at every horizon: time stamps within 0..h,
    exactly __initial(0) and __final(h), __future_p(args,n,k) accompanied by p(args,k).
    Returns (number of answer sets inspected, list of violations).
    """
    import clingo
    bad = []
    count = [0]
    def record(m, h):
        count[0] += 1
        syms = list(m.symbols(atoms=True))
        sset = set(syms)
        ini, fin = [], []
        for s in syms:
            if s.type != clingo.SymbolType.Function or not s.arguments:
                continue
            last = s.arguments[-1]
            if last.type != clingo.SymbolType.Number:
                continue
            k = last.number
            if s.name == "__initial" and len(s.arguments) == 1:
                ini.append(k)
            elif s.name == "__final" and len(s.arguments) == 1:
                fin.append(k)
            if not (0 <= k <= h):
                bad.append({"what": "time stamp outside 0..h", "atom": str(s), "h": h})
            if s.name.startswith("__future_") and len(s.arguments) >= 2:
                target = clingo.Function(s.name[len("__future_"):], s.arguments[:-2] + [last], s.positive)
                if target not in sset:
                    bad.append({"what": "future atom without its target", "atom": str(s), "h": h})
        if ini != [0]:
            bad.append({"what": "states marked initial", "got": ini, "h": h})
        if fin != [h]:
            bad.append({"what": "states marked final", "got": fin, "h": h})
    try:
        tl.run_telingo(texts, H, record=record, **kw)
    except BaseException as e:  # noqa
        if isinstance(e, KeyboardInterrupt):
            raise
        if not isinstance(e, tl.Timeout):
            bad.append({"what": "exception " + tl.classify_exc(e), "message": str(e)[:200]})
    return count[0], bad[:5]


def replay_record(obj, H=3, **kw):
    """re-run the program(s) of a failure record on the current tree: `input` (a list of programs, each a text or a list of input
    texts) when present, otherwise `text` — split at the markers the checks use to join several inputs or several programs"""
    def run(prog):
        if isinstance(prog, str) and "\n%%% next input\n" in prog:
            prog = prog.split("\n%%% next input\n")
        return impl_models(prog, obj.get("h", H), **kw)
    inp = obj.get("input")
    if isinstance(inp, list) and inp and all(isinstance(x, (str, list)) for x in inp):
        return [run(x) for x in inp]
    text = obj.get("text", "")
    for marker in ("\n%%% versus the same program over a propositional atom\n", "\n%%% versus its instantiation\n",
                   "\n%%% versus the documented reading\n", "\n%%% versus\n", "\n%%% solved after\n", "\n%%% solved again after\n"):
        if marker in text:
            return [run(t) for t in text.split(marker)]
    text = text.split("\n%%% run with ")[0]
    return run(text)
