"""
Instrumented runs of the real theory translation (layers L3/L4), without touching /repo:
  * BodyFormula.translate is wrapped to record the literal of every (representation, step)
  * Theory.translate is wrapped to dump the ground theory atoms seen at each horizon
  * every answer set records the truth value of all recorded literals and the trace
"""
import contextlib
import tl

class _BackendProxy:
    """records every statement the theory translation adds through clingo's backend"""
    def __init__(self, b, log):
        self._b, self._log = b, log
    def add_atom(self, *a):
        x = self._b.add_atom(*a)
        self._log.append(("atom", x, str(a[0]) if a else None))
        return x
    def add_rule(self, head, body=(), choice=False):
        self._log.append(("rule", tuple(head), tuple(body), bool(choice)))
        return self._b.add_rule(head, body, choice)
    def add_external(self, atom, value=None):
        self._log.append(("external", atom, str(value)))
        return self._b.add_external(atom, value) if value is not None else self._b.add_external(atom)
    def __getattr__(self, name):
        self._log.append(("other", name))
        return getattr(self._b, name)

class _PrgProxy:
    def __init__(self, prg, log):
        self._prg, self._log = prg, log
    @contextlib.contextmanager
    def backend(self):
        with self._prg.backend() as b:
            yield _BackendProxy(b, self._log)
    def __getattr__(self, name):
        return getattr(self._prg, name)

def backend_shape(rec):
    """
    The hypothesis of the conservativity theorem (TelProofs.DefExt / C13): everything the translation of *body* formulas adds is
    a fresh atom, a choice rule `{v}.` on a fresh atom, an external on a fresh atom, or an integrity constraint — nothing that
    can derive or support an atom of the program.  Returns a list of offending statements.
    """
    fresh, bad = set(), []
    for st in rec.get("backend", []):
        if st[0] == "atom":
            if st[2] is None:
                fresh.add(st[1])
        elif st[0] == "rule":
            _, head, body, choice = st
            if len(head) == 0 and not choice:
                continue
            if choice and len(body) == 0 and len(head) == 1 and head[0] in fresh:
                continue
            bad.append(st)
        elif st[0] == "external":
            if st[1] not in fresh:
                bad.append(st)
        else:
            bad.append(st)
    return bad

@contextlib.contextmanager
def instrumented(rec):
    import telingo, telingo.theory as ty, telingo.theory.body as bd
    orig_tr = bd.BodyFormula.translate
    orig_tt = ty.Theory.translate
    orig_aa = bd.BodyFormula.add_atom
    orig_al = bd.StepData.add_literal
    sdcalls = rec.setdefault("sd_calls", [])        # per Theory.translate call: pending pairs and keyed StepData operations
    sdobjs = rec.setdefault("sd_objects", {})
    def repkey(f):
        return f._rep if isinstance(f._rep, str) else str(f._rep)
    def add_literal(self, backend):
        self._sd_own = True
        if sdcalls and sdactive:
            sdcalls[-1]["ops"].append([sdactive[-1][0], sdactive[-1][1], "lit"])      # the pair being translated takes its literal now
        return orig_al(self, backend)
    sddepth = [0]
    sdactive = []
    def add_atom(self, atom, step):
        sdobjs[(repkey(self), step)] = self
        if sdcalls:
            sdcalls[-1]["ops"].append([repkey(self), step, "add", atom, sddepth[0]])
        return orig_aa(self, atom, step)
    def translate(self, ctx, step):
        sdobjs[(repkey(self), step)] = self
        d0 = self._BodyFormula__data.get(step)
        had = d0 is not None and d0.literal is not None
        op = [repkey(self), step, "tr", None, None, "enter", type(self).__name__, had]
        if sdcalls:
            sdcalls[-1]["ops"].append(op)
        if d0 is not None:
            d0._sd_own = False
        sddepth[0] += 1
        pk = (repkey(self), step)
        if pk in sdactive:
            rec.setdefault("sd_reentrant", set()).add(pk)      # cyclic unfolding (iteration over a path that consumes no state)
        sdactive.append(pk)
        try:
            lit = orig_tr(self, ctx, step)
        finally:
            sddepth[0] -= 1
            sdactive.pop()
        if sdcalls:
            sdcalls[-1]["ops"].append([repkey(self), step, "tr", "had", lit, "exit"])      # the end of `translate`: the todo list is treated
        d1 = self._BodyFormula__data.get(step)
        op[3] = "had" if had else ("own" if getattr(d1, "_sd_own", False) else "assign")
        op[4] = lit
        rec["pairs"][(self._rep if isinstance(self._rep, str) else str(self._rep), step)] = lit
        return lit
    def ttranslate(self, horizon, prg):
        sdcalls.append({"horizon": horizon, "pending": [(st, repkey(f)) for st, f in self._Theory__todo], "ops": []})
        atoms = []
        for a in prg.theory_atoms:
            if len(a.term.arguments) != 1:
                continue
            els = []
            for e in a.elements:
                els.append(("elem", tl.dump_tterm(e.terms[0]) if len(e.terms) == 1 else ("t",), tuple(e.condition)))
            atoms.append((a.term.name, a.term.arguments[0].number, tuple(els), a.literal))
        rec["atoms"][horizon] = atoms
        return orig_tt(self, horizon, _PrgProxy(prg, rec.setdefault("backend", [])))
    # clause level: which integrity constraints does one connective / induction step / equivalence write?
    clog = rec.setdefault("clause_calls", [])
    blog = rec.setdefault("backend", [])
    stack = []
    def own_rules(start_box):
        return [st for st in blog[start_box[0]:] if st[0] == "rule" and len(st[1]) == 0 and not st[3]]
    def child_lit(f, step):
        d = f._BodyFormula__data.get(step)
        return None if d is None else d.literal
    orig_bool = bd.BooleanFormula.do_translate
    orig_tel = bd.TelFormula._translate
    orig_meq = bd.make_equal
    def wrap_call(fn, describe):
        def w(self, ctx, step, data, *a):
            fresh = data.literal is None
            box = [len(blog)]
            stack.append(box)
            try:
                return fn(self, ctx, step, data, *a)
            finally:
                stack.pop()
                if fresh:
                    try:
                        clog.append(describe(self, step, data, a) + (own_rules(box),))
                    except Exception as e:  # noqa
                        clog.append(("error", str(e)[:100], []))
                if stack:
                    stack[-1][0] = len(blog)
        return w
    def d_bool(self, step, data, a):
        return ("bool", self._BooleanFormula__operator, data.literal, child_lit(self._BooleanFormula__lhs, step), child_lit(self._BooleanFormula__rhs, step))
    def d_tel(self, step, data, a):
        lhs = None if self._lhs is None else child_lit(self._lhs, step)
        return ("tel", self._op, data.literal, lhs, child_lit(self._rhs, step), a[0])
    def meq(backend, x, y):
        n = len(blog)
        r = orig_meq(backend, x, y)
        clog.append(("eq", x, y, [st for st in blog[n:] if st[0] == "rule"]))
        if stack:
            stack[-1][0] = len(blog)
        return r
    bd.BooleanFormula.do_translate = wrap_call(orig_bool, d_bool)
    bd.TelFormula._translate = wrap_call(orig_tel, d_tel)
    bd.make_equal = meq
    bd.BodyFormula.translate = translate
    bd.BodyFormula.add_atom = add_atom
    bd.StepData.add_literal = add_literal
    ty.Theory.translate = ttranslate
    try:
        yield
    finally:
        bd.BodyFormula.translate = orig_tr
        bd.BodyFormula.add_atom = orig_aa
        bd.StepData.add_literal = orig_al
        ty.Theory.translate = orig_tt
        bd.BooleanFormula.do_translate = orig_bool
        bd.TelFormula._translate = orig_tel
        bd.make_equal = orig_meq

def run(text, H):
    """returns (models per horizon, rec) where rec['vals'][h] is a list of (atomset, {lit: bool}) per answer set"""
    rec = {"pairs": {}, "atoms": {}, "vals": {}, "pairs_at": {}}
    def record(m, step):
        lits = set(abs(l) for l in rec["pairs"].values() if l != 0)
        for hh in rec["atoms"]:
            for at in rec["atoms"][hh]:
                lits.add(abs(at[3]))
                for e in at[2]:
                    lits.update(abs(c) for c in e[2])
        val = {l: m.is_true(l) for l in lits}
        atoms = set()
        for x in m.symbols(atoms=True):
            k = tl.sym_key(x)
            if k:
                atoms.add("{}@{}".format(*k))
        rec["vals"].setdefault(step, []).append((atoms, val))
        rec["pairs_at"][step] = dict(rec["pairs"])
    with instrumented(rec):
        res = tl.run_telingo(text, H, record=record)
    return res, rec

def lit_val(val, lit):
    return val[lit] if lit > 0 else (not val[-lit])

def eval_expr(e, atoms, val, pairs):
    t = e[0]
    if t == "c":
        return e[1] == "1"
    if t == "a":
        return "{}@{}".format(e[1], e[2]) in atoms
    if t == "l":
        return lit_val(val, int(e[1]))
    if t == "r":
        return lit_val(val, pairs[(e[1], int(e[2]))])
    if t == "n":
        return not eval_expr(e[1], atoms, val, pairs)
    if t == "&":
        return eval_expr(e[1], atoms, val, pairs) and eval_expr(e[2], atoms, val, pairs)
    if t == "|":
        return eval_expr(e[1], atoms, val, pairs) or eval_expr(e[2], atoms, val, pairs)
    if t == "=":
        return eval_expr(e[1], atoms, val, pairs) == eval_expr(e[2], atoms, val, pairs)
    raise ValueError(e)

def check_equations(text, H, model_exe):
    """
    L4: the implementation's literal valuation (in every answer set, at every horizon) must solve the
    model's one-step equations on all pairs reachable from the ground theory atoms, and every theory
    atom's literal must equal its root formula's.  Returns (stats, disagreements).
    """
    res, rec = run(text, H)
    dis = []
    if not any(a[0] == "__tel_head" for hh in rec["atoms"] for a in rec["atoms"][hh]):
        bad = backend_shape(rec)
        if bad:
            dis.append({"layer": "L4-shape", "text": text, "what": "the translation of body formulas added a statement that is neither a "
                        "choice on a fresh atom, an external on a fresh atom nor an integrity constraint", "statements": [str(b) for b in bad[:5]]})
    ncl, cdis = check_clauses(rec, model_exe)
    for d in cdis[:3]:
        d["text"] = text
        dis.append(d)
    npairs = neq = 0
    lines, hs = [], []
    for h in sorted(rec["vals"]):
        # theory atoms are listed by clingo only in the step that grounds them: accumulate
        atoms = [a for hh in sorted(rec["atoms"]) if hh <= h for a in rec["atoms"][hh] if a[0] in ("tel", "del") and a[1] <= h]
        if not atoms:
            continue
        lines.append(tl.sexp(("eqns", h) + tuple((a[0], a[1], a[2]) for a in atoms)))
        hs.append(h)
    outs = model_exe.batch(lines)
    for h, out in zip(hs, outs):
        if out.startswith("ERR"):
            dis.append({"layer": "L4", "text": text, "h": h, "what": "model cannot build the formulas: " + out})
            continue
        roots, eqs = tl.parse_sexp(out)
        pairs = rec["pairs_at"][h]
        # every theory atom is equivalent to the literal of its root formula at its step
        for (rep, k), at in zip(roots, atoms):
            if (rep, int(k)) not in pairs:
                dis.append({"layer": "L4", "text": text, "h": h, "what": "root formula not translated", "pair": [rep, k]})
                continue
            for atoms_set, val in rec["vals"][h]:
                if lit_val(val, at[3]) != lit_val(val, pairs[(rep, int(k))]):
                    dis.append({"layer": "L4", "text": text, "h": h, "what": "theory atom differs from its root formula", "pair": [rep, k]})
                    break
        for rep, k, expr in eqs:
            npairs += 1
            if (rep, int(k)) not in pairs:
                dis.append({"layer": "L4", "text": text, "h": h, "what": "pair not translated by the implementation", "pair": [rep, k]})
                break
        else:
            for atoms_set, val in rec["vals"][h]:
                bad = None
                for rep, k, expr in eqs:
                    neq += 1
                    try:
                        want = eval_expr(expr, atoms_set, val, pairs)
                    except KeyError as e:
                        bad = {"what": "reference to an untranslated pair", "pair": [rep, k], "missing": str(e)}
                        break
                    got = lit_val(val, pairs[(rep, int(k))])
                    if want != got:
                        bad = {"what": "equation not satisfied by the implementation's literals", "pair": [rep, k],
                               "equation": expr, "impl_value": got, "model_value": want, "answer_set": sorted(atoms_set)}
                        break
                if bad:
                    bad.update({"layer": "L4", "text": text, "h": h})
                    dis.append(bad)
                    break
    return {"pairs": npairs, "equations_evaluated": neq, "horizons": len(hs), "backend_statements": len(rec.get("backend", [])), "clause_steps": ncl}, dis

def check_clauses(rec, model_exe):
    """
    Clause level (theorems `boolClauses_ok`, `telClauses_ok`, `makeEqual_ok`): the integrity constraints written for every
    Boolean connective, temporal induction step and equivalence of the run must be the model's, literal for literal.
    """
    calls = rec.get("clause_calls", [])
    lines, metas = [], []
    for c in calls:
        if c[0] == "bool":
            _, op, lit, lhs, rhs, rules = c
            if None in (lit, lhs, rhs):
                metas.append((c, None)); continue
            lines.append(tl.sexp(("clauses", "bool", tl.QStr(op), lit, lhs, rhs))); metas.append((c, len(lines) - 1))
        elif c[0] == "tel":
            _, op, lit, lhs, rhs, pre, rules = c
            if None in (lit, rhs, pre):
                metas.append((c, None)); continue
            dual = 1 if op in ("<*", ">*") else 0
            lines.append(tl.sexp(("clauses", "tel", dual, lit, "none" if lhs is None else lhs, rhs, pre))); metas.append((c, len(lines) - 1))
        elif c[0] == "eq":
            lines.append(tl.sexp(("clauses", "eq", c[1], c[2]))); metas.append((c, len(lines) - 1))
        else:
            metas.append((c, None))
    outs = model_exe.batch(lines) if lines else []
    dis = []
    canon = lambda cl: sorted(tuple(sorted(x)) for x in cl)
    for c, i in metas:
        if i is None:
            dis.append({"layer": "L4-clauses", "what": "could not read the literals of a translation step", "call": str(c)[:200]})
            continue
        want = canon([[int(x) for x in cl] for cl in tl.parse_sexp(outs[i])])
        rules = c[-1]
        if c[0] == "eq" and any(len(st[1]) != 0 or st[3] for st in rules):
            dis.append({"layer": "L4-clauses", "what": "make_equal wrote something that is not an integrity constraint", "call": str(c)[:300]})
            continue
        got = canon([list(st[2]) for st in rules])
        if got != want:
            dis.append({"layer": "L4-clauses", "what": "the constraints written differ from the model's clauses", "call": str(c[:-1]),
                        "model": want, "impl": got})
    return len(metas), dis

# --------------------------------------------------------------------------- head formulas (C04)

MAX_SHIFTED_CHARS = 4000
MAX_CLAUSE_LITERALS = 4000

def head_probe(text, dmax):
    """
    Ground step 0 of the program and, for every `&__tel_head` atom, build the real head formula with the
    real `create_formula`, shift it by d = 0..dmax with the real `shift_formula` and unfold it with the real
    `unfold_formula`.  Returns a list of (term dump, rep, [(shifted rep, [[clause literal reps]])]).
    """
    import clingo, telingo.transformers as tf, telingo.theory.head as hd
    from clingo.ast import ProgramBuilder
    prg = clingo.Control(["0"], message_limit=0, logger=lambda c, m: None)
    with ProgramBuilder(prg) as bld:
        fs, parts = tf.transform([text], bld.add)
    prg.ground([("initial", [clingo.Number(0), clingo.Number(0)]), ("always", [clingo.Number(0), clingo.Number(0)])])
    out = []
    for a in prg.theory_atoms:
        if a.term.name != "__tel_head" or len(a.elements) != 1 or len(a.elements[0].terms) != 1:
            continue
        t = a.elements[0].terms[0]
        try:
            f = hd.create_formula(t, lambda x: x)
        except BaseException as e:  # noqa
            out.append((tl.dump_tterm(t), "ERR " + tl.classify_exc(e), []))
            continue
        per = []
        for d in range(dmax + 1):
            sf = hd.shift_formula(f, d)
            if len(str(sf)) > MAX_SHIFTED_CHARS:
                break             # the unfolding of nested until/release grows exponentially with the shift: compare the shifts that stay small
            cl = [[str(x) for x in c] for c in hd.unfold_formula(sf)]
            per.append((str(sf), cl))
            if sum(len(c) for c in cl) > MAX_CLAUSE_LITERALS:
                break
        out.append((tl.dump_tterm(t), str(f), per))
    return out

def range_probe(text):
    """the time ranges the real `transform_theory_atom` computes for the head formulas of the program text:
    list of {atom key: set of covered offsets 0..RANGE_BOUND}"""
    from clingo import ast
    import clingo
    import telingo.transformers.head as th
    stms = []
    ast.parse_string(text, stms.append)
    out = []
    for st in stms:
        if st.ast_type == ast.ASTType.Rule and st.head.ast_type == ast.ASTType.TheoryAtom and st.head.term.name == "tel":
            _, ranges = th.transform_theory_atom(st.head)
            cover = {}
            for (lo, hi), heads in ranges:
                l = lo.symbol.number
                h = RANGE_BOUND if hi.symbol.type == clingo.SymbolType.Supremum else hi.symbol.number
                for hd in heads:
                    key = str(hd).replace(",__t)", ")").replace("(__t)", "()")
                    cover.setdefault(key, set()).update(range(l, min(h, RANGE_BOUND) + 1))
            out.append(cover)
    return out

RANGE_BOUND = 9

def check_head(texts, dmax, model_exe):
    """L3 for head formulas: representation, shifting and unfolding agree with the model"""
    dis = []
    n = 0
    probes = []
    for text in texts:
        try:
            for p in head_probe(text, dmax):
                probes.append((text, p))
        except BaseException as e:  # noqa
            if isinstance(e, KeyboardInterrupt):
                raise
            dis.append({"layer": "L3h", "text": text, "what": "exception while probing: {}: {}".format(tl.classify_exc(e), str(e)[:200])})
    # the model is asked for exactly the shifts the probe kept (see the size caps in head_probe)
    outs = model_exe.batch([tl.sexp(("head", p[0], max(0, len(p[2]) - 1))) for _, p in probes])
    # time ranges (theorem `emitted_heads_in_ranges`): the model's ranges of the formula vs the real transform_theory_atom
    routs = model_exe.batch([tl.sexp(("ranges", p[0])) for _, p in probes])
    rcache = {}
    for (text, (term, rep, per)), ro in zip(probes, routs):
        if ro.startswith("ERR") or rep.startswith("ERR"):
            continue
        if text not in rcache:
            try:
                rcache[text] = range_probe(text)
            except BaseException as e:  # noqa
                if isinstance(e, KeyboardInterrupt):
                    raise
                rcache[text] = "ERR " + tl.classify_exc(e)
        impl = rcache[text]
        if isinstance(impl, str) or len(impl) != 1:
            continue            # several head formulas in one text, or rejected: not compared here
        want = {}
        for key, lo, ray in tl.parse_sexp(ro):
            lo = int(lo)
            want.setdefault(str(key), set()).update(range(lo, RANGE_BOUND + 1) if ray == "1" else ([lo] if lo <= RANGE_BOUND else []))
        got = {k: v for k, v in impl[0].items() if v}
        want = {k: v for k, v in want.items() if v}
        if got != want:
            dis.append({"layer": "L1-ranges", "text": text, "what": "time ranges of the head atoms differ",
                        "model": {k: sorted(v) for k, v in want.items()}, "impl": {k: sorted(v) for k, v in got.items()}})
    for (text, (term, rep, per)), out in zip(probes, outs):
        n += 1
        if out.startswith("ERR"):
            if not rep.startswith("ERR") or out.split()[1] != rep.split()[1]:
                dis.append({"layer": "L3h", "text": text, "what": "error class differs", "model": out, "impl": rep})
            continue
        m = tl.parse_sexp(out)
        want = (m[0], [(x[0], [list(c) for c in x[1]]) for x in m[1:]])
        got = (rep, [(r, c) for r, c in per])
        if want != got:
            k = 0
            while k < len(per) and k < len(want[1]) and want[1][k] == got[1][k]:
                k += 1
            dis.append({"layer": "L3h", "text": text, "what": "head formula differs (rep / shift / unfold)", "first_difference_at_shift": k,
                        "model": [want[0]] + list(want[1][k:k + 1]), "impl": [got[0]] + list(got[1][k:k + 1])})
    return {"head_formulas": n, "shifts_per_formula": dmax + 1}, dis

# --------------------------------------------------------------------------- formula construction incl. error classes (C15)

def formula_probe(text):
    """
    Transform and ground step 0; for every ground theory atom element build the formula with the real constructors.
    Returns a list of (kind, term dump, "ok <rep>" | "ERR <class>"), or a string with the error class when the program is
    rejected before that.
    """
    import clingo, telingo.transformers as tf, telingo.theory.body as bd, telingo.theory.head as hd
    from clingo.ast import ProgramBuilder
    prg = clingo.Control(["0"], message_limit=0, logger=lambda c, m: None)
    try:
        with ProgramBuilder(prg) as bld:
            fs, parts = tf.transform([text], bld.add)
        prg.ground([("initial", [clingo.Number(0), clingo.Number(0)]), ("always", [clingo.Number(0), clingo.Number(0)])])
    except BaseException as e:  # noqa
        if isinstance(e, KeyboardInterrupt):
            raise
        return "ERR " + tl.classify_exc(e)
    out = []
    for a in prg.theory_atoms:
        if len(a.term.arguments) != 1 or a.term.name not in ("tel", "del", "__tel_head"):
            continue
        for e in a.elements:
            if len(e.terms) != 1:
                continue
            t = e.terms[0]
            try:
                if a.term.name == "tel":
                    f = bd.create_formula(t, lambda x: x); rep = f._rep
                elif a.term.name == "del":
                    f = bd.create_dynamic_formula(t, lambda x: x); rep = f._rep
                else:
                    f = hd.create_formula(t, lambda x: x); rep = str(f)
                res = "ok " + str(rep)
            except BaseException as ex:  # noqa
                if isinstance(ex, KeyboardInterrupt):
                    raise
                res = "ERR " + tl.classify_exc(ex)
            out.append(({"tel": "tel", "del": "del", "__tel_head": "head"}[a.term.name], tl.dump_tterm(t), res))
    return out


# --------------------------------------------------------------------------- rules emitted for head formulas (ClauseToRule)

def check_head_rules(text, H, model_exe):
    """
    Runs telingo on `text` with `translate_clause` of theory/head.py wrapped: for every clause of every head formula at every
    step, what the atom base says about its atoms *before* the call, and the rule the call writes.  Compared with the model's
    `ruleShape` (command `hrules`): clause by clause, element by element — a head literal exactly for the atoms the atom base
    knows, the negated literal of the body formula the model names for every shifted part (through an auxiliary atom when that
    literal is itself negative), nothing else.
    """
    import clingo, telingo.theory.head as hd
    rec = {"pairs": {}, "atoms": {}, "vals": {}, "pairs_at": {}}
    calls = []
    orig = hd.translate_clause
    def wrapped(clause, ctx, step, body_literal):
        clause = list(clause)
        view = []
        for x in clause:
            if getattr(x, "ast_type", None) == "TelAtom":
                sym = clingo.Function(x.name, list(x.arguments) + [clingo.Number(step)], x.positive)
                a = ctx.symbols[sym]
                key = ("" if x.positive else "-") + x.name + "(" + ",".join(str(y) for y in x.arguments) + ")"
                view.append(("atom", key, a is not None, None if a is None else a.literal))
            elif getattr(x, "ast_type", None) == "TelShift":
                view.append(("shift",))
            else:
                view.append(("other", str(x)))
        blog = rec.setdefault("backend", [])
        n = len(blog)
        r = orig(clause, ctx, step, body_literal)
        calls.append({"step": step, "literal": body_literal, "view": view, "statements": list(blog[n:]), "pairs": dict(rec["pairs"])})
        return r
    hd.translate_clause = wrapped
    try:
        with instrumented(rec):
            try:
                tl.run_telingo(text, H)
            except tl.Timeout:
                return {"head_rules": 0, "skipped": "timeout"}, []
    finally:
        hd.translate_clause = orig
    # theory atoms by literal: (own step, term dump)
    heads = {}
    for hh, ats in rec["atoms"].items():
        for name, stp, els, lit in ats:
            if name == "__tel_head" and len(els) == 1 and len(els[0][2]) == 0:
                heads[lit] = (stp, els[0][1])
    groups = {}
    for c in calls:
        groups.setdefault((c["literal"], c["step"]), []).append(c)
    keys = [k for k in groups if k[0] in heads and k[1] >= heads[k[0]][0]]
    outs = model_exe.batch([tl.sexp(("hrules", heads[lit][1], step - heads[lit][0])) for lit, step in keys])
    dis, nrules = [], 0
    for (lit, step), out in zip(keys, outs):
        got = groups[(lit, step)]
        if out.startswith("ERR"):
            dis.append({"layer": "L4-head-rules", "text": text, "what": "the model rejects a head formula the code translated", "model": out})
            continue
        want = tl.parse_sexp(out)
        if len(want) != len(got):
            dis.append({"layer": "L4-head-rules", "text": text, "step": step, "what": "number of rules for the formula: model {} / code {}".format(len(want), len(got))})
            continue
        for wc, c in zip(want, got):
            nrules += 1
            rules = [st for st in c["statements"] if st[0] == "rule"]
            if not rules:
                dis.append({"layer": "L4-head-rules", "text": text, "step": step, "what": "no rule written for a clause"}); continue
            main, auxs = rules[-1], rules[:-1]
            head, body = list(main[1]), list(main[2])
            aux_of = {}          # negative literal -> the auxiliary atoms defined from it, in the order they were written
            for st in auxs:
                if len(st[1]) == 1 and len(st[2]) == 1:
                    aux_of.setdefault(st[2][0], []).append(st[1][0])
            exp_head, exp_body, bad = [], [lit], None
            if len(wc) != len(c["view"]):
                bad = "number of clause elements: model {} / code {}".format(len(wc), len(c["view"]))
            else:
                for we, v in zip(wc, c["view"]):
                    if we[0] == "h":
                        if v[0] != "atom" or v[1] != we[1]:
                            bad = "element: model head atom {} / code {}".format(we[1], v); break
                        if v[2]:
                            exp_head.append(v[3] if v[3] != 0 else "fresh")
                    elif we[0] == "b":
                        if v[0] != "shift":
                            bad = "element: model shifted part {} / code {}".format(we[1], v); break
                        L = c["pairs"].get((we[1], step))
                        if L is None:
                            bad = "the body formula {} was not translated at step {}".format(we[1], step); break
                        if L < 0:
                            if not aux_of.get(L):
                                bad = "negative literal of {} without auxiliary atom".format(we[1]); break
                            L = aux_of[L].pop(0)
                        exp_body.append(-L)
                    else:
                        if v[0] != "other":
                            bad = "element: model ignores it / code {}".format(v); break
            if bad is None:
                if len(head) != len(exp_head) or any(e != "fresh" and e != g for e, g in zip(exp_head, head)):
                    bad = "rule head: expected {} / written {}".format(exp_head, head)
                elif body != exp_body:
                    bad = "rule body: expected {} / written {}".format(exp_body, body)
            if bad:
                dis.append({"layer": "L4-head-rules", "text": text, "step": step, "what": bad, "model_clause": str(wc)[:300]})
                break
    return {"head_rules": nrules, "head_formula_steps": len(keys)}, dis


# --------------------------------------------------------------------------- life cycle of Next placeholders

def check_next_life(text, H, model_exe):
    """
    Runs telingo with `Next.do_translate` wrapped: for every call the state of the step data before and after, the backend
    statements of the call, the arguments of `ctx.add_todo`, the literal the argument has at the target step.  Compared with
    the model's `nextTranslate` (command `nextstep`): new state, kind of action, the step the formula is queued under, the
    end-of-trace value of the placeholder, the target of a direct translation / resolution.
    """
    import telingo.theory.body as bd
    rec = {"pairs": {}, "atoms": {}, "vals": {}, "pairs_at": {}}
    calls = []
    tstack = []
    base_todo = None
    orig = bd.Next.do_translate
    def state(data):
        return "fresh" if data.literal is None else ("done" if data.done else "pending")
    def wrapped(self, ctx, step, data):
        nonlocal base_todo
        before = state(data)
        blog = rec.setdefault("backend", [])
        n0 = len(blog)
        neq = len(rec.setdefault("clause_calls", []))
        todos = []
        tstack.append((self, todos))
        if len(tstack) == 1:
            # one recorder for the whole nest of calls: an `add_todo` is booked to the innermost running `do_translate`
            base_todo = ctx.add_todo
            ctx.add_todo = lambda f, st: (tstack[-1][1].append((f._rep if f is tstack[-1][0] else "other", st)), base_todo(f, st))[1]
        try:
            r = orig(self, ctx, step, data)
        finally:
            tstack.pop()
            if not tstack:
                ctx.add_todo = base_todo
        arg = self._Next__arg
        n = self._Next__n
        calls.append({"rep": self._rep, "n": n, "weak": self._Next__weak, "step": step, "horizon": ctx.horizon, "before": before,
                      "after": state(data), "literal": data.literal, "statements": list(blog[n0:]),
                      "eqs": [c for c in rec["clause_calls"][neq:] if c[0] == "eq"], "todos": todos,
                      "arg_literal_at_target": rec["pairs"].get((arg._rep, step + n))})
        return r
    bd.Next.do_translate = wrapped
    try:
        with instrumented(rec):
            try:
                tl.run_telingo(text, H)
            except BaseException as e:  # noqa
                if isinstance(e, KeyboardInterrupt):
                    raise
                if tl.classify_exc(e) in ("Timeout", "RuntimeError", "ClingoError"):
                    return {"next_calls": 0}, []
                raise
    finally:
        bd.Next.do_translate = orig
    outs = model_exe.batch([tl.sexp(("nextstep", c["n"], 1 if c["weak"] else 0, c["step"], c["horizon"], c["before"])) for c in calls])
    dis = []
    hist = {}
    for c, out in zip(calls, outs):
        st1, act = out.split(" ", 1)
        act = tl.parse_sexp(act)
        hist[act[0]] = hist.get(act[0], 0) + 1
        ext = [st for st in c["statements"] if st[0] == "external" and st[1] == c["literal"]]   # (nested calls write their own)
        own_todo = [st for rep, st in c["todos"] if rep == c["rep"]]
        bad = None
        if st1 != c["after"]:
            bad = "state after the call: model {} / code {}".format(st1, c["after"])
        elif act[0] == "direct":
            if own_todo or c["literal"] != c["arg_literal_at_target"]:
                bad = "direct translation: the literal must be the argument's literal at step {} (no external, no todo)".format(act[1])
        elif act[0] == "placeholder":
            want = "TruthValue.True_" if act[1] == "1" else "TruthValue.False_"
            if len(ext) != 1 or ext[0][1] != c["literal"] or ext[0][2] not in (want, want.rstrip("_"), want.replace("TruthValue.", "TruthValue._").rstrip("_")):
                bad = "placeholder: one external on the new literal with value {} expected, got {}".format(want, ext)
            elif own_todo != [int(act[2])]:
                bad = "placeholder: queued under step(s) {} instead of {}".format(own_todo, act[2])
        elif act[0] == "resolve":
            eq_ok = any(set(map(abs, (e[1], e[2]))) == set(map(abs, (c["literal"], c["arg_literal_at_target"]))) for e in c["eqs"]) \
                if c["arg_literal_at_target"] is not None else False
            if not eq_ok or len(ext) != 1 or "Free" not in ext[0][2] or own_todo:
                bad = "resolution: make_equal with the argument's literal at step {} and the external set free expected".format(act[1])
        elif act[0] == "requeue":
            if ext or own_todo != [int(act[1])]:
                bad = "still pending: queued under step(s) {} instead of {}".format(own_todo, act[1])
        else:
            if ext or own_todo:
                bad = "finished pair touched again"
        if bad:
            dis.append({"layer": "L4-next-life", "text": text, "formula": c["rep"], "step": c["step"], "horizon": c["horizon"], "what": bad})
            break
    return {"next_calls": len(calls), "actions": hist}, dis


def check_theory_calls(text, H, model_exe):
    """
    The calls of `Theory.translate` of a real run against the model `TheoryCall` / `StepData` (TelModel/TheoryCall.lean):
      * shape of a call (hypotheses `GoodCall` of `theory_atoms_equated`): the registrations of the theory atoms come before all
        translations; every pair that gets one and every pair that was queued when the call started is translated in that call;
        on every pair the operations of the second loop are none or end with (the end of) a translation;
      * per (formula, step) pair: the model run on the pair's operations of all calls ends in the real `StepData`
        (`literal`, `literals`, `todo`).  A `translate` is two operations: its start (where the literal is provided) and its end
        (where the todo list is treated) — box / diamond formulas register the literal of their unfolding on their own pair in between.
    Returns (stats, disagreements).
    """
    res, rec = run(text, H)
    dis = []
    st = {"theory_calls": len(rec["sd_calls"]), "pairs_compared": 0, "registrations": 0, "late_registrations": 0, "own_registrations": 0}
    perpair = {}
    translated_before = set()
    for c in rec["sd_calls"]:
        seen_tr = False
        regs, trs, last = set(), set(), {}
        for op in c["ops"]:
            if op[2] == "lit":
                continue
            key = (op[0], op[1])
            if op[2] == "add":
                if op[4] == 0:
                    st["registrations"] += 1
                    if key in translated_before:
                        st["late_registrations"] += 1
                    if seen_tr:
                        dis.append({"layer": "L4-theory-call", "text": text, "what": "a theory atom is registered after a translation within one Theory.translate call", "pair": list(key)})
                    regs.add(key)
                else:
                    st["own_registrations"] += 1
                    last[key] = "add"
            else:
                seen_tr = True
                trs.add(key)
                last[key] = "tr"
            perpair.setdefault(key, []).append(op)
        for key in sorted(regs | set((rep, stp) for stp, rep in c["pending"])):
            if key not in trs:
                dis.append({"layer": "L4-theory-call", "text": text, "horizon": c["horizon"],
                            "what": "a pair that was registered or queued is not translated in the same Theory.translate call (GoodCall.covers)", "pair": list(key)})
        for key, what in sorted(last.items()):
            if what != "tr":
                dis.append({"layer": "L4-theory-call", "text": text, "horizon": c["horizon"],
                            "what": "the operations of the call on a pair do not end with a translation (GoodCall.closed)", "pair": list(key)})
        translated_before |= trs
    lines, keys, impl = [], [], []
    ints = lambda l: "(" + " ".join(str(x) for x in l) + ")"
    for key, ops in sorted(perpair.items()):
        f = rec["sd_objects"].get(key)
        d = f._BodyFormula__data.get(key[1]) if f is not None else None
        if d is None:
            continue
        # a pair whose literal is provided by a re-entrant call (cyclic unfolding outside the normal form) is not modelled
        mops, skip, have = [], key in rec.get("sd_reentrant", ()), False
        for op in ops:
            if skip:
                break
            if op[2] == "add":
                mops.append(("add", op[3]))
            elif op[3] is None or op[4] is None:
                skip = True
                break
            elif op[3] == "had":
                if not have:
                    skip = True
                    break
                mops.append(("assign", 0))
            else:
                if have:
                    skip = True
                    break
                have = True
                mops.append((op[3], op[4]))
        if skip:
            st["pairs_skipped_reentrant"] = st.get("pairs_skipped_reentrant", 0) + 1
            continue
        lines.append(tl.sexp(("stepdata",) + tuple(mops)))
        keys.append(key)
        impl.append("{} {} {}".format("none" if d.literal is None else d.literal, ints(sorted(d.literals)), ints(d.todo)))
    outs = model_exe.batch(lines) if lines else []
    for key, mo, got, line in zip(keys, outs, impl, lines):
        st["pairs_compared"] += 1
        parts = mo.strip()
        depth, cut = 0, None
        for i in range(len(parts) - 1, -1, -1):      # the model line is `lit (literals) (todo) (outs…)`: cut the last group
            if parts[i] == ")":
                depth += 1
            elif parts[i] == "(":
                depth -= 1
                if depth == 0:
                    cut = i
                    break
        mstate = " ".join(parts[:cut].split()) if cut is not None else parts
        if mstate != got:
            dis.append({"layer": "L4-stepdata-run", "text": text, "pair": list(key), "ops": line, "model": mstate, "impl": got})
    return st, dis


def theory_call_texts(cases, kind, seed, n):
    """witness programs for `check_theory_calls`; every second one with a look-ahead constraint over the first formula, so that
    a ground theory atom of an earlier state turns up in a later call (late registration)"""
    import random, oracles
    r = random.Random(seed)
    cs = r.sample(cases, min(n, len(cases)))
    out = []
    for i, (forms, atoms) in enumerate(cs):
        text = oracles.witness_program(forms, atoms, kind)
        if i % 2 == 0:
            body = tl.render_tel(forms[0]) if kind == "tel" else tl.render_del(forms[0])
            text += "\n#program always. :- {}', {}&{} {{ {} }}.".format(atoms[0] if "(" not in atoms[0] else "zz", "not " if i % 4 == 0 else "", kind, body)
        out.append(text)
    return out

def theory_calls_chunk(args):
    texts, H = args
    model_exe = tl.LeanExe("telmodel")
    tot, dis = {}, []
    for text in texts:
        try:
            st, d = check_theory_calls(text, H, model_exe)
        except BaseException as e:  # noqa
            if isinstance(e, KeyboardInterrupt):
                raise
            if isinstance(e, tl.Timeout):
                continue
            d = [{"layer": "L4-theory-call", "text": text, "what": "exception in the implementation: {}: {}".format(tl.classify_exc(e), str(e)[:200])}]
            st = {}
        for k, v in st.items():
            tot[k] = tot.get(k, 0) + v
        tot["programs"] = tot.get("programs", 0) + 1
        dis += d
    return tot, dis


# kinds of the model TelModel/TranslateRec.lean per class of telingo/theory/body.py
REC_KIND = {"Atom": "leaf", "NumericLiteral": "leaf", "BooleanConstant": "leaf", "Negation": "alias", "Previous": "alias", "Initially": "alias",
            "Next": "alias", "BooleanFormula": "op-recheck", "TelFormulaP": "op", "TelFormulaN": "op", "DiamondFormula": "early", "BoxFormula": "early"}

def check_translate_recursion(text, H):
    """
    The hypotheses of the recursion model (`Graph.ok`, `Graph.rechecks`, the kind of every class) on a real run, from the recorded
    nesting of `BodyFormula.translate` calls:
      * every class met has a kind in the model; a box / diamond pair (`early`: literal first) is never entered again without a literal;
      * the edges from pairs that wait for their operands (every class but box / diamond) to the pairs they translate meanwhile
        form an acyclic relation (a rank exists);
      * a pair that is entered again while it is being translated and has no literal yet is a Boolean connective
        (`op` with the second look) — never a since / until pair, never a leaf or alias.
    Returns (stats, disagreements).
    """
    res, rec = run(text, H)
    dis, st = [], {"translate_calls": 0, "nested_edges": 0, "reentered_without_literal": 0, "early_pairs": 0}
    edges = {}
    def obj_has_literal(key):
        f = rec["sd_objects"].get(key)
        d = f._BodyFormula__data.get(key[1]) if f is not None else None
        return d is not None and d.literal is not None
    for c in rec["sd_calls"]:
        stack = []                   # [key, class, had_literal_at_entry, first_nested_seen]
        for op in c["ops"]:
            if op[2] != "tr" or len(op) < 6:
                continue
            key = (op[0], op[1])
            if op[5] == "enter":
                st["translate_calls"] += 1
                cls, had = op[6], op[7]
                kind = REC_KIND.get(cls)
                if kind is None:
                    dis.append({"layer": "L4-recursion", "text": text, "what": "a formula class the recursion model has no kind for", "class": cls})
                if stack:
                    parent = stack[-1]
                    if not parent[2]:
                        pkind = REC_KIND.get(parent[1])
                        if pkind != "early":
                            edges.setdefault(parent[0], set()).add(key)
                            st["nested_edges"] += 1
                if not had and any(fr[0] == key and not fr[2] for fr in stack):
                    # the pair is being translated further up and had no literal when that call started
                    outer = [fr for fr in stack if fr[0] == key and not fr[2]][-1]
                    if REC_KIND.get(outer[1]) == "early":
                        dis.append({"layer": "L4-recursion", "text": text, "what": "a box / diamond pair is entered again without a literal (its literal should be set first)", "pair": list(key)})
                    else:
                        st["reentered_without_literal"] += 1
                        if REC_KIND.get(cls) != "op-recheck":
                            dis.append({"layer": "L4-recursion", "text": text, "what": "a pair that does not look again is entered a second time before it has a literal", "pair": list(key), "class": cls})
                stack.append([key, cls, had, False])
            else:
                if stack and stack[-1][0] == key:
                    fr = stack.pop()
                    if REC_KIND.get(fr[1]) == "early" and not fr[2]:
                        st["early_pairs"] += 1
    # acyclicity of the operands-first edges (depth-first search)
    color = {}
    def dfs(u):
        color[u] = 1
        for v in edges.get(u, ()):
            if color.get(v) == 1:
                return [u, v]
            if v not in color:
                r = dfs(v)
                if r:
                    return r
        color[u] = 2
        return None
    import sys as _sys
    _sys.setrecursionlimit(max(_sys.getrecursionlimit(), 20000))
    for u in list(edges):
        if u not in color:
            cyc = dfs(u)
            if cyc:
                dis.append({"layer": "L4-recursion", "text": text, "what": "the pairs that wait for their operands form a cycle (no rank exists: Graph.ok)",
                            "edge": [list(cyc[0]), list(cyc[1])]})
                break
    return st, dis


def recursion_chunk(args):
    texts, H = args
    tot, dis = {}, []
    for text in texts:
        try:
            st, d = check_translate_recursion(text, H)      # `run_telingo` has its own time limit
            st2, d2 = check_translate_execution(text, H, tl.LeanExe("telmodel"))
            st = dict(st); st.update({"executed_" + k: v for k, v in st2.items()})
            d = d + d2
        except BaseException as e:  # noqa
            if isinstance(e, KeyboardInterrupt):
                raise
            cls = tl.classify_exc(e)
            if cls.startswith("Internal"):
                # the model returns for every graph and never fails the assertion of add_literal
                dis.append({"layer": "L4-recursion", "text": text, "what": "the step-wise translation ends with an internal error where the recursion model returns",
                            "error": cls, "message": str(e)[:200]})
            continue            # diagnostics and timeouts are not judged here
        for k, v in st.items():
            tot[k] = tot.get(k, 0) + v
        tot["programs"] = tot.get("programs", 0) + 1
        dis += d
    return tot, dis


def check_translate_execution(text, H, model_exe):
    """
    The recursion model *executed* on the graph of a real run (driver command `trrec`, TelModel/TranslateRec.lean `trAll`): the pairs
    of the run are numbered; the kind of a pair comes from its class and the number of `translate` calls it makes on other pairs
    while it has no literal (its operands, in order); the roots are the calls made from the todo loop or from a pair that
    already has a literal (the resolution of a next placeholder); ranks are the depths in the operands-first relation.  Compared:
    the order in which the pairs obtain their literal — `add_literal` (box / diamond: before the unfolding; connectives: after
    the operands), assignment (alias, leaf: when the call returns) — and that no assertion fails.
    Returns (stats, disagreements).
    """
    res, rec = run(text, H)
    dis, st = [], {"pairs": 0, "roots": 0, "literal_events": 0}
    idx, kinds_src, roots, real_log = {}, {}, [], []
    def num(key):
        if key not in idx:
            idx[key] = len(idx)
        return idx[key]
    for c in rec["sd_calls"]:
        stack = []          # frames: [key, cls, had, children, own_event_seen]
        for op in c["ops"]:
            key = (op[0], op[1])
            if op[2] == "lit":
                if stack and stack[-1][0] == key:
                    stack[-1][4] = True
                real_log.append(num(key))
                continue
            if op[2] != "tr" or len(op) < 6:
                continue
            if op[5] == "enter":
                k = num(key)
                if not stack or stack[-1][2]:
                    if len(stack) >= 2 and not op[7]:
                        # a next placeholder is resolved in the middle of another pair's translation (its `done` flag is not part of
                        # the recursion model, which only knows "has a literal"): this run is left out
                        st["skipped_nested_placeholder_resolution"] = 1
                        return st, dis
                    roots.append(k)
                else:
                    stack[-1][3].append(k)
                stack.append([key, op[6], op[7], [], False])
            elif stack and stack[-1][0] == key:
                fr = stack.pop()
                if not fr[2]:
                    if not fr[4]:
                        f = rec["sd_objects"].get(key)
                        d = f._BodyFormula__data.get(key[1]) if f is not None else None
                        if d is not None and d.literal is not None and num(key) not in kinds_src:
                            real_log.append(num(key))          # literal by assignment, when the call returns
                    if num(key) not in kinds_src:
                        kinds_src[num(key)] = (fr[1], fr[3])
    n = len(idx)
    if n == 0:
        return st, dis
    kinds, edges = [], {}
    for k in range(n):
        cls, ch = kinds_src.get(k, ("Atom", []))
        base = REC_KIND.get(cls)
        if base == "leaf" or (base == "alias" and len(ch) == 0):
            kinds.append("leaf"); continue
        if base == "alias" and len(ch) == 1:
            kinds.append(("alias", ch[0])); edges[k] = ch; continue
        if base == "early" and len(ch) == 1:
            kinds.append(("early", ch[0])); continue
        if base == "op-recheck" and len(ch) == 2:
            kinds.append(("op", 1, ch[0], ch[1])); edges[k] = ch; continue
        if base == "op" and 1 <= len(ch) <= 3:
            kinds.append(("op", 0, ch[0], ch[0]) if len(ch) == 1 else (("op", 0, ch[0], ch[1]) if len(ch) == 2 else ("op3", ch[0], ch[1], ch[2])))
            edges[k] = ch; continue
        dis.append({"layer": "L4-recursion-run", "text": text, "what": "a pair with a number of operands the model has no kind for", "class": cls, "operands": len(ch)})
        return st, dis
    rank = {}
    import sys as _sys
    _sys.setrecursionlimit(max(_sys.getrecursionlimit(), 20000))
    busy = set()
    def rk(u):
        if u in rank:
            return rank[u]
        if u in busy:
            return None
        busy.add(u)
        r = 0
        for v in edges.get(u, ()):
            x = rk(v)
            if x is None:
                return None
            r = max(r, x + 1)
        busy.discard(u)
        rank[u] = r
        return r
    for k in range(n):
        if rk(k) is None:
            dis.append({"layer": "L4-recursion-run", "text": text, "what": "the operands-first relation of the run has a cycle (no rank: Graph.ok fails)"})
            return st, dis
    # Graph.wok: a weak rank over all edges under which the pairs that do not look again lie strictly above their operands exists
    # iff no such pair shares a strongly connected component (of the graph with the unfolding edges) with one of its operands
    full = {k: list(v) for k, v in edges.items()}
    for k, kd in enumerate(kinds):
        if isinstance(kd, tuple) and kd[0] == "early":
            full.setdefault(k, []).append(kd[1])
    order, seen = [], set()
    def dfs1(u):
        seen.add(u)
        for v in full.get(u, ()):
            if v not in seen:
                dfs1(v)
        order.append(u)
    for k in range(n):
        if k not in seen:
            dfs1(k)
    rev = {}
    for u, vs in full.items():
        for v in vs:
            rev.setdefault(v, []).append(u)
    comp = {}
    def dfs2(u, c):
        comp[u] = c
        for v in rev.get(u, ()):
            if v not in comp:
                dfs2(v, c)
    for u in reversed(order):
        if u not in comp:
            dfs2(u, u)
    for k, kd in enumerate(kinds):
        if isinstance(kd, tuple) and ((kd[0] == "op" and kd[1] == 0) or kd[0] == "op3"):
            ops_ = kd[2:] if kd[0] == "op" else kd[1:]
            if any(comp[o] == comp[k] for o in ops_):
                dis.append({"layer": "L4-recursion-run", "text": text, "what": "a temporal connective pair lies on a cycle with one of its operands (Graph.wok fails)"})
                return st, dis
    st["components_with_cycle"] = len(set(c for c in comp.values() if sum(1 for x in comp.values() if x == c) > 1))
    line = tl.sexp(("trrec", 1, tuple(kinds), tuple(rank[k] for k in range(n)), tuple(roots)))
    out = model_exe.batch([line])[0].strip()
    want = "ok ({}) 0".format(" ".join(str(x) for x in real_log))
    st["pairs"], st["roots"], st["literal_events"] = n, len(roots), len(real_log)
    if " ".join(out.split()) != want:
        dis.append({"layer": "L4-recursion-run", "text": text, "what": "the order in which the pairs obtain their literal differs from the recursion model",
                    "model": out[:300], "impl": want[:300]})
    return st, dis
