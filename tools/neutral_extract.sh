#!/bin/bash
# for every behaviour-preserving patch: does the translator still read the source, and what does the generated Lean look like?
# usage: tools/neutral_extract.sh seeded/neutral2
V=$(cd "$(dirname "$0")/.." && pwd)
D=$(cd "${1:-$V/seeded/neutral}" && pwd)
T=$(mktemp -d /tmp/neutral_extract.XXXXXX)
trap 'rm -rf "$T"' EXIT
for p in "$D"/N*.diff; do
  rm -rf "$T/r" "$T/out"; mkdir -p "$T/r"; git -C /repo archive HEAD telingo | tar x -C "$T/r"
  (cd "$T/r" && patch -p1 -s < "$p") || { echo "$(basename $p): patch failed"; continue; }
  out=$(TELINGO_REPO="$T/r" python3 "$V/tools/extract.py" "$T/out" 2>&1 | grep -v "^extract: ok" | head -5)
  n=$(diff -r "$T/out" "$V/lean/TelModel/Generated" 2>/dev/null | grep -c '^[<>]')
  echo "$(basename $p): ${out:-extracts} ; generated lines differing: $n"
done
