"""
Near-valid mutation grammar (C15): valid telingo syntax mixed with mutations — wrong-arity operators, negative or non-numeric
n-fold prefixes, conditions / guards / several terms in theory elements, unknown keywords and program parts, tuples, strings,
variables in formulas, arguments on theory atoms, primes inside formulas, past operators in heads.
Everything is syntactically acceptable to clingo's parser most of the time; some strings are not (that part is clingo's).
"""
import random

ATOMS = ["a", "b", "p(1)", "p(X)", "-a", "q(\"s\")", "r((1,2))", "f(g(a),1+1)", "'a", "a'", "_a", "__x", "1", "\"str\"", "(a,b)", "X", "#inf", "a_"]
KW = ["&true", "&false", "&initial", "&final", "&foo", "&(a)", "&1", "&\"true\"", "& true"]
UN = ["~", "<", "<:", "<?", "<*", "<<", ">", ">:", ">?", ">*", ">>", "-", "&"]
BIN = ["&", "|", "<-", "->", "<>", "<?", "<*", ">?", ">*", ";>", ";>:", "<;", "<:;", "<", "<:", ">", ">:", "+", "-", "<<", ">>", "~"]
NUMS = ["0", "1", "2", "-1", "1-2", "1+1", "a", "X", "(1)", "\"1\"", "- 1", "1.5", "#sup"]

def formula(r, depth):
    k = r.random()
    if depth == 0 or k < 0.25:
        return r.choice(ATOMS + KW + ["a", "b", "a", "b"])
    if k < 0.45:
        return "({} {})".format(r.choice(UN), formula(r, depth - 1))
    if k < 0.75:
        return "({} {} {})".format(formula(r, depth - 1), r.choice(BIN), formula(r, depth - 1))
    if k < 0.9:
        return "({} {} {})".format(r.choice(NUMS), r.choice(["<", "<:", ">", ">:"]), formula(r, depth - 1))
    return "{} {} {}".format(formula(r, depth - 1), r.choice(BIN), formula(r, depth - 1))

def path(r, depth):
    k = r.random()
    if depth == 0 or k < 0.3:
        return r.choice(["a", "b", "&true", "&false", "&final", "p(1)", "p(X)", "? a", "? &true", "-a", "1", "(a,b)", "\"s\"", "? (a + b)", "* ? a",
                         "? (? a)", "? (* a)", "? (* &true)", "? (a ;; b)", "* (* a)", "? (? (? b))", "? (a .>? b)"])
    if k < 0.5:
        return "({} {})".format(r.choice(["?", "*", "&", "~"]), path(r, depth - 1))
    return "({} {} {})".format(path(r, depth - 1), r.choice(["+", ";;", ".>?", ".>*", "&"]), path(r, depth - 1))

def dformula(r, depth):
    if depth == 0 or r.random() < 0.2:
        return r.choice(["a", "b", "&true", "&false", "&final", "&initial", "&foo", "p(X)", "1", "-a", "? a"])
    return "{} {} {}".format(path(r, 2), r.choice([".>?", ".>*", ".>?", ".>*", "+"]), dformula(r, depth - 1))

def elements(r, f):
    k = r.random()
    if k < 0.6:
        return f
    if k < 0.7:
        return f + " : " + r.choice(["a", "q(X)", "not b", "a, b", "X = 1", "&tel { a }"])
    if k < 0.8:
        return f + ", " + r.choice(["b", "1"])
    if k < 0.9:
        return f + "; " + r.choice(["b", "> a", "a : b"])
    # elements without a term / with several terms whose condition holds without any atom (so that the element survives grounding:
    # a condition over program atoms of a &del element is never true, see DESIGN 11.18)
    return r.choice(["", " : a", "a : ", ";", " : 1 < 2", " : X = 1", f + ", b : 1 < 2", f + " : 1 < 2; : 1 < 2", "a, b, c"])

def statement(r):
    part = r.choice(["initial", "always", "dynamic", "final", "base", "foo", "always(t)", "final"])
    k = r.random()
    theory = r.choice(["tel", "tel", "tel", "del", "tel(1)", "tel(X)", "del(0)", "foo", "__tel_head(0)", "tel()"])
    if theory.startswith("del"):
        f = dformula(r, r.randint(0, 2))
    else:
        f = formula(r, r.randint(0, 3))
    atom = "&{} {{ {} }}".format(theory, elements(r, f))
    if r.random() < 0.1:
        atom += r.choice([" > 1", " = a", " <= X"])
    if k < 0.3:
        st = ":- {}{}.".format(r.choice(["", "not ", "not not "]), atom)
    elif k < 0.5:
        st = "w :- {}{}, q(X).".format(r.choice(["not ", "not not ", ""]), atom)
    elif k < 0.75:
        st = "{}{}.".format(atom, r.choice(["", " :- a", " :- q(X)", " :- not b"]))
    elif k < 0.85:
        st = "{} :- {}.".format(r.choice(["a'", "'a", "_a", "a''(X)", "-a'", "{a'}", "a' | b"]), r.choice(["b", "'b", "b'", "not b''", atom]))
    else:
        st = r.choice(["#show a/0.", "#show {} : a.".format(r.choice(["f(a)", "g", "1"])), "#external a'.", "#const n = 1.", ":~ a'. [1]",
                       "#heuristic a : b'. [1,true]", "#edge (a,b) : {}.".format(atom), "#minimize { 1 : a }.", "#project a/0.", "#defined a/0."])
    return "#program {}. {{a;b}}. q(1). {}".format(part, st)

def cases(seed, n):
    r = random.Random(seed)
    return [statement(r) for _ in range(n)]
