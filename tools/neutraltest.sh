#!/bin/bash
# usage: tools/neutraltest.sh [seeded/neutral2]
# applies every behaviour-preserving patch of the given directory (default seeded/neutral) to /repo, runs all quick checks, reverts; prints which checks raise an alarm
cd /verif
D=${1:-seeded/neutral}
for p in $D/N*.diff; do
  if ! git -C /repo diff --quiet; then echo "repo not clean"; exit 2; fi
  git -C /repo apply $PWD/$p || { echo "$p does not apply"; continue; }
  t=$(cd /repo && /venv/bin/python -m pytest -q -p no:cacheprovider 2>&1 | tail -1)
  res=""
  for i in 01 02 03 04 05 06 07 08 09 10 11 12 13 14 15 16 17; do
    out=$(VERIF_EVIDENCE_DIR=/verif/replays/seed-evidence ./check C$i 2>&1 | grep -E '^(OK|VIOLATION|INFRA)' | head -1)
    case "$out" in OK*) ;; *) res="$res C$i[$(echo $out | cut -c1-90)]";; esac
  done
  git -C /repo checkout -- .
  /venv/bin/python tools/extract.py > /dev/null
  echo "$(basename $p) tests: $t alarms:${res:- none}"
done
