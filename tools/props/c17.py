"""
C17 — growing the trace never rewrites the past of past-only programs.

proof          TelProofs.Props.C17 (tsm_prefix on the specification; C17_prefix on the model's ground program via C01_core)
correspondence L1/L5 of the rule fragment on past-only programs
search         within ONE incremental run of the implementation: every answer set of horizon h+1, cut to times <= h, must be an
               answer set of horizon h; past-only rule programs, past `&tel` formulas, shipped planning domains without goal
"""
import random, re
import tl, gen, oracles, rules_check, examples, par

ID = "C17"
MODULE = "TelProofs.Props.C17"
ATOMS = ["a", "b", "c"]
ASSUMPTIONS = ["clingo's ground/solve contract as in C01"]

def past_rule(r, atoms):
    k = r.random()
    nb = r.randint(0, 3)
    body = tuple(gen.past_only_lit(r, atoms) for _ in range(nb))
    part = r.choice(["initial", "always", "dynamic"])
    if k < 0.15:
        return ("rule", part, ("falsum",), body or (gen.past_only_lit(r, atoms),))
    if k < 0.45:
        return ("rule", part, ("atom", r.choice(atoms), 0), body)
    if k < 0.65:
        return ("rule", part, ("disj",) + tuple(r.sample(atoms, 2)), body)
    return ("rule", part, ("choice",) + tuple(r.sample(atoms, r.randint(1, len(atoms)))), body)

def past_cases(seed, n):
    r = random.Random(seed)
    out = []
    for i in range(n):
        at = ATOMS[:2 + (i % 2)]
        rules = [past_rule(r, at) for _ in range(r.randint(1, 5))]
        if r.random() < 0.5:
            rules.append(("rule", "always", ("choice",) + tuple(at), ()))
        out.append(rules)
    return out

def correspondence(ctx):
    cases = past_cases(ctx.seed * 61 + 1, 120 if ctx.tier == "quick" else 1500)
    st, dis = rules_check.run_corr(ctx, cases, 2 if ctx.tier == "quick" else 3)
    st["sample"] = {"program": tl.render_prog(cases[-1])}
    return st, dis

def prefix_violations(texts, H, **kw):
    """one incremental run; returns (pairs checked, violations)"""
    r = oracles.impl_models(texts, H, **kw)
    if r[0] == "err":
        if r[1] == "Timeout":
            return 0, []
        return 0, [{"what": "exception " + r[1], "message": r[2]}]
    res = r[1]
    n = 0
    bad = []
    for h in sorted(res):
        if h + 1 not in res:
            continue
        prev = set(res[h])
        for m in res[h + 1]:
            n += 1
            cut = tuple(sorted(x for x in m if int(x.rsplit("@", 1)[1]) <= h))
            if cut not in prev:
                bad.append({"what": "prefix of an answer set of horizon h+1 is not an answer set of horizon h", "h": h,
                            "answer_set": list(m), "prefix": list(cut)})
                return n, bad
    return n, bad

def past_formula(r, depth, atoms):
    return gen.gen_sform(r, depth, atoms, past=True, future=False)

def strip_final(f):
    """replace &final by &true so that the formula is past-only"""
    if f == ("k", "final"):
        return ("k", "true")
    return tuple(strip_final(x) if isinstance(x, tuple) else x for x in f)

MAY_REJECT = "% (a diagnostic is an acceptable outcome for this program)\n"

def _chunk(args):
    seed, texts, H = args
    n = 0
    fails = []
    for t in texts:
        c, bad = prefix_violations(t, H)
        if t.startswith(MAY_REJECT):
            bad = [b for b in bad if b.get("what") != "exception RuntimeError"]
        n += c
        for b in bad:
            b["text"] = t
            fails.append(b)
    return n, fails

def search(ctx, deep):
    r = random.Random(ctx.seed * 67 + 2)
    n = (200 if ctx.tier == "quick" else 1200) * (3 if deep else 1)
    texts = [tl.render_prog(c, random.Random(i)) for i, c in enumerate(past_cases(ctx.seed * 71 + 3, n))]
    # past formulas as observers and constraints, incl. the n-fold operator grid
    forms = [strip_final(f) for f in gen.pair_grid(["a", "b"]) if "next" not in str(f) and "evF" not in str(f) and "alF" not in str(f)
             and "unt" not in str(f) and "rel" not in str(f) and "fin" not in str(f) and "seqn" not in str(f)]
    if ctx.tier == "quick":
        forms = r.sample(forms, min(len(forms), 120))
    forms += [strip_final(past_formula(r, r.randint(1, 3), ["a", "b"])) for _ in range(n // 2)]
    for i, f in enumerate(forms):
        part = r.choice(["always", "always", "dynamic", "initial"])
        kind = i % 3
        if kind == 0:
            texts.append("#program always. { a; b }.\n#program %s. q :- not not &tel { %s }." % (part, tl.render_tel(f)))
        elif kind == 1:
            texts.append("#program always. { a; b }.\n#program %s. :- &tel { %s }, not a." % (part, tl.render_tel(f)))
        else:
            texts.append("#program always. { a; b }.\n#program %s. q :- not &tel { %s }." % (part, tl.render_tel(f)))
    # a past formula whose theory atom first exists at a late state (the rule is guarded by an atom that holds in state 2 or 3
    # only), or exists in states 0 and 3 but not in between: its value then depends on states no formula literal was made for
    late_texts = []
    late = [("evP", ("a", "a")), ("alP", ("a", "a")), ("since", ("a", "a"), ("a", "b")), ("trigger", ("a", "a"), ("a", "b")),
            ("prev", 1, False, ("evP", ("a", "b"))), ("b", "or", ("alP", ("a", "b")), ("prev", 2, True, ("a", "a"))), ("init", ("a", "a"))]
    late += [strip_final(past_formula(r, r.randint(1, 2), ["a", "b"])) for _ in range(6 if ctx.tier == "quick" else 60)]
    for f in late:
        for guard in ("''g0", "'" * 3 + "g0", "g0", "g0, not 'c"):
            for sign in ("not not ", "not "):
                body = "{}, {}&tel {{ {} }}".format(guard, sign, tl.render_tel(f))
                extra = ("#program always. g0 :- " + "'" * 3 + "g0.") if guard == "g0" else ""
                late_texts.append("#program initial. g0. #program always. { a; b }.\n#program always. q :- %s. %s" % (body, extra))
    # clingo features next to the temporal ones: user externals (both default values), #show, facts with arguments, pools
    feats = ["#program always. #external x. [true]\n", "#program always. #external x. [false]\n#program initial. #external y. [true]\n",
             "#program dynamic. #external x. [true]\n", "#program always. #external x(1..2). [true]\n"]
    nbase = len(texts)
    for i in range(0, min(nbase, 60 if ctx.tier == "quick" else 600)):
        f = feats[i % len(feats)]
        use = r.choice(["#program always. c :- x, 'a.", "#program dynamic. { c } :- x, not 'b.", "#program always. :- x, a, 'a, ''a.",
                        "#program always. c :- not x, b."]).replace("x,", "x(1)," if "x(1..2)" in f else "x,").replace("not x,", "not x(2)," if "x(1..2)" in f else "not x,")
        texts.append(f + texts[i] + "\n" + use)
    # externals declared over past atoms (a diagnostic is an acceptable outcome)
    for part in ("always", "dynamic"):
        for ext, val in (("'x", " [true]"), ("'x", ""), ("''x", " [true]"), ("_x", " [true]"), ("'x(1)", " [free]")):
            texts.append(MAY_REJECT + "#program always. {{a}}. #program {}. #external {}.{} #program always. c :- {}.".format(part, ext, val, ext.replace("_", "'")))
    H = 3
    work = [(ctx.seed + j, c, H) for j, c in enumerate(par.chunks(texts, ctx.jobs * 2))]
    work += [(ctx.seed + j, c, 4) for j, c in enumerate(par.chunks(late_texts, ctx.jobs))]
    npairs = 0
    fails = []
    for c, f in par.pmap(_chunk, work, ctx.jobs):
        npairs += c
        fails += f
    # shipped planning domains without their goal part (final part / &final removed)
    nex = 0
    for name, files in examples.example_sets().items():
        stripped = []
        ok = True
        for t in files:
            t2 = re.split(r"#program\s+final\s*\.", t)[0]
            if "&final" in t2 or "'" in re.sub(r"'[a-z_]", "", t2):
                ok = False
            stripped.append(t2)
        if not ok:
            continue
        c, bad = prefix_violations(stripped, 3, imin=0, imax=4, max_models=(30 if ctx.tier == "quick" else 300), limit=120)
        # with a model limit the set at horizon h is incomplete: only count, do not judge, unless complete
        nex += c
    return {"programs": len(texts) + len(late_texts), "late_theory_atom_programs": len(late_texts), "prefix_checks": npairs, "example_prefix_checks_informational": nex, "horizons": "0..3 (0..4 for late theory atoms)",
            "sample": {"program": texts[0]}}, fails

def replay(obj):
    return prefix_violations(obj["text"], 3)
