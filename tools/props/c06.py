"""
C06 — non-ground programs mean the same as their ground instances.

proof          TelProofs.Props.C06 (elements_sem, element_sem, interval_add, interval_addAll)
correspondence the real `IntervalSet` vs the model on random interval sequences; the L4 equation check on programs whose theory
               atoms have several elements with conditions (translate_elements)
search         metamorphic on the implementation: a rule schema over a finite domain vs its own textual instantiation — variables,
               pools, intervals, arithmetic, comparisons, classical negation, conditions, aggregates, n-fold prefixes given by
               variables (also inside unbounded operators), element conditions with local variables, #show / #external
"""
import random, re
import tl, gen, oracles, impl_theory, par

ID = "C06"
MODULE = "TelProofs.Props.C06"
MODEL = tl.LeanExe("telmodel")
ASSUMPTIONS = ["clingo's grounder computes the ground instances of the rewritten (ordinary ASP) program",
               "the finite domain is d(1..2); answer-set sets are compared per horizon"]
PARTS = ["initial", "always", "dynamic", "final"]

def _ivset_chunk(args):
    seed, n = args
    import telingo.transformers.head as th
    r = random.Random(seed)
    cases = []
    for _ in range(n):
        ivs = [(a, a + r.randint(-1, 4)) for a in (r.randint(-3, 10) for _ in range(r.randint(0, 7)))]
        cases.append(ivs)
    outs = MODEL.batch([tl.sexp(("ivset",) + tuple(ivs)) for ivs in cases])
    dis = []
    for ivs, mo in zip(cases, outs):
        s = th.IntervalSet(ivs)
        got = " ".join("({} {})".format(l, rr) for l, rr in s)
        if got != mo:
            dis.append({"layer": "L1-interval", "text": "IntervalSet({})".format(ivs), "input": ivs, "model": mo, "impl": got})
        # contains on points
        pts = set(x for l, rr in s for x in range(l, rr))
        exp = set(x for l, rr in ivs for x in range(l, rr))
        if pts != exp:
            dis.append({"layer": "L1-interval", "text": "IntervalSet({})".format(ivs), "input": ivs, "what": "points differ from the union of the ranges"})
    return n, dis

def cond_programs(r, n):
    out = []
    for _ in range(n):
        f = r.choice(["p(X)", "> p(X)", "p(X) | q", "<? p(X)", "p(X) >? q", "~ p(X)", "2 > p(X)",
                      "q", "> q", "q >? p(1)", "~ q", "p(1) | q"])      # the last five: same formula under different conditions
        c = r.choice(["e(X)", "e(X), d(X)", "d(X)", "not e(X), d(X)", "e(X), X > 1"])
        extra = r.choice(["", "; q", "; p(Y) : e(Y), d(Y)"])
        sign = r.choice(["not ", "not not "])
        out.append("#program always. d(1..2). {{ e(1..2); p(1..2); q }}.\n#program {}. w :- {}&tel {{ {} : {}{} }}.".format(
            r.choice(["always", "initial", "dynamic"]), sign, f, c, extra))
    return out

def _eq_one(args):
    (text,) = args
    try:
        return impl_theory.check_equations(text, 1, MODEL)
    except BaseException as e:  # noqa
        if isinstance(e, KeyboardInterrupt):
            raise
        if isinstance(e, tl.Timeout):
            return {"pairs": 0, "equations_evaluated": 0, "horizons": 0}, []
        return {"pairs": 0, "equations_evaluated": 0, "horizons": 0}, [{"layer": "L4", "text": text, "what": "exception " + tl.classify_exc(e) + ": " + str(e)[:200]}]

def correspondence(ctx):
    n = 200 if ctx.tier == "quick" else 2000
    tot = 0
    dis = []
    for c, d in par.pmap(_ivset_chunk, [(ctx.seed * 149 + j, n) for j in range(ctx.jobs)], ctx.jobs):
        tot += c
        dis += d
    r = random.Random(ctx.seed * 151 + 1)
    texts = cond_programs(r, 24 if ctx.tier == "quick" else 200)
    eq = {"pairs": 0, "equations_evaluated": 0, "horizons": 0}
    for st, d in par.pmap(_eq_one, [(t,) for t in texts], ctx.jobs):
        for k in st:
            eq[k] = eq.get(k, 0) + st[k]
        dis += d
    # transformers/term.py: the real TermTransformer vs `addTime`; symbols inside theory atoms vs `symTerm` / create_symbol
    import term_check
    tst, tdis = term_check.run(ctx.seed * 163 + 5, 150 if ctx.tier == "quick" else 2000, MODEL)
    sst, sdis = term_check.run_symbols(ctx.seed * 167 + 7, 150 if ctx.tier == "quick" else 1500, MODEL)
    cst, cdis = term_check.run_conv(ctx.seed * 173 + 9, 300 if ctx.tier == "quick" else 4000, MODEL)
    vst, vdis = term_check.run_vars(ctx.seed * 179 + 11, 300 if ctx.tier == "quick" else 4000, MODEL)
    mst, mdis = term_check.run_statements(ctx.seed * 181 + 13, 600 if ctx.tier == "quick" else 8000, MODEL)
    dis += tdis + sdis + cdis + vdis + mdis
    return {"interval_sequences": tot, "element_condition_programs": len(texts), "equations": eq, "terms": tst, "statements_as_atom_sequences": mst, "symbols": sst, "term_conversion": cst, "head_variables": vst,
            "sample": {"program": texts[0]}}, dis

# ---- schema vs instantiation

def term(r):
    return r.choice(["X", "X", "X", "X+1", "3-X", "(X;X+1)", "1..X"])

def atom(r, p, simple=False):
    if r.random() < 0.2:
        return p
    t = r.choice(["X", "X", "X+1", "3-X"]) if simple else term(r)
    return "{}({})".format(p, t)

def blit(r):
    k = r.random()
    s = r.choice(["", "", "not ", "not not "])
    if k < 0.45:
        return s + r.choice(["", "'", "''", "_"]) + atom(r, r.choice("pq"), simple=True)
    if k < 0.6:
        return r.choice(["not ", "not not "]) + "&tel { %s }" % bform(r)
    if k < 0.7:
        return "X %s %d" % (r.choice(["<", "!=", ">="]), r.randint(1, 2))
    if k < 0.8:
        return r.choice(["not ", "not not "]) + "&tel { %s : %s }" % (r.choice(["p(Y)", "> q(Y)", "p(Y) | q(X)"]), r.choice(["d(Y)", "d(Y), Y != X", "p(Y), d(Y)"]))
    if k < 0.84:
        return "#count { Y : p(Y), d(Y) } %s X" % r.choice([">=", "<", "="])
    if k < 0.93:
        return elem_literal(r)
    return s + r.choice(["&initial", "&final"])

ELEMS = {}

def elem_literal(r):
    """a body literal `&tel { F : C }` with a local variable Y over d(1..2), as a token; ELEMS maps the token to its schema text
    and to the documented reading: the conjunction over the instances y of `C(y) -> F(y)` (written with `->` inside one element)"""
    F = r.choice(["p(Y)", "> p(Y)", "q(1)", "> q(1)", "q(1) | p(X)", "p(Y) >? q(1)", "~ q(1)", "<? q(1)", "p(X)"])
    conds = r.choice([["p(Y)"], ["not p(Y)"], ["p(Y)", "d(Y)"], ["d(Y)"], ["not q(Y)", "d(Y)"], ["p(Y)", "not q(1)"]])
    if "d(Y)" not in conds:
        # Y ranges over d(1..2) only: rule heads such as p(X+1) extend the domain of p beyond the two instances written out in
        # the reading (a false alarm of the thorough tier, 2026-09-30: p(3) from `{ p((X;X+1)) }` made `: p(Y)` a third instance)
        conds.append("d(Y)")
    sign = r.choice(["not ", "not not "])
    schema = "%s&tel { %s : %s }" % (sign, F, ", ".join(conds))
    def inst(y):
        cs = [("~ " + c[4:] if c.startswith("not ") else c).replace("Y", str(y)) for c in conds]
        return "((%s) -> (%s))" % (" & ".join(cs), F.replace("Y", str(y)))
    reading = "%s&tel { %s }" % (sign, " & ".join(inst(y) for y in (1, 2)))
    tok = "@E%d@" % len(ELEMS)
    ELEMS[tok] = (schema, reading)
    return tok

def expand(text, which):
    for tok, v in ELEMS.items():
        if tok in text:
            if tok.startswith("@P") and which == 1:
                text = " ".join(text.replace(tok, alt) for alt in v[1])       # a pool in the head: one rule per alternative
            else:
                text = text.replace(tok, v[which])
    return text

def bform(r):
    a = lambda: r.choice(["p(X)", "q(X)", "p(X+1)", "q(3-X)", "-p(X)", "p(\"s\",X)"])
    k = r.random()
    if k < 0.3:
        return "X %s %s" % (r.choice([">", "<", ">:", "<:"]), a())
    if k < 0.5:
        return "%s %s %s" % (a(), r.choice(["&", "|", ">?", "<*", ";>", "->"]), a())
    if k < 0.7:
        return "%s %s" % (r.choice([">?", "<*", "~", ">", "<<", ">>"]), a())
    if k < 0.85:
        return "%s (X %s %s)" % (r.choice([">?", ">*", "<?", "~"]), r.choice([">", "<", ">:"]), a())
    return "X-1 > (%s & < %s)" % (a(), a())

def hform(r):
    # atoms derived only through head formulas (not free in the base program), so that minimal derivation is visible
    a = lambda: r.choice(["r(X)", "s(X)", "r(X+1)", "-r(X)", "r(X)", "s(X)", "r(X-2+1)", "s(X+1-1)", "r(X-1-1+2)", "s(3-X-1)", "r((X,1))"])
    k = r.random()
    if k < 0.3:
        return "X %s %s" % (r.choice([">", ">:"]), a())
    if k < 0.5:
        return "%s %s %s" % (a(), r.choice(["&", "|", ">?", ">*", ";>"]), a())
    if k < 0.65:
        return "%s %s" % (r.choice([">?", ">*", "~", ">", ">>"]), a())
    if k < 0.85:
        return "%s (X %s %s)" % (r.choice([">?", ">*", ">>", "s(X) >?", "s(X) >*"]), r.choice([">", ">:"]), a())
    return "%s > (%s | %s)" % (r.choice(["X+1", "X-1+1", "X+1-1", "3-X-1"]), a(), a())

def rule(r):
    part = r.choice(PARTS)
    k = r.random()
    body = [blit(r) for _ in range(r.randint(0, 2))] + ["d(X)"]
    if k < 0.2:
        head = ""
    elif k < 0.42:
        head = atom(r, r.choice("pq")).replace("1..X", "X") + ""
        if r.random() < 0.3:
            i = head.find("(")
            head = (head + "'") if i < 0 else head[:i] + "'" + head[i:]
    elif k < 0.55:
        head = "{ %s }" % atom(r, r.choice("pq"))
    elif k < 0.65:
        head = "p(X) | q(X)"
    elif k < 0.88:
        head = "&tel { %s }" % hform(r)
    elif k < 0.94:
        head = "-p(X)"
    else:
        # classical negation in front of a pool whose alternatives differ in arity, present and future
        # (the reading writes one rule per alternative: a pool in the instance would go through the same code as the schema)
        alts = r.choice([["-p'(X)", "-p'(X,X+1)"], ["-q'(1)", "-q'(X,2)"], ["-p(X)", "-p(X,1)"], ["-p''(X,X)", "-p''(X)"], ["-q'(X)", "-q'(1..X,X)"]])
        tok = "@P%d@" % len(ELEMS)
        pool = alts[0][:alts[0].index("(")] + "(" + ";".join(a[a.index("(") + 1:-1] for a in alts) + ")"
        ELEMS[tok] = (pool, alts)
        head = tok
    if "'" in head or head.startswith("@P"):
        body = [b for b in body if "&tel" not in b and "'" not in b.split("(")[0]]
    return part, "{} :- {}.".format(head, ", ".join(body))

def instantiate(t, x):
    return re.sub(r"\bX\b", str(x), t)

def _chunk(args):
    seed, n, H = args
    r = random.Random(seed)
    fails = []
    cnt = 0
    for _ in range(n):
        ELEMS.clear()
        rules = [rule(r) for _ in range(r.randint(1, 3))]
        if r.random() < 0.35:
            # head formulas only: what is derived, and when, is entirely up to the head-formula translation
            rules = [(r.choice(["initial", "initial", "always", "dynamic"]), "&tel { %s } :- d(X)%s." % (hform(r), r.choice(["", ", p(X)", ", not q(1)"])))
                     for _ in range(r.randint(1, 2))]
        base = "#program always. d(1..2). { p(1..2) }. { q(1) }.\n"
        extra = r.choice(["", "#show p/1.\n#show q/1.\n#show -p/1.\n", "#external x(X) : d(X).\n"])
        schema = base + extra + "\n".join("#program %s. %s" % (p, expand(t, 0)) for p, t in rules)
        inst = base + extra + "\n".join("#program %s. %s %s" % (p, instantiate(expand(t, 1), 1), instantiate(expand(t, 1), 2)) for p, t in rules)
        a = oracles.impl_models(schema, H, limit=20, dedup=True)
        b = oracles.impl_models(inst, H, limit=20, dedup=True)
        cnt += 1
        if a[0] == "err" or b[0] == "err":
            ca = a[1] if a[0] == "err" else "ok"
            cb = b[1] if b[0] == "err" else "ok"
            if "Timeout" in (ca, cb):
                continue
            if ca != cb or ca.startswith("Internal"):
                fails.append({"kind": "schema-exception", "text": schema + "\n%%% versus its instantiation\n" + inst, "input": [schema, inst],
                              "schema": ca, "instances": cb})
            continue
        if a[1] != b[1]:
            hh = [h for h in range(H + 1) if a[1].get(h) != b[1].get(h)][0]
            A, B = a[1].get(hh, []), b[1].get(hh, [])
            fails.append({"kind": "schema", "text": schema + "\n%%% versus its instantiation\n" + inst, "input": [schema, inst], "h": hh,
                          "schema_only": [list(m) for m in A if m not in B][:2], "instances_only": [list(m) for m in B if m not in A][:2],
                          "n_schema": len(A), "n_instances": len(B)})
    return cnt, fails

def _show_chunk(args):
    """`#show p/n.` (rewritten to p/(n+1)): the answer sets of P with show statements are the answer sets of P projected to
    the shown signatures"""
    seed, n, H = args
    import clingo
    r = random.Random(seed)
    fails, cnt = [], 0
    sigs = [("p", 1, True), ("q", 1, True), ("p", 1, False), ("q", 0, True), ("d", 1, True), ("r", 1, True), ("p", 2, True)]
    def sig_of(atom):
        t = clingo.parse_term(atom.rsplit("@", 1)[0])
        return (t.name, len(t.arguments), t.positive)
    for _ in range(n):
        ELEMS.clear()
        rules = [rule(r) for _ in range(r.randint(1, 3))]
        base = "#program always. d(1..2). { p(1..2) }. { q(1) }. { q }.\n" + "\n".join("#program %s. %s" % (p, expand(t, 0)) for p, t in rules)
        shown = r.sample(sigs, r.randint(1, 3))
        shows = "\n" + " ".join("#show %s%s/%d." % ("" if pos else "-", nm, ar) for nm, ar, pos in shown)
        a = oracles.impl_models(base, H, limit=20, dedup=True)
        b = oracles.impl_models(base + shows, H, limit=20, dedup=True)
        cnt += 1
        if a[0] == "err" or b[0] == "err":
            if "Timeout" in (a[1], b[1]):
                continue
            if (a[1] if a[0] == "err" else "ok") != (b[1] if b[0] == "err" else "ok"):
                fails.append({"kind": "show-exception", "text": base + shows, "without": str(a)[:200], "with": str(b)[:200]})
            continue
        for h in range(H + 1):
            want = sorted(set(tuple(x for x in m if sig_of(x) in shown) for m in a[1].get(h, [])))
            got = b[1].get(h, [])
            if want != got:
                fails.append({"kind": "show", "text": base + shows, "h": h, "expected_projection": [list(m) for m in want if m not in got][:2],
                              "reported": [list(m) for m in got if m not in want][:2], "n_expected": len(want), "n_reported": len(got)})
                break
    return cnt, fails

def search(ctx, deep):
    n = (10 if ctx.tier == "quick" else 50) * (3 if deep else 1)
    H = 2 if ctx.tier == "quick" else 3
    cnt = 0
    fails = []
    for c, f in par.pmap(_chunk, [(ctx.seed * 157 + j, n, H) for j in range(ctx.jobs)], ctx.jobs):
        cnt += c
        fails += f
    nshow = 0
    for c, f in par.pmap(_show_chunk, [(ctx.seed * 181 + j, max(2, n // 3), 2) for j in range(ctx.jobs)], ctx.jobs):
        nshow += c
        fails += f
    r = random.Random(ctx.seed)
    return {"schemata": cnt, "show_statement_programs": nshow, "domain": "d(1..2)", "horizons": "0..{}".format(H),
            "sample": {"schema": "#program %s. %s" % rule(r)}}, fails

def replay(obj):
    return [oracles.impl_models(t, 2) for t in obj["input"]]
