"""
C10 — the command line prints each answer set as its states, completely and only.

proof          TelProofs.Props.C10 (print_states, print_exact, print_state_unique, print_no_aux, print_untimed_skipped, print_count)
correspondence L6: the real `TelApp.print_model`, called in-process on constructed symbol lists (numbers, strings, tuples, nested
               functions, classical negation, `__` names, terms without time stamp), byte for byte against `telmodel print`
search         the real command line on generated programs (several files, stdin, #show, threads, --imin): the printed `State k:`
               blocks of every answer against the `--outf=2` witnesses of the same program and options
"""
import random, io, sys, os, json, subprocess, tempfile, contextlib, re, shutil
import tl, gen, oracles, par

ID = "C10"
MODULE = "TelProofs.Props.C10"
MODEL = tl.LeanExe("telmodel")
ASSUMPTIONS = ["clingo's total order on symbols (enters the model as a ranking supplied by the harness)",
               "stdout buffering, file-system errors and thread scheduling are outside the model"]

def rand_symbol(r, depth=0):
    import clingo
    k = r.random()
    if k < 0.3 or depth > 1:
        return clingo.Number(r.randint(-2, 12))
    if k < 0.4:
        return clingo.String(r.choice(["x", "a b", "", "q\"r"]))
    if k < 0.5:
        return clingo.Function("", [rand_symbol(r, depth + 1) for _ in range(r.randint(0, 2))])
    if k < 0.55:
        return r.choice([clingo.Infimum, clingo.Supremum])
    name = r.choice(["p", "q", "r", "__aux_0", "__final", "_u", "pp", "p"])
    return clingo.Function(name, [rand_symbol(r, depth + 1) for _ in range(r.randint(0, 3))], r.random() < 0.8)

class FakeModel:
    def __init__(self, syms):
        self.syms = syms
    def symbols(self, shown=False, **kw):
        return list(self.syms)

def real_print(horizon, syms):
    import telingo
    app = telingo.TelApp()
    app._TelApp__on_model(None, horizon)
    buf = io.StringIO()
    old = sys.stdout
    sys.stdout = buf
    try:
        app.print_model(FakeModel(syms), None)
    finally:
        sys.stdout = old
    return buf.getvalue()

def model_line(horizon, syms):
    import clingo
    stripped = {}
    for s in syms:
        if s.type == clingo.SymbolType.Function and len(s.arguments) > 0:
            stripped[s] = clingo.Function(s.name, s.arguments[:-1], s.positive)
    order = sorted(set(stripped.values()))
    rank = {x: i for i, x in enumerate(order)}
    items = []
    for s in syms:
        isf = s.type == clingo.SymbolType.Function
        args = [tl.QStr(str(a)) for a in s.arguments] if isf else []
        last = "none"
        if isf and s.arguments and s.arguments[-1].type == clingo.SymbolType.Number:
            last = s.arguments[-1].number
        items.append((isf, tl.QStr(s.name if isf else ""), s.positive if isf else True, tuple(args), last, rank.get(stripped.get(s), 0)))
    return tl.sexp(("print", horizon, tuple(items)))

def _corr_chunk(args):
    seed, n = args
    r = random.Random(seed)
    cases = []
    for _ in range(n):
        h = r.randint(0, 11)
        syms = [rand_symbol(r) for _ in range(r.randint(0, 12))]
        cases.append((h, syms))
    outs = MODEL.batch([model_line(h, s) for h, s in cases])
    dis = []
    for (h, syms), mo in zip(cases, outs):
        try:
            got = real_print(h, syms)
        except BaseException as e:  # noqa
            if isinstance(e, KeyboardInterrupt):
                raise
            got = "EXC " + tl.classify_exc(e)
        want = mo.replace("\\n", "\n")
        if got != want:
            dis.append({"layer": "L6", "input": [h, [str(s) for s in syms]], "text": "print_model(horizon={}, shown={})".format(h, [str(s) for s in syms]),
                        "model": want, "impl": got})
    return n, dis

def correspondence(ctx):
    n = 80 if ctx.tier == "quick" else 800
    tot = 0
    dis = []
    for c, d in par.pmap(_corr_chunk, [(ctx.seed * 103 + j, n) for j in range(ctx.jobs)], ctx.jobs):
        tot += c
        dis += d
    return {"print_model_calls": tot, "sample": {"horizon": 1, "shown": ["p(1,0)", "-q(1)", "__final(1)", "f(a)"]}}, dis

# ---- command line

def run_cli(files, stdin_text, opts, outf2=False):
    env = dict(os.environ); env["PYTHONPATH"] = tl.REPO + os.pathsep + env.get("PYTHONPATH", "")
    cmd = [sys.executable, "-m", "telingo"] + opts + (["--outf=2"] if outf2 else []) + files
    p = subprocess.run(cmd, input=stdin_text, capture_output=True, text=True, timeout=120, env=env, cwd="/")
    return p.returncode, p.stdout, p.stderr

def parse_states(out):
    """answers -> list of {state: sorted atoms}"""
    answers = []
    cur = None
    for line in out.split("\n"):
        if line.startswith("Answer:"):
            cur = {}
            answers.append(cur)
            state = None
        elif cur is not None and line.startswith(" State "):
            state = int(line.split()[1].rstrip(":"))
            if state in cur:
                cur.setdefault("_dup", []).append(state)
            cur[state] = []
            cur.setdefault("_order", []).append(state)
        elif cur is not None and line.startswith("  ") and state is not None:
            cur[state] += split_atoms(line.strip())
        elif not line.startswith(" "):
            if cur is not None and line.strip() and not line.startswith("Answer"):
                cur = None
    return answers

def split_atoms(s):
    out, depth, buf, instr = [], 0, [], False
    for c in s:
        if c == '"':
            instr = not instr
        if not instr:
            if c == "(":
                depth += 1
            elif c == ")":
                depth -= 1
            elif c == " " and depth == 0:
                if buf:
                    out.append("".join(buf)); buf = []
                continue
        buf.append(c)
    if buf:
        out.append("".join(buf))
    return out

def expected_from_witness(w):
    """witness atoms (strings) of one answer -> {state: sorted atoms} per the property"""
    import clingo
    exp = {}
    for a in w:
        try:
            s = clingo.parse_term(a)
        except RuntimeError:
            continue
        if s.type != clingo.SymbolType.Function or not s.arguments:
            continue
        last = s.arguments[-1]
        if last.type != clingo.SymbolType.Number or s.name.startswith("__"):
            continue
        exp.setdefault(last.number, []).append(str(clingo.Function(s.name, s.arguments[:-1], s.positive)))
    return exp

def cli_case(r):
    """(list of file texts, use stdin?, options)"""
    atoms = ["a", "b", "c(1)", "c(2)", "-a", "d(1,x)", "e(\"s t\")"]
    k = r.random()
    files = []
    nfiles = r.choice([1, 1, 2, 3])
    parts = ["initial", "always", "dynamic", "final"]
    for i in range(nfiles):
        lines = []
        # statements before the first directive belong to the initial part of *this* file
        if r.random() < 0.6:
            lines.append("{ %s }." % r.choice(atoms))
        for _ in range(r.randint(1, 3)):
            p = r.choice(parts)
            a = r.choice(atoms)
            b = r.choice(atoms)
            kind = r.random()
            if kind < 0.4:
                lines.append("#program %s. { %s }." % (p, a))
            elif kind < 0.7:
                lines.append("#program %s. %s :- %s." % (p, a.replace("-", "") if a.startswith("-") else a, tl.prime(b, -1) if p == "dynamic" else b))
            else:
                lines.append("#program %s. :- %s, %s." % (p, a, b) if a != b else "#program %s. { %s }." % (p, a))
        files.append("\n".join(lines) + "\n")
    if r.random() < 0.4:
        shows = r.sample(["#show a/0.", "#show c/1.", "#show -a/0.", "#show d/2.", "#show f(a).", "#show g(X) : c(X).", "#show e/1.",
                          "#show t(-1).", "#show lvl(a,-2) : a.", "#show far(7).", "#show t(-1) : not a."], r.randint(1, 3))
        files[-1] += "#program always.\n" + "\n".join(shows) + "\n"
    opts = ["0", "--imin={}".format(r.randint(1, 3)), "--imax={}".format(3)]
    if r.random() < 0.2:
        opts += ["-t", "2"]
    use_stdin = nfiles == 1 and r.random() < 0.3
    return files, use_stdin, opts

def _cli_chunk(args):
    seed, n = args
    r = random.Random(seed)
    fails = []
    nans = 0
    tmp = tempfile.mkdtemp(prefix="c10_")
    try:
        for i in range(n):
            files, use_stdin, opts = cli_case(r)
            paths = []
            if not use_stdin:
                for j, t in enumerate(files):
                    p = os.path.join(tmp, "f{}_{}.lp".format(i, j))
                    open(p, "w").write(t)
                    paths.append(p)
            stdin_text = files[0] if use_stdin else None
            desc = "telingo {} {}".format(" ".join(opts), " ".join("<file{}>".format(j) for j in range(len(paths))) or "< stdin")
            text = desc + "\n" + "\n%%% next file\n".join(files)
            rc1, out1, err1 = run_cli(paths, stdin_text, opts)
            if "Traceback" in err1 or "PANIC" in err1 or "Traceback" in out1:
                fails.append({"kind": "cli-crash", "text": text, "input": [files, use_stdin, opts], "stderr": err1[-400:]})
                continue
            # reference: the same inputs through transform + imain in-process (bypasses TelApp.main / print_model)
            imin = int([o for o in opts if o.startswith("--imin=")][0].split("=")[1])
            imax = int([o for o in opts if o.startswith("--imax=")][0].split("=")[1])
            ref = oracles.impl_models(files, imax, imin=imin, imax=imax, solver_opts=[])     # the command line runs clasp with its defaults: so does the reference
            if ref[0] == "err":
                if rc1 in (65, 1, 33) or "ERROR" in err1:
                    continue  # both reject the program
                fails.append({"kind": "cli-reference", "text": text, "input": [files, use_stdin, opts], "reference": ref[1] + ": " + ref[2]})
                continue
            printed = parse_states(out1)
            by_h = {}
            bad = False
            for pa in printed:
                nans += 1
                order = pa.get("_order", [])
                if order != list(range(len(order))) or pa.get("_dup") or not order:
                    fails.append({"kind": "cli-states", "text": text, "input": [files, use_stdin, opts], "states_printed": order})
                    bad = True
                    break
                h = len(order) - 1
                by_h.setdefault(h, []).append(tuple(sorted("{}@{}".format(a, k) for k in order for a in pa.get(k, []))))
            if bad:
                continue
            # shown terms whose last argument is a number outside 0..h (e.g. `#show g(X) : c(X).`) belong to no printed state
            want = {h: sorted(tuple(x for x in m if "@" in x and 0 <= int(x.rsplit("@", 1)[1]) <= h) for m in ms)
                    for h, ms in ref[1].items() if ms}
            got = {h: sorted(v) for h, v in by_h.items()}
            if got != want:
                hh = sorted(set(got) | set(want))
                first = [h for h in hh if got.get(h) != want.get(h)][0]
                g, w = got.get(first, []), want.get(first, [])
                fails.append({"kind": "cli-print", "text": text, "input": [files, use_stdin, opts], "h": first,
                              "printed_not_expected": [list(x) for x in g if x not in w][:2],
                              "expected_not_printed": [list(x) for x in w if x not in g][:2]})
    finally:
        shutil.rmtree(tmp, ignore_errors=True)
    return nans, fails

def search(ctx, deep):
    n = (12 if ctx.tier == "quick" else 200) * (3 if deep else 1)
    nans = 0
    fails = []
    for c, f in par.pmap(_cli_chunk, [(ctx.seed * 107 + j, n) for j in range(ctx.jobs)], ctx.jobs):
        nans += c
        fails += f
    return {"cli_programs": n * ctx.jobs, "answers_compared": nans, "features": ["1-3 files", "stdin", "#show", "-t 2", "--imin"],
            "sample": {"command": "telingo 0 --imin=2 --imax=3 f0.lp f1.lp"}}, fails

def replay(obj):
    i = obj["input"]
    if isinstance(i[0], int):
        return "re-run the correspondence with the same seed"
    files, use_stdin, opts = i
    tmp = tempfile.mkdtemp(prefix="c10r_")
    try:
        paths = []
        if not use_stdin:
            for j, t in enumerate(files):
                p = os.path.join(tmp, "f{}.lp".format(j)); open(p, "w").write(t); paths.append(p)
        return run_cli(paths, files[0] if use_stdin else None, opts)[1]
    finally:
        shutil.rmtree(tmp, ignore_errors=True)
