"""
C08 — the solving loop.

proof          TelProofs.Props.C08 over the regenerated loopCond / option parsers
correspondence L2: real imain on a recording Control proxy vs `telmodel calls`; L6: CLI option values
search         real imain vs `telmodel loopspec` (the property statement as a function), exhaustive on a small space
"""
import itertools, random, subprocess, sys, os
import tl, impl_loop

ID = "C08"
MODULE = "TelProofs.Props.C08"
MODEL = tl.LeanExe("telmodel")
SPEC = tl.LeanExe("telspec")
RES = ["SAT", "UNSAT", "UNKNOWN"]

PARTS = [("always", "always", [0]), ("dynamic", "dynamic", [0]), ("initial", "initial", [0]),
         ("always", "always_0_1", [0, 1]), ("always", "always_2", [2]), ("dynamic", "dynamic_0_0", [0]), ("dynamic", "dynamic_1", [1])]

def sx_imax(m):
    return "none" if m is None else m

def gen_case(r, maxlen):
    imin = r.choice([0, 0, 1, 2, 3, 5, -1])
    imax = r.choice([None, None, 0, 1, 2, 3, 4, 6])
    istop = r.choice(["SAT", "SAT", "UNSAT", "UNKNOWN"])
    n = r.randint(1, maxlen)
    results = [r.choice(RES) for _ in range(n)]
    parts = r.sample(PARTS, r.randint(1, len(PARTS)))
    atoms = [[(r.randint(0, n + 1), r.randint(2, 40)) for _ in range(r.randint(0, 3))] for _ in range(n + 1)]
    return (imin, imax, istop, parts, atoms, results)

def model_lines(cases):
    return [tl.sexp(("calls", c[0], sx_imax(c[1]), c[2], tuple((p[0], p[1], tuple(p[2])) for p in c[3]),
                     tuple(tuple(a) for a in c[4]), tuple(c[5]))) for c in cases]

def correspondence(ctx):
    """L2 + L6; returns (stats, disagreements)"""
    r = random.Random(ctx.seed * 7919 + 8)
    n = 400 if ctx.tier == "quick" else 4000
    cases = [gen_case(r, 6) for _ in range(n)]
    outs = MODEL.batch(model_lines(cases))
    dis = []
    kinds = {"ok": 0, "cut": 0, "err": 0}
    for c, mo in zip(cases, outs):
        got = impl_loop.run_imain(*c)
        kinds[got[0]] += 1
        if got[0] == "err":
            if mo != "ERR " + got[1]:
                dis.append({"layer": "L2", "input": c, "model": mo, "impl": got})
        elif got[0] == "ok":
            if mo != got[1]:
                dis.append({"layer": "L2", "input": c, "model": mo, "impl": got[1]})
        else:
            if not got[1].startswith(mo) or mo.count("(solve") != got[2]:
                dis.append({"layer": "L2", "input": c, "model": mo, "impl": got[1]})
    # L6: option values through the real command line
    vals = ["0", "1", "3", "-1", "abc", "", " 2", "1_0", "+2", "2.5", "0x10", "--1", "1e3", "99999999999999999999"]
    stops = ["sat", "SAT", "unsat", "Unknown", "foo", "", "sat "]
    optcases = [("imin", v) for v in vals] + [("imax", v) for v in vals] + [("istop", v) for v in stops]
    if ctx.tier == "quick":
        optcases = r.sample(optcases, 12)
    mouts = MODEL.batch([tl.sexp(("opt", k, v)) for k, v in optcases])
    nopt = 0
    for (k, v), mo in zip(optcases, mouts):
        got = run_cli_option(k, v)
        nopt += 1
        want = mo.split(" ")[0]
        if got != want:
            dis.append({"layer": "L6", "input": [k, v], "model": mo, "impl": got})
    stats = {"L2_cases": n, "L2_outcomes": kinds, "L6_option_cases": nopt,
             "sample": {"input": model_lines(cases[:1])[0], "log": outs[0]}}
    return stats, dis

def run_cli_option(name, value):
    """run the real command line on a trivial program; classify: accepted / rejected / crashed"""
    env = dict(os.environ); env["PYTHONPATH"] = tl.REPO + os.pathsep + env.get("PYTHONPATH", "")
    extra = ["--imax=1"] if name != "imax" else []
    # an empty value must be a separate argument (clingo's option parser would take the next one)
    opt = ["--" + name, ""] if value == "" else ["--{}={}".format(name, value)]
    p = subprocess.run([sys.executable, "-m", "telingo"] + extra + opt + ["--outf=3"],
                       input="a.\n", capture_output=True, text=True, timeout=60, env=env, cwd="/")
    err = p.stderr
    if "Traceback" in err or "PANIC" in err:
        return "crashed"
    if "invalid value" in err or p.returncode not in (10, 20, 30, 0):
        return "rejected"
    return "accepted"

def spec_failures(cases):
    """real imain against the specification function; a failure has the concrete options/results"""
    lines = [tl.sexp(("loopspec", c[0], sx_imax(c[1]), c[2], tuple(c[5]))) for c in cases]
    outs = SPEC.batch(lines)
    fails = []
    for c, so in zip(cases, outs):
        got = impl_loop.run_imain(*c)
        if got[0] == "err":
            fails.append({"kind": "exception", "input": c, "error": got[1], "message": got[2]})
            continue
        want = int(so)
        solves = got[2]
        # horizons: the k-th solve must be at horizon k: check through the translate/assign entries
        hs = [int(x.split(")")[0]) for x in got[1].split("(assign ")[1:]]
        ok_h = hs[:solves] == list(range(solves))
        if solves != want or not ok_h:
            fails.append({"kind": "loop", "input": c, "expected_calls": want, "got_calls": solves, "assigned_horizons": hs})
    return fails

def exhaustive_cases(maxlen):
    parts = PARTS[:3]
    for imin in (0, 1, 2, 3):
        for imax in (None, 0, 1, 2, 3):
            for istop in RES:
                for n in range(1, maxlen + 1):
                    for results in itertools.product(RES, repeat=n):
                        yield (imin, imax, istop, parts, [[] for _ in range(n + 1)], list(results))

def search(ctx, deep):
    """conformance sample (deep=False) or the full failing-input search (deep=True)"""
    maxlen = 4 if not deep and ctx.tier == "quick" else 5
    cases = list(exhaustive_cases(maxlen))
    fails = spec_failures(cases)
    # options: invalid values must be rejected before solving, valid ones accepted
    ofails = []
    for k, v, want in [("imin", "abc", "rejected"), ("imin", "-1", "rejected"), ("imax", "x", "rejected"), ("imax", "-2", "rejected"),
                       ("istop", "foo", "rejected"), ("imin", "2", "accepted"), ("imax", "", "accepted"), ("imax", "3", "accepted"),
                       ("istop", "unsat", "accepted"), ("istop", "UnKnown", "accepted")]:
        got = run_cli_option(k, v)
        if got != want:
            ofails.append({"kind": "option", "input": [k, v], "text": "--{}={}".format(k, v), "expected": want, "got": got})
    cfails, ncli = cli_loop_failures(ctx, deep)
    ofails += cfails
    stats = {"exhaustive_loop_cases": len(cases), "option_cases": 10, "cli_loop_cases": ncli, "exhaustive": True,
             "space": "imin 0..3 x imax None,0..3 x istop x all result sequences of length <= {}".format(maxlen)}
    return stats, fails + ofails

# programs with a known result per horizon (results repeat the last entry)
CLI_PROGS = [
    # c holds at state 2 only: satisfiable exactly at horizon 2 (the last entry repeats: UNSAT from horizon 3 on)
    ("#program initial. a. #program dynamic. b :- 'a. #program always. c :- 'b. #program final. :- not c.", ["UNSAT", "UNSAT", "SAT", "UNSAT"]),
    ("#program initial. a. #program dynamic. b :- 'a. #program always. c :- 'b. :- c.", ["SAT", "SAT", "UNSAT"]),
    ("#program always. a.", ["SAT"]),
    ("#program always. :- not a.", ["UNSAT"]),
]

def cli_calls(text, opts):
    env = dict(os.environ); env["PYTHONPATH"] = tl.REPO + os.pathsep + env.get("PYTHONPATH", "")
    p = subprocess.run([sys.executable, "-m", "telingo", "0"] + opts, input=text, capture_output=True, text=True, timeout=120, env=env, cwd="/")
    calls = None
    for line in p.stdout.split("\n"):
        if line.startswith("Calls"):
            calls = int(line.split(":")[1])
    return calls, p.returncode, p.stderr[-300:]

def cli_loop_failures(ctx, deep):
    """the command line end to end: option spellings x programs with known per-horizon results, the number of
    solve calls must be what the specification says"""
    r = random.Random(ctx.seed * 101 + 9)
    combos = []
    spell = {"SAT": ["sat", "SAT", "Sat"], "UNSAT": ["unsat", "UNSAT", "unSat"], "UNKNOWN": ["unknown"]}
    for text, res in CLI_PROGS:
        for istop in ("SAT", "UNSAT", "UNKNOWN"):
            for imin in (None, 0, 2, 4):
                for imax in (None, 1, 3, 5):
                    combos.append((text, res, istop, imin, imax))
    if not deep and ctx.tier == "quick":
        combos = r.sample(combos, 40)
    lines, metas = [], []
    for text, res, istop, imin, imax in combos:
        cap = imax if imax is not None else 6
        results = (res + [res[-1]] * 10)[:max(cap, 6)]
        # make sure the run terminates: unbounded runs that would never stop get imax=6
        eff_imax = imax
        lines.append(tl.sexp(("loopspec", imin or 0, sx_imax(eff_imax if eff_imax is not None else 6), istop, tuple(results))))
        metas.append((text, results, istop, imin, eff_imax if eff_imax is not None else 6))
    outs = SPEC.batch(lines)
    fails = []
    for (text, results, istop, imin, imax), so in zip(metas, outs):
        opts = ["--istop=" + r.choice(spell[istop]), "--imax={}".format(imax)]
        if imin is not None:
            opts.append("--imin={}".format(imin))
        calls, rc, err = cli_calls(text, opts)
        if calls != int(so):
            fails.append({"kind": "cli-loop", "text": "telingo 0 {}  <<< {}".format(" ".join(opts), text), "input": [text, opts],
                          "expected_calls": int(so), "got_calls": calls, "stderr": err})
    return fails, len(metas)

def replay(obj):
    c = obj["input"]
    if obj.get("kind") == "option":
        return run_cli_option(*c)
    if obj.get("kind") == "cli-loop":
        return cli_calls(*c)
    return impl_loop.run_imain(*c)
