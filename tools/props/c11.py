"""
C11 — unsupported placements of temporal constructs are rejected, all others accepted.

proof          TelProofs.Props.C11 (flags_table, accept_regular, prime_uniform, reject_iff, accepts_iff_doc, theory_guard)
correspondence the model's acceptance (traversal state per position × __get_param, flag expressions regenerated from the source)
               vs the real `transform` on the full position × atom-form grid, in the always and the final part
search         the real `transform` (+ first solving step) vs the documented verdict (`telspec placement`) on the grid, on theory
               atom placements, and on random nestings of positions
"""
import random, itertools
import tl, oracles, par

ID = "C11"
MODULE = "TelProofs.Props.C11"
MODEL = tl.LeanExe("telmodel")
SPEC = tl.LeanExe("telspec")
ASSUMPTIONS = ["clingo's parser produces the AST node types the position templates are meant to produce (checked by the grid itself)"]

POS = {
    "normalHead": "@ :- q.",
    "disjElem": "@ | r :- q.",
    "disjCond": "r : @ | s :- q.",
    "choiceElem": "{ @ } :- q.",
    "choiceCond": "{ r : @ } :- q.",
    "headAggElem": "#count { 1 : @ : q2 } :- q.",
    "headAggCond": "#count { 1 : r : @ } :- q.",
    "bodyLit": ["r :- @.", "r :- not @.", "r :- not not @.", "r :- q, @, not s."],
    "bodyCondLit": "r :- @ : q.",
    "bodyCondCond": "r :- q : @.",
    "bodyAggCond": ["r :- #count { 1 : @ } > 0.", "r :- 1 #sum { 1 : q, @ }."],
    "consLit": [":- @.", ":- not @.", ":- not not @.", ":- q, @."],
    "consCondLit": ":- @ : q.",
    "consCondCond": ":- q : @.",
    "consAggCond": ":- #count { 1 : @ } > 0.",
    "negHead": ["not @ :- q.", "not not @ :- q.", "not @."],
    "negHeadBody": ["not r :- @.", "not not r :- q, not @."],
    "negDisjElem": "not @ | r :- q.",
    "external": "#external @.",
    "externalBody": "#external r : @.",
    "showBody": "#show r : @.",
    "weakBody": ":~ @. [1]",
    "heuristicAtom": "#heuristic @ : q. [1,true]",
    "heuristicBody": "#heuristic r : @. [1,true]",
    "edgeBody": "#edge (1,2) : @.",
    "projectAtom": "#project @ : q.",
    "projectBody": "#project r : @.",
    "minimizeBody": "#minimize { 1 : @ }.",
    "telCondCons": ":- &tel { r : @ }.",
    "telCondNeg": "w :- not &tel { r : @ }.",
}

def forms():
    """(text, leading primes, trailing primes, initially)"""
    out = []
    for core in ("p", "p(1)", "-p", "__x", "p'q", "pq_r"):
        for l, t in ((0, 0), (1, 0), (2, 0), (0, 1), (0, 2), (1, 2), (2, 1), (1, 1), (3, 1), (1, 3)):
            neg = core.startswith("-")
            c = core[1:] if neg else core
            i = c.find("(")
            name, rest = (c, "") if i < 0 else (c[:i], c[i:])
            out.append((("-" if neg else "") + "'" * l + name + "'" * t + rest, l, t, False))
    out += [("_p", 0, 0, True), ("_p(1)", 0, 0, True), ("-_p", 0, 0, True)]
    return out

def outcome(text, run=False):
    import telingo.transformers as tf
    try:
        if run:
            tl.run_telingo(text, 0)
        else:
            tf.transform([text], lambda s: None)
        return "ok"
    except RuntimeError as e:
        c = tl.classify_exc(e)
        return "rej" if c == "RuntimeError" else c
    except BaseException as e:  # noqa
        if isinstance(e, KeyboardInterrupt):
            raise
        return tl.classify_exc(e)

def grid(tier, r):
    cases = []
    for pos, tpls in POS.items():
        for tpl in ([tpls] if isinstance(tpls, str) else tpls):
            for f in forms():
                for part in ("always", "final", "initial", "dynamic"):
                    cases.append((pos, tpl, f, part))
    if tier == "quick":
        # all positions x all forms in the always part, a sample of the other parts
        keep = [c for c in cases if c[3] == "always"]
        rest = [c for c in cases if c[3] != "always"]
        cases = keep + r.sample(rest, 600)
    return cases

def _corr_chunk(cases):
    lines = [tl.sexp(("accept", c[0], tl.QStr(c[2][0].lstrip("-").split("(")[0]))) for c in cases]
    outs = MODEL.batch(lines)
    dis = []
    for c, mo in zip(cases, outs):
        pos, tpl, (ftxt, l, t, ini), part = c
        text = "#program {}. {}".format(part, tpl.replace("@", ftxt))
        got = outcome(text)
        want = "ok" if mo.startswith("ok") else ("rej" if mo.startswith("rej RuntimeError") else mo)
        if got != want:
            dis.append({"layer": "L1-acceptance", "text": text, "position": pos, "form": ftxt, "model": mo, "impl": got})
        elif got == "ok":
            mshift = int(mo.split()[2])
            if mshift != t - l:
                dis.append({"layer": "L1-acceptance", "text": text, "what": "model shift differs from t-l", "model": mo})
    return len(cases), dis

def classifier_check():
    """E8: the extracted `isConstraint` / `isNormal` vs the real `is_constraint` / `is_normal` on statements that clingo parses
    (one per position template) and on all 64 shapes (attribute objects); E13: the extracted element guards vs the real
    `transform` on body theory atoms whose element has 0..3 terms"""
    import types
    import clingo.ast as cast
    import telingo.transformers.transformer as tft
    dis, n = [], 0
    def shape_of(stm):
        is_rule = stm.ast_type == cast.ASTType.Rule
        lit = is_rule and stm.head.ast_type == cast.ASTType.Literal
        bc = lit and stm.head.atom.ast_type == cast.ASTType.BooleanConstant
        return (is_rule, lit, bc, bool(bc and stm.head.atom.value), lit and stm.head.atom.ast_type == cast.ASTType.SymbolicAtom,
                (not lit) or stm.head.sign == cast.Sign.NoSign)
    stms = []
    for pos, tpls in POS.items():
        for tpl in ([tpls] if isinstance(tpls, str) else tpls):
            try:
                cast.parse_string(tpl.replace("@", "p"), lambda st: stms.append((tpl, st)))
            except RuntimeError:
                pass
    real = [(tpl, shape_of(st), bool(tft.is_constraint(st)), bool(tft.is_normal(st))) for tpl, st in stms if st.ast_type != cast.ASTType.Program]
    outs = MODEL.batch([tl.sexp(("classify",) + tuple(int(b) for b in sh)) for _, sh, _, _ in real])
    for (tpl, sh, c, nn), mo in zip(real, outs):
        n += 1
        if mo.split() != [str(c).lower(), str(nn).lower()]:
            dis.append({"layer": "E8-classifier", "text": tpl, "shape": sh, "model": mo, "impl": [c, nn]})
    R, L, B, S = cast.ASTType.Rule, cast.ASTType.Literal, cast.ASTType.BooleanConstant, cast.ASTType.SymbolicAtom
    combos = list(itertools.product([False, True], repeat=6))
    outs = MODEL.batch([tl.sexp(("classify",) + tuple(int(b) for b in sh)) for sh in combos])
    for sh, mo in zip(combos, outs):
        r_, l_, b_, v_, y_, sn = sh
        if b_ and y_:
            continue
        atom = types.SimpleNamespace(ast_type=B if b_ else (S if y_ else cast.ASTType.Comparison), value=v_)
        head = types.SimpleNamespace(ast_type=L if l_ else cast.ASTType.Disjunction, atom=atom, sign=cast.Sign.NoSign if sn else cast.Sign.Negation)
        stm = types.SimpleNamespace(ast_type=R if r_ else cast.ASTType.External, head=head)
        n += 1
        want = [str(bool(tft.is_constraint(stm))).lower(), str(bool(tft.is_normal(stm))).lower()]
        if mo.split() != want:
            dis.append({"layer": "E8-classifier", "shape": sh, "model": mo, "impl": want})
    terms = {"tel": ["a", "> b", "a & b"], "del": ["a .>? b", "&true .>* a", "? a .>? b"]}
    outs = MODEL.batch([tl.sexp(("elemguard", k)) for k in range(4)])
    for k in range(4):
        for j, th in enumerate(("tel", "del")):
            n += 1
            text = "#program always. {a;b}. :- &%s { %s : 1 < 2 }." % (th, ", ".join(terms[th][:k]))
            got = outcome(text, True)
            want = "rej" if outs[k].split()[j] == "true" else "ok"
            if got != want:
                dis.append({"layer": "E13-element-guard", "text": text, "terms": k, "model": outs[k], "impl": got})
    return n, dis

def correspondence(ctx):
    r = random.Random(ctx.seed * 97 + 1)
    cases = grid(ctx.tier, r)
    n = 0
    dis = []
    ncl, dcl = classifier_check()
    dis += dcl
    for c, d in par.pmap(_corr_chunk, par.chunks(cases, ctx.jobs * 2), ctx.jobs):
        n += c
        dis += d
    return {"grid_cases": n, "positions": len(POS), "atom_forms": len(forms()), "classifier_and_element_guard_cases": ncl,
            "sample": {"program": "#program always. " + POS["disjCond"].replace("@", "''p'")}}, dis

THEORY_CASES = [
    # (text, expected, needs a solving step)
    ("#program always. {a}. w :- &tel { a }.", "rej", False),
    ("#program always. {a}. w :- not &tel { a }.", "ok", False),
    ("#program always. {a}. w :- not not &tel { a }.", "ok", False),
    ("#program always. {a}. :- &tel { a }.", "ok", False),
    ("#program always. {a}. :- q, &tel { a }, not r.", "ok", False),
    ("#program always. {a}. not w :- &tel { a }.", "ok", False),
    ("#program always. {a}. {w} :- &tel { a }.", "rej", False),
    ("#program always. {a}. w | v :- &tel { a }.", "rej", False),
    ("#program always. {a}. w :- &del { a .>? a }.", "rej", False),
    ("#program always. {a}. w :- not &del { a .>? a }.", "ok", False),
    ("#program always. {a}. :- &del { a .>? a }.", "ok", False),
    ("#program final. {a}. :- &tel { a }.", "ok", False),
    ("#program final. {a}. w :- &tel { a }.", "rej", False),
    ("#program always. &tel { a }.", "ok", False),
    ("#program always. &tel { a | > b } :- c.", "ok", False),
    ("#program always. &tel { < a }.", "rej", False),
    ("#program always. &tel { a <? b }.", "rej", False),
    ("#program always. &tel { a -> b }.", "rej", False),
    ("#program always. &tel { << a }.", "rej", False),
    ("#program always. &tel { a <; b }.", "rej", False),
    ("#program always. {a}. :- &tel { a, b }.", "rej", False),
    ("#program always. {a}. :- &tel { 'a }.", "rej", True),
    ("#program always. {a}. :- &tel { a' }.", "rej", True),
    ("#program always. {a}. :- not &tel { > 'a }.", "rej", True),
    ("#program always. {a}. :- &tel { a'b }.", "ok", True),
    ("#program always. {a}. :- &tel { __a }.", "ok", True),
]

def element_cases():
    """theory atoms in accepted body placements whose elements carry 1, 2 or 3 terms — `&tel` and `&del`, with and without
    conditions, one or two elements: rejected exactly if some element has more than one term"""
    out = []
    one = {"tel": ["a", "> a", "a & b"], "del": ["a .>? b", "&true .>* a", "? a + b .>? a"]}
    for th in ("tel", "del"):
        for ctx_ in (":- {}.", ":- not {}.", "w :- not {}.", "w :- not not {}, a.", ":- b, {}."):
            for f in one[th]:
                for extra in (0, 1, 2):
                    for cond in ("", " : b", " : 1 < 2"):
                        el = ", ".join([f] + one[th][:extra]) + cond
                        for more in ("", "; " + one[th][1], "; " + one[th][1] + ", " + one[th][0]):
                            bad = extra > 0 or more.count(",") > 0
                            text = "#program always. {a;b}. " + ctx_.format("&%s { %s%s }" % (th, el, more))
                            out.append((text, "rej" if bad else "ok", False))
    return out

def _search_chunk(cases):
    lines = [tl.sexp(("placement", c[0], c[2][1], c[2][2], c[2][3])) for c in cases]
    outs = SPEC.batch(lines)
    fails = []
    for c, so in zip(cases, outs):
        pos, tpl, (ftxt, l, t, ini), part = c
        text = "#program {}. {}".format(part, tpl.replace("@", ftxt))
        got = outcome(text)
        if got != so:
            fails.append({"kind": "placement", "text": text, "position": pos, "form": ftxt, "expected": so, "got": got})
    return len(cases), fails

def nested_cases(r, n):
    """random combinations: several atoms with different forms in one statement; accepted iff each placement is"""
    out = []
    fs = forms()
    keys = list(POS)
    for _ in range(n):
        k = r.randint(2, 3)
        stmts = []
        verdicts = []
        for _ in range(k):
            pos = r.choice(keys)
            tpl = POS[pos] if isinstance(POS[pos], str) else r.choice(POS[pos])
            f = r.choice(fs)
            stmts.append(tpl.replace("@", f[0]))
            verdicts.append((pos, f))
        out.append((" ".join(stmts), verdicts, r.choice(["always", "final", "dynamic"])))
    return out

CONTEXTS = [":- q'.", ":- q, r''.", "not q :- r'.", "not not q' :- r.", "p' :- q.", "{ p } :- 'q.", ":- &tel { > q }.", "&tel { > q } :- r.",
            ":- not not q', 'r.", "#external q.", "r :- 'q.", ":- q' : r."]

def context_cases(r, tier):
    """a statement that is acceptable on its own, then a grid statement: the verdict of the second must not depend on the first
    (no traversal state may survive from one statement to the next)"""
    fs = [f for f in forms() if f[0] in ("p'", "p''", "'p", "_p", "p", "-p'", "'p'")]
    ctxs = [c for c in CONTEXTS if outcome("#program always. " + c) == "ok"]      # only statements acceptable on their own
    out = []
    for pos, tpls in POS.items():
        for tpl in ([tpls] if isinstance(tpls, str) else tpls):
            for f in fs:
                for c in ctxs:
                    out.append((pos, tpl, f, c, r.choice(["", "", "#program always. ", "#program dynamic. "])))
    if tier == "quick":
        out = r.sample(out, 1500)
    return out

def _context_chunk(cases):
    lines = [tl.sexp(("placement", c[0], c[2][1], c[2][2], c[2][3])) for c in cases]
    outs = SPEC.batch(lines)
    fails = []
    for c, so in zip(cases, outs):
        pos, tpl, (ftxt, l, t, ini), ctxt, sep = c
        stmt = tpl.replace("@", ftxt)
        text = "#program always. {} {}{}".format(ctxt, sep, stmt)
        got = outcome(text)
        if got != so:
            alone = outcome("#program always. " + (sep + stmt if sep else stmt))
            fails.append({"kind": "placement-after-context", "text": text, "position": pos, "form": ftxt, "expected": so, "got": got,
                          "same_statement_alone": alone})
    return len(cases), fails

def search(ctx, deep):
    r = random.Random(ctx.seed * 101 + 2)
    cases = grid(ctx.tier if not deep else "thorough", r)
    n = 0
    fails = []
    for c, f in par.pmap(_search_chunk, par.chunks(cases, ctx.jobs * 2), ctx.jobs):
        n += c
        fails += f
    nctx = 0
    for c, f in par.pmap(_context_chunk, par.chunks(context_cases(r, ctx.tier if not deep else "thorough"), ctx.jobs * 2), ctx.jobs):
        nctx += c
        fails += f
    elem_cases = element_cases()
    for text, want, run in THEORY_CASES + elem_cases:
        got = outcome(text, run)
        if got != want:
            fails.append({"kind": "theory-placement", "text": text, "expected": want, "got": got})
    nested = nested_cases(r, 150 if ctx.tier == "quick" else 1500)
    lines = []
    for text, verdicts, part in nested:
        for pos, f in verdicts:
            lines.append(tl.sexp(("placement", pos, f[1], f[2], f[3])))
    outs = SPEC.batch(lines)
    i = 0
    for text, verdicts, part in nested:
        vs = outs[i:i + len(verdicts)]
        i += len(verdicts)
        want = "ok" if all(v == "ok" for v in vs) else "rej"
        full = "#program {}. {}".format(part, text)
        got = outcome(full)
        if got != want:
            fails.append({"kind": "nested-placement", "text": full, "expected": want, "got": got})
    return {"grid_cases": n, "after_context_cases": nctx, "theory_atom_cases": len(THEORY_CASES), "element_term_cases": len(elem_cases), "nested_statements": len(nested),
            "sample": {"program": "#program final. " + POS["negDisjElem"].replace("@", "p''")}}, fails

def replay(obj):
    return outcome(obj["text"], True)
