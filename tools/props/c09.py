"""
C09 — every reported answer set is a well-formed finite trace.

proof          TelProofs.Props.C09 over the model's accumulated ground program G(P,h)
correspondence L1/L5 of the rule fragment incl. future heads and look-ahead constraints (tools/rules_check.py)
search         direct monitor on every answer set of real runs: random programs of all fragments and the shipped examples
"""
import random
import tl, gen, oracles, rules_check, examples, par

ID = "C09"
MODULE = "TelProofs.Props.C09"
ATOMS2, ATOMS3 = ["a", "b"], ["a", "b", "c"]
ASSUMPTIONS = ["clingo's ground/solve contract as in C01", "external handling: assign_external(True) makes the atom a fact for the next solve, release makes it false forever"]

def rule_cases(seed, n):
    r = random.Random(seed)
    return gen.future_sign_cases() + [gen.gen_core_prog(r, ATOMS2 if i % 3 else ATOMS3, True, neg_atoms=(i % 5 == 0)) for i in range(n)]

def correspondence(ctx):
    cases = rule_cases(ctx.seed * 23 + 1, 300 if ctx.tier == "quick" else 1500)
    H = 2 if ctx.tier == "quick" else 3
    st, dis = rules_check.run_corr(ctx, cases, H)
    st["sample"] = {"program": tl.render_prog(cases[-1])}
    return st, dis

MAY_REJECT = "% (a diagnostic is an acceptable outcome for this program)\n"

def _mon_chunk(args):
    seed, texts, H = args
    n = 0
    fails = []
    r = random.Random(seed)
    for t in texts:
        # every third program also with another stop criterion and a small imin: the loop then goes on after satisfiable calls
        runs = [{}]
        if r.random() < 0.34:
            runs.append({"istop": r.choice(["UNSAT", "UNKNOWN"]), "imin": r.choice([0, 1]), "imax": H + 1})
        for kw in runs:
            c, bad = oracles.wellformed_violations(t, H, **kw)
            if isinstance(t, str) and t.startswith(MAY_REJECT):
                bad = [b for b in bad if b.get("what") != "exception RuntimeError"]
            n += c
            for b in bad:
                b["text"] = t if isinstance(t, str) else "\n%%% next file\n".join(t)
                if kw:
                    b["options"] = kw
                    b["text"] += "\n%%% run with " + " ".join("{}={}".format(k, v) for k, v in sorted(kw.items()))
                fails.append(b)
            if bad:
                break
    return n, fails

def search(ctx, deep):
    r = random.Random(ctx.seed * 29 + 4)
    n = (240 if ctx.tier == "quick" else 2500) * (3 if deep else 1)
    texts = [tl.render_prog(c) for c in rule_cases(ctx.seed * 31 + 2, n)]
    # formulas in bodies and heads
    for i in range(n // 2):
        forms = [gen.gen_sform(r, 2, ATOMS2)]
        texts.append(oracles.witness_program(forms, ATOMS2, "tel"))
        texts.append(oracles.witness_program([gen.gen_dform(r, 2, ATOMS2)], ATOMS2, "del"))
        texts.append("#program {}. &tel {{ {} }}. #program always. {{ a }}.".format(r.choice(["initial", "always", "dynamic"]),
                                                                                 tl.render_tel(gen.gen_hform(r, 2, ATOMS2))))
    # one predicate reached through future heads of different depths, from different parts (the auxiliary future atoms of one
    # signature then enter the atom table out of time order), every horizon up to the larger depth + 1
    for d1 in (1, 2, 3):
        for d2 in (1, 2, 3):
            if d1 == d2:
                continue
            for p1, p2 in (("always", "initial"), ("initial", "always"), ("dynamic", "initial"), ("always", "dynamic")):
                for sgn in ("", "-"):
                    texts.append("#program always. {{a}}. #program {}. {}p{} :- a. #program {}. {}p{}.".format(
                        p1, sgn, "'" * d1, p2, sgn, "'" * d2))
    # user externals, also declared over past / initially atoms (which telingo may reject with a diagnostic — see MAY_REJECT)
    for part in ("always", "dynamic", "initial"):
        for ext in ("x", "'x", "''x", "_x", "x(1..2)", "'x(1)"):
            for val in ("", " [true]", " [free]"):
                use = "c :- " + ("'x" if "(" not in ext else "'x(1)") + "." if part != "initial" else "c :- x."
                texts.append(MAY_REJECT + "#program always. {{a}}. #program {}. #external {}.{} #program always. {}".format(part, ext, val, use.replace("'x", "x") if part == "initial" else use))
    work = [(ctx.seed + j, c, 4) for j, c in enumerate(par.chunks(texts, ctx.jobs * 2))]
    nsets = 0
    fails = []
    for c, f in par.pmap(_mon_chunk, work, ctx.jobs):
        nsets += c
        fails += f
    # shipped examples (non-ground, no reference answer needed)
    nex = 0
    for name, files in examples.example_sets().items():
        c, bad = oracles.wellformed_violations(files, 12, imin=0, imax=13, max_models=(20 if ctx.tier == "quick" else 200), limit=120)
        nex += c
        for b in bad:
            b["text"] = "shipped example " + name
            b["input"] = name
            fails.append(b)
    return {"programs": len(texts), "answer_sets_inspected": nsets, "example_answer_sets_inspected": nex,
            "sample": {"program": texts[0]}}, fails

def replay(obj):
    return oracles.wellformed_violations(obj["text"], 3)
