"""
C01 — core temporal rules yield exactly the temporal stable models at every horizon.
"""
import random
import tl, gen, oracles, rules_check

ID = "C01"
MODULE = "TelProofs.Props.C01"
ATOMS2, ATOMS3 = ["a", "b"], ["a", "b", "c"]
ASSUMPTIONS = ["clingo's grounder produces the instances described in TelModel.Ground (atoms unknown at grounding time are false in that instance) up to simplifications that preserve stable models",
               "clingo's solver enumerates exactly the stable models under the given externals and assumptions"]

def cases_for(seed, n, tier):
    r = random.Random(seed)
    grid = [[x, ("rule", "always", ("choice", "a", "b"), ())] for x in gen.grid_rules(ATOMS2)]
    if tier == "quick":
        grid = r.sample(grid, 60)
    rnd = [gen.gen_core_prog(r, ATOMS2 if i % 3 else ATOMS3, False, neg_atoms=(i % 5 == 0)) for i in range(n)]
    return grid + rnd

def correspondence(ctx):
    cases = cases_for(ctx.seed * 17 + 1, 400 if ctx.tier == "quick" else 2000, ctx.tier)
    H = 2 if ctx.tier == "quick" else 3
    st, dis = rules_check.run_corr(ctx, cases, H)
    st["horizons"] = "0..{}".format(H)
    st["grid_histogram"] = rules_check.histogram(cases)
    st["sample"] = {"program": tl.render_prog(cases[-1])}
    return st, dis

def search(ctx, deep):
    n = (400 if ctx.tier == "quick" else 2500) * (3 if deep else 1)
    cases = cases_for(ctx.seed * 19 + 2, n, ctx.tier)
    hinted = [[tuple(x) for x in d["rules"]] for d in getattr(ctx, "hints", []) if "rules" in d][:40]
    H = 2 if ctx.tier == "quick" else 3
    fails = rules_check.run_search(ctx, hinted + cases, H)
    return {"programs": len(cases), "horizons": "0..{}".format(H), "oracle": "telspec tsm (brute-force temporal stable models)",
            "sample": {"program": tl.render_prog(cases[-1])}}, fails

def replay(obj):
    return oracles.replay_record(obj, 3)
