"""
C12 — answer sets do not depend on statement order, duplication or file layout.

proof          TelProofs.Props.C12 (stable models and temporal stable models depend on the rule *set*; the model's ground program
               at every horizon depends on the program only through membership; uniqueness of formula values whatever the order)
correspondence L1/L5 of the rule fragment on permuted / duplicated programs
search         metamorphic on the implementation: permutations, duplications, file splits, repeated sub-formulas
"""
import subprocess, random
import tl, gen, oracles, rules_check, par

ID = "C12"
MODULE = "TelProofs.Props.C12"
ATOMS = ["a", "b"]
ASSUMPTIONS = ["clingo's ground/solve contract as in C01"]

def gen_base(r):
    """a small program mixing rule forms, body formulas and head formulas"""
    rules = [gen.gen_rule(r, ATOMS, future=True) for _ in range(r.randint(1, 3))]
    rules.append(("rule", "always", ("choice",) + tuple(ATOMS), ()))
    k = r.random()
    if k < 0.6:
        share = []
        for _ in range(r.randint(1, 2)):
            f = gen.gen_sform(r, r.randint(1, 2), ATOMS, share=share)
            rules.append(("rule", r.choice(["initial", "always", "dynamic"]), ("falsum",), (("tel", r.choice(["pos", "not"]), f),)))
    if k > 0.3:
        for _ in range(r.randint(1, 2)):
            body = (("atom", "pos", r.choice(ATOMS), 0),) if r.random() < 0.5 else ()
            rules.append(("rule", r.choice(["initial", "always"]), ("tel", gen.gen_hform(r, r.randint(1, 2), ATOMS)), body))
    if r.random() < 0.3:
        rules.append(("rule", "always", ("falsum",), (("del", "pos", gen.gen_dform(r, 1, ATOMS)),)))
    if r.random() < 0.3:
        # two rules whose head formulas are two spellings of one formula, with different bodies
        fa, fb = gen.alias_pair(r, ATOMS, head=True, depth=r.randint(0, 1))
        part = r.choice(["initial", "always"])
        rules.append(("rule", part, ("tel", fa), (("atom", "pos", "a", 0),)))
        rules.append(("rule", part, ("tel", fb), (("atom", "pos", "b", 0),)))
    if r.random() < 0.25:
        fa, fb = gen.alias_pair(r, ATOMS, depth=r.randint(0, 1))
        part = r.choice(["initial", "always", "dynamic"])
        rules.append(("rule", part, ("atom", "u", 0), (("tel", "notnot", fa),)))
        rules.append(("rule", part, ("atom", "v", 0), (("tel", "not", fb),)))
    return rules

def variants(r, rules):
    """list of (description, list of file texts)"""
    out = []
    perm = list(rules); r.shuffle(perm)
    out.append(("permuted", [tl.render_prog(perm)]))
    dup = list(rules); dup.insert(r.randint(0, len(dup)), r.choice(rules))
    out.append(("duplicated", [tl.render_prog(dup)]))
    k = r.randint(1, max(1, len(rules) - 1))
    out.append(("two files", [tl.render_prog(rules[:k]), tl.render_prog(rules[k:])] if rules[k:] else [tl.render_prog(rules)]))
    three = [[], [], []]
    for x in perm:
        three[r.randint(0, 2)].append(x)
    out.append(("three files, permuted", [tl.render_prog(f) for f in three if f]))
    out.append(("one rule per file", [tl.render_prog([x]) for x in rules]))
    return out

def _chunk(args):
    seed, H, n = args
    r = random.Random(seed)
    fails = []
    nvar = 0
    for i in range(n):
        rules = gen_base(r)
        base_text = tl.render_prog(rules)
        ref = oracles.impl_models([base_text], H, dedup=True)
        if ref[0] == "err" and ref[1] == "Timeout":
            continue
        if ref[0] == "err" and ref[1] not in ("RuntimeError", "ClingoError"):
            fails.append({"kind": "exception", "text": base_text, "error": ref[1], "message": ref[2]})
            continue
        for desc, files in variants(r, rules):
            nvar += 1
            got = oracles.impl_models(files, H, dedup=True)
            if got[0] == "err" and got[1] == "Timeout":
                continue
            if (got[0], got[1]) != (ref[0], ref[1]):
                fails.append({"kind": "layout", "variant": desc, "text": base_text + "\n%%% versus (" + desc + ")\n" + "\n%%% next file\n".join(files),
                              "input": [[base_text], files], "reference": str(ref)[:400], "got": str(got)[:400]})
                break
    return nvar, fails

def _cli_chunk(args):
    """the same through the command line (TelApp.main reads the files): one file vs the statements spread over files"""
    seed, n = args
    import tempfile, shutil, os
    import props.c10 as c10
    r = random.Random(seed)
    fails = []
    cnt = 0
    tmp = tempfile.mkdtemp(prefix="c12_")
    def answers(paths):
        try:
            rc, out, err = c10.run_cli(paths, None, ["0", "--imin=3", "--imax=3"])
        except subprocess.TimeoutExpired:
            return ("timeout",)
        if "Traceback" in err or "Traceback" in out:
            return ("crash", err[-200:])
        res = {}
        for pa in c10.parse_states(out):
            order = pa.get("_order", [])
            res.setdefault(len(order) - 1, set()).add(tuple(sorted("{}@{}".format(a, k) for k in order for a in pa.get(k, []))))
        return ("ok", {h: sorted(v) for h, v in res.items()})
    try:
        for i in range(n):
            rules = [x for x in gen_base(r) if x[2][0] != "tel" or True]
            one = os.path.join(tmp, "one{}.lp".format(i))
            open(one, "w").write(tl.render_prog(rules))
            if i % 2 == 0:
                k = r.randint(1, max(1, len(rules) - 1))
                parts = [rules[:k], rules[k:]] if rules[k:] else [rules]
                if r.random() < 0.5:
                    parts.reverse()
                texts = [tl.render_prog(ps) for ps in parts]
            else:
                # every file starts in the initial part: the statements of the initial part without any directive in a file of
                # their own, after a file that ends in another part
                rules = rules + [("rule", "initial", ("choice", "a"), ())]
                ini = [x for x in rules if x[1] == "initial"]
                rest = [x for x in rules if x[1] != "initial"]
                texts = ([tl.render_prog(rest)] if rest else []) + ["\n".join(tl.render_rule(x, None, with_part=False) for x in ini)]
                open(one, "w").write(tl.render_prog(rules))
                parts = [rest, ini]
            paths = []
            for j, t in enumerate(texts):
                p = os.path.join(tmp, "part{}_{}.lp".format(i, j))
                open(p, "w").write(t)
                paths.append(p)
            a, b = answers([one]), answers(paths)
            cnt += 1
            if a != b and ("timeout",) not in (a, b):
                fails.append({"kind": "cli-layout", "text": tl.render_prog(rules) + "\n%%% versus the files\n" + "\n%%% next file\n".join(texts),
                              "input": [[tl.render_prog(rules)], texts], "one_file": str(a)[:300], "files": str(b)[:300]})
    finally:
        shutil.rmtree(tmp, ignore_errors=True)
    return cnt, fails

def todo_check(seed, n):
    """the real `Theory.add_todo` / the list handed to the formulas by `Theory.translate` vs the model's `addTodo`, on random
    request sequences with repetitions (formula objects identified by their representation)"""
    import telingo.theory as thy
    r = random.Random(seed)
    MODEL = tl.LeanExe("telmodel")
    class F:
        def __init__(self, rep):
            self._rep = rep
    seqs, lines, impl = [], [], []
    for _ in range(n):
        reps = r.sample(["a", "b", "(a&b)", "(1>a)", "(1>:a)", "(a>?b)", "((a&b)|c)", "&true", "(~a)"], r.randint(1, 5))
        ks = [(r.randint(0, 3), r.choice(reps)) for _ in range(r.randint(0, 12))]
        t = thy.Theory()
        for st, rep in ks:
            t.add_todo(F(rep), st)
        got = [(st, f._rep) for st, f in t._Theory__todo]
        seqs.append(ks)
        lines.append(tl.sexp(("todo",) + tuple((st, tl.QStr(rep)) for st, rep in ks)))
        impl.append("(" + " ".join("({} {})".format(st, tl.sexp(tl.QStr(rep))) for st, rep in got) + ")")
    outs = MODEL.batch(lines)
    dis = []
    for ks, mo, got in zip(seqs, outs, impl):
        if " ".join(mo.split()) != got:
            dis.append({"layer": "L1-todo", "text": "add_todo sequence " + str(ks), "model": mo, "impl": got})
    return len(seqs), dis

def correspondence(ctx):
    # the model's ground program on permuted/duplicated rule programs
    ntodo, tdis = todo_check(ctx.seed * 191 + 13, 200 if ctx.tier == "quick" else 3000)
    r = random.Random(ctx.seed * 73 + 1)
    cases = []
    for i in range(60 if ctx.tier == "quick" else 800):
        rules = gen.gen_core_prog(r, ATOMS, True)
        perm = list(rules); r.shuffle(perm)
        cases.append(perm + [r.choice(rules)])
    st, dis = rules_check.run_corr(ctx, cases, 2)
    st["sample"] = {"program": tl.render_prog(cases[-1])}
    st["todo_request_sequences"] = ntodo
    return st, dis + tdis

def _signed_atom_chunk(args):
    """formulas over an atom and its classical negation (and over near-namesakes) in one program: every order of the statements,
    a statement repeated, the statements spread over two inputs — one set of answer sets"""
    import itertools
    seed, n = args
    r = random.Random(seed)
    fails, cnt = [], 0
    A = ["p", "-p", "p(1)", "-p(1)", "q"]
    for _ in range(n):
        a, b = r.sample(A, 2) if r.random() < 0.5 else r.choice([("p", "-p"), ("-p", "p"), ("p(1)", "-p(1)")])
        shapes = [":- &tel {{ {} }}.", "w :- not &tel {{ {} }}.", ":- not &tel {{ < {} | {} }}.", "v :- not not &tel {{ > {} }}.", ":- &tel {{ <? {} }}, not &tel {{ {} }}."]
        sts = ["{ p }.", "{ -p }.", "{ p(1) }. { -p(1) }. { q }.",
               r.choice(shapes).format(*([a] * 2)), r.choice(shapes).format(*([b] * 2))]
        part = r.choice(["always", "initial", "always"])
        base = "#program always. " + " ".join(sts[:3]) + " #program " + part + ". " + " ".join(sts[3:])
        ref = oracles.impl_models(base, 2, dedup=True)
        if ref[0] == "err":
            continue
        variants = []
        for perm in itertools.permutations(sts[3:]):
            variants.append("#program always. " + " ".join(sts[:3]) + " #program " + part + ". " + " ".join(perm))
        variants.append(base + " " + sts[3])
        variants.append(["#program always. " + " ".join(sts[:3]) + " #program " + part + ". " + sts[4], "#program " + part + ". " + sts[3]])
        for v in variants:
            cnt += 1
            got = oracles.impl_models(v, 2, dedup=True)
            if "Timeout" in (ref[1], got[1]):
                continue
            if got != ref:
                vt = v if isinstance(v, str) else "\n%%% next input\n".join(v)
                fails.append({"kind": "signed-atoms", "text": base + "\n%%% versus\n" + vt, "input": [base, v], "base": str(ref)[:300], "variant": str(got)[:300]})
                break
    return cnt, fails

def _split_atom_chunk(args):
    """`&tel { F ; G }` (one theory atom, two elements) versus `&tel { F }, &tel { G }` (two theory atoms), in constraints that do and do
    not look ahead, in programs that own F or a super-formula of F elsewhere; all statement orders of the variant"""
    seed, n = args
    r = random.Random(seed)
    F = ["a", "a | b", "< a", "<? a", "a <? b", "~ a", "> a", "a & ~ b", "&initial"]
    G = ["> b", "b", "<* b", "~ b", ">? b", "c | < b"]
    fails, cnt = [], 0
    for _ in range(n):
        f, g = r.choice(F), r.choice(G)
        sup = r.choice([f, "({}) | c".format(f), "({}) & ~ c".format(f), "< ({})".format(f)])
        own = r.choice([":- not &tel {{ {} }}.", "w :- not not &tel {{ {} }}.", ":- &tel {{ {} }}, not c."]).format(sup)
        guard = r.choice(["c'", "not c'", "c''", "c", "not b'"])
        part = r.choice(["initial", "always", "dynamic"])
        one = ":- &tel {{ {} ; {} }}, {}.".format(f, g, guard)
        two = ":- &tel {{ {} }}, &tel {{ {} }}, {}.".format(f, g, guard)
        head = "#program always. {a;b;c}. #program " + part + ". "
        t1 = head + own + " " + one
        variants = [head + own + " " + two, head + two + " " + own, head + two + "\n#program " + part + ". " + own + " " + two]
        r1 = oracles.impl_models(t1, 2, dedup=True)
        for t2 in variants:
            cnt += 1
            r2 = oracles.impl_models(t2, 2, dedup=True)
            if "Timeout" in (r1[1], r2[1]):
                continue
            if r1 != r2:
                fails.append({"kind": "split-theory-atom", "text": t1 + "\n%%% versus\n" + t2, "input": [t1, t2],
                              "one_atom": str(r1)[:300], "several_atoms": str(r2)[:300]})
                break
    return cnt, fails

def search(ctx, deep):
    n = (30 if ctx.tier == "quick" else 400) * (3 if deep else 1)
    H = 2
    work = [(ctx.seed * 1009 + j, H, n) for j in range(ctx.jobs)]
    nvar = 0
    fails = []
    for c, f in par.pmap(_chunk, work, ctx.jobs):
        nvar += c
        fails += f
    ncli = 0
    for c, f in par.pmap(_cli_chunk, [(ctx.seed * 1013 + j, 2 if ctx.tier == "quick" else 8) for j in range(ctx.jobs)], ctx.jobs):
        ncli += c
        fails += f
    nsigned = 0
    for c, f in par.pmap(_signed_atom_chunk, [(ctx.seed * 1021 + j, 3 if ctx.tier == "quick" else 30) for j in range(ctx.jobs)], ctx.jobs):
        nsigned += c
        fails += f
    nsplit = 0
    for c, f in par.pmap(_split_atom_chunk, [(ctx.seed * 1019 + j, 4 if ctx.tier == "quick" else 40) for j in range(ctx.jobs)], ctx.jobs):
        nsplit += c
        fails += f
    rr = random.Random(ctx.seed)
    return {"base_programs": n * ctx.jobs, "command_line_layouts": ncli, "variants_compared": nvar, "theory_atom_split_variants": nsplit, "signed_atom_variants": nsigned, "horizons": "0..{}".format(H),
            "variant_kinds": ["permuted", "duplicated", "two files", "three files, permuted", "one rule per file"],
            "sample": {"program": tl.render_prog(gen_base(rr))}}, fails

def replay(obj):
    return oracles.replay_record(obj, 2)
