"""
C05 — `&del` formulas are LDL_f.

proof          TelProofs.Props.C05 (del_unique under normal form, del_doc_eq, C05_value, runs_within, normal_form_necessary)
correspondence L3/L4 as for C03: the implementation's literal valuation solves the model's Diamond/Box equations
search         witness atoms `w :- not not &del{f}` vs `telspec ldl` on every trace; normal-form generator
"""
import random
import tl, gen, oracles, impl_theory, par

ID = "C05"
MODULE = "TelProofs.Props.C05"
MODEL = tl.LeanExe("telmodel")
ATOMS = ["a", "b"]
ATOMS_ARGS = ["p(1)", "q(a,2)"]      # atoms with arguments take another branch of create_path than plain symbols
ASSUMPTIONS = ["clingo enumerates exactly the stable models of the ground program incl. backend rules (solver contract)",
               "path expressions are in the documented normal form (generator emits only those; theorem hypothesis)"]

def gen_cases(seed, n, depth):
    r = random.Random(seed)
    cases = []
    for _ in range(n):
        atoms = ATOMS if r.random() < 0.7 else ATOMS_ARGS
        forms = [gen.gen_dform(r, r.randint(1, depth), atoms, pdepth=r.randint(1, 3)) for _ in range(r.randint(1, 2))]
        cases.append((forms, atoms))
    return cases

def confusable_cases(seed, n):
    """one program, two paths with the same leaves and operators but different bracketing (path caching by representation)"""
    r = random.Random(seed)
    out = []
    for _ in range(n):
        forms = gen.confusable_dforms(r, ATOMS)
        if r.random() < 0.5:
            forms.reverse()
        out.append((forms, ATOMS))
    return out

def nonnormal_cases(seed, n):
    """outside the normal form (iteration over tests): the theorems make no claim about the value there
    (`normal_form_necessary`), but the equations still transcribe the code, so the equation-level tie is checked there too"""
    r = random.Random(seed)
    A = lambda x: ("a", x)
    out = [([("dia", ("star", ("test", A("a"))), A("b"))], ATOMS), ([("box", ("star", ("test", A("a"))), A("b"))], ATOMS)]
    for _ in range(n):
        out.append(([gen.gen_dform_any(r, r.randint(1, 2), ATOMS, pdepth=r.randint(1, 3))], ATOMS))
    return out

def excluded_point():
    """The witness of `normal_form_necessary` on the real code: `<(a?)*> b` at horizon 1 on the trace {a},{} — the model's
    equations have two solutions there; how many values the implementation shows is recorded (not judged: the property
    quantifies over the normal form only)."""
    A = lambda x: ("a", x)
    text = oracles.witness_program([("dia", ("star", ("test", A("a"))), A("b"))], ATOMS, "del")
    r = oracles.impl_models(text, 1)
    if r[0] == "err":
        return {"program": text, "outcome": "diagnostic: " + r[1]}
    models = r[1]
    vals = sorted({("w0@0" in m) for m in models.get(1, []) if set(x for x in m if not x.startswith("w0")) == {"a@0"}})
    return {"program": text, "horizon": 1, "trace": "{a},{}", "values_of_formula_at_0": vals, "model_solutions": [False, True],
            "agrees_with_model": vals == [False, True]}

def corpus_cases():
    A = lambda x: ("a", x)
    return [
        ([("dia", ("star", ("seq", ("test", A("a")), ("skip",))), A("b"))], ATOMS),           # README example
        ([("box", ("choice", ("test", A("a")), ("test", A("b"))), A("a"))], ATOMS),          # README example
        ([("final",), ("box", ("skip",), ("c", False))], ATOMS),
        ([("dia", ("star", ("step", "a")), ("box", ("star", ("skip",)), A("b")))], ATOMS),
    ]

def _corr_chunk(args):
    seed, cases, H = args
    tot = {"pairs": 0, "equations_evaluated": 0, "horizons": 0, "programs": 0}
    dis = []
    for i, (forms, atoms) in enumerate(cases):
        text = oracles.witness_program(forms, atoms, "del")
        try:
            st, d = impl_theory.check_equations(text, H, MODEL)
        except BaseException as e:  # noqa
            if isinstance(e, KeyboardInterrupt):
                raise
            d = [{"layer": "L4", "text": text, "what": "exception in the implementation: {}: {}".format(tl.classify_exc(e), str(e)[:200])}]
            if isinstance(e, tl.Timeout):
                d = []
            st = {"pairs": 0, "equations_evaluated": 0, "horizons": 0}
        for k in st:
            tot[k] = tot.get(k, 0) + st[k]
        tot["programs"] += 1
        for x in d:
            x["forms"] = forms
        dis += d
    return tot, dis

def correspondence(ctx):
    n = 120 if ctx.tier == "quick" else 1200
    H = 3
    nn = nonnormal_cases(ctx.seed * 41 + 9, n // 3)
    cases = corpus_cases() + gen_cases(ctx.seed * 37 + 5, n, 2 if ctx.tier == "quick" else 3) + nn
    work = [(ctx.seed + j, c, H) for j, c in enumerate(par.chunks(cases, ctx.jobs * 2))]
    tot = {"pairs": 0, "equations_evaluated": 0, "horizons": 0, "programs": 0}
    dis = []
    for st, d in par.pmap(_corr_chunk, work, ctx.jobs):
        for k in st:
            tot[k] = tot.get(k, 0) + st[k]
        dis += d
    ops = {}
    def count(f):
        ops[f[0]] = ops.get(f[0], 0) + 1
        for x in f[1:]:
            if isinstance(x, tuple):
                count(x)
    for forms, _ in cases:
        for f in forms:
            count(f)
    tot["operator_histogram"] = ops
    tcs = impl_theory.theory_call_texts(cases, "del", ctx.seed * 227 + 1, 48 if ctx.tier == "quick" else 600)
    tc = {}
    for st, d in par.pmap(impl_theory.theory_calls_chunk, [(c, H) for c in par.chunks(tcs, ctx.jobs)], ctx.jobs):
        for k, v in st.items():
            tc[k] = tc.get(k, 0) + v
        dis += d
    tot["theory_translate_calls"] = tc
    tot["programs_outside_normal_form"] = len(nn)
    tot["excluded_point"] = excluded_point()
    tot["sample"] = {"program": oracles.witness_program(cases[-1][0], ATOMS, "del"), "horizon": H}
    return tot, dis

def _search_chunk(args):
    seed, cases, H = args
    return oracles.compare_witness(cases, H, "del", style_seed=seed)

def search(ctx, deep):
    n = (240 if ctx.tier == "quick" else 1200) * (3 if deep else 1)
    H = 3
    cases = corpus_cases() + confusable_cases(ctx.seed * 61 + 3, n // 2) + gen_cases(ctx.seed * 79 + 7, n, 2 if ctx.tier == "quick" else 3)
    hinted = [(d["forms"], ATOMS) for d in getattr(ctx, "hints", []) if "forms" in d][:50]
    cases = hinted + cases
    work = [(ctx.seed + j, c, H) for j, c in enumerate(par.chunks(cases, ctx.jobs * 2))]
    fails = []
    for f in par.pmap(_search_chunk, work, ctx.jobs):
        fails += f
    out = []
    for f in fails[:3]:
        for g in f.get("forms", []):
            ff = oracles.compare_witness([([g], sorted(oracles.atoms_of_rules([("rule", "always", ("falsum",), (("del", "not", g),))])) or ATOMS)], 3, "del")
            if ff:
                f = ff[0]
                break
        out.append(f)
    stats = {"witness_programs": len(cases), "horizons": "0..{}".format(H), "traces_per_program_and_horizon": "4^(h+1) (all)",
             "sample": {"program": oracles.witness_program(cases[-1][0], ATOMS, "del")}}
    return stats, out + fails[3:]

def replay(obj):
    return oracles.replay_record(obj, 3)
