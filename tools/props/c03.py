"""
C03 — `&tel` body formulas are LTL_f.

proof          TelProofs.Props.C03 (doc_eq_sem, tseitin_unique, C03_value, C03_redecided)
correspondence L3/L4: on real runs, the implementation's literal valuation in every answer set solves the
               model's one-step equations on every reachable (formula, step) pair; theory atoms equal their roots
search         witness atoms `w :- not not &tel{f}` at every state vs `telspec ltl` on every trace
"""
import random, json, os, glob
import tl, gen, oracles, impl_theory, par

ID = "C03"
MODULE = "TelProofs.Props.C03"
MODEL = tl.LeanExe("telmodel")
ATOMS = ["a", "b"]

ASSUMPTIONS = ["clingo enumerates exactly the stable models of the ground program incl. backend rules (solver contract)",
               "atom table lookups (symbolic_atoms[...]) as recorded from the real run"]

def grid_cases(seed, tier):
    """the full operator-pair grid (every composition of two operator shapes incl. n-fold variants), three
    formulas per program; thorough adds a sample of triples"""
    r = random.Random(seed)
    forms = gen.pair_grid(ATOMS)
    if tier != "quick":
        forms += gen.triple_sample(r, ATOMS, 1500)
    r.shuffle(forms)
    return [(forms[i:i + 3], ATOMS) for i in range(0, len(forms), 3)]

def gen_cases(seed, n, depth):
    r = random.Random(seed)
    cases = []
    for _ in range(n):
        share = []
        forms = [gen.gen_sform(r, r.randint(1, depth), ATOMS, share=share) for _ in range(r.randint(1, 3))]
        cases.append((forms, ATOMS))
    return cases

def alias_cases(seed, n):
    """one program, two spellings / near-duplicates of one formula (formula caching by representation)"""
    r = random.Random(seed)
    cases = []
    for i in range(n):
        if i % 3 < 2:
            a, b = gen.alias_pair(r, ATOMS, depth=r.randint(0, 1))
            forms = [a, b]
        else:
            f = gen.gen_sform(r, r.randint(2, 3), ATOMS)
            forms = [f, gen.near_variants(r, f)]
        if r.random() < 0.5:
            forms.reverse()
        cases.append((forms, ATOMS))
    return cases

def _corr_chunk(args):
    seed, cases, H = args
    tot = {"pairs": 0, "equations_evaluated": 0, "horizons": 0, "programs": 0}
    dis = []
    for i, (forms, atoms) in enumerate(cases):
        text = oracles.witness_program(forms, atoms, "tel", style=random.Random(seed * 131 + i))
        try:
            st, d = impl_theory.check_equations(text, H, MODEL)
        except BaseException as e:  # noqa
            if isinstance(e, KeyboardInterrupt):
                raise
            d = [{"layer": "L4", "text": text, "what": "exception in the implementation: {}: {}".format(tl.classify_exc(e), str(e)[:200]), "forms": forms}]
            if isinstance(e, tl.Timeout):
                d = []
            st = {"pairs": 0, "equations_evaluated": 0, "horizons": 0}
        for k in st:
            tot[k] = tot.get(k, 0) + st[k]
        tot["programs"] += 1
        for x in d:
            x["forms"] = forms
        dis += d
    return tot, dis

def _nextlife_chunk(args):
    """every call of the real `Next.do_translate` vs the model's state machine (tools/impl_theory.check_next_life)"""
    seed, cases = args
    tot = {"next_calls": 0}
    acts = {}
    dis = []
    for forms, atoms in cases:
        text = oracles.witness_program(forms, atoms, "tel")
        try:
            st, d = impl_theory.check_next_life(text, 3, MODEL)
        except BaseException as e:  # noqa
            if isinstance(e, KeyboardInterrupt):
                raise
            st, d = {}, [{"layer": "L4-next-life", "text": text, "what": "exception: {}: {}".format(tl.classify_exc(e), str(e)[:200])}]
        tot["next_calls"] += st.get("next_calls", 0)
        for k, v in st.get("actions", {}).items():
            acts[k] = acts.get(k, 0) + v
        dis += d
    tot["actions"] = acts
    return tot, dis

def stepdata_check(seed, n):
    """the real `BodyFormula.translate` / `add_atom` / `StepData.add_literal` vs the model `StepData.run` (TelModel/StepData.lean) on
    random sequences of registrations of occurrence literals and translations of one (formula, step) pair; the formula is a
    stub whose `do_translate` provides the literal the way the real classes do (`add_literal`, or an assignment)"""
    import telingo.theory.body as bd
    r = random.Random(seed)
    MODEL = tl.LeanExe("telmodel")
    class Backend:
        def __init__(self):
            self.out, self.fresh = [], None
        def add_atom(self, *a):
            return self.fresh
        def add_rule(self, head, body, choice=False):
            self.out.append("(choice {})".format(head[0]) if choice else "(" + " ".join(str(x) for x in body) + ")")
    class Ctx:
        pass
    class Stub(bd.BodyFormula):
        def do_translate(self, ctx, step, data):
            if data.literal is None:
                kind, val = self.src
                if kind == "own":
                    ctx.backend.fresh = val
                    data.add_literal(ctx.backend)
                else:
                    data.literal = val
    seqs, lines, impl = [], [], []
    for i in range(n):
        pool = r.sample([1, 2, 3, 4, 5, 6, 7, -2, -5, 11], r.randint(1, 5))
        ops = []
        for j in range(r.randint(0, 10)):
            if r.random() < 0.6:
                ops.append(("add", r.choice(pool)))
            elif r.random() < 0.6:
                ops.append(("own", 100 + j))
            else:
                ops.append(("assign", r.choice([r.choice(pool), 50 + j, -(50 + j)])))
        ctx = Ctx(); ctx.backend = Backend()
        f = Stub("stub"); step = r.randint(0, 3)
        rets = []
        for kind, val in ops:
            if kind == "add":
                f.add_atom(val, step)
            else:
                f.src = (kind, val)
                rets.append(f.translate(ctx, step))
        data = f._BodyFormula__data.get(step, bd.StepData())
        ints = lambda l: "(" + " ".join(str(x) for x in l) + ")"
        got = "{} {} {} ({})".format("none" if data.literal is None else data.literal, ints(sorted(data.literals)), ints(data.todo),
                                     " ".join(ctx.backend.out))
        seqs.append(ops); impl.append(got)
        lines.append(tl.sexp(("stepdata",) + tuple(ops)))
        if rets and any(x != data.literal for x in rets):
            impl[-1] += " returned " + str(rets)
    outs = MODEL.batch(lines)
    dis = []
    for ops, mo, got in zip(seqs, outs, impl):
        if " ".join(mo.split()) != got:
            dis.append({"layer": "L4-stepdata", "text": "add_atom / translate sequence " + str(ops), "model": mo, "impl": got})
    return len(seqs), dis

def correspondence(ctx):
    n = 60 if ctx.tier == "quick" else 1200
    H = 3
    depth = 3 if ctx.tier == "quick" else 4
    cases = corpus_cases() + grid_cases(ctx.seed, ctx.tier) + gen_cases(ctx.seed * 31 + 3, n, depth)
    work = [(ctx.seed + j, c, H) for j, c in enumerate(par.chunks(cases, ctx.jobs * 2))]
    tot = {"pairs": 0, "equations_evaluated": 0, "horizons": 0, "programs": 0}
    dis = []
    for st, d in par.pmap(_corr_chunk, work, ctx.jobs):
        for k in st:
            tot[k] = tot.get(k, 0) + st[k]
        dis += d
    ops = {}
    def count(f):
        ops[f[0]] = ops.get(f[0], 0) + 1
        for x in f[1:]:
            if isinstance(x, tuple):
                count(x)
    for forms, _ in cases:
        for f in forms:
            count(f)
    tot["operator_histogram"] = ops
    tot["sample"] = {"program": oracles.witness_program(cases[-1][0], ATOMS, "tel"), "horizon": H}
    # the life cycle of next placeholders: the cases that contain a next operator (a sample in the quick tier)
    nl = [c for c in cases if "next" in str(c[0]) or "unt" in str(c[0]) or "rel" in str(c[0]) or "evF" in str(c[0]) or "alF" in str(c[0])]
    if ctx.tier == "quick":
        nl = random.Random(ctx.seed).sample(nl, min(len(nl), 160))
    life = {"next_calls": 0, "actions": {}}
    for st, d in par.pmap(_nextlife_chunk, [(ctx.seed + j, c) for j, c in enumerate(par.chunks(nl, ctx.jobs))], ctx.jobs):
        life["next_calls"] += st["next_calls"]
        for k, v in st["actions"].items():
            life["actions"][k] = life["actions"].get(k, 0) + v
        dis += d
    tot["next_placeholder_life"] = life
    tcs = impl_theory.theory_call_texts(cases, "tel", ctx.seed * 223 + 1, 64 if ctx.tier == "quick" else 800)
    tc = {}
    for st, d in par.pmap(impl_theory.theory_calls_chunk, [(c, H) for c in par.chunks(tcs, ctx.jobs)], ctx.jobs):
        for k, v in st.items():
            tc[k] = tc.get(k, 0) + v
        dis += d
    tot["theory_translate_calls"] = tc
    nsd, sdis = stepdata_check(ctx.seed * 211 + 17, 400 if ctx.tier == "quick" else 6000)
    tot["stepdata_call_sequences"] = nsd
    dis += sdis
    return tot, dis

def corpus_cases():
    """minimised past failures first (witness form)"""
    out = []
    A = lambda x: ("a", x)
    out.append(([("seqn", False, A("a"), A("b")), ("next", 1, False, A("b"))], ATOMS))          # D1
    out.append(([("seqn", True, ("prev", 1, True, A("a")), ("alF", A("b")))], ATOMS))           # D1b
    out.append(([("seqp", False, A("a"), A("b")), ("prev", 1, False, A("a"))], ATOMS))
    out.append(([("seqp", True, A("a"), A("b")), ("prev", 1, True, A("a")), ("next", 1, True, ("k", "false"))], ATOMS))
    return out

def _search_chunk(args):
    seed, cases, H = args
    return oracles.compare_witness(cases, H, "tel", style_seed=seed)

def lookahead_cases(seed, n):
    """a formula that is translated for a witness rule, and again — one or two steps later, for an earlier state — for the theory
    atom of a constraint that looks ahead (`:- a', &tel{F}.` is grounded for state k when state k+1 exists): the late atom must
    still be tied to the formula's value.  Compared with the brute-force temporal stable models."""
    r = random.Random(seed)
    A = lambda x: ("a", x)
    simple = [A("b"), ("evP", A("b")), ("prev", 1, False, A("b")), ("b", "or", A("b"), ("prev", 1, True, A("a"))), ("since", A("a"), A("b")),
              ("~", A("b")), ("next", 1, False, A("b")), ("k", "initial"), ("b", "and", ("since", A("a"), A("b")), ("~", A("a")))]
    out = []
    for i in range(n):
        f = r.choice(simple) if i < 2 * len(simple) or r.random() < 0.5 else gen.gen_sform(r, r.randint(1, 2), ATOMS)
        g = f
        if f[0] in ("b",) and r.random() < 0.5:
            g = f[2]                                    # the constraint uses a sub-formula of the witness formula
        sh = r.choice([1, 1, 2])
        rules = [("rule", "always", ("choice", "a", "b"), ()),
                 ("rule", "always", ("atom", "w", 0), (("tel", "notnot", f),)),
                 ("rule", r.choice(["always", "dynamic", "initial"]), ("falsum",),
                  (("atom", r.choice(["pos", "not"]), "a", sh), ("tel", r.choice(["pos", "not"]), g)))]
        if r.random() < 0.3:
            rules.reverse()
        out.append(rules)
    return out

def _lookahead_chunk(args):
    seed, cases = args
    return oracles.compare_with_spec(cases, 2, style_seed=seed)

def search(ctx, deep):
    n = (60 if ctx.tier == "quick" else 1200) * (3 if deep else 1)
    depth = 3 if ctx.tier == "quick" else 4
    H = 3
    cases = corpus_cases() + grid_cases(ctx.seed + 1, ctx.tier) + alias_cases(ctx.seed * 59 + 2, n // 2) + gen_cases(ctx.seed * 77 + 5, n, depth)
    # inputs on which the model and the implementation disagreed are tried first
    hinted = [(d["forms"], ATOMS) for d in getattr(ctx, "hints", []) if "forms" in d][:50]
    cases = hinted + cases
    work = [(ctx.seed + j, c, H) for j, c in enumerate(par.chunks(cases, ctx.jobs * 2))]
    fails = []
    for f in par.pmap(_search_chunk, work, ctx.jobs):
        fails += f
    fails = [shrink(f) for f in fails[:3]] + fails[3:]
    la = lookahead_cases(ctx.seed * 197 + 3, max(30, n // 2))
    for f in par.pmap(_lookahead_chunk, [(ctx.seed + j, c) for j, c in enumerate(par.chunks(la, ctx.jobs))], ctx.jobs):
        fails += f
    stats = {"witness_programs": len(cases), "lookahead_constraint_programs": len(la), "horizons": "0..{}".format(H), "traces_per_program_and_horizon": "4^(h+1) (all)",
             "sample": {"program": oracles.witness_program(cases[-1][0], ATOMS, "tel")}}
    return stats, fails

def shrink(f):
    """reduce to a single formula if that still fails, then lower the horizon"""
    if "forms" not in f:
        return f
    forms = f["forms"]
    for g in forms:
        ff = oracles.compare_witness([([g], ATOMS)], 3, "tel")
        if ff:
            f = ff[0]
            break
    return f

def replay(obj):
    return oracles.replay_record(obj, 3)
