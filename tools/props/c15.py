import os
"""
C15 — failures surface as diagnostics, never as internal errors, crashes or hangs.

proof          TelProofs.Props.C15 (no internal error in create_number/symbol/atom/formula, path tests, __get_param, loop, options)
correspondence near-valid inputs: the real formula constructors (body, dynamic, head) on the theory terms gringo produces vs the
               model, including the error class; the real TheoryParser vs the model's stack machine incl. rejected operator strings
search         the near-valid mutation grammar on the real code: any exception type other than RuntimeError / clingo error escaping
               transform()/imain(), any run exceeding the time limit; on the command line: PANIC, a traceback whose exception is not
               a RuntimeError, or exit status 0 for a rejected program
"""
import random, subprocess, sys, os, collections
import tl, gen, oracles, impl_theory, nearvalid, par
import props.c07 as c07

ID = "C15"
MODULE = "TelProofs.Props.C15"
MODEL = tl.LeanExe("telmodel")
ASSUMPTIONS = ["text rejected by clingo's own parser/grounder is clingo's diagnostic (ClingoError class)",
               "a RuntimeError reported by the command line with non-zero status counts as a diagnostic even though clingo's "
               "application wrapper prints the Python traceback of every exception (see DESIGN.md, C15)"]

def formula_contexts(r, n):
    """near-valid formulas inside otherwise valid programs, so that they reach the formula constructors"""
    out = []
    for _ in range(n):
        k = r.random()
        if k < 0.45:
            f = nearvalid.formula(r, r.randint(0, 3))
            out.append("#program always. {a;b;p(1)}. q(1). :- %s&tel { %s }%s." % (r.choice(["", "not ", "not not "]), f, r.choice(["", ", q(X)"])))
        elif k < 0.7:
            f = nearvalid.dformula(r, r.randint(0, 2))
            out.append("#program always. {a;b;p(1)}. q(1). :- %s&del { %s }." % (r.choice(["", "not "]), f))
        else:
            f = nearvalid.formula(r, r.randint(0, 3))
            out.append("#program always. {a;b;p(1)}. q(1). &tel { %s }%s." % (f, r.choice(["", " :- a", " :- q(X)"])))
    return out

def _quiet():
    # clingo prints the parser's messages for rejected inputs on the process's stderr (telingo passes no logger);
    # they are expected here by the thousand and are not part of any verdict
    try:
        fd = os.open(os.devnull, os.O_WRONLY); os.dup2(fd, 2); os.close(fd)
    except OSError:
        pass

def _corr_chunk(args):
    _quiet()
    seed, n = args
    r = random.Random(seed)
    texts = formula_contexts(r, n)
    probes = []
    stats = collections.Counter()
    for t in texts:
        try:
            res = impl_theory.formula_probe(t)
        except BaseException as e:  # noqa
            if isinstance(e, KeyboardInterrupt):
                raise
            res = "ERR " + tl.classify_exc(e)
        if isinstance(res, str):
            stats["program:" + res] += 1
            continue
        for kind, term, out in res:
            probes.append((t, kind, term, out))
    outs = MODEL.batch([tl.sexp(("rep", k, term)) for _, k, term, _ in probes])
    dis = []
    for (t, k, term, out), mo in zip(probes, outs):
        stats[k + ":" + (out.split()[0] if out.startswith("ok") else out)] += 1
        if mo != out:
            dis.append({"layer": "L3", "text": t, "kind": k, "term": tl.sexp(term), "what": "formula construction differs (representation or error class)",
                        "model": mo, "impl": out})
    return dict(stats), dis

def correspondence(ctx):
    n = 100 if ctx.tier == "quick" else 1200
    stats = collections.Counter()
    dis = []
    for st, d in par.pmap(_corr_chunk, [(ctx.seed * 109 + j, n) for j in range(ctx.jobs)], ctx.jobs):
        stats.update(st)
        dis += d
    # parser error classes (operator strings incl. invalid ones) — shared with C07
    pst = collections.Counter()
    for st, d in par.pmap(c07._corr_chunk, [(ctx.seed * 113 + j, 30 if ctx.tier == "quick" else 300) for j in range(ctx.jobs)], ctx.jobs):
        pst.update(st)
        dis += d
    # the recursion of the step-wise translation: hypotheses of the model TelModel/TranslateRec.lean on real runs
    rr = random.Random(ctx.seed * 127 + 5)
    nrec = 60 if ctx.tier == "quick" else 900
    rtexts = ["#program always. {a}. :- not &del { * ? a .>? * (* a) .>? a }.",                 # D17
              "#program always. {a;b}. w0 :- not not &del { * (? a) .>? b }.",
              "#program always. {a;b}. w0 :- not not &del { * (* (? a) + ? b) .>* * (? a) .>? b }."]
    for i in range(nrec):
        if i % 3 == 0:
            rtexts.append(oracles.witness_program([gen.gen_dform_any(rr, rr.randint(1, 2), ["a", "b"], pdepth=rr.randint(1, 3))], ["a", "b"], "del"))
        elif i % 3 == 1:
            f = gen.gen_dform_any(rr, 1, ["a", "b"], pdepth=2)
            rtexts.append(oracles.witness_program([("dia", ("star", f[1]), f)] if f[0] in ("dia", "box") else [f], ["a", "b"], "del"))   # iteration over iteration
        else:
            rtexts.append(oracles.witness_program([gen.gen_sform(rr, 3, ["a", "b"]) for _ in range(2)], ["a", "b"], "tel"))
    rec = {}
    for st, d in par.pmap(impl_theory.recursion_chunk, [(c, 2) for c in par.chunks(rtexts, ctx.jobs)], ctx.jobs):
        for k, v in st.items():
            rec[k] = rec.get(k, 0) + v
        dis += d
    return {"formula_constructions": dict(stats), "operator_strings": dict(pst), "translate_recursion": rec,
            "sample": {"program": "#program always. {a;b;p(1)}. q(1). :- &tel { ((1-2) > a) }."}}, dis

def cli_outcome(text):
    env = dict(os.environ); env["PYTHONPATH"] = tl.REPO + os.pathsep + env.get("PYTHONPATH", "")
    try:
        p = subprocess.run([sys.executable, "-m", "telingo", "--imax=2", "--outf=3"], input=text, capture_output=True, text=True,
                           timeout=60, env=env, cwd="/")
    except subprocess.TimeoutExpired:
        return "Timeout", ""
    err = p.stderr
    if "PANIC" in err:
        return "PANIC", err[-300:]
    if "Traceback" in err:
        last = [l for l in err.split("\n") if l and not l.startswith((" ", "***", "Traceback"))]
        exc = [l for l in last if ":" in l or l.endswith("Error")]
        kind = exc[-1].split(":")[0].strip() if exc else "?"
        if kind not in ("RuntimeError", "MemoryError"):
            return "Traceback:" + kind, err[-300:]
        return ("diagnostic" if p.returncode != 0 else "status0"), err[-200:]
    if "ERROR" in err and p.returncode == 0:
        return "status0", err[-200:]
    return ("ok" if p.returncode in (0, 10, 20, 30) else "diagnostic"), ""

def _search_chunk(args):
    _quiet()
    seed, n, ncli = args
    r = random.Random(seed)
    fails = []
    stats = collections.Counter()
    texts = nearvalid.cases(seed, n) + formula_contexts(r, n)
    for t in texts:
        res = oracles.impl_models(t, 1, limit=20)
        k = "ok" if res[0] == "ok" else res[1]
        stats[k] += 1
        if k.startswith("Internal") or k == "Timeout":
            fails.append({"kind": "internal-error", "text": t, "error": k, "message": res[2] if res[0] == "err" else ""})
    for t in r.sample(texts, min(ncli, len(texts))):
        k, detail = cli_outcome(t)
        stats["cli:" + k] += 1
        if k not in ("ok", "diagnostic"):
            fails.append({"kind": "cli", "text": t, "error": k, "message": detail})
    return dict(stats), fails

def search(ctx, deep):
    n = (150 if ctx.tier == "quick" else 2500) * (3 if deep else 1)
    ncli = 6 if ctx.tier == "quick" else 60
    stats = collections.Counter()
    fails = []
    for st, f in par.pmap(_search_chunk, [(ctx.seed * 127 + j, n, ncli) for j in range(ctx.jobs)], ctx.jobs):
        stats.update(st)
        fails += f
    # de-duplicate by error message
    seen, out = set(), []
    for f in fails:
        key = (f["error"], f.get("message", "")[:60])
        if key not in seen:
            seen.add(key); out.append(f)
    return {"near_valid_inputs": 2 * n * ctx.jobs, "outcomes": dict(stats),
            "sample": {"program": nearvalid.cases(ctx.seed, 1)[0]}}, out

def replay(obj):
    return oracles.impl_models(obj["text"], 1, limit=20)
