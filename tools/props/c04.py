"""
C04 — `&tel` head formulas follow temporal here-and-there semantics.

proof          TelProofs.Props.C04 (unshift_equiv, unfold_cnf, clauses_at_step, shift_iff)
correspondence head `create_formula` / `shift_formula` / `unfold_formula` of the implementation vs the model: equal
               representations for shifts 0..3 on the head operator-pair grid and random formulas
search         programs with head formulas vs `telspec tsm` (brute-force THT equilibrium models)
"""
import random
import tl, gen, oracles, impl_theory, rules_check, par

ID = "C04"
MODULE = "TelProofs.Props.C04"
MODEL = tl.LeanExe("telmodel")
ATOMS = ["a", "b"]
ASSUMPTIONS = ["clingo's ground/solve contract as in C01; atom table lookups as recorded from real runs",
               "head theory atoms have a single element without condition (others are rejected by telingo)"]

def head_text(f, style=None):
    return "#program initial. &tel {{ {} }}. #program always. {{ a; b }}.".format(tl.render_tel(f, style))

def _corr_chunk(args):
    seed, forms = args
    texts = [head_text(f, random.Random(seed * 13 + i)) for i, f in enumerate(forms)]
    return impl_theory.check_head(texts, 3, MODEL)

def _rules_chunk(args):
    """the rules really written for head formulas during a run vs the model's `ruleShape` (tools/impl_theory.check_head_rules)"""
    seed, n = args
    r = random.Random(seed)
    tot = {"head_rules": 0, "head_formula_steps": 0, "programs": 0}
    dis = []
    for i in range(n):
        k = r.random()
        if k < 0.5:
            f = gen.gen_hform(r, r.randint(1, 3), ATOMS)
            text = "#program {}. &tel {{ {} }}. #program always. {{ a }}. {}".format(r.choice(["initial", "initial", "always", "dynamic"]), tl.render_tel(f),
                                                                                   r.choice(["", "b.", "#program initial. b."]))
        else:
            text = tl.render_prog(gen.gen_head_prog(r, ATOMS, 2))
        try:
            st, d = impl_theory.check_head_rules(text, 3, MODEL)
        except BaseException as e:  # noqa
            if isinstance(e, KeyboardInterrupt):
                raise
            # a program telingo rejects with a diagnostic, or a slow one, is skipped: there are no rules to compare
            st, d = {}, ([] if tl.classify_exc(e) in ("Timeout", "RuntimeError", "ClingoError") else
                         [{"layer": "L4-head-rules", "text": text, "what": "exception: {}: {}".format(tl.classify_exc(e), str(e)[:200])}])
        tot["programs"] += 1
        for kk in ("head_rules", "head_formula_steps"):
            tot[kk] += st.get(kk, 0)
        dis += d
    return tot, dis

def correspondence(ctx):
    r = random.Random(ctx.seed * 41 + 3)
    forms = gen.head_pair_grid(ATOMS) + [gen.gen_hform(r, r.randint(1, 4), ATOMS) for _ in range(100 if ctx.tier == "quick" else 1500)]
    work = [(ctx.seed + j, c) for j, c in enumerate(par.chunks(forms, ctx.jobs))]
    tot = {"head_formulas": 0}
    dis = []
    for st, d in par.pmap(_corr_chunk, work, ctx.jobs):
        tot["head_formulas"] += st["head_formulas"]
        dis += d
    tot["shifts_per_formula"] = 4
    tot["sample"] = {"program": head_text(forms[-1])}
    # the time ranges of head formulas are merged by IntervalSet (transformers/head.py): the real class vs the model
    import props.c06 as c06
    niv = 0
    for c, d in par.pmap(c06._ivset_chunk, [(ctx.seed * 149 + j, 100 if ctx.tier == "quick" else 1500) for j in range(ctx.jobs)], ctx.jobs):
        niv += c
        dis += d
    tot["interval_sequences"] = niv
    em = {"head_rules": 0, "head_formula_steps": 0, "programs": 0}
    for st, d in par.pmap(_rules_chunk, [(ctx.seed * 193 + j, 4 if ctx.tier == "quick" else 60) for j in range(ctx.jobs)], ctx.jobs):
        for kk in em:
            em[kk] += st[kk]
        dis += d
    tot["emitted_head_rules"] = em
    return tot, dis

def prog_cases(seed, n, tier):
    r = random.Random(seed)
    grid = gen.head_pair_grid(ATOMS)
    if tier == "quick":
        grid = r.sample(grid, 90)
    cases = []
    for f in grid:
        part = r.choice(["initial", "initial", "always", "dynamic"])
        cases.append([("rule", part, ("tel", f), ()), ("rule", "always", ("choice", "b"), ())])
    cases += [gen.gen_head_prog(r, ATOMS, 3) for _ in range(n)]
    # head formulas over classically negated atoms (alone and next to their complements)
    NEG = ["-a", "a", "-b"]
    cases += [gen.gen_head_prog(r, NEG, 2) for _ in range(max(8, n // 4))]
    for f in [("next", 1, False, ("a", "-a")), ("alF", ("a", "-a")), ("b", "and", ("a", "-a"), ("next", 1, False, ("b", "or", ("a", "-b"), ("a", "-a")))),
              ("unt", ("a", "-a"), ("a", "-b")), ("b", "or", ("a", "-a"), ("next", 1, True, ("a", "-b"))), ("evF", ("b", "and", ("a", "-a"), ("a", "-b")))]:
        for part in ("initial", "always"):
            cases.append([("rule", part, ("tel", f), ())])
            cases.append([("rule", part, ("tel", f), ()), ("rule", "always", ("choice", "a"), ())])
    # two rules whose head formulas are two spellings of one formula (telingo keys head formulas by representation)
    for _ in range(24 if tier == "quick" else 300):
        fa, fb = gen.alias_pair(r, ATOMS, head=True, depth=r.randint(0, 1))
        if r.random() < 0.5:
            fa, fb = fb, fa
        part = r.choice(["initial", "initial", "always"])
        cases.append([("rule", "initial", ("choice", "c", "d"), ()),
                      ("rule", part, ("tel", fa), (("atom", "pos", "c", 0) if part == "initial" else ("init", "pos", "c"),)),
                      ("rule", part, ("tel", fb), (("atom", "pos", "d", 0) if part == "initial" else ("init", "pos", "d"),))])
    # one atom at several distances, in every order (the ranges of an atom are merged: IntervalSet)
    A1 = ("a", "a")
    import itertools
    for ds in [(1, 4, 2), (3, 0, 1), (0, 2, 1), (4, 1, 3), (2, 4, 3, 0)]:
        for perm in list(itertools.permutations(ds))[:6]:
            for op in ("and", "or"):
                f = ("next", perm[0], r.random() < 0.5, A1) if perm[0] else A1
                for d in perm[1:]:
                    f = ("b", op, f, ("next", d, r.random() < 0.5, A1) if d else A1)
                cases.append(("H", 5, [("rule", "initial", ("tel", f), ())]))
    # one atom of a head formula is a fact and another rule depends on the other atom (D14: the grounder drops the disjunctive
    # domain rule of the formula as soon as one of its atoms is a fact, and with it the knowledge about the other atoms)
    A = lambda x: ("a", x)
    for op in (lambda l, r: ("rel", l, r), lambda l, r: ("unt", l, r), lambda l, r: ("b", "or", l, r), lambda l, r: ("b", "and", l, r),
               lambda l, r: ("seqn", False, l, r), lambda l, r: ("b", "or", ("next", 1, False, l), r)):
        for fact in ("a", "b"):
            for part in ("initial", "always", "dynamic"):
                cases.append([("rule", part, ("tel", op(A("a"), A("b"))), ()), ("rule", "always", ("atom", fact, 0), ()),
                              ("rule", "always", ("atom", "c", 0), (("atom", "pos", "b" if fact == "a" else "a", 0),))])
    # interactions: head atoms that are facts, several head formulas sharing a state, equal formulas written differently
    A = lambda x: ("a", x)
    cases += [
        [("rule", "initial", ("tel", ("b", "and", A("b"), A("a"))), ()), ("rule", "always", ("atom", "b", 0), ())],
        [("rule", "initial", ("tel", ("b", "or", A("a"), ("~", A("a")))), ())],
        [("rule", "initial", ("tel", ("~", ("alF", A("a")))), ()), ("rule", "always", ("choice", "a"), ())],
        [("rule", "initial", ("choice", "b"), ()), ("rule", "initial", ("choice", "a"), ()),
         ("rule", "initial", ("tel", ("next", 1, False, A("a"))), (("atom", "pos", "b", 0),)),
         ("rule", "initial", ("tel", ("next", 1, False, A("b"))), (("atom", "pos", "a", 0),))],
        [("rule", "initial", ("tel", ("b", "or", A("a"), ("k", "true"))), ()), ("rule", "always", ("choice", "b"), ())],
    ]
    return cases

ARG_SHAPES = ["1", "(1,2)", "f(a)", "\"s\"", "-3", "(1,)", "f((1,2),b)", "(a,(b,c))", "f(-1,g(2))", "()"]
ARG_TEMPLATES = [
    "#program initial. &tel {{ {A} }}.",
    "#program always. {{b}}. #program initial. &tel {{ > {A} | b }}.",
    "#program always. {{c}}. &tel {{ {A} >? b }} :- c.",
    "#program initial. &tel {{ 2 > {A} }}.",
    "#program initial. &tel {{ ~ {A} | > {A} }}.",
    "#program initial. &tel {{ > {A} }}. #program always. w :- {A}.",
    "#program initial. &tel {{ >* ({A} | ~ {A}) }}. #program always. :- {A}, '{A}.",
]

def _argshape_chunk(args):
    """a head formula over the atom p(ARG) has the answer sets of the same formula over the propositional atom pp, renamed"""
    (idx,) = args
    import re
    arg = ARG_SHAPES[idx]
    fails, cnt = [], 0
    for tpl in ARG_TEMPLATES:
        t1 = tpl.replace("'{A}", "'p(" + arg + ")").format(A="p(" + arg + ")")
        t2 = tpl.replace("'{A}", "'pp").format(A="pp")
        r1, r2 = oracles.impl_models(t1, 2, dedup=True), oracles.impl_models(t2, 2, dedup=True)
        cnt += 1
        if "Timeout" in (r1[1], r2[1]):
            continue
        if r1[0] == "ok":
            ren = lambda m: tuple(sorted(re.sub(r"^p\(.*\)@", "pp@", a) for a in m))
            r1 = ("ok", {h: sorted(set(ren(m) for m in ms)) for h, ms in r1[1].items()})
        if r1 != r2:
            fails.append({"kind": "argument-shape", "text": t1 + "\n%%% versus the same program over a propositional atom\n" + t2,
                          "input": [t1, t2], "with_arguments": str(r1)[:300], "propositional": str(r2)[:300]})
    return cnt, fails

def search(ctx, deep):
    n = (100 if ctx.tier == "quick" else 1500) * (3 if deep else 1)
    H = 2
    cases = prog_cases(ctx.seed * 43 + 6, n, ctx.tier)
    fails = rules_check.run_search(ctx, cases, H)
    nshape = 0
    for c, f in par.pmap(_argshape_chunk, [(i,) for i in range(len(ARG_SHAPES))], ctx.jobs):
        nshape += c
        fails += f
    return {"programs": len(cases), "argument_shape_programs": nshape, "horizons": "0..{}".format(H), "oracle": "telspec tsm (brute-force THT equilibrium models)",
            "sample": {"program": tl.render_prog([c for c in cases if not isinstance(c, tuple)][0])}}, fails

def replay(obj):
    return oracles.replay_record(obj, 2)
