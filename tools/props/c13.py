"""
C13 — body temporal formulas are pure observers of the trace.

proof          TelProofs.Props.C13 (every body formula has exactly one value in every solution of the translation's equations:
               uniqueness from tel_unique/del_unique, existence from sem_sys)
correspondence the L4 equation check on base programs extended with observers
search         metamorphic on the implementation: P vs P + `w :- not not &tel{f}` projected to P's atoms (as multisets), and the
               split of P's answer sets by `:- &tel{f}` / `:- not &tel{f}` in the initial part
"""
import random, collections
import tl, gen, oracles, impl_theory, examples, par

ID = "C13"
MODULE = "TelProofs.Props.C13"
MODEL = tl.LeanExe("telmodel")
ATOMS = ["a", "b"]
ASSUMPTIONS = ["clingo's ground/solve contract as in C01/C03", "`&del` observers use path expressions in normal form"]

def gen_base(r):
    k = r.random()
    if k < 0.35:
        rules = gen.gen_core_prog(r, ATOMS, True)
    elif k < 0.55:
        rules = gen.gen_head_prog(r, ATOMS, 2)
    else:
        rules = [("rule", "always", ("choice",) + tuple(ATOMS), ())]
        for _ in range(r.randint(1, 2)):
            f = gen.gen_sform(r, r.randint(0, 2), ATOMS)
            body = [("tel", r.choice(["pos", "not"]), f)]
            if r.random() < 0.5:
                body.insert(0, ("atom", r.choice(["pos", "not"]), r.choice(ATOMS), r.choice([0, 1, 1, -1])))
            rules.append(("rule", r.choice(["always", "initial", "dynamic"]), ("falsum",), tuple(body)))
    return rules

def sub_formulas(rules):
    out = []
    def walk(f):
        out.append(f)
        for x in f[1:]:
            if isinstance(x, tuple):
                walk(x)
    for _, _, head, body in rules:
        for l in body:
            if l[0] == "tel":
                walk(l[2])
    return out

def gen_observer(r, rules):
    subs = sub_formulas(rules)
    k = r.random()
    if subs and k < 0.5:
        g = r.choice(subs)
        v = r.random()
        if v < 0.4:
            return ("b", r.choice(["or", "and"]), g, ("a", "q" if r.random() < 0.5 else r.choice(ATOMS)))
        if v < 0.6:
            return ("~", g)
        if v < 0.8:
            return (r.choice(["prev", "next"]), 1, r.random() < 0.5, g)
        return g
    return gen.gen_sform(r, r.randint(1, 3), ATOMS)

def grid_observer_cases(r, tier):
    """(base text, observer formula text): the base owns `F = u1(u2(a))` for operator pairs of the body language — all crossings of an
    n-fold previous with an n-fold next, a sample of the rest — and is observed through the sub-formula `u2(a)` (and through F)"""
    U = gen.unary_shapes()
    a = ("a", "a")
    cross, rest = [], []
    for u1 in U:
        for u2 in U:
            f, g = u1(u2(a)), u2(a)
            tags = {f[0], g[0]}
            (cross if tags == {"prev", "next"} else rest).append((f, g))
    pick = cross + (rest if tier != "quick" else r.sample(rest, 40))
    out = []
    for f, g in pick:
        own = r.choice(["#program initial. :- not &tel {{ {} }}.", "#program always. r0 :- not not &tel {{ {} }}.",
                        "#program initial. :- not &tel {{ > {} }}.", "#program dynamic. :- &tel {{ {} }}, not b."]).format(tl.render_tel(f))
        out.append(("#program always. { a; b }.\n" + own, tl.render_tel(g if r.random() < 0.8 else f)))
    return out

def _grid_chunk(args):
    """P versus P + observer, projected to P's atoms, and the split by the two constraints — as in `_chunk`"""
    H, cases = args
    fails, nchecks = [], 0
    for base, ftxt in cases:
        ref = oracles.impl_models(base, H, dedup=True)
        obs = base + "\n#program always. wobs :- not not &tel {{ {} }}.".format(ftxt)
        c1 = base + "\n#program initial. :- &tel {{ {} }}.".format(ftxt)
        c2 = base + "\n#program initial. :- not &tel {{ {} }}.".format(ftxt)
        ro, r1, r2 = oracles.impl_models(obs, H, dedup=True), oracles.impl_models(c1, H, dedup=True), oracles.impl_models(c2, H, dedup=True)
        if "err" in (ref[0], ro[0], r1[0], r2[0]):
            for rr, t in ((ref, base), (ro, obs), (r1, c1), (r2, c2)):
                if rr[0] == "err" and rr[1] not in ("Timeout", "RuntimeError", "ClingoError"):
                    fails.append({"kind": "exception", "text": t, "error": rr[1], "message": rr[2]})
            continue
        for h in range(H + 1):
            nchecks += 1
            want = sorted(set(ref[1].get(h, [])))
            got = sorted(set(project(ro[1].get(h, []), {"wobs"})))
            if got != want:
                fails.append({"kind": "observer", "text": obs, "h": h, "n_base": len(want), "n_with_observer": len(got),
                              "missing": [list(m) for m in want if m not in got][:3], "extra": [list(m) for m in got if m not in want][:3]})
                break
            both = sorted(set(r1[1].get(h, []) + r2[1].get(h, [])))
            if both != want or set(r1[1].get(h, [])) & set(r2[1].get(h, [])):
                fails.append({"kind": "split", "text": c1 + "\n%%% versus\n" + c2, "input": [c1, c2, base], "h": h, "n_base": len(want),
                              "n_with_constraint": len(r1[1].get(h, [])), "n_with_negated_constraint": len(r2[1].get(h, []))})
                break
    return nchecks, fails

def project(models, drop):
    return sorted(tuple(x for x in m if x.rsplit("@", 1)[0] not in drop) for m in models)

def _chunk(args):
    seed, H, n = args
    r = random.Random(seed)
    fails = []
    nchecks = 0
    for i in range(n):
        alias = None
        if i % 4 == 3:
            # the program's own formula and the observer are two spellings of one formula (shared by telingo's cache)
            pa = gen.alias_pair(r, ATOMS, depth=r.randint(0, 1))
            if r.random() < 0.5:
                pa = (pa[1], pa[0])
            ta, tb = gen.alias_texts(pa)
            own = r.choice(["r0 :- not &tel {{ {} }}.", ":- not &tel {{ {} }}, a.", "r0 :- not not &tel {{ {} }}.", ":- &tel {{ {} }}, not b."]).format(ta)
            base = "#program always. { a; b }.\n#program " + r.choice(["initial", "always", "dynamic"]) + ". " + own
            alias = tb
        else:
            rules = gen_base(r)
            base = tl.render_prog(rules)
        ref = oracles.impl_models(base, H)
        if ref[0] == "err":
            if ref[1] not in ("RuntimeError", "ClingoError", "Timeout"):
                fails.append({"kind": "exception", "text": base, "error": ref[1], "message": ref[2]})
            continue
        kind = "del" if (alias is None and r.random() < 0.25) else "tel"
        if alias is not None:
            ftxt = alias
        elif kind == "tel":
            f = gen_observer(r, rules); ftxt = tl.render_tel(f)
        else:
            f = gen.gen_dform(r, r.randint(1, 2), ATOMS); ftxt = tl.render_del(f)
        part = r.choice(["always", "always", "initial", "dynamic"])
        if alias is not None:
            part = base.split("#program ")[2].split(".")[0]      # same part: both atoms are grounded at the same steps
        obs = base + "\n#program {}. wobs :- not not &{} {{ {} }}.".format(part, kind, ftxt)
        c1 = base + "\n#program initial. :- &{} {{ {} }}.".format(kind, ftxt)
        c2 = base + "\n#program initial. :- not &{} {{ {} }}.".format(kind, ftxt)
        ro, r1, r2 = oracles.impl_models(obs, H), oracles.impl_models(c1, H), oracles.impl_models(c2, H)
        for rr, t in ((ro, obs), (r1, c1), (r2, c2)):
            if rr[0] == "err" and rr[1] != "Timeout":
                fails.append({"kind": "exception", "text": t, "error": rr[1], "message": rr[2]})
        if "err" in (ro[0], r1[0], r2[0]):
            continue
        for h in range(H + 1):
            nchecks += 1
            want = sorted(ref[1].get(h, []))
            got = project(ro[1].get(h, []), {"wobs"})
            if len(set(want)) != len(want):
                # the base program itself is listed with repeated answer sets (clasp's enumeration with free externals, see
                # oracles.compare_with_spec): multiplicities of the base are then not meaningful; compare the sets
                want, got = sorted(set(want)), sorted(set(got))
                if got != want or sorted(set(r1[1].get(h, []) + r2[1].get(h, []))) != want:
                    fails.append({"kind": "observer", "text": obs, "h": h, "n_base": len(want), "n_with_observer": len(got), "note": "compared as sets"})
                    break
                continue
            if got != want:
                fails.append({"kind": "observer", "text": obs, "h": h, "n_base": len(want), "n_with_observer": len(got),
                              "missing": [list(m) for m in (collections.Counter(want) - collections.Counter(got))][:3],
                              "extra": [list(m) for m in (collections.Counter(got) - collections.Counter(want))][:3]})
                break
            both = sorted(r1[1].get(h, []) + r2[1].get(h, []))
            if both != want:
                fails.append({"kind": "split", "text": c1 + "\n%%% versus\n" + c2, "input": [c1, c2, base], "h": h, "n_base": len(want),
                              "n_with_constraint": len(r1[1].get(h, [])), "n_with_negated_constraint": len(r2[1].get(h, []))})
                break
    return nchecks, fails

def correspondence(ctx):
    r = random.Random(ctx.seed * 79 + 1)
    texts = []
    for i in range(100 if ctx.tier == "quick" else 500):
        rules = [x for x in gen_base(r) if x[2][0] != "tel"]
        f = gen_observer(r, rules)
        texts.append(tl.render_prog(rules) + "\n#program always. wobs :- not not &tel {{ {} }}.".format(tl.render_tel(f)))
    tot = {"pairs": 0, "equations_evaluated": 0, "horizons": 0, "programs": 0}
    dis = []
    for st, d in par.pmap(_corr_one, [(t,) for t in texts], ctx.jobs):
        for k in st:
            tot[k] = tot.get(k, 0) + st[k]
        tot["programs"] += 1
        dis += d
    tot["sample"] = {"program": texts[-1]}
    return tot, dis

def _corr_one(args):
    (text,) = args
    try:
        return impl_theory.check_equations(text, 2, MODEL)
    except BaseException as e:  # noqa
        if isinstance(e, KeyboardInterrupt):
            raise
        c = tl.classify_exc(e)
        if c in ("RuntimeError", "ClingoError", "Timeout"):
            return {"pairs": 0, "equations_evaluated": 0, "horizons": 0}, []
        return {"pairs": 0, "equations_evaluated": 0, "horizons": 0}, [{"layer": "L4", "text": text, "what": "exception " + c + ": " + str(e)[:200]}]

def search(ctx, deep):
    n = (36 if ctx.tier == "quick" else 500) * (3 if deep else 1)
    H = 2
    work = [(ctx.seed * 2003 + j, H, n) for j in range(ctx.jobs)]
    nchecks = 0
    fails = []
    for c, f in par.pmap(_chunk, work, ctx.jobs):
        nchecks += c
        fails += f
    gcases = grid_observer_cases(random.Random(ctx.seed * 211 + 5), ctx.tier if not deep else "thorough")
    for c, f in par.pmap(_grid_chunk, [(3, c) for c in par.chunks(gcases, ctx.jobs * 2)], ctx.jobs):
        nchecks += c
        fails += f
    # shipped examples as base programs
    nex = 0
    r = random.Random(ctx.seed)
    for name, files in examples.example_sets().items():
        if name in ("hanoi", "moore-basic", "moore-complex", "logistics"):
            continue
        ref = oracles.impl_models(files, 8, imin=0, imax=9, max_models=0, limit=120)
        obs = list(files) + ["#program always. wobs :- not not &tel { <* (&true | wobs2) }. #program dynamic. wobs3 :- not not &tel { < &true }."]
        got = oracles.impl_models(obs, 8, imin=0, imax=9, max_models=0, limit=120)
        if ref[0] == "ok" and got[0] == "ok":
            for h in ref[1]:
                nex += 1
                if project(got[1].get(h, []), {"wobs", "wobs3"}) != sorted(ref[1][h]):
                    fails.append({"kind": "observer-example", "text": "shipped example " + name + " + observers", "input": name, "h": h})
                    break
    return {"base_programs": n * ctx.jobs, "operator_pair_bases_with_subformula_observers": len(gcases), "horizon_checks": nchecks, "example_horizon_checks": nex, "horizons": "0..{}".format(H),
            "sample": {"program": tl.render_prog(gen_base(random.Random(ctx.seed)))}}, fails

def replay(obj):
    return oracles.replay_record(obj, 2)
