import os
"""
C14 — translation is a deterministic, side-effect-free function of the input text.

proof          TelProofs.Props.C14 (sorted_iteration_independent; the model is a pure function of the program)
correspondence the model's part list / future signatures vs `transform` (L1 of tools/rules_check.py) on programs with several
               future predicates (names, arities, signs, depths)
search         perturbation of the real code: PYTHONHASHSEED in subprocesses; repeated, interleaved and re-entrant translations
               and solving runs in one process — statements, future_sigs, parts and answer sets must be identical
"""
import random, json, os, subprocess, sys
import tl, gen, oracles, rules_check, par

ID = "C14"
MODULE = "TelProofs.Props.C14"
ASSUMPTIONS = ["CPython's `sorted` on tuples of str/int/bool is a total order (tuple comparison)"]
ATOMS = ["a", "b"]
WORKER = os.path.join(os.path.dirname(os.path.dirname(os.path.abspath(__file__))), "c14_worker.py")

def future_heavy(r):
    """programs with several future predicates: different names, arities, signs, depths; head formulas with variables"""
    preds = r.sample(["p", "q", "r", "s", "u", "w", "zz", "a1"], r.randint(2, 5))
    lines = ["#program initial. v(1..2).", "#program always. { t }.", "#program dynamic. v(X) :- 'v(X)."]
    for p in preds:
        ar = r.choice([0, 0, 1, 2])
        args = "" if ar == 0 else "(" + ",".join(["X", "Y"][:ar]) + ")"
        dom = ", ".join("v({})".format(x) for x in ["X", "Y"][:ar])
        sign = "-" if r.random() < 0.3 else ""
        depth = "'" * r.randint(1, 2)
        lines.append("#program {}. {}{}{}{} :- t{}.".format(r.choice(["always", "dynamic", "initial"]), sign, p, depth, args, (", " + dom) if dom else ""))
        if r.random() < 0.4:
            lines.append("#program always. :- {}{}{}, not t{}.".format(p, "'" * r.randint(1, 3), args, (", " + dom) if dom else ""))
    # one predicate (same arity, same sign) at several future depths: entries of `future_predicates` that differ in the depth only
    for p in r.sample(preds, r.randint(1, len(preds))):
        sign = r.choice(["", "", "-"])
        for d in r.sample([1, 2, 3], r.randint(2, 3)):
            lines.append("#program {}. {}{}{} :- t.".format(r.choice(["always", "dynamic"]), sign, p + "x", "'" * d))
    if r.random() < 0.6:
        lines.append("#program initial. &tel { > g(X) | >? h(X) } :- v(X).")
        lines.append("#program always. &tel { (X > k(X)) & m } :- v(X), t.")
    if r.random() < 0.5:
        lines.append("#program always. :- not &tel { t >? ~ t }, t.")
    return "\n".join(lines)

def run_worker(cases, hashseed):
    env = dict(os.environ)
    env["PYTHONHASHSEED"] = str(hashseed)
    env["TELINGO_REPO"] = tl.REPO
    p = subprocess.run([sys.executable, WORKER], input=json.dumps(cases), capture_output=True, text=True, timeout=600, env=env)
    if p.returncode != 0:
        raise RuntimeError("worker failed: " + p.stderr[-500:])
    return json.loads(p.stdout)

def correspondence(ctx):
    r = random.Random(ctx.seed * 131 + 1)
    cases = gen.future_sign_cases()
    for i in range(80 if ctx.tier == "quick" else 800):
        rules = gen.gen_core_prog(r, ["a", "b", "c"], True, neg_atoms=True)
        # several future heads per program
        for _ in range(r.randint(1, 3)):
            rules.append(("rule", r.choice(["always", "dynamic"]), ("atom", r.choice(["a", "b", "c", "-a", "-b"]), r.randint(1, 2)),
                          (("atom", "pos", r.choice(["a", "b"]), 0),)))
        cases.append(rules)
    st, dis = rules_check.run_corr(ctx, cases, 1)
    st["sample"] = {"program": tl.render_prog(cases[-1])}
    # the model is a function of the program; on the Python side a syntactic sufficient condition is checked: no construct
    # that can carry state from one translation to the next beyond those inspected by hand (notes/purity_baseline.json)
    import purity, json as _json
    base = _json.load(open(os.path.join(os.path.dirname(os.path.dirname(os.path.abspath(purity.__file__))), "notes", "purity_baseline.json")))["items"]
    known = {(b["file"], b["kind"], b["where"], b["code"]) for b in base}
    found = [x for x in purity.scan(tl.REPO) if "/tests/" not in x["file"]]
    new = [x for x in found if (x["file"], x["kind"], x["where"], x["code"]) not in known]
    st["state_like_constructs"] = {"found": len(found), "inspected_baseline": len(known), "new": len(new)}
    for x in new:
        dis.append({"layer": "static-state", "text": "{}:{} {}: {}".format(x["file"], x["line"], x["kind"], x["code"]),
                    "what": "a construct that can carry state between translations and is not in the inspected baseline"})
    return st, dis

def _inproc_chunk(args):
    seed, n = args
    import telingo.transformers as tf
    sys.path.insert(0, os.path.dirname(WORKER))
    import c14_worker
    r = random.Random(seed)
    fails = []
    cnt = 0
    progs = [future_heavy(r) for _ in range(n)]
    first = [c14_worker.translate([p]) for p in progs]
    # repeated, in a different order (interleaved with other translations)
    order = list(range(n)); r.shuffle(order)
    for i in order:
        cnt += 1
        again = c14_worker.translate([progs[i]])
        if again != first[i]:
            fails.append({"kind": "repeat", "text": progs[i], "what": "a later translation in the same process differs from the first"})
    # after solving runs
    for i in order[:max(1, n // 3)]:
        cnt += 1
        oracles.impl_models(progs[i], 2)
        again = c14_worker.translate([progs[i]])
        if again != first[i]:
            fails.append({"kind": "after-solve", "text": progs[i], "what": "translation differs after solving runs in the same process"})
        m1 = oracles.impl_models(progs[i], 2)
        m2 = oracles.impl_models(progs[i], 2)
        if m1 != m2 and "Timeout" not in (m1[1], m2[1]):
            fails.append({"kind": "models", "text": progs[i], "what": "two solving runs report different answer sets"})
    # after a translation that ended with a diagnostic (at different depths of the rewriting: head-formula parser, body
    # placement, primes inside theory atoms, arithmetic): what an aborted run leaves behind must not reach the next one
    probes = AFTER_REJECTED_PROBES + [progs[i] for i in order[:3]]
    pfirst = [c14_worker.translate([q]) for q in AFTER_REJECTED_PROBES] + [first[i] for i in order[:3]]
    for bad in REJECTED:
        for q, want in zip(probes, pfirst):
            cnt += 1
            b = c14_worker.translate([bad])
            again = c14_worker.translate([q])
            if again != want:
                fails.append({"kind": "after-rejected", "text": bad + "\n%%% rejected (" + str(b.get("err", "accepted")) + "); translated afterwards\n" + q,
                              "what": "the translation of a program differs after another translation in the same process ended with a diagnostic",
                              "first": str(want)[:300], "again": str(again)[:300]})
                break
    # re-entrant: start another translation from inside the callback of one
    for i in order[:max(1, n // 3)]:
        cnt += 1
        j = order[(i + 1) % n]
        outer, inner_results = [], []
        def cb(s, outer=outer, inner_results=inner_results, j=j):
            outer.append(str(s))
            if len(outer) == 3:
                inner_results.append(c14_worker.translate([progs[j]]))
        try:
            fs, parts = tf.transform([progs[i]], cb)
            got = {"stm": outer, "sigs": [list(x) for x in fs], "parts": [[a, b, list(c)] for a, b, c in parts]}
        except BaseException as e:  # noqa
            if isinstance(e, KeyboardInterrupt):
                raise
            got = {"err": tl.classify_exc(e)}
        if got != first[i] or (inner_results and inner_results[0] != first[j]):
            fails.append({"kind": "re-entrant", "text": progs[i] + "\n%%% inner\n" + progs[j], "what": "re-entrant translation differs"})
    return cnt, fails

REJECTED = [
    "#program always. &tel { q & < p }.",
    "#program always. &tel { a -> b } :- a.",
    "#program always. &tel { (q | r) & (s <* p) } :- q.",
    "#program always. a :- &tel { > b }.",
    "#program always. c. :- c, &tel { b' }.",
    "#program always. c :- d. p'' :- q, 'p'.",
    "#program initial. &tel { 1 + > a }.",
    "#program always. &tel { > a ;> b } :- not &tel { < b }. &tel { a >? 'b }.",
    "#program always. &tel { a ; b }.",
]

AFTER_REJECTED_PROBES = [
    "#program initial. &tel { > r }.",
    "#program initial. &tel { > a | ~ >? b }. #program always. { b }.",
    "#program always. { a }. b' :- a. :- b, a''.",
    "#program always. { a }. w :- not not &tel { < a <? a }. &tel { a ;> >: a } :- a.",
]

STATE_PROBES = [
    "#program always. &tel { a | ~ a }.",
    "#program always. &tel { c | ~ c }. &tel { a | ~ c }.",
    "#program initial. &tel { > a | ~ >? b }. #program always. { b }.",
    "#program always. { a }. :- not &tel { > a | < a }.",
    "#program always. { a; b }. :- &del { * a .>? b }.",
    "#program always. { a }. b' :- a. :- b, a''.",
    "#program initial. { a }. &tel { >* (a | ~ b) } :- a.",
    # the same shape twice, differing only inside a compound argument (what a cache keyed by position or index would confuse)
    "#program always. { lamp(room(1)) }. #program initial. :- not &tel { > lamp(room(1)) }.",
    "#program always. { lamp(room(2)) }. #program initial. :- not &tel { > lamp(room(2)) }.",
    "#program always. { p((1,a)) }. w :- not not &tel { < p((1,a)) | p((1,a)) }.",
    "#program always. { p((2,a)) }. w :- not not &tel { < p((2,a)) | p((2,a)) }.",
    "#program always. { q(f(a),1) }. #program initial. &tel { > q(f(a),1) }.",
    "#program always. { q(f(b),1) }. #program initial. &tel { > q(f(b),1) }.",
]

def _fresh_models(p):
    """the answer sets of one program computed in an interpreter of its own"""
    d = run_worker([([p], 2)], 0)[0]
    m = d.get("models")
    if not isinstance(m, dict):
        return None
    return {int(h): sorted(set(tuple(x) for x in v)) for h, v in m.items()}

def _probe_chunk(args):
    """answer sets of P, then another program, then P again — in one process, for every ordered pair of the probes; and every
    probe solved after another one against its answer sets from an interpreter of its own"""
    (idx,) = args
    fails = []
    cnt = 0
    p = STATE_PROBES[idx]
    m1 = oracles.impl_models(p, 2, dedup=True)
    fresh = _fresh_models(p)
    if fresh is not None and m1[0] == "ok" and m1[1] != fresh:
        fails.append({"kind": "models-depend-on-process-history", "text": p, "what": "the answer sets in a process that has solved other "
                      "programs before differ from those in a fresh interpreter", "fresh": str(fresh)[:300], "here": str(m1[1])[:300]})
    for q in STATE_PROBES:
        cnt += 1
        mq = oracles.impl_models(q, 2, dedup=True)
        if q != p and mq[0] == "ok":
            fq = _fresh_models(q)
            if fq is not None and mq[1] != fq:
                fails.append({"kind": "models-depend-on-process-history", "text": q + "\n%%% solved after\n" + p,
                              "what": "the answer sets of a program solved after another one differ from those in a fresh interpreter",
                              "fresh": str(fq)[:300], "here": str(mq[1])[:300]})
                break
        m2 = oracles.impl_models(p, 2, dedup=True)
        if m1 != m2 and "Timeout" not in (m1[1], m2[1]):
            fails.append({"kind": "models-after-other-run", "text": p + "\n%%% solved again after\n" + q,
                          "what": "the answer sets of a program differ after another program was solved in the same process",
                          "first": str(m1)[:300], "again": str(m2)[:300]})
            break
    return cnt, fails

def search(ctx, deep):
    r = random.Random(ctx.seed * 137 + 2)
    n = (24 if ctx.tier == "quick" else 300) * (3 if deep else 1)
    progs = [future_heavy(r) for _ in range(n)]
    cases = [([p], 2 if i % 3 == 0 else None) for i, p in enumerate(progs)]
    seeds = [0, 1, 2, 3, 12345] if ctx.tier == "quick" else list(range(12)) + [12345, 987654321]
    outs = par.pmap(_worker_call, [(cases, s) for s in seeds], ctx.jobs)
    fails = []
    ref = outs[0]
    for s, o in zip(seeds[1:], outs[1:]):
        for (texts, H), a, b in zip(cases, ref, o):
            if a != b:
                keys = [k for k in set(a) | set(b) if a.get(k) != b.get(k)]
                fails.append({"kind": "hash-seed", "text": texts[0], "what": "output depends on PYTHONHASHSEED ({} vs {})".format(seeds[0], s),
                              "differs_in": keys, "a": str({k: a.get(k) for k in keys})[:400], "b": str({k: b.get(k) for k in keys})[:400]})
                break
        if fails:
            break
    cnt = 0
    for c, f in par.pmap(_probe_chunk, [(i,) for i in range(len(STATE_PROBES))], ctx.jobs):
        cnt += c
        fails += f
    for c, f in par.pmap(_inproc_chunk, [(ctx.seed * 139 + j, 6 if ctx.tier == "quick" else 30) for j in range(ctx.jobs)], ctx.jobs):
        cnt += c
        fails += f
    return {"programs_across_hash_seeds": len(cases), "hash_seeds": seeds, "in_process_checks": cnt,
            "sample": {"program": progs[0]}}, fails

def _worker_call(args):
    cases, s = args
    return run_worker(cases, s)

def replay(obj):
    return [run_worker([([obj["text"]], None)], s) for s in (0, 1, 2)]
