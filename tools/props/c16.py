"""
C16 — documented abbreviations and dualities hold in every context.

proof          TelProofs.Props.C16 (every law as a THT / LTL_f equivalence, substitution theorem, mirror symmetry, code_level)
correspondence the L3/L4 equation check of C03 on formulas C[lhs], C[rhs] (both sides of every law inside random contexts)
search         metamorphic on the implementation: in one program, witnesses for C[lhs] and C[rhs] must agree in every answer
               set at every state; head-admissible laws also as head formulas (equal answer sets); mirror symmetry on reversed traces
"""
import random
import tl, gen, oracles, impl_theory, par

ID = "C16"
MODULE = "TelProofs.Props.C16"
MODEL = tl.LeanExe("telmodel")
ATOMS = ["a", "b"]
ASSUMPTIONS = ["clingo's ground/solve contract as in C01/C03"]

A = lambda x: ("a", x)
T, F = ("k", "true"), ("k", "false")

def laws(p, q):
    """(name, lhs, rhs, head_admissible) instantiated with sub-formulas p, q"""
    L = [
        ("false", F, ("~", T), True),
        ("initial", ("k", "initial"), ("~", ("prev", 1, False, T)), False),
        ("final", ("k", "final"), ("~", ("next", 1, False, T)), True),
        ("initially", ("init", p), ("alP", ("b", "or", ("~", ("k", "initial")), p)), False),
        ("finally", ("fin", p), ("alF", ("b", "or", ("~", ("k", "final")), p)), True),
        ("seq-next", ("seqn", False, p, q), ("b", "and", p, ("next", 1, False, q)), True),
        ("seq-wnext", ("seqn", True, p, q), ("b", "and", p, ("next", 1, True, q)), True),
        ("seq-prev", ("seqp", False, p, q), ("b", "and", ("prev", 1, False, p), q), False),
        ("seq-wprev", ("seqp", True, p, q), ("b", "and", ("prev", 1, True, p), q), False),
        ("next-0", ("next", 0, False, p), p, True),
        ("next-2", ("next", 2, False, p), ("next", 1, False, ("next", 1, False, p)), True),
        ("wnext-3", ("next", 3, True, p), ("next", 1, True, ("next", 1, True, ("next", 1, True, p))), True),
        ("next-3", ("next", 3, False, p), ("next", 1, False, ("next", 1, False, ("next", 1, False, p))), True),
        ("wnext-4", ("next", 4, True, p), ("next", 2, True, ("next", 2, True, p)), True),
        ("next-add", ("next", 2, False, ("next", 1, False, p)), ("next", 3, False, p), True),
        ("wnext-add", ("next", 1, True, ("next", 2, True, p)), ("next", 3, True, p), True),
        ("prev-add", ("prev", 1, False, ("prev", 2, False, p)), ("prev", 3, False, p), False),
        ("wprev-add", ("prev", 2, True, ("prev", 1, True, p)), ("prev", 3, True, p), False),
        ("prev-2", ("prev", 2, False, p), ("prev", 1, False, ("prev", 1, False, p)), False),
        ("wprev-2", ("prev", 2, True, p), ("prev", 1, True, ("prev", 1, True, p)), False),
        ("eventually", ("evF", p), ("unt", T, p), True),
        ("always", ("alF", p), ("rel", F, p), True),
        ("eventually-past", ("evP", p), ("since", T, p), False),
        ("always-past", ("alP", p), ("trigger", F, p), False),
        ("dual-wnext", ("next", 1, True, p), ("~", ("next", 1, False, ("~", p))), False),
        ("dual-release", ("rel", p, q), ("~", ("unt", ("~", p), ("~", q))), False),
        ("dual-trigger", ("trigger", p, q), ("~", ("since", ("~", p), ("~", q))), False),
    ]
    return L

def subst(C, f):
    if C == ("a", "x"):
        return f
    return tuple(subst(c, f) if isinstance(c, tuple) else c for c in C)

def gen_context(r, depth, head):
    """a formula over a, b and the hole atom x (at least once)"""
    for _ in range(50):
        C = (gen.gen_hform if head else lambda rr, d, at: gen.gen_sform(rr, d, at))(r, depth, ["a", "x", "x"])
        if "x" in oracles.atoms_of_rules([("rule", "always", ("falsum",), (("tel", "pos", C),))]):
            return C
    return ("a", "x")

def grid_pairs(r, tier):
    """every law under every unary operator shape (n-fold variants included); n-fold laws under all of them even in the quick tier"""
    out = []
    p, q = ("a", "a"), ("a", "b")
    shapes = gen.unary_shapes()
    for name, lhs, rhs, head in laws(p, q):
        full = name in ("next-0", "next-2", "wnext-3", "next-3", "wnext-4", "prev-2", "wprev-2") or tier != "quick"
        for u in (shapes if full else r.sample(shapes, 4)):
            out.append((name, u(lhs), u(rhs), False))
    return out

def head_grid_pairs(r, tier):
    """every head-admissible law, instantiated with every shape of operand a head formula may have (atom, conjunction, disjunction,
    negation, next, sequence), written directly as the head formula and below `>` and `|`"""
    A, B, Cc = ("a", "a"), ("a", "b"), ("a", "c")
    P = [A, ("b", "and", A, B), ("b", "or", A, B), ("~", A), ("next", 1, False, A), ("seqn", False, A, B), ("seqn", True, A, B),
         ("b", "and", A, ("b", "or", B, Cc))]
    Q = [B, ("b", "and", B, Cc), ("b", "or", ("~", B), Cc)]
    ctxs = [lambda f: f, lambda f: ("next", 1, False, f), lambda f: ("b", "or", f, Cc), lambda f: ("alF", f)]
    out = []
    for p in P:
        for q in Q:
            for name, lhs, rhs, head in laws(p, q):
                if head:
                    for cx in ctxs:
                        out.append((name, cx(lhs), cx(rhs), True))
    # the same pair arises for several q when the law does not mention q
    seen, uniq = set(), []
    for x in out:
        k = (x[0], repr(x[1]), repr(x[2]))
        if k not in seen:
            seen.add(k); uniq.append(x)
    if tier == "quick":
        # the n-fold laws over an atom always (the step-wise shifting of a counted next shows only at later horizons)
        keep = [x for x in uniq if x[0] in ("next-2", "next-3", "wnext-3", "wnext-4", "next-0") and "'b'" not in repr(x[1])]
        rest = [x for x in uniq if x not in keep]
        return keep + r.sample(rest, min(len(rest), 160))
    return uniq

def gen_pairs(seed, n, tier):
    r = random.Random(seed)
    out = grid_pairs(r, tier) + head_grid_pairs(r, tier)
    for i in range(n):
        p = gen.gen_sform(r, r.randint(0, 1), ATOMS)
        q = gen.gen_sform(r, r.randint(0, 1), ATOMS)
        for name, lhs, rhs, head in laws(p, q):
            if tier == "quick" and r.random() < 0.5:
                continue
            C = gen_context(r, r.randint(0, 2), False)
            out.append((name, subst(C, lhs), subst(C, rhs), False))
            if head and r.random() < 0.5:
                hp, hq = gen.gen_hform(r, r.randint(0, 1), ATOMS), gen.gen_hform(r, r.randint(0, 1), ATOMS)
                for n2, l2, r2, h2 in laws(hp, hq):
                    if n2 == name:
                        HC = gen_context(r, r.randint(0, 2), True)
                        out.append((name, subst(HC, l2), subst(HC, r2), True))
    return out

def _corr_chunk(args):
    seed, pairs = args
    tot = {"pairs": 0, "equations_evaluated": 0, "horizons": 0, "programs": 0}
    dis = []
    for i, (name, lhs, rhs, head) in enumerate(pairs):
        if head:
            continue
        text = oracles.witness_program([lhs, rhs], ATOMS, "tel")
        try:
            st, d = impl_theory.check_equations(text, 2, MODEL)
        except BaseException as e:  # noqa
            if isinstance(e, KeyboardInterrupt):
                raise
            d = [{"layer": "L4", "text": text, "what": "exception: {}: {}".format(tl.classify_exc(e), str(e)[:200])}]
            if isinstance(e, tl.Timeout):
                d = []
            st = {"pairs": 0, "equations_evaluated": 0, "horizons": 0}
        for k in st:
            tot[k] = tot.get(k, 0) + st[k]
        tot["programs"] += 1
        dis += d
    return tot, dis

def correspondence(ctx):
    pairs = gen_pairs(ctx.seed * 47 + 1, 3 if ctx.tier == "quick" else 25, ctx.tier)
    work = [(ctx.seed + j, c) for j, c in enumerate(par.chunks(pairs, ctx.jobs * 2))]
    tot = {"pairs": 0, "equations_evaluated": 0, "horizons": 0, "programs": 0}
    dis = []
    for st, d in par.pmap(_corr_chunk, work, ctx.jobs):
        for k in st:
            tot[k] = tot.get(k, 0) + st[k]
        dis += d
    tot["sample"] = {"law": pairs[0][0], "lhs": tl.render_tel(pairs[0][1]), "rhs": tl.render_tel(pairs[0][2])}
    return tot, dis

def _search_chunk(args):
    seed, pairs, H = args
    fails = []
    for name, lhs, rhs, head in pairs:
        if head:
            t1 = "#program initial. &tel {{ {} }}. #program always. {{ a; b }}.".format(tl.render_tel(lhs))
            t2 = "#program initial. &tel {{ {} }}. #program always. {{ a; b }}.".format(tl.render_tel(rhs))
            HH = 5 if name.startswith(("next-", "wnext-")) else H
            r1, r2 = oracles.impl_models(t1, HH, dedup=True), oracles.impl_models(t2, HH, dedup=True)
            if "Timeout" in (r1[1] if r1[0] == "err" else "", r2[1] if r2[0] == "err" else ""):
                continue      # slow is not wrong (clause unfolding of nested until/release is exponential)
            if r1 != r2:
                fails.append({"kind": "head-law", "law": name, "text": t1 + "\n%%% versus\n" + t2, "input": [t1, t2],
                              "got": [str(r1)[:300], str(r2)[:300]]})
            continue
        text = oracles.witness_program([lhs, rhs], ATOMS, "tel")
        r = oracles.impl_models(text, H)
        if r[0] == "err":
            if r[1] == "Timeout":
                continue      # slow is not wrong: the case is skipped (telingo's clause unfolding can be exponential)
            fails.append({"kind": "exception", "law": name, "text": text, "error": r[1], "message": r[2]})
            continue
        for h, models in r[1].items():
            bad = None
            for m in models:
                w0 = sorted(x.split("@")[1] for x in m if x.startswith("w0@"))
                w1 = sorted(x.split("@")[1] for x in m if x.startswith("w1@"))
                if w0 != w1:
                    bad = m
                    break
            if bad is not None:
                fails.append({"kind": "law", "law": name, "text": text, "h": h, "answer_set": list(bad)})
                break
    return fails

def mirror(f):
    t = f[0]
    M = {"prev": "next", "next": "prev", "since": "unt", "unt": "since", "trigger": "rel", "rel": "trigger",
         "evP": "evF", "evF": "evP", "alP": "alF", "alF": "alP", "init": "fin", "fin": "init"}
    if t == "a":
        return f
    if t == "k":
        return ("k", {"initial": "final", "final": "initial"}.get(f[1], f[1]))
    if t == "seqp":
        return ("b", "and", ("next", 1, f[1], mirror(f[2])), mirror(f[3]))
    if t == "seqn":
        return ("b", "and", mirror(f[2]), ("prev", 1, f[1], mirror(f[3])))
    if t in M:
        return (M[t],) + tuple(mirror(x) if isinstance(x, tuple) else x for x in f[1:])
    return tuple(mirror(x) if isinstance(x, tuple) else x for x in f)

def _mirror_chunk(args):
    seed, forms, H = args
    fails = []
    for f in forms:
        text = oracles.witness_program([f, mirror(f)], ATOMS, "tel")
        r = oracles.impl_models(text, H)
        if r[0] == "err":
            if r[1] == "Timeout":
                continue      # slow is not wrong: the case is skipped (telingo's clause unfolding can be exponential)
            fails.append({"kind": "exception", "law": "mirror", "text": text, "error": r[1], "message": r[2]})
            continue
        for h, models in r[1].items():
            # index by trace; compare w0 on tr at k with w1 on reversed trace at h-k
            by_trace = {}
            for m in models:
                tr, wit = oracles.split_model(m, 2)
                key = tuple(tuple(sorted(tr.get(k, []))) for k in range(h + 1))
                by_trace[key] = wit
            for key, wit in by_trace.items():
                rev = tuple(reversed(key))
                wr = by_trace.get(rev)
                if wr is None:
                    continue
                for k in range(h + 1):
                    if ((0, k) in wit) != ((1, h - k) in wr):
                        fails.append({"kind": "mirror", "law": "mirror", "text": text, "h": h, "trace": [list(s) for s in key], "k": k})
                        break
                else:
                    continue
                break
            else:
                continue
            break
    return fails

def keyword_head_cases():
    """`&initial`, `&final`, `&true`, `&false` as rule heads (rewritten by visit_TheoryAtom to doubly negated `__initial(t)` /
    `__final(t)` / `#true` / `#false`): the documented reading is the constraint with the negated keyword in the body"""
    out = []
    bodies = ["a", "a, 'b", "not b", "a, not &final", "b, not not 'a"]
    for part in ("initial", "always", "dynamic", "final"):
        for body in bodies:
            if part == "initial" and "'" in body:
                continue
            for kw, reading in (("initial", ":- {B}, not &initial."), ("final", ":- {B}, not &final."), ("false", ":- {B}."), ("true", "")):
                t1 = "#program always. {{a;b}}. #program {}. &{} :- {}.".format(part, kw, body)
                t2 = "#program always. {{a;b}}. #program {}. {}".format(part, reading.format(B=body))
                out.append((kw, t1, t2))
    return out

def _kwhead_chunk(args):
    (cases,) = args
    fails = []
    for kw, t1, t2 in cases:
        r1, r2 = oracles.impl_models(t1, 3, dedup=True), oracles.impl_models(t2, 3, dedup=True)
        if "Timeout" in (r1[1], r2[1]):
            continue
        if r1 != r2:
            fails.append({"kind": "keyword-head", "law": "&" + kw + " as a head", "text": t1 + "\n%%% versus the documented reading\n" + t2,
                          "input": [t1, t2], "got": [str(r1)[:300], str(r2)[:300]]})
    return fails

def search(ctx, deep):
    H = 3
    pairs = gen_pairs(ctx.seed * 53 + 2, (10 if ctx.tier == "quick" else 60) * (3 if deep else 1), ctx.tier)
    work = [(ctx.seed + j, c, H) for j, c in enumerate(par.chunks(pairs, ctx.jobs * 2))]
    fails = []
    for f in par.pmap(_search_chunk, work, ctx.jobs):
        fails += f
    r = random.Random(ctx.seed * 59 + 3)
    mforms = [gen.gen_sform(r, r.randint(1, 3), ATOMS) for _ in range(40 if ctx.tier == "quick" else 600)]
    for f in par.pmap(_mirror_chunk, [(ctx.seed, c, H) for c in par.chunks(mforms, ctx.jobs)], ctx.jobs):
        fails += f
    kwc = keyword_head_cases()
    for f in par.pmap(_kwhead_chunk, [(c,) for c in par.chunks(kwc, ctx.jobs)], ctx.jobs):
        fails += f
    laws_hit = {}
    for p in pairs:
        laws_hit[p[0]] = laws_hit.get(p[0], 0) + 1
    return {"law_instances": len(pairs), "per_law": laws_hit, "mirror_formulas": len(mforms), "keyword_head_programs": len(kwc), "horizons": "0..{}".format(H),
            "sample": {"law": pairs[0][0], "lhs": tl.render_tel(pairs[0][1]), "rhs": tl.render_tel(pairs[0][2])}}, fails

def replay(obj):
    return oracles.replay_record(obj, 3)
