"""
C07 — precedence and associativity.

proof          TelProofs.Props.C07 (tables_agree, *_pairs_triples by complete enumeration in the kernel, arith_prefix)
correspondence L7: random operator strings — gringo's theory-term parser with the `#theory` text taken from the source, and the
               real `TheoryParser.parse`, against the model's stack machine and the documented reading
search         metamorphic on the implementation: a formula written without redundant parentheses vs its fully parenthesised
               documented reading (computed by the specification), equal answer sets — bodies, heads, `&del`
"""
import random, ast, os, re
import tl, gen, oracles, par

ID = "C07"
MODULE = "TelProofs.Props.C07"
MODEL = tl.LeanExe("telmodel")
ASSUMPTIONS = ["gringo's theory-term parser implements the precedence-climbing rule for the given #theory table (sampled by L7)"]

BODY_UN = ["~", "<", "<:", "<?", "<*", "<<", ">", ">:", ">?", ">*", ">>"]
BODY_BIN = [">*", ">?", "<*", "<?", "&", "|", "<-", "->", "<>", ";>", ";>:", "<;", "<:;"]
NFOLD = ["<", "<:", ">", ">:"]
HEAD_UN = ["~", ">", ">:", ">?", ">*", ">>"]
HEAD_BIN = [">*", ">?", "&", "|", ";>", ";>:"]
DEL_UN = ["?", "*"]
DEL_BIN = ["+", ";;", ".>?", ".>*"]

def theory_text():
    src = open(os.path.join(tl.REPO, "telingo", "transformers", "__init__.py")).read()
    tree = ast.parse(src)
    out = []
    for n in ast.walk(tree):
        if isinstance(n, ast.Constant) and isinstance(n.value, str) and "#theory" in n.value:
            import textwrap
            out.append(textwrap.dedent(n.value))
    return "\n".join(out)

def tree_of_theory_term(t, names):
    import clingo
    T = clingo.TheoryTermType
    if t.type == T.Symbol:
        return names.get(t.name, t.name)
    if t.type == T.Number:
        return str(t.number)
    if t.type == T.Function:
        args = [tree_of_theory_term(a, names) for a in t.arguments]
        return ("un", t.name, args[0]) if len(args) == 1 else ("bin", t.name, args[0], args[1])
    raise ValueError(str(t))

def tree_of_ast(x):
    from clingo import ast as A
    if x.ast_type == A.ASTType.TheoryFunction:
        args = [tree_of_ast(a) for a in x.arguments]
        return ("un", x.name, args[0]) if len(args) == 1 else ("bin", x.name, args[0], args[1])
    return str(x)

def tree_of_model(s, leaves):
    def conv(t):
        if isinstance(t, list):
            if t[0] == "un":
                return ("un", t[1], conv(t[2]))
            return ("bin", t[1], conv(t[2]), conv(t[3]))
        return leaves[int(t)]
    return conv(tl.parse_sexp(s)) if not s.startswith(("ERR", "none")) else s

def gen_string(r, un, bin_, nfold_ok, n_operands):
    """operator string as element list: [(ops, operand)]; operands are atoms o0.. (numbers where an n-fold prefix needs one)"""
    elems = []
    for i in range(n_operands):
        ops = []
        if i > 0:
            ops.append(r.choice(bin_ + (nfold_ok if nfold_ok else [])))
        for _ in range(r.choice([0, 0, 0, 1, 1, 2])):
            ops.append(r.choice(un))
        elems.append((ops, "o{}".format(i)))
    return elems

def text_of(elems):
    return " ".join(" ".join(ops) + " " + t for ops, t in elems).strip()

def gringo_parse(texts, kind):
    """parse many operator strings with gringo and the theory definition from the source"""
    import clingo
    prg = clingo.Control(message_limit=0, logger=lambda c, m: None)
    name = "tel" if kind != "del" else "del"
    rules = "\n".join(":- &{}({}) {{ {} }}.".format(name, i, t) for i, t in enumerate(texts))
    atoms = " ".join("{{o{}}}.".format(i) for i in range(8))
    prg.add("base", [], theory_text() + "\n" + atoms + "\n" + rules)
    prg.ground([("base", [])])
    out = {}
    for a in prg.theory_atoms:
        i = a.term.arguments[0].number
        out[i] = tree_of_theory_term(a.elements[0].terms[0], {})
    return [out.get(i) for i in range(len(texts))]

def python_parse(text):
    from clingo import ast as A
    import telingo.transformers.head as th
    res = []
    A.parse_string("&tel {{ {} }}.".format(text), res.append)
    for s in res:
        if s.ast_type == A.ASTType.Rule:
            term = s.head.elements[0].terms[0]
            if term.ast_type == A.ASTType.TheoryUnparsedTerm:
                return tree_of_ast(th.parse_raw_formula(term))
            return tree_of_ast(term)
    raise ValueError(text)

def _corr_chunk(args):
    seed, n = args
    r = random.Random(seed)
    dis = []
    stats = {"body": 0, "head": 0, "del": 0}
    for kind, un, bin_, nf in (("body", BODY_UN, BODY_BIN, NFOLD), ("head", HEAD_UN, HEAD_BIN + ["<", "->"], [">", ">:"]), ("del", DEL_UN, DEL_BIN, [])):
        strings = [gen_string(r, un, bin_, nf, r.randint(2, 5)) for _ in range(n)]
        texts = [text_of(e) for e in strings]
        lines = [tl.sexp(("parse", kind, tuple(tuple(tl.QStr(o) for o in ops) for ops, _ in e))) for e in strings]
        outs = MODEL.batch(lines)
        try:
            gr = gringo_parse(texts, kind) if kind != "head" else [None] * len(texts)
        except RuntimeError as e:
            dis.append({"layer": "L7", "what": "gringo rejected a generated string: " + str(e)[:200], "kind": kind})
            continue
        for e, text, out, g in zip(strings, texts, outs, gr):
            stats[kind] += 1
            leaves = [t for _, t in e]
            ms, ds = [x.strip() for x in out.split(" @@ ")]
            mt, dt = tree_of_model(ms, leaves), tree_of_model(ds, leaves)
            if isinstance(mt, str) and mt.startswith("ERR RuntimeError") and dt == "none":
                dt = mt      # both reject the string
            if mt != dt:
                dis.append({"layer": "L7", "kind": kind, "text": text, "what": "model stack machine differs from the documented reading", "model": mt, "doc": dt})
            if kind == "head":
                try:
                    pt = python_parse(text)
                except BaseException as ex:  # noqa
                    pt = "ERR " + tl.classify_exc(ex)
                if pt != mt:
                    dis.append({"layer": "L7", "kind": kind, "text": text, "what": "TheoryParser.parse differs from the model", "model": mt, "impl": pt})
            elif g != mt:
                dis.append({"layer": "L7", "kind": kind, "text": text, "what": "gringo's parse differs from the model", "model": mt, "impl": g})
    return stats, dis

def correspondence(ctx):
    n = 60 if ctx.tier == "quick" else 600
    tot = {"body": 0, "head": 0, "del": 0}
    dis = []
    for st, d in par.pmap(_corr_chunk, [(ctx.seed * 83 + j, n) for j in range(ctx.jobs)], ctx.jobs):
        for k in st:
            tot[k] = tot.get(k, 0) + st[k]
        dis += d
    r = random.Random(ctx.seed)
    tot = {"operator_strings": tot, "sample": {"string": text_of(gen_string(r, BODY_UN, BODY_BIN, NFOLD, 4))}}
    return tot, dis

# ---- metamorphic search: raw text vs the documented fully parenthesised reading

def paren(t):
    if isinstance(t, str):
        return t
    if t[0] == "un":
        return "({} {})".format(t[1], paren(t[2]))
    return "({} {} {})".format(paren(t[2]), t[1], paren(t[3]))

def formula_strings(r, kind, n):
    """semantically valid operator strings: n-fold prefixes get numbers, operands are atoms a/b"""
    un, bin_ = (BODY_UN, BODY_BIN) if kind == "body" else (HEAD_UN, HEAD_BIN)
    out = []
    for _ in range(n):
        k = r.randint(2, 4)
        elems = []
        for i in range(k):
            ops = []
            if i > 0:
                ops.append(r.choice(bin_))
            for _ in range(r.choice([0, 0, 1, 1, 2])):
                if r.random() < 0.25:
                    nf = r.choice([x for x in NFOLD if kind == "body" or x.startswith(">")])
                    ops.append(("nfold", r.choice(["0", "1", "2", "1+1", "3-1", "2-1-1"]), nf))
                else:
                    ops.append(r.choice(un))
            elems.append((ops, r.choice(["a", "b", "&true", "&final"] if kind != "del" else ["a", "b"])))
        out.append(elems)
    return out

def flatten(elems):
    """expand n-fold pseudo operators into `number op` token pairs: returns (text, element list for the reader)"""
    text = []
    relems = []
    for ops, t in elems:
        cur = []
        for o in ops:
            if isinstance(o, tuple):
                # `N op` : the number is an operand, `op` then is binary
                text.append("(" + o[1] + ")" if not o[1].isdigit() else o[1])
                relems.append((cur, "(" + o[1] + ")" if not o[1].isdigit() else o[1]))
                cur = [o[2]]
                text.append(o[2])
            else:
                cur.append(o); text.append(o)
        relems.append((cur, t))
        text.append(t)
    return " ".join(text), relems

def _timeout(*rs):
    """slow is not wrong: a run that hit the time limit is skipped (head-formula unfolding is exponential in nesting depth)"""
    return any(x[0] == "err" and x[1] == "Timeout" for x in rs)

def _search_chunk(args):
    seed, n, H = args
    r = random.Random(seed)
    fails = []
    cnt = 0
    for kind in ("body", "head"):
        strings = formula_strings(r, kind, n)
        flat = [flatten(e) for e in strings]
        lines = [tl.sexp(("parse", kind, tuple(tuple(tl.QStr(o) for o in ops) for ops, _ in re_))) for _, re_ in flat]
        outs = MODEL.batch(lines)
        for (text, relems), out in zip(flat, outs):
            ds = out.split(" @@ ")[1].strip()
            if ds.startswith(("none", "ERR")):
                continue
            ptext = paren(tree_of_model(ds, [t for _, t in relems]))
            cnt += 1
            if kind == "body":
                p1 = "#program always. {{ a; b }}. w :- not not &tel {{ {} }}.".format(text)
                p2 = "#program always. {{ a; b }}. w :- not not &tel {{ {} }}.".format(ptext)
            else:
                p1 = "#program always. {{ b }}. #program initial. &tel {{ {} }}.".format(text)
                p2 = "#program always. {{ b }}. #program initial. &tel {{ {} }}.".format(ptext)
            r1, r2 = oracles.impl_models(p1, H), oracles.impl_models(p2, H)
            if r1 != r2 and not _timeout(r1, r2):
                fails.append({"kind": "precedence", "where": kind, "text": p1 + "\n%%% versus the documented reading\n" + p2,
                              "input": [p1, p2], "raw": text, "parenthesised": ptext, "got": [str(r1)[:300], str(r2)[:300]]})
    # dynamic formulas: path operators
    for _ in range(n // 2):
        k = r.randint(2, 3)
        elems = []
        for i in range(k):
            ops = []
            if i > 0:
                ops.append(r.choice(["+", ";;"]))
            if r.random() < 0.5:
                ops.append(r.choice(["?", "*"]))
            lastop = ops[-1] if ops else None
            elems.append((ops, "a" if lastop == "?" else r.choice(["a", "b", "&true"])))
        # iteration only over consuming operands: `* a`, `* &true` are fine; `* ? a` excluded by construction
        elems.append(([r.choice([".>?", ".>*"])], r.choice(["a", "b", "&final"])))
        text = text_of(elems)
        out = MODEL.batch([tl.sexp(("parse", "del", tuple(tuple(tl.QStr(o) for o in ops) for ops, _ in elems)))])[0]
        ds = out.split(" @@ ")[1].strip()
        if ds.startswith(("none", "ERR")):
            continue
        ptext = paren(tree_of_model(ds, [t for _, t in elems]))
        cnt += 1
        p1 = "#program always. {{ a; b }}. w :- not not &del {{ {} }}.".format(text)
        p2 = "#program always. {{ a; b }}. w :- not not &del {{ {} }}.".format(ptext)
        r1, r2 = oracles.impl_models(p1, H), oracles.impl_models(p2, H)
        if r1 != r2 and not _timeout(r1, r2):
            fails.append({"kind": "precedence", "where": "del", "text": p1 + "\n%%% versus the documented reading\n" + p2,
                          "input": [p1, p2], "raw": text, "parenthesised": ptext, "got": [str(r1)[:300], str(r2)[:300]]})
    return cnt, fails

def search(ctx, deep):
    n = (12 if ctx.tier == "quick" else 150) * (3 if deep else 1)
    cnt = 0
    fails = []
    for c, f in par.pmap(_search_chunk, [(ctx.seed * 89 + j, n, 2) for j in range(ctx.jobs)], ctx.jobs):
        cnt += c
        fails += f
    return {"formula_pairs": cnt, "horizons": "0..2", "kinds": ["body", "head", "del"],
            "sample": {"raw": "a & > b | c", "parenthesised": "((a & (> b)) | c)"}}, fails

def replay(obj):
    return [oracles.impl_models(t, 2) for t in obj["input"]]
