"""
Driving the real `telingo.imain` with a recording stand-in for clingo.Control and scripted
solve results (layer L2).  Nothing in /repo is changed: `imain` is duck-typed, and the
Theory class it instantiates is replaced, for the duration of a call, by a recording subclass.
"""
import contextlib
import tl  # noqa: F401  (puts /repo on sys.path)

class FakeResult:
    def __init__(self, kind):
        self.satisfiable = {"SAT": True, "UNSAT": False, "UNKNOWN": None}[kind]
        self.unsatisfiable = {"SAT": False, "UNSAT": True, "UNKNOWN": None}[kind]
        self.unknown = kind == "UNKNOWN"
        self.exhausted = kind != "UNKNOWN"
        self.interrupted = False

class FakeSym:
    def __init__(self, last):
        import clingo
        self.arguments = [clingo.Number(last)]

class FakeAtom:
    def __init__(self, last, lit):
        self.symbol = FakeSym(last)
        self.literal = lit

class FakeAtoms:
    def __init__(self, ctl):
        self.ctl = ctl
    def by_signature(self, name, arity, positive=True):
        return [FakeAtom(a, l) for (a, l) in self.ctl.atoms_at(self.ctl.solves)]

class ProxyControl:
    def __init__(self, results, atoms):
        self.results = results
        self.atoms = atoms
        self.log = []
        self.solves = 0
        self.symbolic_atoms = FakeAtoms(self)
        self.theory_atoms = []
    def atoms_at(self, step):
        return self.atoms[step] if step < len(self.atoms) else []
    def release_external(self, sym):
        assert sym.name == "__final"
        self.log.append("(release {})".format(sym.arguments[0].number))
    def cleanup(self):
        self.log.append("(cleanup)")
    def ground(self, parts):
        self.log.append("(ground" + "".join(" ({} {} {})".format(n, a[0].number, a[1].number) for n, a in parts) + ")")
    def assign_external(self, sym, value):
        assert sym.name == "__final" and value is True
        self.log.append("(assign {})".format(sym.arguments[0].number))
    def solve(self, on_model=None, assumptions=()):
        self.log.append("(solve" + "".join(" {}".format(a) for a in assumptions) + ")")
        if self.solves >= len(self.results):
            raise StopIteration("out of scripted results")
        r = FakeResult(self.results[self.solves])
        self.solves += 1
        return r
    def backend(self):
        raise AssertionError("backend must not be used without theory atoms")

@contextlib.contextmanager
def recording_theory(ctl):
    import telingo
    orig = telingo._ty.Theory
    class RecTheory(orig):
        def translate(self, horizon, prg):
            ctl.log.append("(translate {})".format(horizon))
            return orig.translate(self, horizon, prg)
    telingo._ty.Theory = RecTheory
    try:
        yield
    finally:
        telingo._ty.Theory = orig

def run_imain(imin, imax, istop, parts, atoms, results, use_defaults=False):
    """returns ('ok', log, horizons) / ('cut', log, horizons) when the scripted results ran out / ('err', class)"""
    import telingo
    ctl = ProxyControl(results, atoms)
    pp = [(root, name, list(rng)) for root, name, rng in parts]
    sigs = [("__future_p", 2, True)]
    try:
        with recording_theory(ctl):
            if use_defaults:
                telingo.imain(ctl, sigs, pp, lambda m, s: None)
            else:
                telingo.imain(ctl, sigs, pp, lambda m, s: None, imin, imax, istop)
        return ("ok", " ".join(ctl.log), ctl.solves)
    except StopIteration:
        # drop the solve entry that had no result
        return ("cut", " ".join(ctl.log[:-1]), ctl.solves)
    except BaseException as e:  # noqa
        if isinstance(e, KeyboardInterrupt):
            raise
        return ("err", tl.classify_exc(e), str(e)[:200])
