import TelSpec.Sexp
import TelSpec.Formula
import TelSpec.Dynamic
import TelSpec.Program
import TelSpec.Decode
import TelSpec.Loop
import TelSpec.Prec
import TelSpec.Placement
