/-
C04 (a): the time ranges that `transformers/head.py` computes for the atoms of a head formula (and from which the
domain rule is built that makes those atoms known to the grounder) cover every atom that the step-wise translation
of `theory/head.py` can put into the head of a rule: if an atom stands at the top level of a clause of the formula
shifted by `d` steps, then `d` lies in one of the ranges computed for that atom.
-/
import TelModel.Head

set_option linter.unusedVariables false
set_option linter.unusedSimpArgs false

namespace TelProofs
open TelModel

/-- atoms that can end up in the head of an emitted rule: those at the top level of the clauses -/
def topAtoms : HForm → List String
  | .atom p n a => [hkey p n a]
  | .clause2 l r _ => topAtoms l ++ topAtoms r
  | _ => []

theorem unfold_atoms (f : HForm) : ∀ c ∈ unfoldF f, ∀ x ∈ c, ∀ p n a, x = .atom p n a → hkey p n a ∈ topAtoms f := by
  induction f with
  | clause2 l r cj ihl ihr =>
    intro c hc x hx p n a hxa
    cases cj with
    | true =>
      simp only [unfoldF, List.mem_append] at hc
      simp only [topAtoms, List.mem_append]
      rcases hc with h | h
      · exact Or.inl (ihl c h x hx p n a hxa)
      · exact Or.inr (ihr c h x hx p n a hxa)
    | false =>
      simp only [unfoldF, List.mem_flatMap, List.mem_map] at hc
      obtain ⟨c1, hc1, c2, hc2, rfl⟩ := hc
      simp only [topAtoms, List.mem_append]
      rcases List.mem_append.mp hx with h | h
      · exact Or.inl (ihl c1 hc1 x h p n a hxa)
      · exact Or.inr (ihr c2 hc2 x h p n a hxa)
  | atom p' n' a' =>
    intro c hc x hx p n a hxa
    simp only [unfoldF, List.mem_singleton] at hc
    subst hc
    simp only [List.mem_singleton] at hx
    subst hx
    cases hxa
    simp [topAtoms]
  | next _ _ _ _ => intro c hc x hx p n a hxa; simp only [unfoldF, List.mem_singleton] at hc; subst hc; simp at hx; subst hx; cases hxa
  | until2 _ _ _ _ _ => intro c hc x hx p n a hxa; simp only [unfoldF, List.mem_singleton] at hc; subst hc; simp at hx; subst hx; cases hxa
  | until1 _ _ _ => intro c hc x hx p n a hxa; simp only [unfoldF, List.mem_singleton] at hc; subst hc; simp at hx; subst hx; cases hxa
  | neg _ _ => intro c hc x hx p n a hxa; simp only [unfoldF, List.mem_singleton] at hc; subst hc; simp at hx; subst hx; cases hxa
  | const _ => intro c hc x hx p n a hxa; simp only [unfoldF, List.mem_singleton] at hc; subst hc; simp at hx; subst hx; cases hxa
  | shift _ _ _ => intro c hc x hx p n a hxa; simp only [unfoldF, List.mem_singleton] at hc; subst hc; simp at hx; subst hx; cases hxa

/-- a ray range computed with a ray flag stays a ray, and starts no earlier than the base offset -/
theorem rangesH_lo (f : HForm) : ∀ (lo : Nat) (ray : Bool), ∀ kr ∈ rangesH lo ray f, lo ≤ kr.2.lo ∧ (ray = true → kr.2.ray = true) := by
  induction f with
  | atom p n a => intro lo ray kr h; simp only [rangesH, List.mem_singleton] at h; subst h; exact ⟨Nat.le_refl _, id⟩
  | next n f w ih => intro lo ray kr h; have := ih (lo + n) ray kr h; exact ⟨by omega, this.2⟩
  | until2 l r u ihl ihr =>
    intro lo ray kr h
    simp only [rangesH, List.mem_append] at h
    rcases h with h | h
    · exact ⟨(ihl lo true kr h).1, fun _ => (ihl lo true kr h).2 rfl⟩
    · exact ⟨(ihr lo true kr h).1, fun _ => (ihr lo true kr h).2 rfl⟩
  | until1 r u ih => intro lo ray kr h; exact ⟨(ih lo true kr h).1, fun _ => (ih lo true kr h).2 rfl⟩
  | clause2 l r c ihl ihr =>
    intro lo ray kr h
    simp only [rangesH, List.mem_append] at h
    rcases h with h | h
    · exact ihl lo ray kr h
    · exact ihr lo ray kr h
  | neg f _ => intro lo ray kr h; simp [rangesH] at h
  | const b => intro lo ray kr h; simp [rangesH] at h
  | shift n f _ => intro lo ray kr h; simp [rangesH] at h

/-- **range adequacy**: an atom at the top level of the formula shifted by `e` steps has a range that covers
    `lo + e`, for the ranges computed from base offset `lo` -/
theorem range_adequate : ∀ (e : Nat) (f : HForm) (lo : Nat) (ray : Bool) (k : String), k ∈ topAtoms (shiftF e f) →
      ∃ r, (k, r) ∈ rangesH lo ray f ∧ r.covers (lo + e) := by
  intro e
  induction e using Nat.strongRecOn with
  | _ e ihe =>
    intro f
    induction f with
    | atom p n a =>
      intro lo ray k hk
      unfold shiftF at hk
      by_cases he : e = 0
      · subst he
        simp only [if_true, topAtoms, List.mem_singleton] at hk
        subst hk
        refine ⟨⟨lo, ray⟩, by simp [rangesH], ?_⟩
        simp only [TRange.covers]
        split <;> omega
      · simp [he, topAtoms] at hk
    | next n f w ihf =>
      intro lo ray k hk
      unfold shiftF at hk
      by_cases hne : n ≤ e
      · simp only [hne, if_true] at hk
        have key : ∃ r, (k, r) ∈ rangesH (lo + n) ray f ∧ r.covers (lo + n + (e - n)) := by
          by_cases hn0 : n = 0
          · subst hn0
            simpa using ihf (lo + 0) ray k (by simpa using hk)
          · exact ihe (e - n) (by omega) f (lo + n) ray k hk
        obtain ⟨r, hr, hc⟩ := key
        refine ⟨r, by simpa [rangesH] using hr, ?_⟩
        have : lo + n + (e - n) = lo + e := by omega
        rw [this] at hc; exact hc
      · simp [hne, topAtoms] at hk
    | until2 l r u ihl ihr =>
      intro lo ray k hk
      unfold shiftF at hk
      simp only [topAtoms, List.mem_append] at hk
      rcases hk with h | h | h
      · obtain ⟨rg, hrg, hc⟩ := ihr lo true k h
        exact ⟨rg, by simp [rangesH, hrg], hc⟩
      · obtain ⟨rg, hrg, hc⟩ := ihl lo true k h
        exact ⟨rg, by simp [rangesH, hrg], hc⟩
      · cases e with
        | zero => simp [topAtoms] at h
        | succ e' =>
          simp only at h
          obtain ⟨rg, hrg, hc⟩ := ihe e' (by omega) (.until2 l r u) lo ray k h
          refine ⟨rg, hrg, ?_⟩
          have hray : rg.ray = true := by
            simp only [rangesH, List.mem_append] at hrg
            rcases hrg with h1 | h1
            · exact (rangesH_lo l lo true _ h1).2 rfl
            · exact (rangesH_lo r lo true _ h1).2 rfl
          simp only [TRange.covers, hray, if_true] at hc ⊢
          omega
    | until1 r u ihr =>
      intro lo ray k hk
      unfold shiftF at hk
      simp only [topAtoms, List.mem_append] at hk
      rcases hk with h | h
      · obtain ⟨rg, hrg, hc⟩ := ihr lo true k h
        exact ⟨rg, by simpa [rangesH] using hrg, hc⟩
      · cases e with
        | zero => simp [topAtoms] at h
        | succ e' =>
          simp only at h
          obtain ⟨rg, hrg, hc⟩ := ihe e' (by omega) (.until1 r u) lo ray k h
          refine ⟨rg, hrg, ?_⟩
          have hray : rg.ray = true := by
            simp only [rangesH] at hrg
            exact (rangesH_lo r lo true _ hrg).2 rfl
          simp only [TRange.covers, hray, if_true] at hc ⊢
          omega
    | clause2 l r c ihl ihr =>
      intro lo ray k hk
      unfold shiftF at hk
      simp only [topAtoms, List.mem_append] at hk
      rcases hk with h | h
      · obtain ⟨rg, hrg, hc⟩ := ihl lo ray k h
        exact ⟨rg, by simp [rangesH, hrg], hc⟩
      · obtain ⟨rg, hrg, hc⟩ := ihr lo ray k h
        exact ⟨rg, by simp [rangesH, hrg], hc⟩
    | neg f _ => intro lo ray k hk; unfold shiftF at hk; simp [topAtoms] at hk
    | const b => intro lo ray k hk; unfold shiftF at hk; simp [topAtoms] at hk
    | shift n f _ => intro lo ray k hk; unfold shiftF at hk; simp [topAtoms] at hk

/-- for the rule heads the translation emits at step `origin + d`: every atom in a clause of the shifted formula lies in
    a range computed from offset 0 -/
theorem emitted_heads_in_ranges (d : Nat) (f : HForm) (c : List HForm) (hc : c ∈ unfoldF (shiftF d f))
    (p : Bool) (n : String) (a : List Sym) (hx : HForm.atom p n a ∈ c) :
    ∃ r, (hkey p n a, r) ∈ rangesH 0 false f ∧ r.covers d := by
  have := range_adequate d f 0 false (hkey p n a) (unfold_atoms _ c hc _ hx p n a rfl)
  simpa using this

end TelProofs
