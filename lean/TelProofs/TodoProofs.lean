/-
The todo list holds every requested (step, formula) pair exactly once: requesting a pair again — the same sub-formula in
several theory atoms, a repeated statement — changes nothing, and which pairs are queued does not depend on the order of
the requests.
-/
import TelModel.Todo

namespace TelProofs
open TelModel

/-- invariant: the key set and the list have the same members, and the list has no repetition -/
def TodoInv (st : TodoState) : Prop := (∀ k, k ∈ st.keys ↔ k ∈ st.todo) ∧ st.todo.Nodup

theorem addTodo_inv (st : TodoState) (k : TodoKey) (h : TodoInv st) :
    TodoInv (addTodo st k) ∧ ∀ x, x ∈ (addTodo st k).todo ↔ x = k ∨ x ∈ st.todo := by
  unfold addTodo
  by_cases hk : st.keys.contains k = true
  · simp only [hk, if_true]
    refine ⟨h, fun x => ⟨fun hx => Or.inr hx, ?_⟩⟩
    rintro (rfl | hx)
    · exact (h.1 x).mp (by simpa using hk)
    · exact hx
  · simp only [hk, Bool.false_eq_true, if_false]
    have hnk : k ∉ st.todo := fun hm => hk (by simpa using (h.1 k).mpr hm)
    refine ⟨⟨?_, ?_⟩, ?_⟩
    · intro x
      show x ∈ k :: st.keys ↔ x ∈ st.todo ++ [k]
      rw [List.mem_cons, List.mem_append, List.mem_singleton, h.1 x]
      exact ⟨fun hx => hx.symm, fun hx => hx.symm⟩
    · show (st.todo ++ [k]).Nodup
      rw [List.nodup_append]
      refine ⟨h.2, by simp, ?_⟩
      intro a ha b hb
      simp only [List.mem_singleton] at hb
      subst hb
      exact fun e => hnk (e ▸ ha)
    · intro x
      show x ∈ st.todo ++ [k] ↔ x = k ∨ x ∈ st.todo
      rw [List.mem_append, List.mem_singleton]
      exact ⟨fun hx => hx.symm, fun hx => hx.symm⟩

theorem foldl_addTodo (ks : List TodoKey) : ∀ (st : TodoState), TodoInv st →
    TodoInv (ks.foldl addTodo st) ∧ ∀ x, x ∈ (ks.foldl addTodo st).todo ↔ x ∈ ks ∨ x ∈ st.todo := by
  induction ks with
  | nil => intro st h; exact ⟨h, fun x => by simp⟩
  | cons k ks ih =>
    intro st h
    obtain ⟨h1, h2⟩ := addTodo_inv st k h
    obtain ⟨i1, i2⟩ := ih _ h1
    refine ⟨i1, fun x => ?_⟩
    rw [List.foldl_cons, i2 x, h2 x, List.mem_cons]
    constructor
    · rintro (hx | hx | hx)
      · exact Or.inl (Or.inr hx)
      · exact Or.inl (Or.inl hx)
      · exact Or.inr hx
    · rintro ((hx | hx) | hx)
      · exact Or.inr (Or.inl hx)
      · exact Or.inl hx
      · exact Or.inr (Or.inr hx)

/-- **every requested pair is queued exactly once** -/
theorem todo_exactly_once (ks : List TodoKey) :
    (todoAfter ks).Nodup ∧ ∀ x, x ∈ todoAfter ks ↔ x ∈ ks := by
  have h := foldl_addTodo ks {} ⟨fun k => by simp, List.nodup_nil⟩
  exact ⟨h.1.2, fun x => by rw [todoAfter, h.2 x]; simp⟩

/-- requesting pairs again, or in another order, queues the same pairs -/
theorem todo_set_independent (ks ks' : List TodoKey) (h : ∀ x, x ∈ ks ↔ x ∈ ks') :
    ∀ x, x ∈ todoAfter ks ↔ x ∈ todoAfter ks' := by
  intro x
  rw [(todo_exactly_once ks).2 x, (todo_exactly_once ks').2 x]
  exact h x

end TelProofs
