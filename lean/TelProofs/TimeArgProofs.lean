/-
C06 (a): the time parameter is added uniformly — adding it commutes with pool expansion and classical negation:
every instance of the atom term gets the parameters its own predicate name asks for, the bookkeeping of future
predicates records each instance with its own sign, and `max_shift` ends as the maximum over all instances.
-/
import TelModel.TimeArg
import TelProofs.NoInternal

set_option linter.unusedVariables false
set_option linter.unusedSimpArgs false

namespace TelProofs
open TelSpec TelModel TelModel.Generated

theorem mapM_append_ok {α β} (f : α → Py β) (l1 l2 : List α) (r1 r2 : List β)
    (h1 : l1.mapM f = .ok r1) (h2 : l2.mapM f = .ok r2) : (l1 ++ l2).mapM f = .ok (r1 ++ r2) := by
  induction l1 generalizing r1 with
  | nil =>
    simp only [List.mapM_nil] at h1
    cases h1
    simpa using h2
  | cons x xs ih =>
    simp only [List.mapM_cons] at h1
    cases hx : f x with
    | error e => rw [hx] at h1; cases h1
    | ok y =>
      rw [hx] at h1
      simp only [ok_bind] at h1
      cases hxs : xs.mapM f with
      | error e => rw [hxs] at h1; cases h1
      | ok ys =>
        rw [hxs] at h1
        simp only [ok_bind] at h1
        cases h1
        simp only [List.cons_append, List.mapM_cons, hx, ok_bind, ih ys hxs]
        rfl

theorem stampState_append (rf ff fp : Bool) (st st1 st2 : TState) (l1 l2 : List Inst)
    (h1 : stampState rf ff fp st l1 = .ok st1) (h2 : stampState rf ff fp st1 l2 = .ok st2) :
    stampState rf ff fp st (l1 ++ l2) = .ok st2 := by
  induction l1 generalizing st with
  | nil => simp only [stampState] at h1; cases h1; simpa using h2
  | cons i is ih =>
    simp only [stampState, List.cons_append] at h1 ⊢
    cases hg : getParam i.name rf ff fp with
    | error e => rw [hg] at h1; cases h1
    | ok r =>
      rw [hg] at h1
      simp only [ok_bind] at h1 ⊢
      exact ih _ h1

mutual
/-- **uniformity**: the instances of the rewritten term are the stamped instances of the original term, and the
    state is the one obtained by handling the instances one by one -/
theorem addTime_insts (rf ff fp : Bool) : ∀ (t : ATerm) (pos : Bool) (st : TState) (t' : RTerm) (st' : TState),
    addTime rf ff fp pos st t = .ok (t', st') →
    (t.insts pos).mapM (stamp rf ff fp) = .ok (t'.insts pos) ∧ stampState rf ff fp st (t.insts pos) = .ok st'
  | .fn name args, pos, st, t', st', h => by
    simp only [addTime] at h
    cases hg : getParam name rf ff fp with
    | error e => rw [hg] at h; cases h
    | ok r =>
      rw [hg] at h
      simp only [ok_bind, py_pure, Except.ok.injEq, Prod.mk.injEq] at h
      obtain ⟨rfl, rfl⟩ := h
      simp [ATerm.insts, RTerm.insts, stamp, stampState, hg, py_pure]
  | .neg t, pos, st, t', st', h => by
    simp only [addTime] at h
    cases hr : addTime rf ff fp (!pos) st t with
    | error e => rw [hr] at h; cases h
    | ok p =>
      obtain ⟨u, su⟩ := p
      rw [hr] at h
      simp only [ok_bind, py_pure, Except.ok.injEq, Prod.mk.injEq] at h
      obtain ⟨rfl, rfl⟩ := h
      simpa [ATerm.insts, RTerm.insts] using addTime_insts rf ff fp t (!pos) st u su hr
  | .pool ts, pos, st, t', st', h => by
    simp only [addTime] at h
    cases hr : addTimes rf ff fp pos st ts with
    | error e => rw [hr] at h; cases h
    | ok p =>
      obtain ⟨us, su⟩ := p
      rw [hr] at h
      simp only [ok_bind, py_pure, Except.ok.injEq, Prod.mk.injEq] at h
      obtain ⟨rfl, rfl⟩ := h
      simpa [ATerm.insts, RTerm.insts] using addTimes_insts rf ff fp ts pos st us su hr
theorem addTimes_insts (rf ff fp : Bool) : ∀ (ts : List ATerm) (pos : Bool) (st : TState) (ts' : List RTerm) (st' : TState),
    addTimes rf ff fp pos st ts = .ok (ts', st') →
    (ATerm.instsL pos ts).mapM (stamp rf ff fp) = .ok (RTerm.instsL pos ts') ∧
      stampState rf ff fp st (ATerm.instsL pos ts) = .ok st'
  | [], pos, st, ts', st', h => by
    simp only [addTimes, py_pure, Except.ok.injEq, Prod.mk.injEq] at h
    obtain ⟨rfl, rfl⟩ := h
    simp [ATerm.instsL, RTerm.instsL, stampState, py_pure]
  | t :: ts, pos, st, ts', st', h => by
    simp only [addTimes] at h
    cases h1 : addTime rf ff fp pos st t with
    | error e => rw [h1] at h; cases h
    | ok p1 =>
      obtain ⟨u, s1⟩ := p1
      rw [h1] at h
      simp only [ok_bind] at h
      cases h2 : addTimes rf ff fp pos s1 ts with
      | error e => rw [h2] at h; cases h
      | ok p2 =>
        obtain ⟨us, s2⟩ := p2
        rw [h2] at h
        simp only [ok_bind, py_pure, Except.ok.injEq, Prod.mk.injEq] at h
        obtain ⟨rfl, rfl⟩ := h
        have a1 := addTime_insts rf ff fp t pos st u s1 h1
        have a2 := addTimes_insts rf ff fp ts pos s1 us s2 h2
        simp only [ATerm.instsL, RTerm.instsL]
        exact ⟨mapM_append_ok _ _ _ _ _ a1.1 a2.1, stampState_append rf ff fp st s1 s2 _ _ a1.2 a2.2⟩
end

end TelProofs

namespace TelProofs
open TelSpec TelModel TelModel.Generated

theorem stepState_maxShift_le (st : TState) (r : ParamRes) (n : String) (a : Nat) (p : Bool) :
    st.maxShift ≤ (stepState st r n a p).maxShift := by
  unfold stepState
  split
  · split
    · exact Int.le_refl _
    · exact Int.le_max_left _ _
  · exact Int.le_refl _

theorem stepState_futures_sub (st : TState) (r : ParamRes) (n : String) (a : Nat) (p : Bool) :
    ∀ x ∈ st.futures, x ∈ (stepState st r n a p).futures := by
  intro x hx
  unfold stepState
  split
  · split
    · simp only
      split
      · exact hx
      · exact List.mem_append_left _ hx
    · exact hx
  · exact hx

/-- `max_shift` ends at least as large as it started and as every look-ahead of an instance that is not replaced;
    future predicates that were recorded stay recorded -/
theorem stampState_mono (rf ff fp : Bool) : ∀ (is : List Inst) (st st' : TState), stampState rf ff fp st is = .ok st' →
    st.maxShift ≤ st'.maxShift ∧ (∀ x ∈ st.futures, x ∈ st'.futures)
  | [], st, st', h => by
    simp only [stampState, py_pure, Except.ok.injEq] at h; subst h
    exact ⟨Int.le_refl _, fun x hx => hx⟩
  | i :: is, st, st', h => by
    simp only [stampState] at h
    cases hg : getParam i.name rf ff fp with
    | error e => rw [hg] at h; cases h
    | ok r =>
      rw [hg] at h
      simp only [ok_bind] at h
      have ih := stampState_mono rf ff fp is _ st' h
      exact ⟨Int.le_trans (stepState_maxShift_le st r _ _ _) ih.1,
             fun x hx => ih.2 x (stepState_futures_sub st r _ _ _ x hx)⟩

/-- **`max_shift` is the maximum**: every instance that looks ahead without being replaced is covered … -/
theorem stampState_maxShift_covers (rf ff fp : Bool) : ∀ (is : List Inst) (st st' : TState),
    stampState rf ff fp st is = .ok st' →
    ∀ i ∈ is, ∀ r, getParam i.name rf ff fp = .ok r → r.shift > 0 → r.future = false → r.shift ≤ st'.maxShift
  | [], _, _, _ => by intro i hi; cases hi
  | j :: is, st, st', h => by
    intro i hi r hr hpos hnf
    simp only [stampState] at h
    cases hg : getParam j.name rf ff fp with
    | error e => rw [hg] at h; cases h
    | ok rj =>
      rw [hg] at h
      simp only [ok_bind] at h
      rcases List.mem_cons.mp hi with rfl | hi'
      · rw [hg] at hr; cases hr
        have h1 : r.shift ≤ (stepState st r i.name i.args.length i.positive).maxShift := by
          unfold stepState
          simp only [hpos, if_true, hnf, Bool.false_eq_true, if_false]
          exact Int.le_max_right _ _
        exact Int.le_trans h1 (stampState_mono rf ff fp is _ st' h).1
      · exact stampState_maxShift_covers rf ff fp is _ st' h i hi' r hr hpos hnf

/-- … and it is attained (or still the initial value): nothing larger than the largest look-ahead is recorded -/
theorem stampState_maxShift_attained (rf ff fp : Bool) : ∀ (is : List Inst) (st st' : TState),
    stampState rf ff fp st is = .ok st' →
    st'.maxShift = st.maxShift ∨
      ∃ i ∈ is, ∃ r, getParam i.name rf ff fp = .ok r ∧ r.shift > 0 ∧ r.future = false ∧ r.shift = st'.maxShift
  | [], st, st', h => by
    simp only [stampState, py_pure, Except.ok.injEq] at h; subst h; exact Or.inl rfl
  | j :: is, st, st', h => by
    simp only [stampState] at h
    cases hg : getParam j.name rf ff fp with
    | error e => rw [hg] at h; cases h
    | ok rj =>
      rw [hg] at h
      simp only [ok_bind] at h
      rcases stampState_maxShift_attained rf ff fp is _ st' h with heq | ⟨i, hi, r, hr, h1, h2, h3⟩
      · -- the value after the first instance
        rw [heq]
        unfold stepState
        by_cases hpos : rj.shift > 0
        · by_cases hf : rj.future = true
          · simp [hpos, hf]
          · have hf' : rj.future = false := by
              cases h : rj.future
              · rfl
              · exact absurd h hf
            simp only [hpos, if_true, hf', Bool.false_eq_true, if_false]
            by_cases hle : rj.shift ≤ st.maxShift
            · left; exact Int.max_eq_left hle
            · right
              refine ⟨j, List.mem_cons_self, rj, hg, hpos, hf', ?_⟩
              have : st.maxShift ≤ rj.shift := by omega
              exact (Int.max_eq_right this).symm
        · simp [hpos]
      · exact Or.inr ⟨i, List.mem_cons_of_mem _ hi, r, hr, h1, h2, h3⟩

/-- every instance that is replaced by a `__future_` atom is recorded with its own sign -/
theorem stampState_futures (rf ff fp : Bool) : ∀ (is : List Inst) (st st' : TState),
    stampState rf ff fp st is = .ok st' →
    ∀ i ∈ is, ∀ r, getParam i.name rf ff fp = .ok r → r.shift > 0 → r.future = true →
      ((r.name.drop futurePrefix.length).toString, i.args.length, i.positive, r.shift) ∈ st'.futures
  | [], _, _, _ => by intro i hi; cases hi
  | j :: is, st, st', h => by
    intro i hi r hr hpos hf
    simp only [stampState] at h
    cases hg : getParam j.name rf ff fp with
    | error e => rw [hg] at h; cases h
    | ok rj =>
      rw [hg] at h
      simp only [ok_bind] at h
      rcases List.mem_cons.mp hi with rfl | hi'
      · rw [hg] at hr; cases hr
        apply (stampState_mono rf ff fp is _ st' h).2
        unfold stepState
        simp only [hpos, if_true, hf]
        split
        · rename_i hc; simpa using hc
        · exact List.mem_append_right _ (List.mem_singleton.mpr rfl)
      · exact stampState_futures rf ff fp is _ st' h i hi' r hr hpos hf

mutual
theorem addTime_noInternal (rf ff fp : Bool) : ∀ (t : ATerm) (pos : Bool) (st : TState), NoInternal (addTime rf ff fp pos st t)
  | .fn name args, pos, st => by
    simp only [addTime]
    exact noInternal_bind _ _ (getParamL_noInternal _ _ _ _) (fun _ _ => noInternal_ok _)
  | .neg t, pos, st => by
    simp only [addTime]
    exact noInternal_bind _ _ (addTime_noInternal rf ff fp t (!pos) st) (fun _ _ => noInternal_ok _)
  | .pool ts, pos, st => by
    simp only [addTime]
    exact noInternal_bind _ _ (addTimes_noInternal rf ff fp ts pos st) (fun _ _ => noInternal_ok _)
theorem addTimes_noInternal (rf ff fp : Bool) : ∀ (ts : List ATerm) (pos : Bool) (st : TState), NoInternal (addTimes rf ff fp pos st ts)
  | [], pos, st => by simp only [addTimes]; exact noInternal_ok _
  | t :: ts, pos, st => by
    simp only [addTimes]
    refine noInternal_bind _ _ (addTime_noInternal rf ff fp t pos st) (fun p _ => ?_)
    exact noInternal_bind _ _ (addTimes_noInternal rf ff fp ts pos p.2) (fun _ _ => noInternal_ok _)
end

end TelProofs
