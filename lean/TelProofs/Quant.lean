/-
Bounded quantifiers of the specification (`anyUpTo`, `allBetween`, …) as propositions, and the
one-step unfolding laws of the eight inductive temporal operators.
-/
import TelSpec.Formula

namespace TelProofs
open TelSpec

theorem anyUpTo_iff (n : Nat) (p : Nat → Bool) : anyUpTo n p = true ↔ ∃ j, j ≤ n ∧ p j = true := by
  simp [anyUpTo, List.any_eq_true, List.mem_range, Nat.lt_succ_iff]

theorem allUpTo_iff (n : Nat) (p : Nat → Bool) : allUpTo n p = true ↔ ∀ j, j ≤ n → p j = true := by
  simp [allUpTo, List.all_eq_true, List.mem_range, Nat.lt_succ_iff]

theorem anyBetween_iff (lo hi : Nat) (p : Nat → Bool) :
    anyBetween lo hi p = true ↔ ∃ j, lo ≤ j ∧ j ≤ hi ∧ p j = true := by
  simp only [anyBetween, List.any_eq_true, List.mem_range, Nat.lt_succ_iff, Bool.and_eq_true, decide_eq_true_eq]
  constructor
  · rintro ⟨j, h1, h2, h3⟩; exact ⟨j, h2, h1, h3⟩
  · rintro ⟨j, h1, h2, h3⟩; exact ⟨j, h2, h1, h3⟩

theorem allBetween_iff (lo hi : Nat) (p : Nat → Bool) :
    allBetween lo hi p = true ↔ ∀ j, lo ≤ j → j ≤ hi → p j = true := by
  simp only [allBetween, List.all_eq_true, List.mem_range, Nat.lt_succ_iff, Bool.or_eq_true, decide_eq_true_eq]
  constructor
  · intro h j h1 h2
    rcases h j h2 with h3 | h3
    · omega
    · exact h3
  · intro h j h2
    by_cases h1 : j < lo
    · exact Or.inl h1
    · exact Or.inr (h j (by omega) h2)

/-- Bool equality from a propositional equivalence -/
theorem bool_eq_of_iff {a b : Bool} (h : a = true ↔ b = true) : a = b := by
  cases a <;> cases b <;> simp_all

/-! ### the eight operators as functions of two Boolean sequences -/

def sinceB (l r : Nat → Bool) (k : Nat) : Bool := anyUpTo k fun j => r j && allBetween (j+1) k fun i => l i
def triggerB (l r : Nat → Bool) (k : Nat) : Bool := allUpTo k fun j => r j || anyBetween (j+1) k fun i => l i
def evPB (r : Nat → Bool) (k : Nat) : Bool := anyUpTo k fun j => r j
def alPB (r : Nat → Bool) (k : Nat) : Bool := allUpTo k fun j => r j
def untilB (h : Nat) (l r : Nat → Bool) (k : Nat) : Bool :=
  anyBetween k h fun j => r j && allBetween k (j-1) fun i => decide (i ≥ j) || l i
def releaseB (h : Nat) (l r : Nat → Bool) (k : Nat) : Bool :=
  allBetween k h fun j => r j || anyBetween k (j-1) fun i => decide (i < j) && l i
def evFB (h : Nat) (r : Nat → Bool) (k : Nat) : Bool := anyBetween k h fun j => r j
def alFB (h : Nat) (r : Nat → Bool) (k : Nat) : Bool := allBetween k h fun j => r j

theorem sinceB_iff (l r : Nat → Bool) (k : Nat) :
    sinceB l r k = true ↔ ∃ j, j ≤ k ∧ r j = true ∧ ∀ i, j < i → i ≤ k → l i = true := by
  simp only [sinceB, anyUpTo_iff, Bool.and_eq_true, allBetween_iff]
  constructor
  · rintro ⟨j, h1, h2, h3⟩; exact ⟨j, h1, h2, fun i hi hk => h3 i (by omega) hk⟩
  · rintro ⟨j, h1, h2, h3⟩; exact ⟨j, h1, h2, fun i hi hk => h3 i (by omega) hk⟩

theorem triggerB_iff (l r : Nat → Bool) (k : Nat) :
    triggerB l r k = true ↔ ∀ j, j ≤ k → r j = true ∨ ∃ i, j < i ∧ i ≤ k ∧ l i = true := by
  simp only [triggerB, allUpTo_iff, Bool.or_eq_true, anyBetween_iff]
  constructor
  · intro h j hj
    rcases h j hj with h1 | ⟨i, h2, h3, h4⟩
    · exact Or.inl h1
    · exact Or.inr ⟨i, by omega, h3, h4⟩
  · intro h j hj
    rcases h j hj with h1 | ⟨i, h2, h3, h4⟩
    · exact Or.inl h1
    · exact Or.inr ⟨i, by omega, h3, h4⟩

theorem untilB_iff (h : Nat) (l r : Nat → Bool) (k : Nat) :
    untilB h l r k = true ↔ ∃ j, k ≤ j ∧ j ≤ h ∧ r j = true ∧ ∀ i, k ≤ i → i < j → l i = true := by
  simp only [untilB, anyBetween_iff, Bool.and_eq_true, allBetween_iff, Bool.or_eq_true, decide_eq_true_eq]
  constructor
  · rintro ⟨j, h1, h2, h3, h4⟩
    refine ⟨j, h1, h2, h3, fun i hi hj => ?_⟩
    rcases h4 i hi (by omega) with h5 | h5
    · omega
    · exact h5
  · rintro ⟨j, h1, h2, h3, h4⟩
    refine ⟨j, h1, h2, h3, fun i hi hj => ?_⟩
    by_cases h5 : i ≥ j
    · exact Or.inl h5
    · exact Or.inr (h4 i hi (by omega))

theorem releaseB_iff (h : Nat) (l r : Nat → Bool) (k : Nat) :
    releaseB h l r k = true ↔ ∀ j, k ≤ j → j ≤ h → r j = true ∨ ∃ i, k ≤ i ∧ i < j ∧ l i = true := by
  simp only [releaseB, allBetween_iff, Bool.or_eq_true, anyBetween_iff, Bool.and_eq_true, decide_eq_true_eq]
  constructor
  · intro hh j h1 h2
    rcases hh j h1 h2 with h3 | ⟨i, h4, h5, h6, h7⟩
    · exact Or.inl h3
    · exact Or.inr ⟨i, h4, h6, h7⟩
  · intro hh j h1 h2
    rcases hh j h1 h2 with h3 | ⟨i, h4, h5, h6⟩
    · exact Or.inl h3
    · exact Or.inr ⟨i, h4, by omega, h5, h6⟩

/-! ### unfolding laws -/

theorem sinceB_zero (l r : Nat → Bool) : sinceB l r 0 = r 0 := by
  apply bool_eq_of_iff
  rw [sinceB_iff]
  constructor
  · rintro ⟨j, h1, h2, _⟩
    have : j = 0 := by omega
    subst this; exact h2
  · intro h; exact ⟨0, Nat.le_refl _, h, fun i h1 h2 => by omega⟩

theorem sinceB_succ (l r : Nat → Bool) (k : Nat) :
    sinceB l r (k+1) = (r (k+1) || (l (k+1) && sinceB l r k)) := by
  apply bool_eq_of_iff
  simp only [Bool.or_eq_true, Bool.and_eq_true, sinceB_iff]
  constructor
  · rintro ⟨j, h1, h2, h3⟩
    by_cases hj : j = k+1
    · subst hj; exact Or.inl h2
    · exact Or.inr ⟨h3 (k+1) (by omega) (Nat.le_refl _), j, by omega, h2, fun i hi hk => h3 i hi (by omega)⟩
  · rintro (h | ⟨h1, j, h2, h3, h4⟩)
    · exact ⟨k+1, Nat.le_refl _, h, fun i h1 h2 => by omega⟩
    · refine ⟨j, by omega, h3, fun i hi hk => ?_⟩
      by_cases hik : i = k+1
      · subst hik; exact h1
      · exact h4 i hi (by omega)

theorem triggerB_zero (l r : Nat → Bool) : triggerB l r 0 = r 0 := by
  apply bool_eq_of_iff
  rw [triggerB_iff]
  constructor
  · intro h
    rcases h 0 (Nat.le_refl _) with h1 | ⟨i, h2, h3, _⟩
    · exact h1
    · omega
  · intro h j hj
    have : j = 0 := by omega
    subst this; exact Or.inl h

theorem triggerB_succ (l r : Nat → Bool) (k : Nat) :
    triggerB l r (k+1) = (r (k+1) && (l (k+1) || triggerB l r k)) := by
  apply bool_eq_of_iff
  simp only [Bool.or_eq_true, Bool.and_eq_true, triggerB_iff]
  constructor
  · intro h
    refine ⟨?_, ?_⟩
    · rcases h (k+1) (Nat.le_refl _) with h1 | ⟨i, h2, h3, _⟩
      · exact h1
      · omega
    · by_cases hl : l (k+1) = true
      · exact Or.inl hl
      · right
        intro j hj
        rcases h j (by omega) with h1 | ⟨i, h2, h3, h4⟩
        · exact Or.inl h1
        · by_cases hi : i = k+1
          · subst hi; exact absurd h4 hl
          · exact Or.inr ⟨i, h2, by omega, h4⟩
  · rintro ⟨h1, h2⟩ j hj
    by_cases hjk : j = k+1
    · subst hjk; exact Or.inl h1
    · rcases h2 with h2 | h2
      · exact Or.inr ⟨k+1, by omega, Nat.le_refl _, h2⟩
      · rcases h2 j (by omega) with h3 | ⟨i, h4, h5, h6⟩
        · exact Or.inl h3
        · exact Or.inr ⟨i, h4, by omega, h6⟩

theorem evPB_zero (r : Nat → Bool) : evPB r 0 = r 0 := by
  apply bool_eq_of_iff
  simp only [evPB, anyUpTo_iff]
  constructor
  · rintro ⟨j, h1, h2⟩
    have : j = 0 := by omega
    subst this; exact h2
  · intro h; exact ⟨0, Nat.le_refl _, h⟩

theorem evPB_succ (r : Nat → Bool) (k : Nat) : evPB r (k+1) = (r (k+1) || evPB r k) := by
  apply bool_eq_of_iff
  simp only [evPB, anyUpTo_iff, Bool.or_eq_true]
  constructor
  · rintro ⟨j, h1, h2⟩
    by_cases hj : j = k+1
    · subst hj; exact Or.inl h2
    · exact Or.inr ⟨j, by omega, h2⟩
  · rintro (h | ⟨j, h1, h2⟩)
    · exact ⟨k+1, Nat.le_refl _, h⟩
    · exact ⟨j, by omega, h2⟩

theorem alPB_zero (r : Nat → Bool) : alPB r 0 = r 0 := by
  apply bool_eq_of_iff
  simp only [alPB, allUpTo_iff]
  constructor
  · intro h; exact h 0 (Nat.le_refl _)
  · intro h j hj
    have : j = 0 := by omega
    subst this; exact h

theorem alPB_succ (r : Nat → Bool) (k : Nat) : alPB r (k+1) = (r (k+1) && alPB r k) := by
  apply bool_eq_of_iff
  simp only [alPB, allUpTo_iff, Bool.and_eq_true]
  constructor
  · intro h; exact ⟨h (k+1) (Nat.le_refl _), fun j hj => h j (by omega)⟩
  · rintro ⟨h1, h2⟩ j hj
    by_cases hjk : j = k+1
    · subst hjk; exact h1
    · exact h2 j (by omega)

theorem untilB_unfold (h : Nat) (l r : Nat → Bool) (k : Nat) (hk : k ≤ h) :
    untilB h l r k = (r k || (l k && (if k + 1 ≤ h then untilB h l r (k+1) else false))) := by
  apply bool_eq_of_iff
  by_cases hlast : k + 1 ≤ h
  · simp only [hlast, if_true, Bool.or_eq_true, Bool.and_eq_true, untilB_iff]
    constructor
    · rintro ⟨j, h1, h2, h3, h4⟩
      by_cases hj : j = k
      · subst hj; exact Or.inl h3
      · exact Or.inr ⟨h4 k (Nat.le_refl _) (by omega), j, by omega, h2, h3, fun i hi hij => h4 i (by omega) hij⟩
    · rintro (h1 | ⟨h1, j, h2, h3, h4, h5⟩)
      · exact ⟨k, Nat.le_refl _, hk, h1, fun i hi hij => by omega⟩
      · refine ⟨j, by omega, h3, h4, fun i hi hij => ?_⟩
        by_cases hik : i = k
        · subst hik; exact h1
        · exact h5 i (by omega) hij
  · simp only [hlast, if_false, Bool.and_false, Bool.or_false, untilB_iff]
    constructor
    · rintro ⟨j, h1, h2, h3, _⟩
      have : j = k := by omega
      subst this; exact h3
    · intro h1; exact ⟨k, Nat.le_refl _, hk, h1, fun i hi hij => by omega⟩

theorem releaseB_unfold (h : Nat) (l r : Nat → Bool) (k : Nat) (hk : k ≤ h) :
    releaseB h l r k = (r k && (l k || (if k + 1 ≤ h then releaseB h l r (k+1) else true))) := by
  apply bool_eq_of_iff
  by_cases hlast : k + 1 ≤ h
  · simp only [hlast, if_true, Bool.or_eq_true, Bool.and_eq_true, releaseB_iff]
    constructor
    · intro hh
      refine ⟨?_, ?_⟩
      · rcases hh k (Nat.le_refl _) hk with h1 | ⟨i, h2, h3, _⟩
        · exact h1
        · omega
      · by_cases hl : l k = true
        · exact Or.inl hl
        · right
          intro j h1 h2
          rcases hh j (by omega) h2 with h3 | ⟨i, h4, h5, h6⟩
          · exact Or.inl h3
          · by_cases hi : i = k
            · subst hi; exact absurd h6 hl
            · exact Or.inr ⟨i, by omega, h5, h6⟩
    · rintro ⟨h1, h2⟩ j hj1 hj2
      by_cases hjk : j = k
      · subst hjk; exact Or.inl h1
      · rcases h2 with h2 | h2
        · exact Or.inr ⟨k, Nat.le_refl _, by omega, h2⟩
        · rcases h2 j (by omega) hj2 with h3 | ⟨i, h4, h5, h6⟩
          · exact Or.inl h3
          · exact Or.inr ⟨i, by omega, h5, h6⟩
  · simp only [hlast, if_false, Bool.or_true, Bool.and_true, releaseB_iff]
    constructor
    · intro hh
      rcases hh k (Nat.le_refl _) hk with h1 | ⟨i, h2, h3, _⟩
      · exact h1
      · omega
    · intro h1 j hj1 hj2
      have : j = k := by omega
      subst this; exact Or.inl h1

theorem evFB_unfold (h : Nat) (r : Nat → Bool) (k : Nat) (hk : k ≤ h) :
    evFB h r k = (r k || (if k + 1 ≤ h then evFB h r (k+1) else false)) := by
  apply bool_eq_of_iff
  by_cases hlast : k + 1 ≤ h
  · simp only [hlast, if_true, evFB, anyBetween_iff, Bool.or_eq_true]
    constructor
    · rintro ⟨j, h1, h2, h3⟩
      by_cases hj : j = k
      · subst hj; exact Or.inl h3
      · exact Or.inr ⟨j, by omega, h2, h3⟩
    · rintro (h1 | ⟨j, h1, h2, h3⟩)
      · exact ⟨k, Nat.le_refl _, hk, h1⟩
      · exact ⟨j, by omega, h2, h3⟩
  · simp only [hlast, if_false, Bool.or_false, evFB, anyBetween_iff]
    constructor
    · rintro ⟨j, h1, h2, h3⟩
      have : j = k := by omega
      subst this; exact h3
    · intro h1; exact ⟨k, Nat.le_refl _, hk, h1⟩

theorem alFB_unfold (h : Nat) (r : Nat → Bool) (k : Nat) (hk : k ≤ h) :
    alFB h r k = (r k && (if k + 1 ≤ h then alFB h r (k+1) else true)) := by
  apply bool_eq_of_iff
  by_cases hlast : k + 1 ≤ h
  · simp only [hlast, if_true, alFB, allBetween_iff, Bool.and_eq_true]
    constructor
    · intro hh; exact ⟨hh k (Nat.le_refl _) hk, fun j h1 h2 => hh j (by omega) h2⟩
    · rintro ⟨h1, h2⟩ j hj1 hj2
      by_cases hjk : j = k
      · subst hjk; exact h1
      · exact h2 j (by omega) hj2
  · simp only [hlast, if_false, Bool.and_true, alFB, allBetween_iff]
    constructor
    · intro hh; exact hh k (Nat.le_refl _) hk
    · intro h1 j hj1 hj2
      have : j = k := by omega
      subst this; exact h1

end TelProofs

namespace TelProofs
open TelSpec

/-! ### congruence: the operators look at their arguments only inside the trace -/

theorem sinceB_congr {l l' r r' : Nat → Bool} {k : Nat}
    (hl : ∀ j, j ≤ k → l j = l' j) (hr : ∀ j, j ≤ k → r j = r' j) : sinceB l r k = sinceB l' r' k := by
  apply bool_eq_of_iff
  simp only [sinceB_iff]
  constructor
  · rintro ⟨j, h1, h2, h3⟩; exact ⟨j, h1, by rw [← hr j h1]; exact h2, fun i hi hk => by rw [← hl i hk]; exact h3 i hi hk⟩
  · rintro ⟨j, h1, h2, h3⟩; exact ⟨j, h1, by rw [hr j h1]; exact h2, fun i hi hk => by rw [hl i hk]; exact h3 i hi hk⟩

theorem triggerB_congr {l l' r r' : Nat → Bool} {k : Nat}
    (hl : ∀ j, j ≤ k → l j = l' j) (hr : ∀ j, j ≤ k → r j = r' j) : triggerB l r k = triggerB l' r' k := by
  apply bool_eq_of_iff
  simp only [triggerB_iff]
  constructor
  · intro h j hj
    rcases h j hj with h1 | ⟨i, h2, h3, h4⟩
    · exact Or.inl (by rw [← hr j hj]; exact h1)
    · exact Or.inr ⟨i, h2, h3, by rw [← hl i h3]; exact h4⟩
  · intro h j hj
    rcases h j hj with h1 | ⟨i, h2, h3, h4⟩
    · exact Or.inl (by rw [hr j hj]; exact h1)
    · exact Or.inr ⟨i, h2, h3, by rw [hl i h3]; exact h4⟩

theorem evPB_congr {r r' : Nat → Bool} {k : Nat} (hr : ∀ j, j ≤ k → r j = r' j) : evPB r k = evPB r' k := by
  apply bool_eq_of_iff
  simp only [evPB, anyUpTo_iff]
  constructor
  · rintro ⟨j, h1, h2⟩; exact ⟨j, h1, by rw [← hr j h1]; exact h2⟩
  · rintro ⟨j, h1, h2⟩; exact ⟨j, h1, by rw [hr j h1]; exact h2⟩

theorem alPB_congr {r r' : Nat → Bool} {k : Nat} (hr : ∀ j, j ≤ k → r j = r' j) : alPB r k = alPB r' k := by
  apply bool_eq_of_iff
  simp only [alPB, allUpTo_iff]
  constructor
  · intro h j hj; rw [← hr j hj]; exact h j hj
  · intro h j hj; rw [hr j hj]; exact h j hj

theorem untilB_congr {h : Nat} {l l' r r' : Nat → Bool} {k : Nat}
    (hl : ∀ j, j ≤ h → l j = l' j) (hr : ∀ j, j ≤ h → r j = r' j) : untilB h l r k = untilB h l' r' k := by
  apply bool_eq_of_iff
  simp only [untilB_iff]
  constructor
  · rintro ⟨j, h1, h2, h3, h4⟩
    exact ⟨j, h1, h2, by rw [← hr j h2]; exact h3, fun i hi hij => by rw [← hl i (by omega)]; exact h4 i hi hij⟩
  · rintro ⟨j, h1, h2, h3, h4⟩
    exact ⟨j, h1, h2, by rw [hr j h2]; exact h3, fun i hi hij => by rw [hl i (by omega)]; exact h4 i hi hij⟩

theorem releaseB_congr {h : Nat} {l l' r r' : Nat → Bool} {k : Nat}
    (hl : ∀ j, j ≤ h → l j = l' j) (hr : ∀ j, j ≤ h → r j = r' j) : releaseB h l r k = releaseB h l' r' k := by
  apply bool_eq_of_iff
  simp only [releaseB_iff]
  constructor
  · intro hh j h1 h2
    rcases hh j h1 h2 with h3 | ⟨i, h4, h5, h6⟩
    · exact Or.inl (by rw [← hr j h2]; exact h3)
    · exact Or.inr ⟨i, h4, h5, by rw [← hl i (by omega)]; exact h6⟩
  · intro hh j h1 h2
    rcases hh j h1 h2 with h3 | ⟨i, h4, h5, h6⟩
    · exact Or.inl (by rw [hr j h2]; exact h3)
    · exact Or.inr ⟨i, h4, h5, by rw [hl i (by omega)]; exact h6⟩

theorem evFB_congr {h : Nat} {r r' : Nat → Bool} {k : Nat} (hr : ∀ j, j ≤ h → r j = r' j) :
    evFB h r k = evFB h r' k := by
  apply bool_eq_of_iff
  simp only [evFB, anyBetween_iff]
  constructor
  · rintro ⟨j, h1, h2, h3⟩; exact ⟨j, h1, h2, by rw [← hr j h2]; exact h3⟩
  · rintro ⟨j, h1, h2, h3⟩; exact ⟨j, h1, h2, by rw [hr j h2]; exact h3⟩

theorem alFB_congr {h : Nat} {r r' : Nat → Bool} {k : Nat} (hr : ∀ j, j ≤ h → r j = r' j) :
    alFB h r k = alFB h r' k := by
  apply bool_eq_of_iff
  simp only [alFB, allBetween_iff]
  constructor
  · intro hh j h1 h2; rw [← hr j h2]; exact hh j h1 h2
  · intro hh j h1 h2; rw [hr j h2]; exact hh j h1 h2

/-- `>* (~ &final | p)` at `k ≤ h` is `p` at `h` -/
theorem alFB_final (h : Nat) (p : Nat → Bool) (k : Nat) (hk : k ≤ h) :
    alFB h (fun j => !(j == h) || p j) k = p h := by
  apply bool_eq_of_iff
  simp only [alFB, allBetween_iff, Bool.or_eq_true, Bool.not_eq_true', beq_eq_false_iff_ne]
  constructor
  · intro hh
    rcases hh h hk (Nat.le_refl _) with h1 | h1
    · exact absurd rfl h1
    · exact h1
  · intro hp j h1 h2
    by_cases hj : j = h
    · subst hj; exact Or.inr hp
    · exact Or.inl hj

end TelProofs
