/-
Structure of the model's accumulated ground program `G P h`: which parts the generated
`partCond` selects at each step, what the heads of the instances look like, which facts and
bridge rules are present.
-/
import TelModel.ASP
import TelProofs.ASPLemmas

set_option linter.unusedSimpArgs false

namespace TelProofs
open TelSpec TelModel TelModel.Generated

/-- E2, the generated part-selection test, says what the documentation of `imain` says -/
theorem partCond_spec (root : String) (step i : Int) :
    partCond root step i = true ↔
      (root = "always" ∧ 0 ≤ step - i) ∨ (root = "dynamic" ∧ 0 < step - i) ∨ (root = "initial" ∧ step - i = 0) := by
  simp only [partCond, Bool.or_eq_true, Bool.and_eq_true, decide_eq_true_eq, beq_iff_eq]
  constructor
  · rintro ((⟨h1, h2⟩ | ⟨h1, h2⟩) | ⟨h1, h2⟩)
    · exact Or.inl ⟨h2, h1⟩
    · exact Or.inr (Or.inl ⟨h2, h1⟩)
    · exact Or.inr (Or.inr ⟨h2, h1⟩)
  · rintro (⟨h1, h2⟩ | ⟨h1, h2⟩ | ⟨h1, h2⟩)
    · exact Or.inl (Or.inl ⟨h2, h1⟩)
    · exact Or.inl (Or.inr ⟨h2, h1⟩)
    · exact Or.inr ⟨h2, h1⟩

theorem partCond_nonneg (root : String) (step i : Int) (h : partCond root step i = true) : 0 ≤ step - i := by
  rcases (partCond_spec root step i).mp h with ⟨_, h1⟩ | ⟨_, h1⟩ | ⟨_, h1⟩ <;> omega

/-- all ranges are non-negative offsets -/
theorem range_nonneg (p : SPart) : ∀ i ∈ p.range, (0 : Int) ≤ i := by
  intro i hi
  unfold SPart.range at hi
  split at hi
  · simp at hi; omega
  · simp only [List.mem_map] at hi; obtain ⟨j, _, rfl⟩ := hi; exact Int.natCast_nonneg j
  · simp at hi; subst hi; exact Int.natCast_nonneg _

/-- every selected part instance has `0 ≤ t ≤ s`, and obeys the part condition -/
theorem selected_bounds (P : TProg) (s : Nat) :
    ∀ pt ∈ selected P s, 0 ≤ pt.2 ∧ pt.2 ≤ (s : Int) ∧ pt.1 ∈ spartsOf P ∧
      ∃ i ∈ pt.1.range, pt.2 = (s : Int) - i ∧ partCond pt.1.root.name (s : Int) i = true := by
  intro pt hpt
  simp only [selected, List.mem_flatMap, List.mem_filterMap] at hpt
  obtain ⟨p, hp, i, hi, hsel⟩ := hpt
  split at hsel
  · rename_i hc
    simp at hsel; subst hsel
    have h1 := partCond_nonneg _ _ _ hc
    have h2 := range_nonneg p i hi
    exact ⟨h1, by simp; omega, hp, i, hi, rfl, hc⟩
  · simp at hsel

/-- the call log of `imain` (layer L2) grounds exactly the selected part instances -/
theorem groundParts_eq_selected (P : TProg) (s : Nat) :
    groundParts (partsOf P) s = (selected P s).map fun pt => ⟨pt.1.name, pt.2, (s : Int)⟩ := by
  simp only [groundParts, partsOf, selected, List.flatMap_map, List.map_flatMap, SPart.toSpec]
  congr 1
  funext p
  induction p.range with
  | nil => rfl
  | cons i is ih =>
    simp only [List.filterMap_cons]
    by_cases hc : partCond p.root.name (s : Int) i = true
    · simp [hc, ih]
    · simp [hc, ih]

theorem always_in_parts (P : TProg) : (⟨.always, .std⟩ : SPart) ∈ spartsOf P := by simp [spartsOf]
theorem initial_in_parts (P : TProg) : (⟨.initial, .std⟩ : SPart) ∈ spartsOf P := by simp [spartsOf]

/-- the `always` part is grounded at every step with `t = s` -/
theorem always_selected (P : TProg) (s : Nat) : ((⟨.always, .std⟩ : SPart), (s : Int)) ∈ selected P s := by
  simp only [selected, List.mem_flatMap, List.mem_filterMap]
  refine ⟨_, always_in_parts P, 0, by simp [SPart.range], ?_⟩
  have : partCond "always" (s : Int) 0 = true := (partCond_spec _ _ _).mpr (Or.inl ⟨rfl, by omega⟩)
  simp [Root.name, this]

/-- the `initial` part is grounded at step 0 -/
theorem initial_selected (P : TProg) : ((⟨.initial, .std⟩ : SPart), (0 : Int)) ∈ selected P 0 := by
  simp only [selected, List.mem_flatMap, List.mem_filterMap]
  refine ⟨_, initial_in_parts P, 0, by simp [SPart.range], ?_⟩
  have : partCond "initial" 0 0 = true := (partCond_spec _ _ _).mpr (Or.inr (Or.inr ⟨rfl, by simp⟩))
  simp [Root.name, this]

theorem mem_accRules (P : TProg) (h : Nat) (r : GRule) : r ∈ accRules P h ↔ ∃ s, s ≤ h ∧ r ∈ groundAt P s := by
  induction h with
  | zero =>
    simp only [accRules]
    constructor
    · intro hr; exact ⟨0, Nat.le_refl _, hr⟩
    · rintro ⟨s, hs, hr⟩; have : s = 0 := by omega
      subst this; exact hr
  | succ n ih =>
    simp only [accRules, List.mem_append, ih]
    constructor
    · rintro (⟨s, hs, hr⟩ | hr)
      · exact ⟨s, by omega, hr⟩
      · exact ⟨n+1, Nat.le_refl _, hr⟩
    · rintro ⟨s, hs, hr⟩
      by_cases hsn : s = n + 1
      · subst hsn; exact Or.inr hr
      · exact Or.inl ⟨s, by omega, hr⟩

/-- shape of a head atom -/
def HeadAtomOk (P : TProg) (s : Nat) (a : GAtom) : Prop :=
  match a with
  | .user _ k => 0 ≤ k ∧ k ≤ (s : Int)
  | .initial k => k = 0
  | .final _ => False
  | .future x n k => (x, n) ∈ futureHeads P ∧ 0 < n ∧ (n : Int) ≤ k

theorem mkRule_head {head : List GAtom} {c : Bool} {lits : List LitRes} {r : GRule}
    (h : mkRule head c lits = some r) : r.head = head := by
  unfold mkRule at h
  split at h
  · cases h
  · cases h; rfl

theorem futureHeads_fold (a : String) (n : Nat) :
    ∀ (Q : TProg) (acc : List (String × Nat)),
      ((∃ r ∈ Q, r.head = .atom a n ∧ 0 < n) ∨ (a, n) ∈ acc) →
      (a, n) ∈ Q.foldl (fun acc r => match r.head with
        | .atom a n => if n > 0 && !(acc.contains (a, n)) then acc ++ [(a, n)] else acc
        | _ => acc) acc := by
  intro Q
  induction Q with
  | nil =>
    intro acc h
    rcases h with ⟨r, hr, _⟩ | h
    · cases hr
    · exact h
  | cons q Q ih =>
    intro acc h
    simp only [List.foldl_cons]
    apply ih
    rcases h with ⟨r, hr, hh, hn⟩ | h
    · rcases List.mem_cons.mp hr with hq | hq
      · subst hq
        right
        simp only [hh]
        by_cases hc : acc.contains (a, n) = true
        · simp only [hc, Bool.not_true, Bool.and_false, Bool.false_eq_true, if_false]
          simpa using hc
        · have hc' : acc.contains (a, n) = false := by
            cases h : acc.contains (a, n)
            · rfl
            · exact absurd h hc
          have hn' : decide (n > 0) = true := by simpa using hn
          simp only [hc', hn', Bool.not_false, Bool.and_true, if_true]
          exact List.mem_append_right _ (List.mem_singleton.mpr rfl)
      · exact Or.inl ⟨r, hq, hh, hn⟩
    · right
      split
      · split
        · exact List.mem_append_left _ h
        · exact h
      · exact h

theorem futureHeads_mem (P : TProg) (r : TRule) (hr : r ∈ P) (a : String) (n : Nat)
    (hh : r.head = .atom a n) (hn : 0 < n) : (a, n) ∈ futureHeads P :=
  futureHeads_fold a n P [] (Or.inl ⟨r, hr, hh, hn⟩)

theorem rulesOfPart_mem (P : TProg) (p : SPart) (r : TRule) (g : Bool) (h : (r, g) ∈ rulesOfPart P p) : r ∈ P := by
  simp only [rulesOfPart, List.mem_filterMap] at h
  obtain ⟨q, hq, hsel⟩ := h
  split at hsel
  · cases hsel
  · split at hsel <;> split at hsel <;> simp at hsel <;> (rw [← hsel.1]; exact hq)

/-- every head atom of every rule grounded at step `s` is well-formed -/
theorem groundAt_heads (P : TProg) (s : Nat) : ∀ r ∈ groundAt P s, ∀ a ∈ r.head, HeadAtomOk P s a := by
  intro r hr a ha
  simp only [groundAt, List.mem_flatMap] at hr
  obtain ⟨⟨p, t⟩, hpt, hr⟩ := hr
  obtain ⟨ht0, hts, _, i, hi, hti, hcond⟩ := selected_bounds P s (p, t) hpt
  simp only at ht0 hts hti hcond hi
  simp only [List.mem_append] at hr
  rcases hr with (hr | hr) | hr
  · simp only [List.mem_filterMap] at hr
    obtain ⟨⟨tr, g⟩, hmem, hinst⟩ := hr
    have htrP : tr ∈ P := rulesOfPart_mem P p tr g hmem
    simp only [instAt] at hinst
    split at hinst
    · rename_i x n hhead
      have := mkRule_head hinst
      rw [this] at ha
      simp only [List.mem_singleton] at ha
      subst ha
      by_cases hn : n = 0
      · simp [hn, HeadAtomOk]; exact ⟨ht0, hts⟩
      · simp only [hn, if_false, HeadAtomOk]
        exact ⟨futureHeads_mem P tr htrP x n hhead (by omega), by omega, by omega⟩
    · have := mkRule_head hinst
      rw [this] at ha
      simp only [List.mem_map] at ha
      obtain ⟨x, _, rfl⟩ := ha
      exact ⟨ht0, hts⟩
    · have := mkRule_head hinst
      rw [this] at ha
      simp only [List.mem_map] at ha
      obtain ⟨x, _, rfl⟩ := ha
      exact ⟨ht0, hts⟩
    · have := mkRule_head hinst; rw [this] at ha; cases ha
    · have := mkRule_head hinst; rw [this] at ha; cases ha
    · cases hinst
  · split at hr
    · simp only [List.mem_map] at hr
      obtain ⟨⟨x, n⟩, _, rfl⟩ := hr
      simp at ha; subst ha
      exact ⟨ht0, hts⟩
    · cases hr
  · split at hr
    · rename_i hp
      simp at hr; subst hr
      simp at ha; subst ha
      subst hp
      simp only [SPart.range, List.mem_singleton] at hi
      subst hi
      rcases (partCond_spec _ _ _).mp hcond with ⟨h1, _⟩ | ⟨h1, _⟩ | ⟨_, h2⟩
      · simp [Root.name] at h1
      · simp [Root.name] at h1
      · simp only [HeadAtomOk]; omega
    · cases hr

end TelProofs
