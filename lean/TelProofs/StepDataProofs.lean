/-
The bookkeeping of `BodyFormula.translate` / `add_atom` / `StepData.add_literal` (model: TelModel/StepData.lean):
whatever the order in which occurrences of a theory atom are registered and the formula is translated,
  * the formula's literal is fixed by the first `translate` and never changes,
  * after a `translate` every registered occurrence literal is the formula's literal itself or has been made
    equivalent to it (`make_equal`), so in every answer set the occurrence has the value of the formula,
  * and nothing else is written: every constraint is one of the two clauses of such an equivalence, the only
    other statement is the choice rule of a fresh literal.
-/
import TelModel.StepData
import TelProofs.ClauseProofs

namespace TelProofs.SD
open TelModel

/-- the atoms registered by a sequence of operations -/
def added : List SDOp → List Int
  | [] => []
  | .addAtom a :: ops => a :: added ops
  | .translate _ :: ops => added ops

structure Inv (d : StepData) (out : List SDOut) (A : List Int) : Prop where
  todo_sub : ∀ a ∈ d.todo, a ∈ A
  lits_sub : ∀ a ∈ d.literals, a ∈ A
  covered : ∀ a ∈ A, a ∈ d.todo ∨ ∃ l, d.literal = some l ∧ (a = l ∨ ∀ c ∈ makeEqual a l, SDOut.clause c ∈ out)
  only : ∀ c, SDOut.clause c ∈ out → ∃ l a, d.literal = some l ∧ a ∈ A ∧ c ∈ makeEqual a l
  pending : d.literal = none → ∀ a ∈ A, a ∈ d.literals

theorem inv_init : Inv {} [] [] :=
  ⟨by simp, by simp, by simp, by simp, by simp⟩

theorem listMin_mem : ∀ (l : List Int) (m : Int), listMin l = some m → m ∈ l := by
  intro l
  induction l with
  | nil => intro m h; simp [listMin] at h
  | cons x xs ih =>
    intro m h
    simp only [listMin] at h
    cases hm : listMin xs with
    | none => rw [hm] at h; simp at h; simp [h]
    | some m' =>
      rw [hm] at h
      simp only [Option.some.injEq] at h
      by_cases hx : x ≤ m'
      · simp [hx] at h; simp [h]
      · simp [hx] at h; subst h; exact List.mem_cons_of_mem _ (ih _ hm)

theorem listMin_le : ∀ (l : List Int) (m : Int), listMin l = some m → ∀ x ∈ l, m ≤ x := by
  intro l
  induction l with
  | nil => intro m h; simp [listMin] at h
  | cons y ys ih =>
    intro m h x hx
    simp only [listMin] at h
    cases hm : listMin ys with
    | none =>
      rw [hm] at h; simp at h; subst h
      cases ys with
      | nil => simp at hx; omega
      | cons z zs =>
        simp only [listMin] at hm
        cases hz : listMin zs <;> rw [hz] at hm <;> simp at hm
    | some m' =>
      rw [hm] at h
      simp only [Option.some.injEq] at h
      have ih' := ih m' hm
      rcases List.mem_cons.mp hx with rfl | hx'
      · by_cases hc : x ≤ m'
        · simp [hc] at h; omega
        · simp [hc] at h; omega
      · have := ih' x hx'
        by_cases hc : y ≤ m'
        · simp [hc] at h; omega
        · simp [hc] at h; omega

theorem listMin_none : ∀ (l : List Int), listMin l = none → l = [] := by
  intro l h
  cases l with
  | nil => rfl
  | cons x xs => simp only [listMin] at h; cases hm : listMin xs <;> rw [hm] at h <;> simp at h

theorem inv_addAtom {d out A} (h : Inv d out A) (a : Int) : Inv (d.addAtom a) out (a :: A) := by
  unfold StepData.addAtom
  by_cases hc : d.literals.contains a = true
  · rw [if_pos hc]
    have ha : a ∈ A := h.lits_sub a (by simpa using hc)
    refine ⟨fun x hx => List.mem_cons_of_mem _ (h.todo_sub x hx), fun x hx => List.mem_cons_of_mem _ (h.lits_sub x hx), ?_, ?_, ?_⟩
    · intro x hx
      rcases List.mem_cons.mp hx with rfl | hx
      · exact h.covered _ ha
      · exact h.covered _ hx
    · intro c hcl
      obtain ⟨l, b, h1, h2, h3⟩ := h.only c hcl
      exact ⟨l, b, h1, List.mem_cons_of_mem _ h2, h3⟩
    · intro hn x hx
      rcases List.mem_cons.mp hx with rfl | hx
      · simpa using hc
      · exact h.pending hn x hx
  · rw [if_neg hc]
    refine ⟨?_, ?_, ?_, ?_, ?_⟩
    · intro x hx
      simp only [List.mem_append, List.mem_singleton] at hx
      rcases hx with hx | rfl
      · exact List.mem_cons_of_mem _ (h.todo_sub x hx)
      · exact List.mem_cons_self
    · intro x hx
      rcases List.mem_cons.mp hx with rfl | hx
      · exact List.mem_cons_self
      · exact List.mem_cons_of_mem _ (h.lits_sub x hx)
    · intro x hx
      rcases List.mem_cons.mp hx with rfl | hx
      · left; simp
      · rcases h.covered x hx with h1 | h1
        · left; simp [h1]
        · right; exact h1
    · intro c hcl
      obtain ⟨l, b, h1, h2, h3⟩ := h.only c hcl
      exact ⟨l, b, h1, List.mem_cons_of_mem _ h2, h3⟩
    · intro hn x hx
      rcases List.mem_cons.mp hx with rfl | hx
      · exact List.mem_cons_self
      · exact List.mem_cons_of_mem _ (h.pending hn x hx)

/-- flushing the todo list once the literal is there -/
theorem inv_flush {d out A} (h : Inv d out A) (l : Int) (hl : d.literal = some l) :
    Inv { d with todo := [] } (out ++ (d.todo.flatMap fun a => (makeEqual a l).map SDOut.clause)) A := by
  refine ⟨by simp, h.lits_sub, ?_, ?_, ?_⟩
  · intro x hx
    right
    refine ⟨l, hl, ?_⟩
    rcases h.covered x hx with h1 | ⟨l', h1, h2⟩
    · right
      intro c hc
      apply List.mem_append_right
      simp only [List.mem_flatMap, List.mem_map]
      exact ⟨x, h1, c, hc, rfl⟩
    · rw [hl] at h1; cases h1
      rcases h2 with h2 | h2
      · exact Or.inl h2
      · exact Or.inr fun c hc => List.mem_append_left _ (h2 c hc)
  · intro c hc
    rcases List.mem_append.mp hc with hc | hc
    · exact h.only c hc
    · simp only [List.mem_flatMap, List.mem_map] at hc
      obtain ⟨x, hx, c', hc', he⟩ := hc
      cases he
      exact ⟨l, x, hl, h.todo_sub x hx, hc'⟩
  · intro hn; simp [hl] at hn

theorem inv_translate {d out A} (h : Inv d out A) (src : LitSource) :
    Inv (d.translate src).1 (out ++ (d.translate src).2) A := by
  unfold StepData.translate
  cases hl : d.literal with
  | some l =>
    simp only [hl]
    have := inv_flush h l hl
    simpa [hl] using this
  | none =>
    have hno : ∀ c, SDOut.clause c ∉ out := by
      intro c hc
      obtain ⟨l, _, h1, _⟩ := h.only c hc
      rw [hl] at h1; cases h1
    have htodo : ∀ a ∈ A, a ∈ d.todo := by
      intro a ha
      rcases h.covered a ha with h1 | ⟨l, h1, _⟩
      · exact h1
      · rw [hl] at h1; cases h1
    cases src with
    | assign l =>
      simp only []
      have h1 : Inv { d with literal := some l } out A :=
        ⟨h.todo_sub, h.lits_sub, fun a ha => Or.inl (htodo a ha), fun c hc => absurd hc (hno c), by simp⟩
      have := inv_flush h1 l rfl
      simpa using this
    | own fresh =>
      simp only [StepData.addLiteral]
      cases hm : listMin d.literals with
      | some m =>
        simp only []
        have h1 : Inv { d with literal := some m, literals := d.literals.filter (· != m) } out A :=
          ⟨h.todo_sub, fun a ha => h.lits_sub a (List.mem_filter.mp ha).1, fun a ha => Or.inl (htodo a ha),
            fun c hc => absurd hc (hno c), by simp⟩
        have := inv_flush h1 m rfl
        simpa using this
      | none =>
        simp only []
        have h1 : Inv { d with literal := some fresh } (out ++ [.choice fresh]) A :=
          ⟨h.todo_sub, h.lits_sub, fun a ha => Or.inl (htodo a ha),
            fun c hc => by simp at hc; exact absurd hc (hno c), by simp⟩
        have := inv_flush h1 fresh rfl
        simpa [List.append_assoc] using this

theorem inv_run : ∀ (ops : List SDOp) (d : StepData) (out : List SDOut) (A : List Int), Inv d out A →
    Inv (d.run ops).1 (out ++ (d.run ops).2) ((added ops).reverse ++ A) := by
  intro ops
  induction ops with
  | nil => intro d out A h; simpa [StepData.run, added] using h
  | cons op ops ih =>
    intro d out A h
    cases op with
    | addAtom a =>
      have := ih (d.addAtom a) out (a :: A) (inv_addAtom h a)
      simpa [StepData.run, StepData.step, added] using this
    | translate s =>
      have := ih (d.translate s).1 (out ++ (d.translate s).2) A (inv_translate h s)
      simpa [StepData.run, StepData.step, added, List.append_assoc] using this

/-- the literal, once there, is never replaced -/
theorem literal_stable_step (d : StepData) (op : SDOp) (l : Int) (h : d.literal = some l) :
    (d.step op).1.literal = some l := by
  cases op with
  | addAtom a => simp only [StepData.step, StepData.addAtom]; split <;> exact h
  | translate s => simp [StepData.step, StepData.translate, h]

theorem literal_stable : ∀ (ops : List SDOp) (d : StepData) (l : Int), d.literal = some l → (d.run ops).1.literal = some l := by
  intro ops
  induction ops with
  | nil => intro d l h; simpa [StepData.run] using h
  | cons op ops ih => intro d l h; simpa [StepData.run] using ih _ l (literal_stable_step d op l h)

/-- a `translate` leaves a literal and an empty todo list -/
theorem translate_done (d : StepData) (s : LitSource) :
    (d.translate s).1.todo = [] ∧ ∃ l, (d.translate s).1.literal = some l := by
  unfold StepData.translate
  cases hl : d.literal with
  | some l => simp [hl]
  | none =>
    cases s with
    | assign l => simp
    | own fresh =>
      simp only [StepData.addLiteral]
      cases hm : listMin d.literals <;> simp

/-- the representative chosen by `add_literal` is the smallest registered literal, or the fresh atom if none is registered -/
theorem representative (d : StepData) (fresh : Int) (hn : d.literal = none) :
    (d.translate (.own fresh)).1.literal =
      some (match listMin d.literals with | some m => m | none => fresh) := by
  unfold StepData.translate
  simp only [hn, StepData.addLiteral]
  cases hm : listMin d.literals <;> simp

theorem run_append : ∀ (ops1 ops2 : List SDOp) (d : StepData),
    d.run (ops1 ++ ops2) = ((StepData.run (d.run ops1).1 ops2).1, (d.run ops1).2 ++ (StepData.run (d.run ops1).1 ops2).2) := by
  intro ops1
  induction ops1 with
  | nil => intro ops2 d; simp [StepData.run]
  | cons op ops ih => intro ops2 d; simp [StepData.run, ih, List.append_assoc]

theorem added_append (ops1 ops2 : List SDOp) : added (ops1 ++ ops2) = added ops1 ++ added ops2 := by
  induction ops1 with
  | nil => rfl
  | cons op ops ih => cases op <;> simp [added, ih]

/-- After any sequence of registrations and translations that ends with a translation: the formula has a literal, every
    registered occurrence literal is that literal or has both clauses of the equivalence with it written, and every
    constraint written is a clause of such an equivalence. -/
theorem occurrences_equated (ops : List SDOp) (s : LitSource) :
    ∃ l, (StepData.run {} (ops ++ [.translate s])).1.literal = some l ∧
      (∀ a ∈ added ops, a = l ∨ ∀ c ∈ makeEqual a l, SDOut.clause c ∈ (StepData.run {} (ops ++ [.translate s])).2) ∧
      (∀ c, SDOut.clause c ∈ (StepData.run {} (ops ++ [.translate s])).2 → ∃ a ∈ added ops, c ∈ makeEqual a l) := by
  have hinv := inv_run (ops ++ [.translate s]) {} [] [] inv_init
  simp only [List.nil_append, List.append_nil] at hinv
  have hdone : (StepData.run {} (ops ++ [.translate s])).1.todo = [] ∧
      ∃ l, (StepData.run {} (ops ++ [.translate s])).1.literal = some l := by
    rw [run_append]
    simp only [StepData.run, StepData.step]
    exact translate_done _ s
  obtain ⟨htodo, l, hl⟩ := hdone
  have hadd : added (ops ++ [.translate s]) = added ops := by simp [added_append, added]
  rw [hadd] at hinv
  refine ⟨l, hl, ?_, ?_⟩
  · intro a ha
    rcases hinv.covered a (by simpa using ha) with h1 | ⟨l', h1, h2⟩
    · rw [htodo] at h1; simp at h1
    · rw [hl] at h1; cases h1; exact h2
  · intro c hc
    obtain ⟨l', a, h1, h2, h3⟩ := hinv.only c hc
    rw [hl] at h1; cases h1
    exact ⟨a, by simpa using h2, h3⟩

/-- … hence in every answer set (no written constraint violated) each occurrence has the value of the formula's literal -/
theorem occurrences_follow (ops : List SDOp) (s : LitSource) (v : Nat → Bool)
    (hv : ∀ c, SDOut.clause c ∈ (StepData.run {} (ops ++ [.translate s])).2 → Clause.ok v c = true) :
    ∃ l, (StepData.run {} (ops ++ [.translate s])).1.literal = some l ∧
      ∀ a ∈ added ops, a ≠ 0 → l ≠ 0 → litTrue v a = litTrue v l := by
  obtain ⟨l, hl, hcov, _⟩ := occurrences_equated ops s
  refine ⟨l, hl, ?_⟩
  intro a ha ha0 hl0
  rcases hcov a ha with rfl | hc
  · rfl
  · have h1 := makeEqual_ok v a l ha0 hl0
    have h2 : clausesOk v (makeEqual a l) = true := by
      simp only [clausesOk, List.all_eq_true]
      intro c hcm
      exact hv c (hc c hcm)
    rw [h2] at h1
    simpa using h1.symm

/-- the order of the registrations before a translation does not matter for what is equated: permuted registrations give
    the same set of occurrence literals -/
theorem added_perm_translate (ops1 ops2 : List SDOp) (hp : ops1.Perm ops2) : ∀ a, a ∈ added ops1 ↔ a ∈ added ops2 := by
  induction hp with
  | nil => intro a; rfl
  | cons x _ ih => intro a; cases x <;> simp [added, ih a]
  | swap x y l => intro a; cases x <;> cases y <;> simp [added]; try exact or_left_comm
  | trans _ _ ih1 ih2 => intro a; exact (ih1 a).trans (ih2 a)

theorem listMin_congr (l1 l2 : List Int) (hm : ∀ x, x ∈ l1 ↔ x ∈ l2) : listMin l1 = listMin l2 := by
  cases h1 : listMin l1 with
  | none =>
    have := listMin_none l1 h1; subst this
    cases h2 : listMin l2 with
    | none => rfl
    | some m => have := (hm m).mpr (listMin_mem l2 m h2); simp at this
  | some m =>
    cases h2 : listMin l2 with
    | none => have := listMin_none l2 h2; subst this; have := (hm m).mp (listMin_mem l1 m h1); simp at this
    | some m' =>
      have a1 := listMin_le l1 m h1 m' ((hm m').mpr (listMin_mem l2 m' h2))
      have a2 := listMin_le l2 m' h2 m ((hm m).mp (listMin_mem l1 m h1))
      have : m = m' := by omega
      rw [this]

/-- registrations only -/
def regs (as : List Int) : List SDOp := as.map SDOp.addAtom

theorem regs_state : ∀ (as : List Int) (d : StepData), d.literal = none →
    (d.run (regs as)).1.literal = none ∧ (d.run (regs as)).2 = [] ∧
    ∀ x, x ∈ (d.run (regs as)).1.literals ↔ (x ∈ d.literals ∨ x ∈ as) := by
  intro as
  induction as with
  | nil => intro d h; simp [regs, StepData.run, h]
  | cons a as ih =>
    intro d h
    have hl : (d.addAtom a).literal = none := by unfold StepData.addAtom; split <;> simp [h]
    have hmem : ∀ x, x ∈ (d.addAtom a).literals ↔ (x ∈ d.literals ∨ x = a) := by
      intro x
      unfold StepData.addAtom
      by_cases hc : d.literals.contains a = true
      · rw [if_pos hc]
        have : a ∈ d.literals := by simpa using hc
        constructor
        · exact Or.inl
        · rintro (h1 | rfl)
          · exact h1
          · exact this
      · rw [if_neg hc]; simp [or_comm]
    obtain ⟨i1, i2, i3⟩ := ih (d.addAtom a) hl
    simp only [regs, List.map_cons, StepData.run, StepData.step] at i1 i2 i3 ⊢
    refine ⟨i1, by simp [i2], ?_⟩
    intro x
    rw [i3 x, hmem x]
    simp [or_assoc]

/-- The representative does not depend on the order (or multiplicity) in which the occurrences were registered: two
    registration sequences with the same literals give the formula the same literal. -/
theorem representative_order_independent (as bs : List Int) (fresh : Int) (hm : ∀ x, x ∈ as ↔ x ∈ bs) :
    (StepData.run {} (regs as ++ [.translate (.own fresh)])).1.literal =
    (StepData.run {} (regs bs ++ [.translate (.own fresh)])).1.literal := by
  obtain ⟨a1, _, a3⟩ := regs_state as {} rfl
  obtain ⟨b1, _, b3⟩ := regs_state bs {} rfl
  rw [run_append, run_append]
  simp only [StepData.run, StepData.step]
  rw [representative _ fresh a1, representative _ fresh b1]
  have : listMin (StepData.run {} (regs as)).1.literals = listMin (StepData.run {} (regs bs)).1.literals := by
    apply listMin_congr
    intro x
    rw [a3 x, b3 x]
    simp [hm x]
  rw [this]

end TelProofs.SD
