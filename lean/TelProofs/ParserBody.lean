/-
C07, body table: the stack machine run with the `#theory tel` body term table reads every operator pair
and triple as documented (model of gringo's theory-term parser, tied to it by layer L7).
-/
import TelProofs.ParserProofs

namespace TelProofs
open TelSpec TelModel TelModel.Generated

theorem body_pairs_triples : allAgree bodyTable docBody = true := by decide +kernel

end TelProofs
