import TelModel.Py
namespace TelProofs
open TelModel

@[simp] theorem ok_bind {α β} (a : α) (f : α → Py β) : (Except.ok a >>= f) = f a := rfl
@[simp] theorem err_bind {α β} (e : PyErr) (f : α → Py β) : ((Except.error e : Py α) >>= f) = Except.error e := rfl
@[simp] theorem ok_map {α β} (a : α) (f : α → β) : f <$> (Except.ok a : Py α) = Except.ok (f a) := rfl
@[simp] theorem py_pure {α} (a : α) : (pure a : Py α) = Except.ok a := rfl
@[simp] theorem py_throw {α} (e : PyErr) : (throw e : Py α) = Except.error e := rfl

end TelProofs
