/-
C02: for programs of the rule fragment *with* future heads (`p'`, `p''`, … in heads of normal rules) and
look-ahead constraints (future atoms in integrity constraints and in `not` / `not not` heads), the stable
models of the model's accumulated ground program `G P h` are exactly the embeddings of the temporal stable
models of `P` over traces of length `h+1` — for every horizon `h`, hence along the whole incremental
extension of the trace.
-/
import TelProofs.CoreEquiv

set_option linter.unusedSimpArgs false
set_option linter.unusedVariables false
set_option linter.unusedSectionVars false

namespace TelProofs
open TelSpec TelModel TelModel.Generated

/-! ### the fragment -/

def litPlain : BLit → Bool
  | .tel _ _ => false
  | .del _ _ => false
  | _ => true

/-- rules of the future fragment: normal rules (possibly with a future head) have no future atoms in the
    body; integrity constraints and `not` / `not not` heads may look ahead -/
def ruleFut (r : TRule) : Bool :=
  match r.head with
  | .atom _ _ => r.body.all litCore
  | .disj _ => r.body.all litCore
  | .choice _ => r.body.all litCore
  | .falsum => r.body.all litPlain
  | .nlit sg _ _ => (sg != .pos) && r.body.all litPlain
  | .tel _ => false

def progFut (P : TProg) : Bool := P.all ruleFut

theorem litCore_plain {l : BLit} (h : litCore l = true) : litPlain l = true := by
  cases l <;> simp_all [litCore, litPlain]

theorem ruleFut_plain {r : TRule} (h : ruleFut r = true) : r.body.all litPlain = true := by
  unfold ruleFut at h
  split at h
  all_goals first
    | (simp only [List.all_eq_true] at h ⊢; exact fun l hl => litCore_plain (h l hl))
    | exact h
    | (simp only [Bool.and_eq_true] at h; exact h.2)
    | cases h

/-! ### interpretations -/

def isFuture : GAtom → Bool
  | .future _ _ _ => true
  | _ => false

/-- `H` is the embedding of `W` on all atoms but the `__future_*` ones -/
def AgreeNF (H : Interp) (h : Nat) (W : Trace) : Prop := ∀ a, isFuture a = false → H a = embed h W a

/-- final-part rules apply at the last position only -/
def finOK (r : TRule) (h j : Nat) : Bool := if r.part == .final then j == h else true

/-- the window condition of a literal: it does not look beyond the grounding step -/
def litWin (s t : Nat) : BLit → Prop
  | .atom _ _ sh => (t : Int) + sh ≤ (s : Int)
  | _ => True

/-- is `__future_a(n, k)` derived by some rule at position `k - n` whose body holds in `(W, T)`? -/
def futDerived (P : TProg) (h : Nat) (W T : Trace) (a : String) (n : Nat) (k : Int) : Bool :=
  P.any fun r => match r.head with
    | .atom a' n' => (a' == a) && (n' == n) && decide (0 < n) && decide ((n : Int) ≤ k) && decide (k - n ≤ (h : Int)) &&
        rootOK r (k - n).toNat &&
        (r.body.all (BLit.holds h W T (k - n).toNat) && finOK r h (k - n).toNat)
    | _ => false

/-- embedding of an HT pair of traces, including the auxiliary `__future_*` atoms -/
def embedF (P : TProg) (h : Nat) (W T : Trace) : Interp
  | .future a n k => futDerived P h W T a n k
  | x => embed h W x

theorem embedF_agree (P : TProg) (h : Nat) (W T : Trace) : AgreeNF (embedF P h W T) h W := by
  intro a ha
  cases a <;> first | rfl | simp [isFuture] at ha

theorem futDerived_iff (P : TProg) (h : Nat) (W T : Trace) (a : String) (n : Nat) (k : Int) :
    futDerived P h W T a n k = true ↔
      ∃ r ∈ P, r.head = .atom a n ∧ 0 < n ∧ ∃ j : Nat, j ≤ h ∧ k = (j : Int) + n ∧ rootOK r j = true ∧
        (r.body.all (BLit.holds h W T j) && finOK r h j) = true := by
  simp only [futDerived, List.any_eq_true]
  constructor
  · rintro ⟨r, hr, hm⟩
    split at hm
    · rename_i a' n' hh
      simp only [Bool.and_eq_true, beq_iff_eq, decide_eq_true_eq] at hm
      obtain ⟨⟨⟨⟨⟨⟨rfl, rfl⟩, hn⟩, hnk⟩, hkh⟩, hroot⟩, hb, hf⟩ := hm
      refine ⟨r, hr, hh, hn, (k - n').toNat, by omega, by omega, hroot, ?_⟩
      simp only [Bool.and_eq_true]; exact ⟨hb, hf⟩
    · cases hm
  · rintro ⟨r, hr, hh, hn, j, hj, rfl, hroot, hb⟩
    refine ⟨r, hr, ?_⟩
    rw [hh]
    have e : ((j : Int) + n - n).toNat = j := by omega
    simp only [e, Bool.and_eq_true, beq_iff_eq, decide_eq_true_eq]
    simp only [Bool.and_eq_true] at hb
    exact ⟨⟨⟨⟨⟨⟨trivial, trivial⟩, hn⟩, by omega⟩, by omega⟩, hroot⟩, hb.1, hb.2⟩

/-! ### values of evaluated literals, for any grounding step -/

section
variable (h : Nat) (W T : Trace) (H X : Interp) (hH : AgreeNF H h W) (hX : AgreeNF X h T)
include hH hX

theorem signLit_val' (sg : Sign) (a : GAtom) (ha : isFuture a = false) :
    litVal H X (signLit sg true a) = sg.app (embed h W a) (embed h T a) := by
  cases sg <;> simp [signLit, litVal, Sign.app, hH a ha, hX a ha]

omit hH hX in
theorem signConst_val' (sg : Sign) (b : Bool) : litVal H X (signConst sg b) = sg.app b b := by
  cases sg <;> cases b <;> rfl

/-- a literal of the instance with time `t` grounded at step `s`: it has the value the specification
    gives it at position `t` provided the grounding step is the horizon or the literal does not look
    beyond the grounding step -/
theorem litAt_val' (s t : Nat) (hts : t ≤ s) (hs : s ≤ h) (l : BLit) (hl : litPlain l = true)
    (hwin : s = h ∨ litWin s t l) :
    litVal H X (litAt s (t : Int) l) = l.holds h W T t := by
  cases l with
  | atom sg a sh =>
    simp only [litAt, BLit.holds, atPos_embed]
    by_cases hkn : known s ((t : Int) + sh) = true
    · rw [hkn, signLit_val' h W T H X hH hX sg _ rfl]
    · have hkn' : known s ((t : Int) + sh) = false := by
        cases hh : known s ((t : Int) + sh)
        · rfl
        · exact absurd hh hkn
      rw [hkn']
      have hout : ¬ (0 ≤ (t : Int) + sh ∧ (t : Int) + sh ≤ (h : Int)) := by
        intro ⟨h0, h1⟩
        apply hkn
        simp only [known, Bool.and_eq_true, decide_eq_true_eq]
        refine ⟨h0, ?_⟩
        rcases hwin with rfl | hw
        · exact h1
        · exact hw
      have e1 : embed h W (.user a ((t : Int) + sh)) = false := by
        simp only [embed]
        by_cases h0 : 0 ≤ (t : Int) + sh
        · have : ¬ (t : Int) + sh ≤ (h : Int) := fun hh => hout ⟨h0, hh⟩
          simp [h0, this]
        · simp [h0]
      have e2 : embed h T (.user a ((t : Int) + sh)) = false := by
        simp only [embed]
        by_cases h0 : 0 ≤ (t : Int) + sh
        · have : ¬ (t : Int) + sh ≤ (h : Int) := fun hh => hout ⟨h0, hh⟩
          simp [h0, this]
        · simp [h0]
      rw [e1, e2]
      cases sg <;> rfl
  | init sg a =>
    simp only [litAt, BLit.holds]
    rw [signLit_val' h W T H X hH hX sg _ rfl]
    have e1 : embed h W (.user a 0) = W 0 a := by simpa using embed_user_in h W a 0 (Nat.zero_le _)
    have e2 : embed h T (.user a 0) = T 0 a := by simpa using embed_user_in h T a 0 (Nat.zero_le _)
    rw [e1, e2]
  | kw sg w =>
    cases w with
    | ktrue => simp only [litAt, BLit.holds, signConst_val' H X, Kw.holds]
    | kfalse => simp only [litAt, BLit.holds, signConst_val' H X, Kw.holds]
    | kinitial =>
      simp only [litAt, BLit.holds, Kw.holds]
      rw [signLit_val' h W T H X hH hX sg _ rfl]
      simp only [embed]
      have : ((t : Int) == 0) = (t == 0) := int_beq_nat t 0
      rw [this]
    | kfinal =>
      simp only [litAt, BLit.holds, Kw.holds]
      rw [signLit_val' h W T H X hH hX sg _ rfl]
      simp only [embed]
      rw [int_beq_nat t h]
  | tel _ _ => simp [litPlain] at hl
  | del _ _ => simp [litPlain] at hl

/-- all body literals within the window -/
def bodyWin (s t : Nat) (body : List BLit) : Prop :=
  ∀ l ∈ body, litWin s t l

theorem body_val' (s t : Nat) (hts : t ≤ s) (hs : s ≤ h) (body : List BLit) (hb : body.all litPlain = true)
    (hwin : s = h ∨ bodyWin s t body) :
    (body.map (litAt s (t : Int))).all (litVal H X) = body.all (BLit.holds h W T t) := by
  induction body with
  | nil => rfl
  | cons l ls ih =>
    simp only [List.all_cons, Bool.and_eq_true] at hb
    have hw1 : s = h ∨ litWin s t l := by
      rcases hwin with h1 | h1
      · exact Or.inl h1
      · exact Or.inr (h1 l List.mem_cons_self)
    have hw2 : s = h ∨ bodyWin s t ls := by
      rcases hwin with h1 | h1
      · exact Or.inl h1
      · exact Or.inr (fun x hx => h1 x (List.mem_cons_of_mem _ hx))
    simp only [List.map_cons, List.all_cons, litAt_val' h W T H X hH hX s t hts hs l hb.1 hw1, ih hb.2 hw2]

end

end TelProofs

namespace TelProofs
open TelSpec TelModel TelModel.Generated

/-! ### instances as `mkRule` of a literal list -/

def flipSign : Sign → Sign
  | .not => .notnot
  | .notnot => .not
  | .pos => .pos

/-- all evaluated literals of the instance: body, `__final(t)` of final-part rules, the guard of a
    temporary copy, the flipped head literal of a `not` / `not not` head -/
def instLits (s : Nat) (t : Int) (guard : Option Int) (r : TRule) : List LitRes :=
  r.body.map (litAt s t) ++ (if r.part == .final then [LitRes.pos (.final t)] else []) ++
  (match guard with | some u => [LitRes.pos (.final u)] | none => []) ++
  (match r.head with
   | .nlit sg a n => [signLit (flipSign sg) (known s (t + n)) (.user a (t + n))]
   | _ => [])

def instHead (t : Int) : Head → List GAtom
  | .atom a n => [if n = 0 then .user a t else .future a n (t + n)]
  | .disj as => as.map fun a => .user a t
  | .choice as => as.map fun a => .user a t
  | _ => []

def isChoice : Head → Bool
  | .choice _ => true
  | _ => false

def isTelHead : Head → Bool
  | .tel _ => true
  | _ => false

theorem instAt_eq (s : Nat) (t : Int) (guard : Option Int) (r : TRule) (hh : isTelHead r.head = false) :
    instAt s t guard r = mkRule (instHead t r.head) (isChoice r.head) (instLits s t guard r) := by
  unfold instAt instLits
  cases hhd : r.head with
  | tel f => rw [hhd] at hh; simp [isTelHead] at hh
  | nlit sg a n =>
    simp only [instHead, isChoice]
    congr 1
    cases guard <;> by_cases hf : (r.part == .final) = true <;> cases sg <;> simp [hf, flipSign]
  | _ =>
    simp only [instHead, isChoice]
    congr 1
    cases guard <;> by_cases hf : (r.part == .final) = true <;> simp [hf]

section
variable (h : Nat) (W T : Trace) (H X : Interp) (hH : AgreeNF H h W) (hX : AgreeNF X h T)
include hH hX

theorem final_val (t : Int) : litVal H X (LitRes.pos (.final t)) = (t == (h : Int)) := by
  simp only [litVal, hH (.final t) rfl, embed]

/-- a final-part instance away from the last position has a false body -/
theorem instLits_fin_false (s t : Nat) (guard : Option Int) (r : TRule) (hf : finOK r h t = false) :
    (instLits s (t : Int) guard r).all (litVal H X) = false := by
  unfold finOK at hf
  split at hf
  · rename_i hp
    have hmem : LitRes.pos (.final (t : Int)) ∈ instLits s (t : Int) guard r := by
      simp [instLits, hp]
    cases hall : (instLits s (t : Int) guard r).all (litVal H X)
    · rfl
    · have := List.all_eq_true.mp hall _ hmem
      rw [final_val h W T H X hH hX, int_beq_nat, hf] at this
      cases this
  · cases hf

/-- an instance guarded by `__final(u)` of an earlier step has a false body -/
theorem instLits_guard_false (s t : Nat) (u : Int) (r : TRule) (hu : u ≠ (h : Int)) :
    (instLits s (t : Int) (some u) r).all (litVal H X) = false := by
  have hmem : LitRes.pos (.final u) ∈ instLits s (t : Int) (some u) r := by
    simp [instLits]
  cases hall : (instLits s (t : Int) (some u) r).all (litVal H X)
  · rfl
  · have := List.all_eq_true.mp hall _ hmem
    rw [final_val h W T H X hH hX] at this
    exact absurd (beq_iff_eq.mp this) hu

def headWin (s t : Nat) : Head → Prop
  | .nlit _ _ n => t + n ≤ s
  | _ => True

/-- value of the flipped head literal -/
def nlitVal (h : Nat) (W T : Trace) (t : Nat) : Head → Bool
  | .nlit sg a n => !(sg.app (atPos h W a (t + n)) (atPos h T a (t + n)))
  | _ => true

theorem instLits_val (s t : Nat) (hts : t ≤ s) (hs : s ≤ h) (guard : Option Int) (r : TRule)
    (hr : ruleFut r = true) (hg : guard = none ∨ guard = some (h : Int))
    (hwin : s = h ∨ (bodyWin s t r.body ∧ headWin s t r.head)) :
    (instLits s (t : Int) guard r).all (litVal H X) =
      (r.body.all (BLit.holds h W T t) && finOK r h t && nlitVal h W T t r.head) := by
  have hb := body_val' h W T H X hH hX s t hts hs r.body (ruleFut_plain hr)
    (by rcases hwin with h1 | h1
        · exact Or.inl h1
        · exact Or.inr h1.1)
  have hfin : ((if r.part == .final then [LitRes.pos (.final (t : Int))] else []).all (litVal H X)) = finOK r h t := by
    unfold finOK
    by_cases hf : (r.part == .final) = true
    · simp only [hf, if_true, List.all_cons, List.all_nil, Bool.and_true]
      rw [final_val h W T H X hH hX, int_beq_nat]
    · simp [hf]
  have hgd : ((match guard with | some u => [LitRes.pos (.final u)] | none => []).all (litVal H X)) = true := by
    rcases hg with rfl | rfl
    · rfl
    · simp only [List.all_cons, List.all_nil, Bool.and_true]
      rw [final_val h W T H X hH hX]; simp
  have hhd : ((match r.head with
      | .nlit sg a n => [signLit (flipSign sg) (known s ((t : Int) + n)) (.user a ((t : Int) + n))]
      | _ => []).all (litVal H X)) = nlitVal h W T t r.head := by
    cases hhead : r.head with
    | nlit sg a n =>
      simp only [List.all_cons, List.all_nil, Bool.and_true, nlitVal, atPos_embed]
      have hsg : sg ≠ .pos := by
        intro hsg
        unfold ruleFut at hr
        rw [hhead, hsg] at hr
        simp at hr
      by_cases hkn : known s ((t : Int) + n) = true
      · rw [hkn]
        have e1 := hH (.user a ((t : Int) + n)) rfl
        have e2 := hX (.user a ((t : Int) + n)) rfl
        have e3 : (((t + n : Nat) : Int)) = (t : Int) + n := by omega
        cases sg with
        | pos => exact absurd rfl hsg
        | not => simp [flipSign, signLit, litVal, Sign.app, e2, e3]
        | notnot => simp [flipSign, signLit, litVal, Sign.app, e2, e3]
      · have hkn' : known s ((t : Int) + n) = false := by
          cases hh : known s ((t : Int) + n)
          · rfl
          · exact absurd hh hkn
        rw [hkn']
        have hout : ¬ ((t : Int) + n ≤ (h : Int)) := by
          intro h1
          apply hkn
          simp only [known, Bool.and_eq_true, decide_eq_true_eq]
          refine ⟨by omega, ?_⟩
          rcases hwin with rfl | hw
          · exact h1
          · have := hw.2; rw [hhead] at this; simp only [headWin] at this; omega
        have e3 : (((t + n : Nat) : Int)) = (t : Int) + n := by omega
        have e1 : embed h T (.user a ((t : Int) + n)) = false := by
          simp only [embed]
          have : ¬ (t : Int) + n ≤ (h : Int) := hout
          simp [this]
        cases sg with
        | pos => exact absurd rfl hsg
        | not => simp [flipSign, signLit, litVal, Sign.app, e1, e3]
        | notnot => simp [flipSign, signLit, litVal, Sign.app, e1, e3]
    | _ => simp [nlitVal]
  unfold instLits
  simp only [List.all_append, hb, hfin, hgd, hhd, Bool.and_true]

end

end TelProofs

namespace TelProofs
open TelSpec TelModel TelModel.Generated

/-! ### which instances `groundAt` contains -/

theorem lookKeys_fold (root : Root) (n : Nat) :
    ∀ (Q : TProg) (acc : List (Root × Nat)),
      (root, n) ∈ Q.foldl (fun acc r =>
        let n := lookahead r
        if n > 0 && !(acc.contains (rootOf r.part, n)) then acc ++ [(rootOf r.part, n)] else acc) acc ↔
      ((∃ r ∈ Q, rootOf r.part = root ∧ lookahead r = n ∧ 0 < n) ∨ (root, n) ∈ acc) := by
  intro Q
  induction Q with
  | nil => intro acc; simp
  | cons q Q ih =>
    intro acc
    simp only [List.foldl_cons]
    rw [ih]
    constructor
    · rintro (⟨r, hr, h1⟩ | hacc)
      · exact Or.inl ⟨r, List.mem_cons_of_mem _ hr, h1⟩
      · split at hacc
        · rename_i hc
          rcases List.mem_append.mp hacc with h1 | h1
          · exact Or.inr h1
          · simp only [List.mem_singleton, Prod.mk.injEq] at h1
            simp only [Bool.and_eq_true, decide_eq_true_eq] at hc
            left
            exact ⟨q, List.mem_cons_self, h1.1.symm, h1.2.symm, by omega⟩
        · exact Or.inr hacc
    · rintro (⟨r, hr, h1, h2, h3⟩ | hacc)
      · rcases List.mem_cons.mp hr with rfl | hr'
        · right
          by_cases hc : acc.contains (rootOf r.part, lookahead r) = true
          · have : (root, n) ∈ acc := by
              rw [← h1, ← h2]; simpa using hc
            split
            · exact List.mem_append_left _ this
            · exact this
          · have hc' : acc.contains (rootOf r.part, lookahead r) = false := by
              cases hh : acc.contains (rootOf r.part, lookahead r)
              · rfl
              · exact absurd hh hc
            have hn : decide (lookahead r > 0) = true := by simp; omega
            simp only [hc', hn, Bool.not_false, Bool.and_true, if_true]
            apply List.mem_append_right
            simp [h1, h2]
        · exact Or.inl ⟨r, hr', h1, h2, h3⟩
      · right
        split
        · exact List.mem_append_left _ hacc
        · exact hacc

theorem lookKeys_mem_iff (P : TProg) (root : Root) (n : Nat) :
    (root, n) ∈ lookKeys P ↔ ∃ r ∈ P, rootOf r.part = root ∧ lookahead r = n ∧ 0 < n := by
  unfold lookKeys
  rw [lookKeys_fold root n P []]
  simp

theorem futureHeads_fold_iff (a : String) (n : Nat) :
    ∀ (Q : TProg) (acc : List (String × Nat)),
      (a, n) ∈ Q.foldl (fun acc r => match r.head with
        | .atom a n => if n > 0 && !(acc.contains (a, n)) then acc ++ [(a, n)] else acc
        | _ => acc) acc →
      ((∃ r ∈ Q, r.head = .atom a n ∧ 0 < n) ∨ (a, n) ∈ acc) := by
  intro Q
  induction Q with
  | nil => intro acc h; exact Or.inr h
  | cons q Q ih =>
    intro acc h
    simp only [List.foldl_cons] at h
    rcases ih _ h with ⟨r, hr, h1⟩ | hacc
    · exact Or.inl ⟨r, List.mem_cons_of_mem _ hr, h1⟩
    · split at hacc
      · rename_i a' n' hh
        split at hacc
        · rename_i hc
          rcases List.mem_append.mp hacc with h1 | h1
          · exact Or.inr h1
          · simp only [List.mem_singleton, Prod.mk.injEq] at h1
            simp only [Bool.and_eq_true, decide_eq_true_eq] at hc
            left
            refine ⟨q, List.mem_cons_self, ?_, by omega⟩
            rw [hh, h1.1, h1.2]
        · exact Or.inr hacc
      · exact Or.inr hacc

theorem futureHeads_iff (P : TProg) (a : String) (n : Nat) :
    (a, n) ∈ futureHeads P ↔ ∃ r ∈ P, r.head = .atom a n ∧ 0 < n := by
  constructor
  · intro h
    rcases futureHeads_fold_iff a n P [] h with h1 | h1
    · exact h1
    · cases h1
  · rintro ⟨r, hr, hh, hn⟩
    exact futureHeads_mem P r hr a n hh hn

theorem spartsOf_mem (P : TProg) (p : SPart) :
    p ∈ spartsOf P ↔
      match p.kind with
      | .std => True
      | .temp n => (p.root, n) ∈ lookKeys P
      | .perm n => (p.root, n) ∈ lookKeys P := by
  obtain ⟨root, kind⟩ := p
  simp only [spartsOf, List.mem_append, List.mem_flatMap, List.mem_cons, List.mem_nil_iff, or_false,
    SPart.mk.injEq]
  cases kind with
  | std =>
    simp only [iff_true]
    right
    cases root <;> simp
  | temp n =>
    constructor
    · rintro (⟨⟨r0, n0⟩, hk, h1⟩ | h1)
      · rcases h1 with ⟨rfl, h2⟩ | ⟨rfl, h2⟩
        · simp only [PartKind.temp.injEq] at h2; subst h2; exact hk
        · cases h2
      · rcases h1 with ⟨_, h2⟩ | ⟨_, h2⟩ | ⟨_, h2⟩ <;> cases h2
    · intro hk
      exact Or.inl ⟨(root, n), hk, Or.inl ⟨rfl, rfl⟩⟩
  | perm n =>
    constructor
    · rintro (⟨⟨r0, n0⟩, hk, h1⟩ | h1)
      · rcases h1 with ⟨rfl, h2⟩ | ⟨rfl, h2⟩
        · cases h2
        · simp only [PartKind.perm.injEq] at h2; subst h2; exact hk
      · rcases h1 with ⟨_, h2⟩ | ⟨_, h2⟩ | ⟨_, h2⟩ <;> cases h2
    · intro hk
      exact Or.inl ⟨(root, n), hk, Or.inr ⟨rfl, rfl⟩⟩

theorem selected_mem (P : TProg) (s : Nat) (p : SPart) (t : Int) :
    (p, t) ∈ selected P s ↔ p ∈ spartsOf P ∧ ∃ i ∈ p.range, t = (s : Int) - i ∧ partCond p.root.name (s : Int) i = true := by
  constructor
  · intro h
    obtain ⟨_, _, h3, h4⟩ := selected_bounds P s (p, t) h
    exact ⟨h3, h4⟩
  · rintro ⟨hp, i, hi, rfl, hc⟩
    simp only [selected, List.mem_flatMap, List.mem_filterMap]
    exact ⟨p, hp, i, hi, by simp [hc]⟩

theorem rulesOfPart_iff (P : TProg) (p : SPart) (r : TRule) (g : Bool) :
    (r, g) ∈ rulesOfPart P p ↔ r ∈ P ∧ rootOf r.part = p.root ∧
      match p.kind with
      | .std => lookahead r = 0 ∧ g = false
      | .temp n => lookahead r = n ∧ 0 < n ∧ g = true
      | .perm n => lookahead r = n ∧ 0 < n ∧ g = false := by
  simp only [rulesOfPart, List.mem_filterMap]
  constructor
  · rintro ⟨q, hq, hsel⟩
    split at hsel
    · cases hsel
    · rename_i hroot
      have hroot' : rootOf q.part = p.root := by simpa using hroot
      cases hk : p.kind with
      | std =>
        rw [hk] at hsel
        simp only at hsel
        split at hsel
        · rename_i hl
          simp only [Option.some.injEq, Prod.mk.injEq] at hsel
          obtain ⟨rfl, rfl⟩ := hsel
          exact ⟨hq, hroot', hl, rfl⟩
        · cases hsel
      | temp n =>
        rw [hk] at hsel
        simp only at hsel
        split at hsel
        · rename_i hl
          simp only [Option.some.injEq, Prod.mk.injEq] at hsel
          obtain ⟨rfl, rfl⟩ := hsel
          simp only [Bool.and_eq_true, decide_eq_true_eq] at hl
          exact ⟨hq, hroot', hl.1, hl.2, rfl⟩
        · cases hsel
      | perm n =>
        rw [hk] at hsel
        simp only at hsel
        split at hsel
        · rename_i hl
          simp only [Option.some.injEq, Prod.mk.injEq] at hsel
          obtain ⟨rfl, rfl⟩ := hsel
          simp only [Bool.and_eq_true, decide_eq_true_eq] at hl
          exact ⟨hq, hroot', hl.1, hl.2, rfl⟩
        · cases hsel
  · rintro ⟨hr, hroot, hk⟩
    refine ⟨r, hr, ?_⟩
    have : (rootOf r.part != p.root) = false := by simp [hroot]
    rw [this]
    simp only [Bool.false_eq_true, if_false]
    cases hkind : p.kind with
    | std => rw [hkind] at hk; simp [hk.1, hk.2]
    | temp n => rw [hkind] at hk; simp [hk.1, hk.2.1, hk.2.2]
    | perm n => rw [hkind] at hk; simp [hk.1, hk.2.1, hk.2.2]

end TelProofs

namespace TelProofs
open TelSpec TelModel TelModel.Generated

theorem foldl_max_ge_init (l : List Nat) (i : Nat) : i ≤ l.foldl max i := by
  induction l generalizing i with
  | nil => exact Nat.le_refl _
  | cons x xs ih =>
    simp only [List.foldl_cons]
    exact Nat.le_trans (Nat.le_max_left i x) (ih (max i x))

theorem foldl_max_ge_mem (l : List Nat) (i x : Nat) (hx : x ∈ l) : x ≤ l.foldl max i := by
  induction l generalizing i with
  | nil => cases hx
  | cons y ys ih =>
    simp only [List.foldl_cons]
    rcases List.mem_cons.mp hx with rfl | h1
    · exact Nat.le_trans (Nat.le_max_right i x) (foldl_max_ge_init ys _)
    · exact ih _ h1

theorem foldl_max_zero' (l : List Nat) (i : Nat) (h : l.foldl max i = 0) : i = 0 ∧ ∀ x ∈ l, x = 0 := by
  refine ⟨?_, ?_⟩
  · have := foldl_max_ge_init l i; omega
  · intro x hx
    have := foldl_max_ge_mem l i x hx; omega

theorem maxShift_body (r : TRule) (sg : Sign) (a : String) (sh : Int) (hl : BLit.atom sg a sh ∈ r.body) :
    sh ≤ (maxShift r : Int) := by
  have hmem : sh.toNat ∈ (r.body.map fun l => match l with | .atom _ _ sh => sh.toNat | _ => 0) := by
    simp only [List.mem_map]
    exact ⟨_, hl, rfl⟩
  have key : sh.toNat ≤ maxShift r :=
    foldl_max_ge_mem _ (match r.head with | .nlit _ _ n => n | _ => 0) _ hmem
  omega

theorem maxShift_head (r : TRule) (sg : Sign) (a : String) (n : Nat) (hh : r.head = .nlit sg a n) :
    n ≤ maxShift r := by
  have key : (match r.head with | .nlit _ _ n => n | _ => 0) ≤ maxShift r :=
    foldl_max_ge_init (r.body.map fun l => match l with | .atom _ _ sh => sh.toNat | _ => 0) _
  rw [hh] at key
  exact key

/-- all look-aheads of the rule are at most `m` -/
theorem win_of_maxShift (r : TRule) (s t : Nat) (hm : t + maxShift r ≤ s) :
    bodyWin s t r.body ∧ headWin s t r.head := by
  constructor
  · intro l hl
    cases l with
    | atom sg a sh =>
      simp only [litWin]
      have := maxShift_body r sg a sh hl
      omega
    | _ => trivial
  · cases hh : r.head with
    | nlit sg a n =>
      simp only [headWin]
      have := maxShift_head r sg a n hh
      omega
    | _ => trivial

theorem core_body_win (body : List BLit) (hb : body.all litCore = true) (t : Nat) : bodyWin t t body := by
  intro l hl
  have := List.all_eq_true.mp hb l hl
  cases l with
  | atom sg a sh => simp only [litCore, decide_eq_true_eq] at this; simp only [litWin]; omega
  | _ => trivial

def WinOK (h s t : Nat) (r : TRule) : Prop :=
  finOK r h t = false ∨ s = h ∨ (bodyWin s t r.body ∧ headWin s t r.head)

/-- a rule of look-ahead 0 grounded at its own time step is inside its window (or a final-part rule) -/
theorem win_look0 (h : Nat) (r : TRule) (hr : ruleFut r = true) (hl : lookahead r = 0) (t : Nat) (ht : t ≤ h) :
    WinOK h t t r := by
  unfold lookahead at hl
  by_cases hfin : r.part = .final
  · by_cases hth : t = h
    · exact Or.inr (Or.inl hth)
    · left
      have : (t == h) = false := by
        cases hh : t == h
        · rfl
        · exact absurd (beq_iff_eq.mp hh) hth
      simp [finOK, hfin, this]
  · right; right
    by_cases hc : isConstraintHead r.head = true
    · have hne : (r.part != .final) = true := by simpa using hfin
      simp only [hc, hne, Bool.and_self, if_true] at hl
      exact win_of_maxShift r t t (by omega)
    · unfold ruleFut at hr
      cases hh : r.head with
      | atom a n => rw [hh] at hr; exact ⟨core_body_win _ hr t, trivial⟩
      | disj as => rw [hh] at hr; exact ⟨core_body_win _ hr t, trivial⟩
      | choice as => rw [hh] at hr; exact ⟨core_body_win _ hr t, trivial⟩
      | falsum => rw [hh] at hc; simp [isConstraintHead] at hc
      | nlit sg a n => rw [hh] at hc; simp [isConstraintHead] at hc
      | tel f => rw [hh] at hr; cases hr

theorem rootOK_partCond (r : TRule) (s : Nat) (i : Nat) (hi : i ≤ s) :
    partCond (rootOf r.part).name (s : Int) (i : Int) = true ↔ rootOK r (s - i) = true := by
  rw [partCond_spec]
  unfold rootOK
  cases hroot : rootOf r.part <;> simp [Root.name] <;> omega

/-- **soundness of the instance set**: every rule grounded at step `s ≤ h` is an instance of a rule of `P`
    (inside its window, or guarded by `__final(s)`), a bridge rule, or the fact `__initial(0)` -/
theorem groundAt_sound (P : TProg) (hP : progFut P = true) (h s : Nat) (hs : s ≤ h) (r' : GRule)
    (hr' : r' ∈ groundAt P s) :
    (∃ r ∈ P, ∃ t : Nat, ∃ guard : Option Int, t ≤ s ∧ rootOK r t = true ∧ instAt s (t : Int) guard r = some r' ∧
        ((guard = none ∧ WinOK h s t r) ∨ guard = some (s : Int))) ∨
    (∃ a n, (a, n) ∈ futureHeads P ∧ r' = { head := [.user a (s : Int)], pos := [.future a n (s : Int)] }) ∨
    (s = 0 ∧ r' = { head := [.initial 0] }) := by
  simp only [groundAt, List.mem_flatMap] at hr'
  obtain ⟨⟨p, t⟩, hsel, hr'⟩ := hr'
  obtain ⟨hp, i, hi, rfl, hcond⟩ := (selected_mem P s p _).mp hsel
  have hi0 := range_nonneg p i hi
  have hts := partCond_nonneg _ _ _ hcond
  obtain ⟨j, rfl⟩ : ∃ j : Nat, i = (j : Int) := ⟨i.toNat, by omega⟩
  have hjs : j ≤ s := by omega
  have htn : ((s : Int) - (j : Int)) = ((s - j : Nat) : Int) := by omega
  simp only [List.mem_append] at hr'
  rcases hr' with (hr' | hr') | hr'
  · left
    simp only [List.mem_filterMap] at hr'
    obtain ⟨⟨r, g⟩, hmem, hinst⟩ := hr'
    obtain ⟨hrP, hroot, hkind⟩ := (rulesOfPart_iff P p r g).mp hmem
    have hrf : ruleFut r = true := List.all_eq_true.mp hP r hrP
    have hok : rootOK r (s - j) = true := by
      apply (rootOK_partCond r s j hjs).mp
      rw [hroot]; exact hcond
    rw [htn] at hinst
    cases hk : p.kind with
    | std =>
      rw [hk] at hkind
      obtain ⟨hl, rfl⟩ := hkind
      simp only [SPart.range, hk, List.mem_singleton] at hi
      have hj0 : j = 0 := by omega
      subst hj0
      refine ⟨r, hrP, s, none, Nat.le_refl _, by simpa using hok, by simpa using hinst, Or.inl ⟨rfl, ?_⟩⟩
      exact win_look0 h r hrf hl s hs
    | temp n =>
      rw [hk] at hkind
      obtain ⟨hl, hn, rfl⟩ := hkind
      refine ⟨r, hrP, s - j, some (s : Int), by omega, hok, by simpa using hinst, Or.inr rfl⟩
    | perm n =>
      rw [hk] at hkind
      obtain ⟨hl, hn, rfl⟩ := hkind
      simp only [SPart.range, hk, List.mem_singleton] at hi
      have hjn : j = n := by omega
      subst hjn
      refine ⟨r, hrP, s - j, none, by omega, hok, by simpa using hinst, Or.inl ⟨rfl, Or.inr (Or.inr ?_)⟩⟩
      apply win_of_maxShift
      unfold lookahead at hl
      split at hl
      · omega
      · omega
  · right; left
    split at hr'
    · rename_i hpa
      subst hpa
      simp only [SPart.range, List.mem_singleton] at hi
      have hj0 : j = 0 := by omega
      subst hj0
      simp only [List.mem_map] at hr'
      obtain ⟨⟨a, n⟩, hmem, rfl⟩ := hr'
      exact ⟨a, n, hmem, by simp⟩
    · cases hr'
  · right; right
    split at hr'
    · rename_i hpa
      subst hpa
      simp only [SPart.range, List.mem_singleton] at hi
      have hj0 : j = 0 := by omega
      subst hj0
      have hs0 : s = 0 := by
        rcases (partCond_spec _ _ _).mp hcond with ⟨h1, _⟩ | ⟨h1, _⟩ | ⟨_, h2⟩
        · simp [Root.name] at h1
        · simp [Root.name] at h1
        · omega
      subst hs0
      simp at hr'
      exact ⟨rfl, hr'⟩
    · cases hr'

end TelProofs

namespace TelProofs
open TelSpec TelModel TelModel.Generated

theorem groundAt_inst_mem (P : TProg) (s : Nat) (p : SPart) (j : Nat) (hj : j ≤ s) (r : TRule) (g : Bool)
    (hsel : (p, ((s - j : Nat) : Int)) ∈ selected P s) (hmem : (r, g) ∈ rulesOfPart P p) (r' : GRule)
    (hi : instAt s ((s - j : Nat) : Int) (if g then some (s : Int) else none) r = some r') : r' ∈ groundAt P s := by
  simp only [groundAt, List.mem_flatMap]
  refine ⟨(p, ((s - j : Nat) : Int)), hsel, ?_⟩
  simp only [List.mem_append, List.mem_filterMap]
  left; left
  exact ⟨(r, g), hmem, hi⟩

/-- **completeness of the instance set**: every position `k ≤ h` at which a rule applies is covered at
    horizon `h` by an instance inside its window: the rule's own part (look-ahead 0), the permanent copy
    grounded at step `k + n`, or the temporary copy grounded at step `h` and guarded by `__final(h)` -/
theorem groundAt_complete (P : TProg) (hP : progFut P = true) (h : Nat) (r : TRule) (hr : r ∈ P) (k : Nat)
    (hk : k ≤ h) (hok : rootOK r k = true) :
    ∃ s : Nat, ∃ guard : Option Int, k ≤ s ∧ s ≤ h ∧
      ((guard = none ∧ WinOK h s k r) ∨ (guard = some (h : Int) ∧ s = h)) ∧
      ∀ r', instAt s (k : Int) guard r = some r' → r' ∈ groundAt P s := by
  have hrf : ruleFut r = true := List.all_eq_true.mp hP r hr
  by_cases hl : lookahead r = 0
  · refine ⟨k, none, Nat.le_refl _, hk, Or.inl ⟨rfl, win_look0 h r hrf hl k hk⟩, ?_⟩
    intro r' hi
    have hsel : ((⟨rootOf r.part, .std⟩ : SPart), ((k - 0 : Nat) : Int)) ∈ selected P k := by
      apply (selected_mem P k _ _).mpr
      refine ⟨(spartsOf_mem P _).mpr trivial, 0, by simp [SPart.range], by simp, ?_⟩
      exact (rootOK_partCond r k 0 (Nat.zero_le _)).mpr (by simpa using hok)
    exact groundAt_inst_mem P k _ 0 (Nat.zero_le _) r false hsel
      ((rulesOfPart_iff P _ r false).mpr ⟨hr, rfl, hl, rfl⟩) r' (by simpa using hi)
  · have hn : 0 < lookahead r := by omega
    have hkey : (rootOf r.part, lookahead r) ∈ lookKeys P := (lookKeys_mem_iff P _ _).mpr ⟨r, hr, rfl, rfl, hn⟩
    by_cases hfit : k + lookahead r ≤ h
    · -- permanent copy grounded at step k + n
      refine ⟨k + lookahead r, none, by omega, hfit, Or.inl ⟨rfl, Or.inr (Or.inr ?_)⟩, ?_⟩
      · apply win_of_maxShift
        have : lookahead r ≤ maxShift r ∨ lookahead r = 0 := by
          unfold lookahead; split
          · exact Or.inl (Nat.le_refl _)
          · exact Or.inr rfl
        have hm : lookahead r = maxShift r := by
          unfold lookahead at hn ⊢
          split at hn
          · rename_i hc; simp [hc]
          · omega
        omega
      · intro r' hi
        have e : k = k + lookahead r - lookahead r := by omega
        have hsel : ((⟨rootOf r.part, .perm (lookahead r)⟩ : SPart), ((k + lookahead r - lookahead r : Nat) : Int)) ∈
            selected P (k + lookahead r) := by
          apply (selected_mem P _ _ _).mpr
          refine ⟨(spartsOf_mem P _).mpr hkey, (lookahead r : Int), by simp [SPart.range], by omega, ?_⟩
          apply (rootOK_partCond r (k + lookahead r) (lookahead r) (by omega)).mpr
          rw [← e]; exact hok
        apply groundAt_inst_mem P (k + lookahead r) _ (lookahead r) (by omega) r false hsel
          ((rulesOfPart_iff P _ r false).mpr ⟨hr, rfl, rfl, hn, rfl⟩) r'
        rw [← e]; simpa using hi
    · -- temporary copy grounded at the horizon
      refine ⟨h, some (h : Int), hk, Nat.le_refl _, Or.inr ⟨rfl, rfl⟩, ?_⟩
      intro r' hi
      have e : k = h - (h - k) := by omega
      have hsel : ((⟨rootOf r.part, .temp (lookahead r)⟩ : SPart), ((h - (h - k) : Nat) : Int)) ∈ selected P h := by
        apply (selected_mem P _ _ _).mpr
        refine ⟨(spartsOf_mem P _).mpr hkey, ((h - k : Nat) : Int), ?_, by omega, ?_⟩
        · simp only [SPart.range, List.mem_map, List.mem_range]
          exact ⟨h - k, by omega, rfl⟩
        · apply (rootOK_partCond r h (h - k) (by omega)).mpr
          rw [← e]; exact hok
      apply groundAt_inst_mem P h _ (h - k) (by omega) r true hsel
        ((rulesOfPart_iff P _ r true).mpr ⟨hr, rfl, rfl, hn, rfl⟩) r'
      rw [← e]; simpa using hi

end TelProofs

namespace TelProofs
open TelSpec TelModel TelModel.Generated

/-! ### satisfaction of an instance -/

def headValG (H X : Interp) (t : Int) (hd : Head) : Bool :=
  if isChoice hd then (instHead t hd).all (fun a => H a || !(X a)) else (instHead t hd).any H

def instSat (H X : Interp) (s : Nat) (t : Int) (guard : Option Int) (r : TRule) : Bool :=
  match instAt s t guard r with
  | some r' => r'.sat H X
  | none => true

theorem instSat_eq (H X : Interp) (s : Nat) (t : Int) (guard : Option Int) (r : TRule)
    (hh : isTelHead r.head = false) :
    instSat H X s t guard r = (!((instLits s t guard r).all (litVal H X)) || headValG H X t r.head) := by
  unfold instSat
  rw [instAt_eq s t guard r hh]
  cases hm : mkRule (instHead t r.head) (isChoice r.head) (instLits s t guard r) with
  | none =>
    rw [mkRule_none H X hm]; rfl
  | some r' =>
    obtain ⟨h1, h2, h3⟩ := mkRule_some H X hm
    simp only [GRule.sat, h3, GRule.headHolds, h1, h2, headValG]

theorem ruleFut_notTel {r : TRule} (h : ruleFut r = true) : isTelHead r.head = false := by
  unfold ruleFut at h
  cases hh : r.head <;> simp [isTelHead]
  rw [hh] at h; cases h

/-- position-wise satisfaction of a temporal rule -/
def specPos (h : Nat) (W T : Trace) (r : TRule) (k : Nat) : Bool :=
  !(r.body.all (BLit.holds h W T k) && finOK r h k) || r.head.holds h W T k

def futHead : Head → Bool
  | .atom _ n => decide (0 < n)
  | _ => false

section
variable (h : Nat) (W T : Trace) (H X : Interp) (hH : AgreeNF H h W) (hX : AgreeNF X h T)
include hH hX

theorem user_val (a : String) (t : Nat) (ht : t ≤ h) : H (.user a (t : Int)) = W t a := by
  rw [hH _ rfl]; exact embed_user_in h W a t ht

/-- instance of a rule without future head, inside its window: its satisfaction is the specification's -/
theorem plain_inst (s t : Nat) (hts : t ≤ s) (hs : s ≤ h) (guard : Option Int) (r : TRule)
    (hr : ruleFut r = true) (hnf : futHead r.head = false) (hg : guard = none ∨ guard = some (h : Int))
    (hwin : s = h ∨ (bodyWin s t r.body ∧ headWin s t r.head)) :
    instSat H X s (t : Int) guard r = specPos h W T r t := by
  have ht : t ≤ h := Nat.le_trans hts hs
  rw [instSat_eq H X s t guard r (ruleFut_notTel hr),
    instLits_val h W T H X hH hX s t hts hs guard r hr hg hwin]
  unfold specPos
  cases hh : r.head with
  | atom a n =>
    rw [hh] at hnf
    simp only [futHead, decide_eq_false_iff_not] at hnf
    have hn : n = 0 := by omega
    subst hn
    simp only [nlitVal, Bool.and_true, headValG, isChoice, Bool.false_eq_true, if_false, instHead, if_true,
      List.any_cons, List.any_nil, Bool.or_false, Head.holds, atPos_embed]
    congr 1
    rw [hH _ rfl]
    rfl
  | disj as =>
    simp only [nlitVal, Bool.and_true, headValG, isChoice, Bool.false_eq_true, if_false, instHead, Head.holds,
      List.any_map]
    congr 2
    funext a
    exact user_val h W T H X hH hX a t ht
  | choice as =>
    simp only [nlitVal, Bool.and_true, headValG, isChoice, if_true, instHead, Head.holds, List.all_map]
    congr 2
    funext a
    simp only [Function.comp, user_val h W T H X hH hX a t ht]
    have : X (.user a (t : Int)) = T t a := by rw [hX _ rfl]; exact embed_user_in h T a t ht
    rw [this]
  | falsum =>
    simp [nlitVal, headValG, isChoice, instHead, Head.holds]
  | nlit sg a n =>
    simp only [nlitVal, headValG, isChoice, Bool.false_eq_true, if_false, instHead, List.any_nil, Bool.or_false,
      Head.holds]
    cases r.body.all (BLit.holds h W T t) <;> cases finOK r h t <;>
      cases sg.app (atPos h W a (↑t + ↑n)) (atPos h T a (↑t + ↑n)) <;> rfl
  | tel f => have := ruleFut_notTel hr; rw [hh] at this; simp [isTelHead] at this

/-- instance of a rule with a future head -/
theorem fut_inst (s t : Nat) (hts : t ≤ s) (hs : s ≤ h) (guard : Option Int) (r : TRule)
    (hr : ruleFut r = true) (a : String) (n : Nat) (hh : r.head = .atom a n) (hn : 0 < n)
    (hg : guard = none ∨ guard = some (h : Int))
    (hwin : s = h ∨ (bodyWin s t r.body ∧ headWin s t r.head)) :
    instSat H X s (t : Int) guard r =
      (!(r.body.all (BLit.holds h W T t) && finOK r h t) || H (.future a n ((t : Int) + n))) := by
  rw [instSat_eq H X s t guard r (ruleFut_notTel hr),
    instLits_val h W T H X hH hX s t hts hs guard r hr hg hwin]
  have hn0 : n ≠ 0 := by omega
  simp [hh, nlitVal, headValG, isChoice, instHead, hn0]

end

end TelProofs

namespace TelProofs
open TelSpec TelModel TelModel.Generated

theorem sat_iff_specPos (h : Nat) (W T : Trace) (r : TRule) :
    r.sat h W T = true ↔ ∀ k, k ≤ h → rootOK r k = true → specPos h W T r k = true := by
  simp only [TRule.sat, allUpTo_iff]
  constructor
  · intro hs k hk hok
    have := hs k hk
    rw [spec_pos_eq, if_pos hok] at this
    exact this
  · intro hs k hk
    rw [spec_pos_eq]
    split
    · rename_i hok; exact hs k hk hok
    · rfl

theorem G_of_groundAt (P : TProg) (h s : Nat) (hs : s ≤ h) (r' : GRule) (hr : r' ∈ groundAt P s) : r' ∈ G P h := by
  simp only [G, List.mem_append]
  left; left
  exact (mem_accRules P h r').mpr ⟨s, hs, hr⟩

theorem bridge_mem (P : TProg) (h k : Nat) (hk : k ≤ h) (a : String) (n : Nat) (hf : (a, n) ∈ futureHeads P) :
    ({ head := [.user a (k : Int)], pos := [.future a n (k : Int)] } : GRule) ∈ G P h := by
  apply G_of_groundAt P h k hk
  simp only [groundAt, List.mem_flatMap]
  refine ⟨_, always_selected P k, ?_⟩
  simp only [List.mem_append]
  left; right
  simp only [if_true, List.mem_map]
  exact ⟨(a, n), hf, rfl⟩

theorem assumption_mem (P : TProg) (h : Nat) (r' : GRule) (hr : r' ∈ accRules P h) (a : String) (n : Nat) (k : Int)
    (hmem : GAtom.future a n k ∈ r'.head) (hk : (h : Int) < k) :
    ({ head := [], pos := [.future a n k] } : GRule) ∈ G P h := by
  have hfa : GAtom.future a n k ∈ futureAtoms (accRules P h) := by
    simp only [futureAtoms, List.mem_eraseDups, List.mem_flatMap, List.mem_filter]
    exact ⟨r', hr, hmem, trivial⟩
  have hc : assumeCond k (h : Int) = true := by simp [assumeCond]; omega
  simp only [G, List.mem_append, List.mem_filterMap]
  right
  exact ⟨_, hfa, by simp [hc]⟩

section
variable (P : TProg) (hP : progFut P = true) (h : Nat) (W T : Trace)
include hP

/-- **from the ground program to the temporal program**: any HT interpretation of `G P h` whose user,
    `__initial` and `__final` atoms are those of `(W, T)` and that satisfies `G P h` makes `(W, T)` satisfy `P` -/
theorem full_sat_of_G (H X : Interp) (hH : AgreeNF H h W) (hX : AgreeNF X h T)
    (hG : ∀ r' ∈ G P h, r'.sat H X = true) : ∀ r ∈ P, r.sat h W T = true := by
  intro r hr
  have hrf : ruleFut r = true := List.all_eq_true.mp hP r hr
  rw [sat_iff_specPos]
  intro k hk hok
  obtain ⟨s, guard, hks, hsh, hcase, hmem⟩ := groundAt_complete P hP h r hr k hk hok
  have hsatI : instSat H X s (k : Int) guard r = true := by
    unfold instSat
    cases hi : instAt s (k : Int) guard r with
    | none => rfl
    | some r' => exact hG r' (G_of_groundAt P h s hsh r' (hmem r' hi))
  -- the window / guard conditions, or a final-part rule away from the last position
  have hcond : finOK r h k = false ∨
      ((guard = none ∨ guard = some (h : Int)) ∧ (s = h ∨ (bodyWin s k r.body ∧ headWin s k r.head))) := by
    rcases hcase with ⟨rfl, hw⟩ | ⟨rfl, rfl⟩
    · rcases hw with h1 | h1 | h1
      · exact Or.inl h1
      · exact Or.inr ⟨Or.inl rfl, Or.inl h1⟩
      · exact Or.inr ⟨Or.inl rfl, Or.inr h1⟩
    · exact Or.inr ⟨Or.inr rfl, Or.inl rfl⟩
  rcases hcond with hfin | ⟨hg, hwin⟩
  · simp [specPos, hfin]
  · by_cases hfut : futHead r.head = true
    · cases hh : r.head with
      | atom a n =>
        rw [hh] at hfut
        simp only [futHead, decide_eq_true_eq] at hfut
        have hfi := fut_inst h W T H X hH hX s k hks hsh guard r hrf a n hh hfut hg hwin
        rw [hsatI] at hfi
        unfold specPos
        cases hb : (r.body.all (BLit.holds h W T k) && finOK r h k)
        · rfl
        · rw [hb] at hfi
          simp only [Bool.not_true, Bool.false_or] at hfi
          have hfutTrue : H (.future a n ((k : Int) + n)) = true := hfi.symm
          simp only [Bool.not_true, Bool.false_or, hh, Head.holds]
          by_cases hkn : k + n ≤ h
          · have hb' := hG _ (bridge_mem P h (k + n) hkn a n (futureHeads_mem P r hr a n hh hfut))
            have e : (((k + n : Nat)) : Int) = (k : Int) + n := by omega
            rw [e] at hb'
            simp only [GRule.sat, GRule.bodyHolds, GRule.headHolds, List.all_cons, List.all_nil, hfutTrue,
              Bool.and_true, Bool.not_true, Bool.false_or, Bool.false_eq_true, if_false, List.any_cons,
              List.any_nil, Bool.or_false] at hb'
            rw [atPos_embed, ← hH _ rfl]
            exact hb'
          · -- beyond the horizon: the assumption forbids the future atom
            exfalso
            have hlits : (instLits s (k : Int) guard r).all (litVal H X) = true := by
              rw [instLits_val h W T H X hH hX s k hks hsh guard r hrf hg hwin, hb, hh]
              rfl
            have hinst := instAt_eq s (k : Int) guard r (ruleFut_notTel hrf)
            cases hm : mkRule (instHead (k : Int) r.head) (isChoice r.head) (instLits s (k : Int) guard r) with
            | none =>
              have := mkRule_none H X hm
              rw [hlits] at this; cases this
            | some r' =>
              rw [hm] at hinst
              have hr'G := hmem r' hinst
              have hhead : r'.head = [.future a n ((k : Int) + n)] := by
                rw [mkRule_head hm, hh]
                have hn0 : n ≠ 0 := by omega
                simp [instHead, hn0]
              have hass := assumption_mem P h r' ((mem_accRules P h r').mpr ⟨s, hsh, hr'G⟩) a n ((k : Int) + n)
                (by rw [hhead]; exact List.mem_singleton.mpr rfl) (by omega)
              have := hG _ hass
              simp [GRule.sat, GRule.bodyHolds, GRule.headHolds, hfutTrue] at this
      | _ => rw [hh] at hfut; simp [futHead] at hfut
    · have hnf : futHead r.head = false := by
        cases hx : futHead r.head
        · rfl
        · exact absurd hx hfut
      rw [← plain_inst h W T H X hH hX s k hks hsh guard r hrf hnf hg hwin]
      exact hsatI

end

end TelProofs

namespace TelProofs
open TelSpec TelModel TelModel.Generated

section
variable (P : TProg) (hP : progFut P = true) (h : Nat) (W T : Trace)
include hP

/-- **from the temporal program to the ground program**: if `(W, T)` satisfies `P` then the embedding
    (with the `__future_*` atoms derived in `(W, T)`) satisfies `G P h` -/
theorem full_G_of_sat (X : Interp) (hX : AgreeNF X h T) (hS : ∀ r ∈ P, r.sat h W T = true) :
    ∀ r' ∈ G P h, r'.sat (embedF P h W T) X = true := by
  have hH := embedF_agree P h W T
  intro r' hr'
  simp only [G, List.mem_append, List.mem_singleton, List.mem_filterMap] at hr'
  rcases hr' with (hr' | hr') | ⟨x, hx, hsel⟩
  · obtain ⟨s, hsh, hg⟩ := (mem_accRules P h r').mp hr'
    rcases groundAt_sound P hP h s hsh r' hg with ⟨r, hr, t, guard, hts, hok, hinst, hcase⟩ | ⟨a, n, hf, rfl⟩ | ⟨rfl, rfl⟩
    · have hrf : ruleFut r = true := List.all_eq_true.mp hP r hr
      have ht : t ≤ h := Nat.le_trans hts hsh
      have hspec : specPos h W T r t = true := (sat_iff_specPos h W T r).mp (hS r hr) t ht hok
      have hsat : r'.sat (embedF P h W T) X = instSat (embedF P h W T) X s (t : Int) guard r := by
        unfold instSat; rw [hinst]
      rw [hsat]
      -- dead instances: final-part rule away from the end, or stale guard
      have hcond : (instLits s (t : Int) guard r).all (litVal (embedF P h W T) X) = false ∨
          ((guard = none ∨ guard = some (h : Int)) ∧ (s = h ∨ (bodyWin s t r.body ∧ headWin s t r.head))) := by
        rcases hcase with ⟨rfl, hw⟩ | rfl
        · rcases hw with h1 | h1 | h1
          · exact Or.inl (instLits_fin_false h W T _ X hH hX s t none r h1)
          · exact Or.inr ⟨Or.inl rfl, Or.inl h1⟩
          · exact Or.inr ⟨Or.inl rfl, Or.inr h1⟩
        · by_cases hsh' : s = h
          · subst hsh'; exact Or.inr ⟨Or.inr rfl, Or.inl rfl⟩
          · exact Or.inl (instLits_guard_false h W T _ X hH hX s t (s : Int) r (by omega))
      rcases hcond with hdead | ⟨hg', hwin⟩
      · rw [instSat_eq _ X s t guard r (ruleFut_notTel hrf), hdead]; rfl
      · by_cases hfut : futHead r.head = true
        · cases hh : r.head with
          | atom a n =>
            rw [hh] at hfut
            simp only [futHead, decide_eq_true_eq] at hfut
            rw [fut_inst h W T _ X hH hX s t hts hsh guard r hrf a n hh hfut hg' hwin]
            cases hb : (r.body.all (BLit.holds h W T t) && finOK r h t)
            · rfl
            · simp only [Bool.not_true, Bool.false_or]
              show futDerived P h W T a n ((t : Int) + n) = true
              exact (futDerived_iff P h W T a n _).mpr ⟨r, hr, hh, hfut, t, ht, rfl, hok, hb⟩
          | _ => rw [hh] at hfut; simp [futHead] at hfut
        · have hnf : futHead r.head = false := by
            cases hx : futHead r.head
            · rfl
            · exact absurd hx hfut
          rw [plain_inst h W T _ X hH hX s t hts hsh guard r hrf hnf hg' hwin]
          exact hspec
    · -- bridge rule
      simp only [GRule.sat, GRule.bodyHolds, GRule.headHolds, List.all_cons, List.all_nil, Bool.and_true,
        Bool.false_eq_true, if_false, List.any_cons, List.any_nil, Bool.or_false]
      cases hfd : embedF P h W T (.future a n (s : Int))
      · rfl
      · simp only [Bool.not_true, Bool.false_or]
        have hfd' : futDerived P h W T a n (s : Int) = true := hfd
        obtain ⟨r, hr, hh, hn, j, hj, hjs, hok, hb⟩ := (futDerived_iff P h W T a n _).mp hfd'
        have hspec : specPos h W T r j = true := (sat_iff_specPos h W T r).mp (hS r hr) j hj hok
        unfold specPos at hspec
        rw [hb] at hspec
        simp only [Bool.not_true, Bool.false_or, hh, Head.holds] at hspec
        rw [hH _ rfl, ← atPos_embed, hjs]
        exact hspec
    · simp [GRule.sat, GRule.bodyHolds, GRule.headHolds, embedF, embed]
  · subst hr'
    simp [GRule.sat, GRule.bodyHolds, GRule.headHolds, embedF, embed]
  · -- assumption
    split at hsel
    · rename_i a n k
      split at hsel
      · rename_i hc
        simp only [Option.some.injEq] at hsel
        subst hsel
        have hk : (h : Int) < k := by simpa [assumeCond] using hc
        simp only [GRule.sat, GRule.bodyHolds, GRule.headHolds, List.all_cons, List.all_nil, Bool.and_true,
          Bool.false_eq_true, if_false, List.any_nil, Bool.or_false]
        cases hfd : embedF P h W T (.future a n k)
        · rfl
        · exfalso
          have hfd' : futDerived P h W T a n k = true := hfd
          obtain ⟨r, hr, hh, hn, j, hj, hjs, hok, hb⟩ := (futDerived_iff P h W T a n _).mp hfd'
          have hspec : specPos h W T r j = true := (sat_iff_specPos h W T r).mp (hS r hr) j hj hok
          unfold specPos at hspec
          rw [hb] at hspec
          simp only [Bool.not_true, Bool.false_or, hh, Head.holds, atPos] at hspec
          have : ¬ (0 ≤ (j : Int) + n ∧ (j : Int) + n ≤ (h : Int)) := by omega
          simp [this] at hspec
      · cases hsel
    · cases hsel

end

end TelProofs

namespace TelProofs
open TelSpec TelModel TelModel.Generated

/-! ### the main theorem -/

theorem sign_mono (sg : Sign) {w t : Bool} (h : w = true → t = true) (hs : sg.app w t = true) : sg.app t t = true := by
  cases sg <;> cases w <;> cases t <;> simp_all [Sign.app]

theorem atPos_mono {h : Nat} {W T : Trace} (hle : TraceLe h W T) (a : String) (j : Int) :
    atPos h W a j = true → atPos h T a j = true := by
  unfold atPos
  split
  · rename_i hj; exact hle j.toNat (by omega) a
  · intro hf; cases hf

theorem holds_mono {h : Nat} {W T : Trace} (hle : TraceLe h W T) (k : Nat) (l : BLit)
    (hl : l.holds h W T k = true) : l.holds h T T k = true := by
  cases l with
  | atom sg a sh => exact sign_mono sg (atPos_mono hle a _) hl
  | init sg a => exact sign_mono sg (hle 0 (Nat.zero_le _) a) hl
  | kw sg w => exact hl
  | tel sg f => exact hl
  | del sg f => exact hl

theorem body_holds_mono {h : Nat} {W T : Trace} (hle : TraceLe h W T) (k : Nat) (body : List BLit)
    (hb : body.all (BLit.holds h W T k) = true) : body.all (BLit.holds h T T k) = true := by
  simp only [List.all_eq_true] at hb ⊢
  exact fun l hl => holds_mono hle k l (hb l hl)

theorem embedF_le (P : TProg) {h : Nat} {W T : Trace} (hle : TraceLe h W T) :
    (embedF P h W T).le (embedF P h T T) := by
  intro a ha
  cases a with
  | future x n k =>
    have ha' : futDerived P h W T x n k = true := ha
    show futDerived P h T T x n k = true
    obtain ⟨r, hr, hh, hn, j, hj, hjs, hok, hb⟩ := (futDerived_iff P h W T x n k).mp ha'
    simp only [Bool.and_eq_true] at hb
    exact (futDerived_iff P h T T x n k).mpr ⟨r, hr, hh, hn, j, hj, hjs, hok, by
      simp only [Bool.and_eq_true]; exact ⟨body_holds_mono hle j _ hb.1, hb.2⟩⟩
  | user x k => exact embed_le hle (.user x k) ha
  | initial k => exact ha
  | final k => exact ha

/-- an interpretation below one that agrees with `T`, containing the two facts, agrees with its own trace -/
theorem below_agree {h : Nat} {T : Trace} {H X : Interp} (hX : AgreeNF X h T) (hle : H.le X)
    (hi : H (.initial 0) = true) (hf : H (.final (h : Int)) = true) : AgreeNF H h (traceOf H) := by
  intro a ha
  cases a with
  | user x k =>
    by_cases hr : 0 ≤ k ∧ k ≤ (h : Int)
    · have : ((k.toNat : Nat) : Int) = k := by omega
      simp only [embed, traceOf, hr.1, hr.2, decide_true, Bool.true_and, this]
    · have hXf : X (.user x k) = false := by
        rw [hX _ rfl]
        simp only [embed]
        by_cases h0 : 0 ≤ k
        · have : ¬ k ≤ (h : Int) := fun hh => hr ⟨h0, hh⟩
          simp [h0, this]
        · simp [h0]
      have hH : H (.user x k) = false := by
        cases hh : H (.user x k)
        · rfl
        · have := hle _ hh; rw [hXf] at this; cases this
      rw [hH]
      simp only [embed]
      by_cases h0 : 0 ≤ k
      · have : ¬ k ≤ (h : Int) := fun hh => hr ⟨h0, hh⟩
        simp [h0, this]
      · simp [h0]
  | initial k =>
    simp only [embed]
    by_cases hk : k = 0
    · subst hk; simpa using hi
    · have hXf : X (.initial k) = false := by rw [hX _ rfl]; simp [embed, hk]
      cases hh : H (.initial k)
      · simp [hk]
      · have := hle _ hh; rw [hXf] at this; cases this
  | final k =>
    simp only [embed]
    by_cases hk : k = (h : Int)
    · subst hk; simpa using hf
    · have hXf : X (.final k) = false := by rw [hX _ rfl]; simp [embed, hk]
      cases hh : H (.final k)
      · simp [hk]
      · have := hle _ hh; rw [hXf] at this; cases this
  | future x n k => simp [isFuture] at ha

/-- every stable model of `G P h` agrees with the embedding of its own trace on all non-auxiliary atoms (C09) -/
theorem stable_agree (P : TProg) (h : Nat) (X : Interp) (hs : Stable (G P h) X) : AgreeNF X h (traceOf X) := by
  intro a ha
  cases a with
  | user x k =>
    by_cases hr : 0 ≤ k ∧ k ≤ (h : Int)
    · have : ((k.toNat : Nat) : Int) = k := by omega
      simp only [embed, traceOf, hr.1, hr.2, decide_true, Bool.true_and, this]
    · have : X (.user x k) = false := by
        cases hh : X (.user x k)
        · rfl
        · exact absurd (C09.times_in_range P h X hs x k hh) hr
      rw [this]
      simp only [embed]
      by_cases h0 : 0 ≤ k
      · have : ¬ k ≤ (h : Int) := fun hh => hr ⟨h0, hh⟩
        simp [h0, this]
      · simp [h0]
  | initial k =>
    simp only [embed]
    by_cases hk : k = 0
    · subst hk; simpa using (C09.initial_exact P h X hs 0).mpr rfl
    · have : X (.initial k) = false := by
        cases hh : X (.initial k)
        · rfl
        · exact absurd ((C09.initial_exact P h X hs k).mp hh) hk
      simp [this, hk]
  | final k =>
    simp only [embed]
    by_cases hk : k = (h : Int)
    · subst hk; simpa using (C09.final_exact P h X hs (h : Int)).mpr rfl
    · have : X (.final k) = false := by
        cases hh : X (.final k)
        · rfl
        · exact absurd ((C09.final_exact P h X hs k).mp hh) hk
      simp [this, hk]
  | future x n k => simp [isFuture] at ha

section
variable (P : TProg) (hP : progFut P = true) (h : Nat)
include hP

/-- if `(H, X)` satisfies `G P h` and agrees with `(W, T)`, every `__future_*` atom derivable in `(W, T)` is in `H` -/
theorem future_derived_in (W T : Trace) (H X : Interp) (hH : AgreeNF H h W) (hX : AgreeNF X h T)
    (hG : ∀ r' ∈ G P h, r'.sat H X = true) (a : String) (n : Nat) (k : Int)
    (hd : futDerived P h W T a n k = true) : H (.future a n k) = true := by
  obtain ⟨r, hr, hh, hn, j, hj, rfl, hok, hb⟩ := (futDerived_iff P h W T a n k).mp hd
  have hrf : ruleFut r = true := List.all_eq_true.mp hP r hr
  obtain ⟨s, guard, hks, hsh, hcase, hmem⟩ := groundAt_complete P hP h r hr j hj hok
  have hsatI : instSat H X s (j : Int) guard r = true := by
    unfold instSat
    cases hi : instAt s (j : Int) guard r with
    | none => rfl
    | some r' => exact hG r' (G_of_groundAt P h s hsh r' (hmem r' hi))
  have hfinT : finOK r h j = true := by
    simp only [Bool.and_eq_true] at hb; exact hb.2
  have hcond : (guard = none ∨ guard = some (h : Int)) ∧ (s = h ∨ (bodyWin s j r.body ∧ headWin s j r.head)) := by
    rcases hcase with ⟨rfl, hw⟩ | ⟨rfl, rfl⟩
    · rcases hw with h1 | h1 | h1
      · rw [hfinT] at h1; cases h1
      · exact ⟨Or.inl rfl, Or.inl h1⟩
      · exact ⟨Or.inl rfl, Or.inr h1⟩
    · exact ⟨Or.inr rfl, Or.inl rfl⟩
  have hfi := fut_inst h W T H X hH hX s j hks hsh guard r hrf a n hh hn hcond.1 hcond.2
  rw [hsatI, hb] at hfi
  simpa using hfi.symm

/-- a true `__future_*` atom of a stable model is derived by a rule of `P` whose body holds -/
theorem future_supported (X : Interp) (hs : Stable (G P h) X) (a : String) (n : Nat) (k : Int)
    (hx : X (.future a n k) = true) : futDerived P h (traceOf X) (traceOf X) a n k = true := by
  have hXa := stable_agree P h X hs
  obtain ⟨r', hr', hmem, hbody⟩ := stable_supported_body hs _ hx
  -- r' is an instance of a rule with head `a` shifted by `n`
  have hacc : r' ∈ accRules P h := by
    simp only [G, List.mem_append, List.mem_singleton, List.mem_filterMap] at hr'
    rcases hr' with (hr' | hr') | ⟨x, _, hx'⟩
    · exact hr'
    · subst hr'; simp at hmem
    · split at hx'
      · split at hx'
        · simp at hx'; subst hx'; cases hmem
        · cases hx'
      · cases hx'
  obtain ⟨s, hsh, hg⟩ := (mem_accRules P h r').mp hacc
  rcases groundAt_sound P hP h s hsh r' hg with ⟨r, hr, t, guard, hts, hok, hinst, hcase⟩ | ⟨a', n', _, rfl⟩ | ⟨_, rfl⟩
  · have hrf : ruleFut r = true := List.all_eq_true.mp hP r hr
    have ht : t ≤ h := Nat.le_trans hts hsh
    rw [instAt_eq s t guard r (ruleFut_notTel hrf)] at hinst
    obtain ⟨h1, h2, h3⟩ := mkRule_some X X hinst
    rw [h1] at hmem
    rw [h3] at hbody
    -- shape of the head
    have hhead : r.head = .atom a n ∧ 0 < n ∧ k = (t : Int) + n := by
      cases hh : r.head with
      | atom a' n' =>
        rw [hh] at hmem
        simp only [instHead, List.mem_singleton] at hmem
        by_cases hn0 : n' = 0
        · simp [hn0] at hmem
        · simp only [hn0, if_false, GAtom.future.injEq] at hmem
          obtain ⟨rfl, rfl, rfl⟩ := hmem
          exact ⟨rfl, by omega, rfl⟩
      | disj as => rw [hh] at hmem; simp [instHead] at hmem
      | choice as => rw [hh] at hmem; simp [instHead] at hmem
      | falsum => rw [hh] at hmem; simp [instHead] at hmem
      | nlit sg x m => rw [hh] at hmem; simp [instHead] at hmem
      | tel f => rw [hh] at hmem; simp [instHead] at hmem
    obtain ⟨hh, hn, rfl⟩ := hhead
    -- the instance is alive, hence inside its window
    have hcond : (guard = none ∨ guard = some (h : Int)) ∧ (s = h ∨ (bodyWin s t r.body ∧ headWin s t r.head)) := by
      rcases hcase with ⟨rfl, hw⟩ | rfl
      · rcases hw with h1 | h1 | h1
        · rw [instLits_fin_false h _ _ X X hXa hXa s t none r h1] at hbody; cases hbody
        · exact ⟨Or.inl rfl, Or.inl h1⟩
        · exact ⟨Or.inl rfl, Or.inr h1⟩
      · by_cases hsh' : s = h
        · subst hsh'; exact ⟨Or.inr rfl, Or.inl rfl⟩
        · rw [instLits_guard_false h _ _ X X hXa hXa s t (s : Int) r (by omega)] at hbody; cases hbody
    rw [instLits_val h _ _ X X hXa hXa s t hts hsh guard r hrf hcond.1 hcond.2, hh] at hbody
    simp only [nlitVal, Bool.and_true] at hbody
    exact (futDerived_iff P h _ _ a n _).mpr ⟨r, hr, hh, hn, t, ht, rfl, hok, hbody⟩
  · simp at hmem
  · simp at hmem

/-- **C02, main theorem** (rule fragment with future heads and look-ahead constraints): at every horizon `h`
    the stable models of the accumulated ground program are exactly the embeddings of the temporal stable
    models of `P` over traces of length `h+1`. -/
theorem full_stable_iff :
    (∀ X, Stable (G P h) X → TSM h P (traceOf X) ∧ X = embedF P h (traceOf X) (traceOf X)) ∧
    (∀ T, TSM h P T → Stable (G P h) (embedF P h T T)) := by
  constructor
  · intro X hs
    have hXa := stable_agree P h X hs
    have hXeq : X = embedF P h (traceOf X) (traceOf X) := by
      funext a
      cases a with
      | future x n k =>
        show X (.future x n k) = futDerived P h (traceOf X) (traceOf X) x n k
        apply bool_eq_of_iff
        constructor
        · exact future_supported P hP h X hs x n k
        · exact future_derived_in P hP h _ _ X X hXa hXa hs.1 x n k
      | user x k => exact hXa _ rfl
      | initial k => exact hXa _ rfl
      | final k => exact hXa _ rfl
    refine ⟨⟨full_sat_of_G P hP h _ _ X X hXa hXa hs.1, ?_⟩, hXeq⟩
    intro W hle hW
    have hGW := full_G_of_sat P hP h W (traceOf X) X hXa hW
    have hleI : (embedF P h W (traceOf X)).le X := by
      intro a ha
      rw [hXeq]; exact embedF_le P hle a ha
    have hmin := hs.2 _ hleI hGW
    intro k hk a
    have := hmin (.user a (k : Int))
    rw [hXa _ rfl] at this
    simpa [embedF, embed, hk] using this
  · intro T hT
    have hXa := embedF_agree P h T T
    constructor
    · exact full_G_of_sat P hP h T T _ hXa hT.1
    · intro H hle hsat
      have hi : H (.initial 0) = true := by
        have := hsat _ (C09.initial_fact_mem P h)
        simpa [GRule.sat, GRule.bodyHolds, GRule.headHolds] using this
      have hf : H (.final (h : Int)) = true := by
        have := hsat _ (C09.final_fact_mem P h)
        simpa [GRule.sat, GRule.bodyHolds, GRule.headHolds] using this
      have hHa := below_agree hXa hle hi hf
      have hWle : TraceLe h (traceOf H) T := by
        intro k hk x hx
        have := hle (.user x (k : Int)) hx
        simpa [embedF, embed, hk] using this
      have hW := full_sat_of_G P hP h _ _ H _ hHa hXa hsat
      have heq := hT.2 (traceOf H) hWle hW
      -- H agrees with T as well
      have hHT : AgreeNF H h T := by
        intro a ha; rw [hHa a ha, embed_congr heq]
      intro a
      cases a with
      | future x n k =>
        apply bool_eq_of_iff
        constructor
        · exact hle _
        · intro hx
          exact future_derived_in P hP h T T H _ hHT hXa hsat x n k hx
      | user x k => rw [hHT _ rfl]; rfl
      | initial k => rw [hHT _ rfl]; rfl
      | final k => rw [hHT _ rfl]; rfl

end

end TelProofs
