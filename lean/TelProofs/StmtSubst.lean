/-
`transform_subst` at the level of whole statements.  `ProgramTransformer` rebuilds a statement around its atoms: every other
node of the AST (conditions, aggregates, comparisons, theory atoms' guards) is copied, the atoms are rewritten by
`TermTransformer` one after the other in visit order, each with the flags of its position (head / body, constraint, future
allowed …), the bookkeeping (`future_predicates`, `max_shift`) threaded through.  A statement is therefore modelled by the
sequence of its atom occurrences with their position flags; `addTimeStmt` is the traversal.  Replacing variables before or after
the rewriting gives the same statement, the same bookkeeping and the same rejection — by induction on the sequence from
`addTime_subst`.
-/
import TelProofs.TimeArgSubst

namespace TelProofs
open TelSpec TelModel TelModel.Generated

def AtomOcc.subst (σ : String → String) (o : AtomOcc) : AtomOcc := { o with term := ATerm.substArgs σ o.term }

/-- **rewriting commutes with substitution on whole statements** -/
theorem addTimeStmt_subst (σ : String → String) : ∀ (os : List AtomOcc) (st : TState),
    addTimeStmt (os.map (AtomOcc.subst σ)) st =
      (addTimeStmt os st).map (fun p => (p.1.map (RTerm.substArgs σ), p.2))
  | [], st => by simp [addTimeStmt, py_pure, Except.map]
  | o :: os, st => by
    simp only [List.map_cons, addTimeStmt, AtomOcc.subst]
    rw [addTime_subst o.rf o.ff o.fp σ o.term o.pos st]
    cases h1 : addTime o.rf o.ff o.fp o.pos st o.term with
    | error e => rfl
    | ok p1 =>
      obtain ⟨u, s1⟩ := p1
      simp only [Except.map, ok_bind]
      have ih := addTimeStmt_subst σ os s1
      rw [ih]
      cases h2 : addTimeStmt os s1 with
      | error e => rfl
      | ok p2 => obtain ⟨us, s2⟩ := p2; simp [ok_bind, py_pure, Except.map]

/-- … hence the bookkeeping of a program (the fold over its statements) is the same for a schema and for any instantiation -/
theorem addTimeProg_subst (σ : String → String) : ∀ (ss : List (List AtomOcc)) (st : TState),
    addTimeProg (ss.map (List.map (AtomOcc.subst σ))) st =
      (addTimeProg ss st).map (fun p => (p.1.map (List.map (RTerm.substArgs σ)), p.2))
  | [], st => by simp [addTimeProg, py_pure, Except.map]
  | s :: ss, st => by
    simp only [List.map_cons, addTimeProg]
    rw [addTimeStmt_subst σ s st]
    cases h1 : addTimeStmt s st with
    | error e => rfl
    | ok p1 =>
      obtain ⟨u, s1⟩ := p1
      simp only [Except.map, ok_bind]
      rw [addTimeProg_subst σ ss s1]
      cases h2 : addTimeProg ss s1 with
      | error e => rfl
      | ok p2 => obtain ⟨us, s2⟩ := p2; simp [ok_bind, py_pure, Except.map]

end TelProofs
