/-
`doc_eq_sem` (C03 (a)): for every surface formula of the README table, the code's
construction `createFormula` applied to its fully parenthesised theory term succeeds and the
resulting code-level formula has exactly the documented LTL_f semantics.
-/
import TelModel.BodySem
import TelProofs.Quant
import TelProofs.PyLemmas
import TelProofs.Tseitin

set_option linter.unusedSimpArgs false

namespace TelProofs
open TelSpec TelModel TelModel.Generated

def kwStr : Kw → String
  | .ktrue => "true" | .kfalse => "false" | .kinitial => "initial" | .kfinal => "final"

def binStr : BinOp → String
  | .and => "&" | .or => "|" | .limp => "<-" | .rimp => "->" | .equiv => "<>"

/-- the fully parenthesised theory term of a surface formula -/
def toTerm : SForm → TTerm
  | .atom a => .sym a
  | .kw k => .fn "&" [.sym (kwStr k)]
  | .neg f => .fn "~" [toTerm f]
  | .bin op l r => .fn (binStr op) [toTerm l, toTerm r]
  | .prev n w f => if n = 1 then .fn (if w then "<:" else "<") [toTerm f]
                   else .fn (if w then "<:" else "<") [.num n, toTerm f]
  | .next n w f => if n = 1 then .fn (if w then ">:" else ">") [toTerm f]
                   else .fn (if w then ">:" else ">") [.num n, toTerm f]
  | .since l r => .fn "<?" [toTerm l, toTerm r]
  | .trigger l r => .fn "<*" [toTerm l, toTerm r]
  | .evP r => .fn "<?" [toTerm r]
  | .alP r => .fn "<*" [toTerm r]
  | .unt l r => .fn ">?" [toTerm l, toTerm r]
  | .rel l r => .fn ">*" [toTerm l, toTerm r]
  | .evF r => .fn ">?" [toTerm r]
  | .alF r => .fn ">*" [toTerm r]
  | .initially f => .fn "<<" [toTerm f]
  | .finally_ f => .fn ">>" [toTerm f]
  | .seqPrev w l r => .fn (if w then "<:;" else "<;") [toTerm l, toTerm r]
  | .seqNext w l r => .fn (if w then ";>:" else ";>") [toTerm l, toTerm r]

/-- a propositional user atom: a name the code accepts as an atom and that is not one of the
    two auxiliary state markers -/
def GoodAtom (a : String) : Prop :=
  a ≠ "" ∧ startsWithChar a '\'' = false ∧ endsWithChar a '\'' = false ∧ a ≠ "__initial" ∧ a ≠ "__final"

def GoodAtoms : SForm → Prop
  | .atom a => GoodAtom a
  | .kw _ => True
  | .neg f => GoodAtoms f
  | .bin _ l r => GoodAtoms l ∧ GoodAtoms r
  | .prev _ _ f => GoodAtoms f
  | .next _ _ f => GoodAtoms f
  | .since l r => GoodAtoms l ∧ GoodAtoms r
  | .trigger l r => GoodAtoms l ∧ GoodAtoms r
  | .evP r => GoodAtoms r
  | .alP r => GoodAtoms r
  | .unt l r => GoodAtoms l ∧ GoodAtoms r
  | .rel l r => GoodAtoms l ∧ GoodAtoms r
  | .evF r => GoodAtoms r
  | .alF r => GoodAtoms r
  | .initially f => GoodAtoms f
  | .finally_ f => GoodAtoms f
  | .seqPrev _ l r => GoodAtoms l ∧ GoodAtoms r
  | .seqNext _ l r => GoodAtoms l ∧ GoodAtoms r

/-- the trace as the implementation sees it: user atoms plus `__initial` at 0 and `__final` at h -/
def withAdmin (h : Nat) (tr : Trace) : Trace :=
  fun k a => if a = "__initial" then k == 0 else if a = "__final" then k == h else tr k a

theorem atomKey_prop (a : String) (h : a ≠ "") : atomKey a [] true = a := by
  simp [atomKey, Sym.toStr, h]

/-- what `doc_eq_sem` says about one formula -/
def DocEq (s : SForm) (f : BForm) : Prop :=
  isTel f = true ∧ ∀ (h : Nat) (tr : Trace) (lv : Int → Bool) (k : Nat), k ≤ h →
    f.sem h (withAdmin h tr) lv k = docSem h tr s k

end TelProofs

namespace TelProofs
open TelSpec TelModel TelModel.Generated

theorem tht_since (h : Nat) (W T : Trace) (l r : SForm) (k : Nat) :
    tht h W T (.since l r) k = sinceB (tht h W T l) (tht h W T r) k := by simp [tht, sinceB]
theorem tht_trigger (h : Nat) (W T : Trace) (l r : SForm) (k : Nat) :
    tht h W T (.trigger l r) k = triggerB (tht h W T l) (tht h W T r) k := by simp [tht, triggerB]
theorem tht_evP (h : Nat) (W T : Trace) (r : SForm) (k : Nat) :
    tht h W T (.evP r) k = evPB (tht h W T r) k := by simp [tht, evPB]
theorem tht_alP (h : Nat) (W T : Trace) (r : SForm) (k : Nat) :
    tht h W T (.alP r) k = alPB (tht h W T r) k := by simp [tht, alPB]
theorem tht_unt (h : Nat) (W T : Trace) (l r : SForm) (k : Nat) :
    tht h W T (.unt l r) k = untilB h (tht h W T l) (tht h W T r) k := by simp [tht, untilB]
theorem tht_rel (h : Nat) (W T : Trace) (l r : SForm) (k : Nat) :
    tht h W T (.rel l r) k = releaseB h (tht h W T l) (tht h W T r) k := by simp [tht, releaseB]
theorem tht_evF (h : Nat) (W T : Trace) (r : SForm) (k : Nat) :
    tht h W T (.evF r) k = evFB h (tht h W T r) k := by simp [tht, evFB]
theorem tht_alF (h : Nat) (W T : Trace) (r : SForm) (k : Nat) :
    tht h W T (.alF r) k = alFB h (tht h W T r) k := by simp [tht, alFB]

theorem createOffset_num (n : Nat) : createOffset (.num (n : Int)) = .ok n := by
  simp [createOffset, createNumber]

theorem createOffset_zero : createOffset (.num 0) = .ok 0 := by
  simp [createOffset, createNumber]

theorem binSem_and (a b : Bool) : binSem "&" a b = (a && b) := by simp [binSem]

theorem doc_eq_sem (s : SForm) (hg : GoodAtoms s) : ∃ f, createFormula (toTerm s) = .ok f ∧ DocEq s f := by
  induction s with
  | atom a =>
    obtain ⟨h1, h2, h3, h4, h5⟩ := hg
    refine ⟨.atom a [] true, ?_, rfl, ?_⟩
    · simp [toTerm, createFormula, createAtom, mkAtom, h2, h3]
    · intro h tr lv k _
      simp [BForm.sem, atomKey_prop a h1, withAdmin, h4, h5, docSem, tht]
  | kw k =>
    cases k
    · exact ⟨.const true, by simp [toTerm, kwStr, createFormula, unaryOperators, telOperators, kwName], rfl,
        fun h tr lv k _ => by simp [BForm.sem, docSem, tht]⟩
    · exact ⟨.const false, by simp [toTerm, kwStr, createFormula, unaryOperators, telOperators, kwName], rfl,
        fun h tr lv k _ => by simp [BForm.sem, docSem, tht]⟩
    · exact ⟨.atom "__initial" [] true, by simp [toTerm, kwStr, createFormula, unaryOperators, telOperators, kwName], rfl,
        fun h tr lv k _ => by simp [BForm.sem, atomKey, Sym.toStr, withAdmin, docSem, tht]⟩
    · exact ⟨.atom "__final" [] true, by simp [toTerm, kwStr, createFormula, unaryOperators, telOperators, kwName], rfl,
        fun h tr lv k _ => by simp [BForm.sem, atomKey, Sym.toStr, withAdmin, docSem, tht]⟩
  | neg f ih =>
    obtain ⟨f', hc, ht, hs⟩ := ih hg
    refine ⟨.neg f', by simp [toTerm, createFormula, unaryOperators, hc], ht, ?_⟩
    intro h tr lv k hk
    simp only [BForm.sem, hs h tr lv k hk, docSem, tht]
  | bin op l r ihl ihr =>
    obtain ⟨l', hcl, htl, hsl⟩ := ihl hg.1
    obtain ⟨r', hcr, htr, hsr⟩ := ihr hg.2
    refine ⟨.bin (binStr op) l' r', ?_, by simp [isTel, htl, htr], ?_⟩
    · cases op <;> simp [toTerm, binStr, createFormula, binaryOperators, hcl, hcr]
    · intro h tr lv k hk
      simp only [BForm.sem, hsl h tr lv k hk, hsr h tr lv k hk, docSem]
      cases op <;> simp [binStr, binSem, tht] <;>
        cases tht h tr tr l k <;> cases tht h tr tr r k <;> rfl
  | prev n w f ih =>
    obtain ⟨f', hc, ht, hs⟩ := ih hg
    by_cases hn1 : n = 1
    · subst hn1
      refine ⟨.prev f' 1 w, ?_, ht, ?_⟩
      · cases w <;> simp [toTerm, createFormula, unaryOperators, telOperators, hc]
      · intro h tr lv k hk
        simp only [BForm.sem, docSem, tht]
        split
        · exact hs h tr lv _ (by omega)
        · rfl
    · by_cases hn0 : n = 0
      · subst hn0
        refine ⟨f', ?_, ht, ?_⟩
        · cases w <;> simp [toTerm, createFormula, binaryOperators, telOperators, hc, createOffset_zero]
        · intro h tr lv k hk
          simp [docSem, tht]
          exact hs h tr lv k hk
      · refine ⟨.prev f' n w, ?_, ht, ?_⟩
        · cases w <;> simp [toTerm, hn1, createFormula, binaryOperators, telOperators, hc, createOffset_num, hn0]
        · intro h tr lv k hk
          simp only [BForm.sem, docSem, tht]
          split
          · exact hs h tr lv _ (by omega)
          · rfl
  | next n w f ih =>
    obtain ⟨f', hc, ht, hs⟩ := ih hg
    by_cases hn1 : n = 1
    · subst hn1
      refine ⟨.next f' 1 w, ?_, ht, ?_⟩
      · cases w <;> simp [toTerm, createFormula, unaryOperators, telOperators, hc]
      · intro h tr lv k hk
        simp only [BForm.sem, docSem, tht]
        split
        · exact hs h tr lv _ (by omega)
        · rfl
    · by_cases hn0 : n = 0
      · subst hn0
        refine ⟨f', ?_, ht, ?_⟩
        · cases w <;> simp [toTerm, createFormula, binaryOperators, telOperators, hc, createOffset_zero]
        · intro h tr lv k hk
          simp [docSem, tht, hk]
          exact hs h tr lv k hk
      · refine ⟨.next f' n w, ?_, ht, ?_⟩
        · cases w <;> simp [toTerm, hn1, createFormula, binaryOperators, telOperators, hc, createOffset_num, hn0]
        · intro h tr lv k hk
          simp only [BForm.sem, docSem, tht]
          split
          · exact hs h tr lv _ (by omega)
          · rfl
  | since l r ihl ihr =>
    obtain ⟨l', hcl, htl, hsl⟩ := ihl hg.1
    obtain ⟨r', hcr, htr, hsr⟩ := ihr hg.2
    refine ⟨.telP2 false l' r', by simp [toTerm, createFormula, binaryOperators, telOperators, hcl, hcr],
      by simp [isTel, htl, htr], ?_⟩
    intro h tr lv k hk
    rw [docSem, tht_since, sem_telP2_eq]
    simp only [Bool.false_eq_true, if_false]
    exact sinceB_congr (fun j hj => hsl h tr lv j (by omega)) (fun j hj => hsr h tr lv j (by omega))
  | trigger l r ihl ihr =>
    obtain ⟨l', hcl, htl, hsl⟩ := ihl hg.1
    obtain ⟨r', hcr, htr, hsr⟩ := ihr hg.2
    refine ⟨.telP2 true l' r', by simp [toTerm, createFormula, binaryOperators, telOperators, hcl, hcr],
      by simp [isTel, htl, htr], ?_⟩
    intro h tr lv k hk
    rw [docSem, tht_trigger, sem_telP2_eq]
    simp only [if_true]
    exact triggerB_congr (fun j hj => hsl h tr lv j (by omega)) (fun j hj => hsr h tr lv j (by omega))
  | evP r ihr =>
    obtain ⟨r', hcr, htr, hsr⟩ := ihr hg
    refine ⟨.telP1 false r', by simp [toTerm, createFormula, unaryOperators, telOperators, hcr], htr, ?_⟩
    intro h tr lv k hk
    rw [docSem, tht_evP, sem_telP1_eq]
    simp only [Bool.false_eq_true, if_false]
    exact evPB_congr (fun j hj => hsr h tr lv j (by omega))
  | alP r ihr =>
    obtain ⟨r', hcr, htr, hsr⟩ := ihr hg
    refine ⟨.telP1 true r', by simp [toTerm, createFormula, unaryOperators, telOperators, hcr], htr, ?_⟩
    intro h tr lv k hk
    rw [docSem, tht_alP, sem_telP1_eq]
    simp only [if_true]
    exact alPB_congr (fun j hj => hsr h tr lv j (by omega))
  | unt l r ihl ihr =>
    obtain ⟨l', hcl, htl, hsl⟩ := ihl hg.1
    obtain ⟨r', hcr, htr, hsr⟩ := ihr hg.2
    refine ⟨.telN2 false l' r', by simp [toTerm, createFormula, binaryOperators, telOperators, hcl, hcr],
      by simp [isTel, htl, htr], ?_⟩
    intro h tr lv k hk
    rw [docSem, tht_unt, sem_telN2_eq]
    simp only [Bool.false_eq_true, if_false]
    exact untilB_congr (fun j hj => hsl h tr lv j hj) (fun j hj => hsr h tr lv j hj)
  | rel l r ihl ihr =>
    obtain ⟨l', hcl, htl, hsl⟩ := ihl hg.1
    obtain ⟨r', hcr, htr, hsr⟩ := ihr hg.2
    refine ⟨.telN2 true l' r', by simp [toTerm, createFormula, binaryOperators, telOperators, hcl, hcr],
      by simp [isTel, htl, htr], ?_⟩
    intro h tr lv k hk
    rw [docSem, tht_rel, sem_telN2_eq]
    simp only [if_true]
    exact releaseB_congr (fun j hj => hsl h tr lv j hj) (fun j hj => hsr h tr lv j hj)
  | evF r ihr =>
    obtain ⟨r', hcr, htr, hsr⟩ := ihr hg
    refine ⟨.telN1 false r', by simp [toTerm, createFormula, unaryOperators, telOperators, hcr], htr, ?_⟩
    intro h tr lv k hk
    rw [docSem, tht_evF, sem_telN1_eq]
    simp only [Bool.false_eq_true, if_false]
    exact evFB_congr (fun j hj => hsr h tr lv j hj)
  | alF r ihr =>
    obtain ⟨r', hcr, htr, hsr⟩ := ihr hg
    refine ⟨.telN1 true r', by simp [toTerm, createFormula, unaryOperators, telOperators, hcr], htr, ?_⟩
    intro h tr lv k hk
    rw [docSem, tht_alF, sem_telN1_eq]
    simp only [if_true]
    exact alFB_congr (fun j hj => hsr h tr lv j hj)
  | initially f ih =>
    obtain ⟨f', hc, ht, hs⟩ := ih hg
    refine ⟨.initially f', by simp [toTerm, createFormula, unaryOperators, telOperators, hc], ht, ?_⟩
    intro h tr lv k hk
    simp only [BForm.sem, docSem, tht]
    exact hs h tr lv 0 (by omega)
  | finally_ f ih =>
    obtain ⟨f', hc, ht, hs⟩ := ih hg
    refine ⟨.telN1 true (.bin "|" (.neg (.atom "__final" [] true)) f'),
      by simp [toTerm, createFormula, unaryOperators, telOperators, hc], by simp [isTel, ht], ?_⟩
    intro h tr lv k hk
    rw [sem_telN1_eq]
    simp only [if_true, docSem, tht]
    have : ∀ j, j ≤ h → (BForm.bin "|" (.neg (.atom "__final" [] true)) f').sem h (withAdmin h tr) lv j
        = (fun j => !(j == h) || tht h tr tr f j) j := by
      intro j hj
      simp [BForm.sem, binSem, atomKey, Sym.toStr, withAdmin]
      rw [hs h tr lv j hj, docSem]
    rw [alFB_congr this, alFB_final h _ k hk]
  | seqPrev w l r ihl ihr =>
    obtain ⟨l', hcl, htl, hsl⟩ := ihl hg.1
    obtain ⟨r', hcr, htr, hsr⟩ := ihr hg.2
    refine ⟨.bin "&" (.prev l' 1 w) r', ?_, by simp [isTel, htl, htr], ?_⟩
    · cases w <;> simp [toTerm, createFormula, binaryOperators, telOperators, hcl, hcr]
    · intro h tr lv k hk
      simp only [BForm.sem, binSem_and, docSem, tht, hsr h tr lv k hk]
      split
      · rw [hsl h tr lv _ (by omega)]; rfl
      · rfl
  | seqNext w l r ihl ihr =>
    obtain ⟨l', hcl, htl, hsl⟩ := ihl hg.1
    obtain ⟨r', hcr, htr, hsr⟩ := ihr hg.2
    refine ⟨.bin "&" l' (.next r' 1 w), ?_, by simp [isTel, htl, htr], ?_⟩
    · cases w <;> simp [toTerm, createFormula, binaryOperators, telOperators, hcl, hcr]
    · intro h tr lv k hk
      simp only [BForm.sem, binSem_and, docSem, tht, hsl h tr lv k hk]
      split
      · rw [hsr h tr lv _ (by omega)]; rfl
      · rfl

end TelProofs
