/-
C04 (b), (c): shifting a head formula to a later step and distributing it into clauses preserve its
temporal here-and-there meaning.

`hsem` is THT satisfaction of code-level head formulas; a `TelShift n x` is read *plainly* here (as "x, n
states from now", strong), i.e. without the double negation the translation gives it.  That the double
negation is admissible for the parts of a formula that lie at other time points is the time-stratified
shifting lemma (`TelProofs/Meta/Shift.lean`).
-/
import TelModel.Head
import TelProofs.Quant

set_option linter.unusedSimpArgs false

namespace TelProofs
open TelSpec TelModel

/-- THT satisfaction of a code-level head formula at position `k` in the world `W` of `(W, T)` -/
def hsem (h : Nat) (W T : Trace) : HForm → Nat → Bool
  | .atom p n a, k => W k (atomKey n a p)
  | .next n f w, k => if k + n ≤ h then hsem h W T f (k + n) else w
  | .until2 l r true, k => untilB h (hsem h W T l) (hsem h W T r) k
  | .until2 l r false, k => releaseB h (hsem h W T l) (hsem h W T r) k
  | .until1 r true, k => evFB h (hsem h W T r) k
  | .until1 r false, k => alFB h (hsem h W T r) k
  | .clause2 l r true, k => hsem h W T l k && hsem h W T r k
  | .clause2 l r false, k => hsem h W T l k || hsem h W T r k
  | .neg f, k => !(hsem h T T f k)
  | .const b, _ => b
  | .shift n f, k =>
      if 0 ≤ n then (if k + n.toNat ≤ h then hsem h W T f (k + n.toNat) else false)
      else (if (-n).toNat ≤ k then hsem h W T f (k - (-n).toNat) else false)

theorem hsem_clause (h W T) (l r : HForm) (c : Bool) (k : Nat) :
    hsem h W T (.clause2 l r c) k = if c then hsem h W T l k && hsem h W T r k else hsem h W T l k || hsem h W T r k := by
  cases c <;> rfl

theorem hsem_shift_back (h W T) (s : Nat) (f : HForm) (k : Nat) (hk : k + s ≤ h) :
    hsem h W T (.shift (-(s : Int)) f) (k + s) = hsem h W T f k := by
  simp only [hsem]
  by_cases hs : s = 0
  · subst hs; simp at hk ⊢; simp [hk]
  · have hneg : ¬ (0 ≤ -(s : Int)) := by omega
    simp only [hneg, if_false, Int.neg_neg, Int.toNat_natCast]
    have : s ≤ k + s := by omega
    simp [this]

theorem hsem_shift_zero (h W T) (f : HForm) (k : Nat) (hk : k ≤ h) :
    hsem h W T (.shift 0 f) k = hsem h W T f k := by
  simp [hsem, hk]

/-- formulas as `create_formula` builds them: no `TelShift` inside -/
def noShift : HForm → Bool
  | .atom _ _ _ => true
  | .next _ f _ => noShift f
  | .until2 l r _ => noShift l && noShift r
  | .until1 r _ => noShift r
  | .clause2 l r _ => noShift l && noShift r
  | .neg f => noShift f
  | .const _ => true
  | .shift _ _ => false

theorem hsem_until2 (h W T) (l r : HForm) (u : Bool) (k : Nat) :
    hsem h W T (.until2 l r u) k =
      if u then untilB h (hsem h W T l) (hsem h W T r) k else releaseB h (hsem h W T l) (hsem h W T r) k := by
  cases u <;> rfl

theorem hsem_until1 (h W T) (r : HForm) (u : Bool) (k : Nat) :
    hsem h W T (.until1 r u) k = if u then evFB h (hsem h W T r) k else alFB h (hsem h W T r) k := by
  cases u <;> rfl

/-- **unshift**: the formula shifted by `d` steps, evaluated `d` states later, means what the formula
    means now — in every world of every THT interpretation, for every nesting; the recursion
    `until → next → shift` of the code terminates (lexicographic in shift and size). -/
theorem unshift_equiv (h : Nat) (W T : Trace) :
    ∀ (d : Nat) (f : HForm) (k : Nat), k + d ≤ h → noShift f = true →
      hsem h W T (shiftF d f) (k + d) = hsem h W T f k := by
  intro d
  induction d using Nat.strongRecOn with
  | _ d ihd =>
    intro f
    induction f with
    | atom p n a =>
      intro k hk _
      unfold shiftF
      by_cases hd : d = 0
      · subst hd; simp
      · simp only [hd, if_false]; exact hsem_shift_back h W T d _ k hk
    | next n f w ihf =>
      intro k hk hn
      simp only [noShift] at hn
      unfold shiftF
      by_cases hnd : n ≤ d
      · simp only [hnd, if_true]
        have hkn : k + n ≤ h := by omega
        have e : k + d = (k + n) + (d - n) := by omega
        rw [e]
        by_cases hn0 : n = 0
        · subst hn0
          simp only [Nat.sub_zero, Nat.add_zero] at e ⊢
          rw [ihf k hk hn]
          simp [hsem]; omega
        · rw [ihd (d - n) (by omega) f (k + n) (by omega) hn]
          simp [hsem, hkn]
      · simp only [hnd, if_false]
        rw [hsem_shift_zero h W T _ _ hk]
        simp only [hsem]
        have : k + d + (n - d) = k + n := by omega
        rw [this]
    | until2 l r u ihl ihr =>
      intro k hk hn
      simp only [noShift, Bool.and_eq_true] at hn
      have hkh : k ≤ h := by omega
      unfold shiftF
      simp only [hsem_clause, ihl k hk hn.1, ihr k hk hn.2]
      cases d with
      | zero =>
        simp only [Nat.add_zero] at hk ⊢
        rw [hsem_shift_zero h W T _ _ hk, hsem_until2]
        cases u
        · simp only [Bool.false_eq_true, if_false, Bool.not_false, if_true, hsem, hsem_until2]
          rw [releaseB_unfold h _ _ k hkh]
        · simp only [if_true, Bool.not_true, Bool.false_eq_true, if_false, hsem, hsem_until2]
          rw [untilB_unfold h _ _ k hkh]
      | succ d' =>
        have e : k + (d' + 1) = (k + 1) + d' := by omega
        have hk1 : k + 1 ≤ h := by omega
        simp only []
        rw [e, ihd d' (by omega) (.until2 l r u) (k + 1) (by omega) (by simp [noShift, hn.1, hn.2]), hsem_until2, hsem_until2]
        cases u
        · simp only [Bool.false_eq_true, if_false, Bool.not_false, if_true]
          rw [releaseB_unfold h _ _ k hkh]; simp [hk1]
        · simp only [if_true, Bool.not_true, Bool.false_eq_true, if_false]
          rw [untilB_unfold h _ _ k hkh]; simp [hk1]
    | until1 r u ihr =>
      intro k hk hn
      simp only [noShift] at hn
      have hkh : k ≤ h := by omega
      unfold shiftF
      simp only [hsem_clause, ihr k hk hn]
      cases d with
      | zero =>
        simp only [Nat.add_zero] at hk ⊢
        rw [hsem_shift_zero h W T _ _ hk, hsem_until1]
        cases u
        · simp only [Bool.false_eq_true, if_false, Bool.not_false, if_true, hsem, hsem_until1]
          rw [alFB_unfold h _ k hkh]
        · simp only [if_true, Bool.not_true, Bool.false_eq_true, if_false, hsem, hsem_until1]
          rw [evFB_unfold h _ k hkh]
      | succ d' =>
        have e : k + (d' + 1) = (k + 1) + d' := by omega
        have hk1 : k + 1 ≤ h := by omega
        simp only []
        rw [e, ihd d' (by omega) (.until1 r u) (k + 1) (by omega) (by simp [noShift, hn]), hsem_until1, hsem_until1]
        cases u
        · simp only [Bool.false_eq_true, if_false, Bool.not_false, if_true]
          rw [alFB_unfold h _ k hkh]; simp [hk1]
        · simp only [if_true, Bool.not_true, Bool.false_eq_true, if_false]
          rw [evFB_unfold h _ k hkh]; simp [hk1]
    | clause2 l r c ihl ihr =>
      intro k hk hn
      simp only [noShift, Bool.and_eq_true] at hn
      unfold shiftF
      simp only [hsem_clause, ihl k hk hn.1, ihr k hk hn.2]
    | neg f _ =>
      intro k hk _
      unfold shiftF
      exact hsem_shift_back h W T d _ k hk
    | const b =>
      intro k hk _
      unfold shiftF
      exact hsem_shift_back h W T d _ k hk
    | shift n f _ => intro k _ hn; simp [noShift] at hn

/-- **unfold**: the clause list is the conjunctive normal form of a shifted formula -/
theorem unfold_cnf (h : Nat) (W T : Trace) (k : Nat) :
    ∀ f : HForm, (unfoldF f).all (fun c => c.any fun x => hsem h W T x k) = hsem h W T f k := by
  intro f
  induction f with
  | clause2 l r c ihl ihr =>
    cases c
    · -- disjunction: product of the clause lists
      simp only [unfoldF, hsem_clause, Bool.false_eq_true, if_false, ← ihl, ← ihr]
      apply bool_eq_of_iff
      simp only [List.all_eq_true, List.mem_flatMap, List.mem_map, Bool.or_eq_true, List.any_eq_true]
      constructor
      · intro hall
        by_cases hL : ∀ c ∈ unfoldF l, ∃ x ∈ c, hsem h W T x k = true
        · exact Or.inl hL
        · right
          intro d hd
          apply Classical.byContradiction
          intro hnd
          apply hL
          intro c hc
          obtain ⟨x, hx, hxt⟩ := hall (c ++ d) ⟨c, hc, d, hd, rfl⟩
          rcases List.mem_append.mp hx with hx | hx
          · exact ⟨x, hx, hxt⟩
          · exact absurd ⟨x, hx, hxt⟩ hnd
      · rintro (hL | hR) e ⟨c, hc, d, hd, rfl⟩
        · obtain ⟨x, hx, hxt⟩ := hL c hc
          exact ⟨x, List.mem_append_left _ hx, hxt⟩
        · obtain ⟨x, hx, hxt⟩ := hR d hd
          exact ⟨x, List.mem_append_right _ hx, hxt⟩
    · simp only [unfoldF, hsem_clause, if_true, List.all_append, ihl, ihr]
  | atom p n a => simp [unfoldF]
  | next n f w _ => simp [unfoldF]
  | until2 l r u _ _ => simp [unfoldF]
  | until1 r u _ => simp [unfoldF]
  | neg f _ => simp [unfoldF]
  | const b => simp [unfoldF]
  | shift n f _ => simp [unfoldF]

end TelProofs
