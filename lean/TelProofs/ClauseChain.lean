/-
The clause level joined with the conservativity theorem, for every kind of definition the body translation writes and
for chains of them:

* a *clause definition* is a fresh atom `v` with its choice rule and a group of integrity constraints that hold exactly
  when `v` has a value computed from the other atoms (`ClauseDef.WF`);
* one such definition is a conservative extension (`single_conservative`);
* conservative extensions compose (`Conservative.trans`), hence so is every chain of definitions in which each fresh
  atom is new to the program and to the definitions before it (`chain_conservative`) — later definitions may use the
  fresh atoms of earlier ones, as the Tseitin literals of sub-formulas are used by their super-formulas;
* the three groups of `theory/body.py` / `formula.py` are clause definitions: a Boolean connective (`boolDef`), a
  temporal induction step (`telDef`) and an equivalence (`eqDef`), over arbitrary (also negative) operand literals.
-/
import TelProofs.ClauseDefExt

set_option linter.unusedVariables false
set_option linter.unusedSimpArgs false

namespace TelProofs
open TelModel

/-- cutting is a bijection between the stable models of `P ++ E` and those of `P` -/
def Conservative (P E : List (DefExt.Rule Nat)) (N : Nat → Bool) : Prop :=
  (∀ X, DefExt.Stable (P ++ E) X → DefExt.Stable P (DefExt.cut N X)) ∧
  (∀ X0, DefExt.Stable P X0 → ∃ X, DefExt.Stable (P ++ E) X ∧ (∀ a, N a = false → X a = X0 a)) ∧
  (∀ X X', DefExt.Stable (P ++ E) X → DefExt.Stable (P ++ E) X' → (∀ a, N a = false → X a = X' a) → ∀ a, X a = X' a)

theorem Conservative.nil (P : List (DefExt.Rule Nat)) : Conservative P [] (fun _ => false) := by
  refine ⟨?_, ?_, ?_⟩
  · intro X hs
    have : DefExt.cut (fun _ => false) X = X := by funext a; simp [DefExt.cut]
    rw [this]; simpa using hs
  · intro X0 hs; exact ⟨X0, by simpa using hs, fun _ _ => rfl⟩
  · intro X X' _ _ hag a; exact hag a rfl

/-- conservative extensions compose -/
theorem Conservative.trans {P E1 E2 : List (DefExt.Rule Nat)} {N1 N2 : Nat → Bool}
    (h1 : Conservative P E1 N1) (h2 : Conservative (P ++ E1) E2 N2) :
    Conservative P (E1 ++ E2) (fun a => N1 a || N2 a) := by
  obtain ⟨c1, e1, u1⟩ := h1
  obtain ⟨c2, e2, u2⟩ := h2
  have hcut : ∀ X, DefExt.cut N1 (DefExt.cut N2 X) = DefExt.cut (fun a => N1 a || N2 a) X := by
    intro X; funext a; simp only [DefExt.cut]; cases X a <;> cases N1 a <;> cases N2 a <;> rfl
  refine ⟨?_, ?_, ?_⟩
  · intro X hs
    rw [← List.append_assoc] at hs
    rw [← hcut]; exact c1 _ (c2 X hs)
  · intro X0 hs
    obtain ⟨X1, hs1, hag1⟩ := e1 X0 hs
    obtain ⟨X2, hs2, hag2⟩ := e2 X1 hs1
    refine ⟨X2, by rw [← List.append_assoc]; exact hs2, ?_⟩
    intro a ha
    have ha1 : N1 a = false := by cases h : N1 a <;> simp_all
    have ha2 : N2 a = false := by cases h : N2 a <;> simp_all
    rw [hag2 a ha2, hag1 a ha1]
  · intro X X' hs hs' hag
    rw [← List.append_assoc] at hs hs'
    have hc := c2 X hs
    have hc' := c2 X' hs'
    have hcutag : ∀ a, N1 a = false → DefExt.cut N2 X a = DefExt.cut N2 X' a := by
      intro a ha
      simp only [DefExt.cut]
      cases h2 : N2 a
      · rw [hag a (by simp [ha, h2])]
      · simp
    have hall := u1 _ _ hc hc' hcutag
    apply u2 X X' hs hs'
    intro a ha
    have := hall a
    simpa [DefExt.cut, ha] using this

/-! ### one clause definition -/

/-- how the fresh atom is introduced: as a free atom (a choice, or an external set free) that the constraints determine, or
    as an external with a fixed truth value (the placeholder of a `>` whose target lies beyond the horizon: true for the weak
    operator, false for the strong one) -/
inductive DefKind where
  | free
  | fixed (b : Bool)
  deriving Repr, DecidableEq

/-- a fresh atom `v`, the integrity constraints written for it and the value they force on it -/
structure ClauseDef where
  v : Nat
  cs : List Clause
  f : (Nat → Bool) → Bool
  kind : DefKind := .free

/-- what the solver holds: the choice on `v` and the constraints; for a fixed external a fact or nothing -/
def ClauseDef.rules (d : ClauseDef) : List (DefExt.Rule Nat) :=
  match d.kind with
  | .free => { head := [d.v], choice := true } :: d.cs.map clauseRule
  | .fixed true => [{ head := [d.v] }]
  | .fixed false => []

/-- the constraints hold exactly when `v` has the value `f`, which does not look at `v` itself; a fixed external has no
    constraints and its value is the constant -/
def ClauseDef.WF (d : ClauseDef) : Prop :=
  0 < d.v ∧ (∀ Y Y' : Nat → Bool, (∀ x, x ≠ d.v → Y x = Y' x) → d.f Y = d.f Y') ∧
  match d.kind with
  | .free => ∀ Y : Nat → Bool, clausesOk Y d.cs = (Y d.v == d.f Y)
  | .fixed b => d.cs = [] ∧ d.f = fun _ => b

theorem ClauseDef.rules_shape (d : ClauseDef) : ∀ r ∈ d.rules, DefExt.EShape (fun n => n == d.v) r := by
  intro r hr
  unfold ClauseDef.rules at hr
  cases hk : d.kind with
  | free =>
    rw [hk] at hr
    simp only [List.mem_cons, List.mem_map] at hr
    rcases hr with rfl | ⟨c, _, rfl⟩
    · exact Or.inl ⟨rfl, rfl, rfl, rfl, by simp⟩
    · exact Or.inr (Or.inl ⟨rfl, rfl⟩)
  | fixed b =>
    rw [hk] at hr
    cases b with
    | false => simp at hr
    | true =>
      simp only [List.mem_singleton] at hr
      subst hr
      exact Or.inr (Or.inr ⟨rfl, rfl, d.v, rfl, by simp⟩)

theorem single_conservative (P : List (DefExt.Rule Nat)) (d : ClauseDef) (hwf : d.WF)
    (hP : ∀ r ∈ P, ∀ x ∈ r.atoms, (x == d.v) = false) :
    Conservative P d.rules (fun n => n == d.v) := by
  obtain ⟨hv, hf, hcs⟩ := hwf
  have hE := d.rules_shape
  cases hk : d.kind with
  | free =>
    rw [hk] at hcs
    have hrules : d.rules = { head := [d.v], choice := true } :: d.cs.map clauseRule := by
      unfold ClauseDef.rules; rw [hk]
    apply DefExt.conservative P _ _ hP hE
    apply DefExt.det_of_function P _ _ hP hE (fun Y _ => d.f Y)
    · intro Y Y' hag n
      exact hf Y Y' (fun x hx => hag x (by simpa using hx))
    · intro Y
      constructor
      · intro hsat n hn
        have hnv : n = d.v := by simpa using hn
        subst hnv
        have hall : clausesOk Y d.cs = true := by
          simp only [clausesOk, List.all_eq_true]
          intro c hc
          rw [← clauseRule_sat]
          exact hsat _ (by rw [hrules]; simp only [List.mem_cons, List.mem_map]; exact Or.inr ⟨c, hc, rfl⟩)
        rw [hcs] at hall
        exact beq_iff_eq.mp hall
      · intro hval r hr
        rw [hrules] at hr
        simp only [List.mem_cons, List.mem_map] at hr
        rcases hr with rfl | ⟨c, hc, rfl⟩
        · simp [DefExt.Rule.sat, DefExt.Rule.bodyHolds, DefExt.Rule.headHolds]
        · rw [clauseRule_sat]
          have hall : clausesOk Y d.cs = true := by
            rw [hcs, hval d.v (by simp)]; simp
          exact List.all_eq_true.mp hall c hc
    · intro n hn
      have hnv : n = d.v := by simpa using hn
      subst hnv
      exact ⟨{ head := [d.v], choice := true }, by rw [hrules]; simp, by simp, rfl, rfl, rfl⟩
  | fixed b =>
    cases b with
    | true =>
      have hrules : d.rules = [{ head := [d.v] }] := by unfold ClauseDef.rules; rw [hk]
      apply DefExt.conservative P _ _ hP hE
      apply DefExt.det_of_function P _ _ hP hE (fun _ _ => true)
      · intro _ _ _ _; rfl
      · intro Y
        rw [hrules]
        constructor
        · intro hsat n hn
          have hnv : n = d.v := by simpa using hn
          subst hnv
          have := hsat { head := [d.v] } (by simp)
          simpa [DefExt.Rule.sat, DefExt.Rule.bodyHolds, DefExt.Rule.headHolds] using this
        · intro hval r hr
          simp only [List.mem_singleton] at hr
          subst hr
          have := hval d.v (by simp)
          simp [DefExt.Rule.sat, DefExt.Rule.bodyHolds, DefExt.Rule.headHolds, this]
      · intro n hn
        have hnv : n = d.v := by simpa using hn
        subst hnv
        exact ⟨{ head := [d.v] }, by rw [hrules]; simp, by simp, rfl, rfl, rfl⟩
    | false =>
      -- nothing is added: an atom that no rule of `P` mentions is false in every stable model of `P`
      have hrules : d.rules = [] := by unfold ClauseDef.rules; rw [hk]
      rw [hrules]
      have hfalse : ∀ X, DefExt.Stable P X → X d.v = false := by
        intro X hs
        cases hx : X d.v with
        | false => rfl
        | true =>
          obtain ⟨r, hr, hmem, _⟩ := DefExt.stable_supported hs d.v hx
          have := hP r hr d.v (by simp [DefExt.Rule.atoms, hmem])
          simp at this
      refine ⟨?_, ?_, ?_⟩
      · intro X hs
        have hs' : DefExt.Stable P X := by simpa using hs
        have : DefExt.cut (fun n => n == d.v) X = X := by
          funext a
          simp only [DefExt.cut]
          by_cases ha : a = d.v
          · subst ha; simp [hfalse X hs']
          · simp [ha]
        rw [this]; exact hs'
      · intro X0 hs; exact ⟨X0, by simpa using hs, fun _ _ => rfl⟩
      · intro X X' hs hs' hag a
        have h1 : DefExt.Stable P X := by simpa using hs
        have h2 : DefExt.Stable P X' := by simpa using hs'
        by_cases ha : a = d.v
        · subst ha; rw [hfalse X h1, hfalse X' h2]
        · exact hag a (by simpa using ha)

/-! ### chains -/

def chainRules (ds : List ClauseDef) : List (DefExt.Rule Nat) := ds.flatMap ClauseDef.rules

/-- the atoms a clause mentions -/
theorem clauseRule_atoms (c : Clause) (x : Nat) (hx : x ∈ (clauseRule c).atoms) : ∃ l ∈ c, l.natAbs = x := by
  simp only [DefExt.Rule.atoms, clauseRule, List.nil_append, List.append_nil, List.mem_append, List.mem_map, List.mem_filter] at hx
  rcases hx with ⟨l, ⟨hl, hpos⟩, rfl⟩ | ⟨l, ⟨hl, hneg⟩, rfl⟩
  · have h : l > 0 := by simpa using hpos
    exact ⟨l, hl, by omega⟩
  · have h : ¬ l > 0 := by simpa using hneg
    exact ⟨l, hl, by omega⟩

/-- `d'` is new to `d`: its atom is neither `d`'s atom nor used in `d`'s constraints -/
def ClauseDef.NewTo (d d' : ClauseDef) : Prop := d'.v ≠ d.v ∧ ∀ c ∈ d.cs, ∀ l ∈ c, l.natAbs ≠ d'.v

theorem rules_fresh (d d' : ClauseDef) (h : d.NewTo d') : ∀ r ∈ d.rules, ∀ x ∈ r.atoms, (x == d'.v) = false := by
  intro r hr x hx
  have hvne : (d.v == d'.v) = false := by simpa using fun e => h.1 e.symm
  unfold ClauseDef.rules at hr
  cases hk : d.kind with
  | free =>
    rw [hk] at hr
    simp only [List.mem_cons, List.mem_map] at hr
    rcases hr with rfl | ⟨c, hc, rfl⟩
    · simp only [DefExt.Rule.atoms, List.append_nil, List.mem_singleton] at hx
      subst hx; exact hvne
    · obtain ⟨l, hl, rfl⟩ := clauseRule_atoms c x hx
      simpa using h.2 c hc l hl
  | fixed b =>
    rw [hk] at hr
    cases b with
    | false => simp at hr
    | true =>
      simp only [List.mem_singleton] at hr
      subst hr
      simp only [DefExt.Rule.atoms, List.append_nil, List.mem_singleton] at hx
      subst hx; exact hvne

/-- **chains of clause definitions are conservative**: every fresh atom new to the program and to the definitions
    before it; later definitions may mention earlier fresh atoms -/
theorem chain_conservative (ds : List ClauseDef) :
    ∀ (P : List (DefExt.Rule Nat)), (∀ d ∈ ds, d.WF) →
      (∀ d ∈ ds, ∀ r ∈ P, ∀ x ∈ r.atoms, (x == d.v) = false) →
      ds.Pairwise ClauseDef.NewTo →
      Conservative P (chainRules ds) (fun n => ds.any (fun d => n == d.v)) := by
  induction ds with
  | nil => intro P _ _ _; exact Conservative.nil P
  | cons d ds ih =>
    intro P hwf hP hpw
    have h1 := single_conservative P d (hwf d (by simp)) (hP d (by simp))
    rw [List.pairwise_cons] at hpw
    have h2 := ih (P ++ d.rules) (fun d' hd' => hwf d' (by simp [hd']))
      (by
        intro d' hd' r hr x hx
        rcases List.mem_append.mp hr with hrP | hrd
        · exact hP d' (by simp [hd']) r hrP x hx
        · exact rules_fresh d d' (hpw.1 d' hd') r hrd x hx)
      hpw.2
    have := Conservative.trans h1 h2
    simpa [chainRules, List.flatMap_cons, List.any_cons] using this

/-! ### the three groups of the body translation -/

theorem litTrue_congr (Y Y' : Nat → Bool) (l : Int) (h : Y l.natAbs = Y' l.natAbs) : litTrue Y l = litTrue Y' l := by
  unfold litTrue
  by_cases hl : l > 0
  · have : l.toNat = l.natAbs := by omega
    rw [if_pos hl, if_pos hl, this, h]
  · have : (-l).toNat = l.natAbs := by omega
    rw [if_neg hl, if_neg hl, this, h]

theorem litTrue_nat (Y : Nat → Bool) (n : Nat) (hn : 0 < n) : litTrue Y (n : Int) = Y n := by
  have h1 : (n : Int) > 0 := by omega
  unfold litTrue
  rw [if_pos h1, Int.toNat_natCast]

/-- `BooleanFormula.do_translate`: the literal `v` of `a op b` for operand literals `a`, `b` -/
def boolDef (op : String) (v : Nat) (a b : Int) : ClauseDef :=
  { v := v, cs := boolClauses op (v : Int) a b, f := fun Y => boolVal op (litTrue Y a) (litTrue Y b) }

theorem boolDef_wf (op : String) (v : Nat) (a b : Int) (hv : 0 < v) (ha : a ≠ 0) (hb : b ≠ 0)
    (hva : a.natAbs ≠ v) (hvb : b.natAbs ≠ v)
    (hop : op = "&" ∨ op = "|" ∨ op = "<-" ∨ op = "->" ∨ op = "<>") : (boolDef op v a b).WF := by
  refine ⟨hv, ?_, ?_⟩
  · intro Y Y' hag
    simp only [boolDef]
    rw [litTrue_congr Y Y' a (hag _ hva), litTrue_congr Y Y' b (hag _ hvb)]
  · intro Y
    simp only [boolDef]
    show clausesOk Y (boolClauses op (v : Int) a b) = _
    rw [boolClauses_ok Y op (v : Int) a b (by omega) ha hb hop, litTrue_nat Y v hv]

/-- `TelFormula._translate`: the literal `v` of one induction step -/
def telDef (dual : Bool) (v : Nat) (lhs : Option Int) (rhs pre : Int) : ClauseDef :=
  { v := v, cs := telClauses dual (v : Int) lhs rhs pre,
    f := fun Y => telVal dual (lhs.map (litTrue Y)) (litTrue Y rhs) (litTrue Y pre) }

theorem telDef_wf (dual : Bool) (v : Nat) (lhs : Option Int) (rhs pre : Int) (hv : 0 < v)
    (hl : ∀ l, lhs = some l → l ≠ 0 ∧ l.natAbs ≠ v) (hr : rhs ≠ 0) (hp : pre ≠ 0)
    (hvr : rhs.natAbs ≠ v) (hvp : pre.natAbs ≠ v) : (telDef dual v lhs rhs pre).WF := by
  refine ⟨hv, ?_, ?_⟩
  · intro Y Y' hag
    simp only [telDef]
    rw [litTrue_congr Y Y' rhs (hag _ hvr), litTrue_congr Y Y' pre (hag _ hvp)]
    cases lhs with
    | none => rfl
    | some l => simp only [Option.map_some]; rw [litTrue_congr Y Y' l (hag _ (hl l rfl).2)]
  · intro Y
    simp only [telDef]
    show clausesOk Y (telClauses dual (v : Int) lhs rhs pre) = _
    rw [telClauses_ok Y dual (v : Int) lhs rhs pre (by omega) (fun l h => (hl l h).1) hr hp, litTrue_nat Y v hv]

/-- `make_equal`: the atom `v` (a theory atom of a rule body, free in the ground program) made equivalent to literal `b` -/
def eqDef (v : Nat) (b : Int) : ClauseDef :=
  { v := v, cs := makeEqual (v : Int) b, f := fun Y => litTrue Y b }

theorem eqDef_wf (v : Nat) (b : Int) (hv : 0 < v) (hb : b ≠ 0) (hvb : b.natAbs ≠ v) : (eqDef v b).WF := by
  refine ⟨hv, ?_, ?_⟩
  · intro Y Y' hag
    simp only [eqDef]
    rw [litTrue_congr Y Y' b (hag _ hvb)]
  · intro Y
    simp only [eqDef]
    show clausesOk Y (makeEqual (v : Int) b) = _
    rw [makeEqual_ok Y (v : Int) b (by omega) hb, litTrue_nat Y v hv]

/-- `Next.do_translate` beyond the horizon: the placeholder is an external with the truth value of the weak / strong
    operator at the end of the trace -/
def placeholderDef (v : Nat) (weak : Bool) : ClauseDef :=
  { v := v, cs := [], f := fun _ => weak, kind := .fixed weak }

theorem placeholderDef_wf (v : Nat) (weak : Bool) (hv : 0 < v) : (placeholderDef v weak).WF :=
  ⟨hv, fun _ _ _ => rfl, rfl, rfl⟩

/-! ### non-vacuity: `{a}.` then `v2 := a | ¬a`, the placeholder `5` of a weak next beyond the horizon, `v3 := v2 & 5`,
    theory atom `4 ≡ v3` -/

def exChain : List ClauseDef := [boolDef "|" 2 1 (-1), placeholderDef 5 true, boolDef "&" 3 2 5, eqDef 4 3]

theorem exChain_conservative :
    Conservative [{ head := [1], choice := true }] (chainRules exChain) (fun n => exChain.any (fun d => n == d.v)) := by
  apply chain_conservative
  · intro d hd
    simp only [exChain, List.mem_cons, List.not_mem_nil, or_false] at hd
    rcases hd with rfl | rfl | rfl | rfl
    · exact boolDef_wf _ _ _ _ (by decide) (by decide) (by decide) (by decide) (by decide) (by simp)
    · exact placeholderDef_wf _ _ (by decide)
    · exact boolDef_wf _ _ _ _ (by decide) (by decide) (by decide) (by decide) (by decide) (by simp)
    · exact eqDef_wf _ _ (by decide) (by decide) (by decide)
  · intro d hd r hr x hx
    simp only [List.mem_singleton] at hr
    subst hr
    simp only [DefExt.Rule.atoms, List.append_nil, List.mem_singleton] at hx
    subst hx
    simp only [exChain, List.mem_cons, List.not_mem_nil, or_false] at hd
    rcases hd with rfl | rfl | rfl | rfl <;> decide
  · simp only [exChain, List.pairwise_cons, List.mem_cons, List.not_mem_nil, or_false, forall_eq_or_imp, forall_eq,
      List.Pairwise.nil, and_true, false_imp_iff, implies_true]
    refine ⟨⟨?_, ?_, ?_⟩, ⟨?_, ?_⟩, ?_⟩ <;> (unfold ClauseDef.NewTo; decide)

end TelProofs
