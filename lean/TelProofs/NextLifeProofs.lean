/-
The life of a next formula's placeholder across the horizons of a run: pending — with the end-of-trace value of the operator,
queued under its own step — exactly while the target state does not exist, resolved in the call in which the horizon reaches the
target, untouched afterwards.
-/
import TelModel.NextLife

namespace TelProofs
open TelModel

/-- the target exists when the pair is first translated: one direct translation, never queued -/
theorem life_direct (n : Nat) (weak : Bool) (step h0 : Nat) (h : step + n ≤ h0) :
    ∀ k, life n weak step h0 k = (.done, none, if k = 0 then .direct (step + n) else .nothing) := by
  intro k
  induction k with
  | zero => simp [life, nextTranslate, h, NAction.todo]
  | succ k ih => simp [life, ih]

/-- the target does not exist yet: placeholder, re-queued under the pair's own step, resolved when the horizon reaches it -/
theorem life_deferred (n : Nat) (weak : Bool) (step h0 : Nat) (h : h0 < step + n) :
    ∀ k, life n weak step h0 k =
      if h0 + k < step + n then (.pending, some step, if k = 0 then .placeholder weak step else .requeue step)
      else if h0 + k = step + n then (.done, none, .resolve (step + n))
      else (.done, none, .nothing) := by
  intro k
  induction k with
  | zero =>
    have h1 : ¬ (step + n ≤ h0) := by omega
    simp [life, nextTranslate, h1, NAction.todo, h]
  | succ k ih =>
    simp only [life, ih]
    by_cases h1 : h0 + k < step + n
    · simp only [h1, if_true]
      by_cases h2 : h0 + (k + 1) < step + n
      · have h3 : ¬ (step + n ≤ h0 + k + 1) := by omega
        simp [nextTranslate, h3, NAction.todo, h2]
      · have h3 : step + n ≤ h0 + k + 1 := by omega
        have h4 : h0 + (k + 1) = step + n := by omega
        simp [nextTranslate, h3, NAction.todo, h2, h4]
    · simp only [h1, if_false]
      have h2 : ¬ (h0 + (k + 1) < step + n) := by omega
      have h3 : ¬ (h0 + (k + 1) = step + n) := by omega
      by_cases h4 : h0 + k = step + n
      · simp [h4, h2, h3]
      · simp [h4, h2, h3]

/-- **placeholder life cycle**: after the `translate` call of horizon `h ≥ h0` the pair is finished iff its target state exists;
    while it is not, it is on the todo list under its own step; the resolution happens in exactly one call, the one of horizon
    `step + n`, and equates the placeholder with the argument's literal at `step + n` -/
theorem placeholder_life (n : Nat) (weak : Bool) (step h0 : Nat) (k : Nat) :
    let (st, todo, act) := life n weak step h0 k
    (st = .done ↔ step + n ≤ h0 + k) ∧ (todo = if step + n ≤ h0 + k then none else some step) ∧
    (act = .resolve (step + n) ↔ (h0 < step + n ∧ h0 + k = step + n)) := by
  by_cases h : step + n ≤ h0
  · rw [life_direct n weak step h0 h k]
    have : step + n ≤ h0 + k := by omega
    refine ⟨by simp [this], by simp [this], ?_⟩
    by_cases hk : k = 0 <;> simp [hk] <;> omega
  · have h' : h0 < step + n := by omega
    rw [life_deferred n weak step h0 h' k]
    by_cases h1 : h0 + k < step + n
    · have h2 : ¬ (step + n ≤ h0 + k) := by omega
      simp only [h1, if_true]
      refine ⟨by simp [h2], by simp [h2], ?_⟩
      by_cases hk : k = 0 <;> simp [hk] <;> omega
    · have h2 : step + n ≤ h0 + k := by omega
      simp only [h1, if_false]
      by_cases h3 : h0 + k = step + n
      · simp [h3, h2, h']
      · simp [h3, h2]

end TelProofs
