/-
A worked instance that joins the clause level with the conservativity theorem: adding the literal of one Boolean
connective over two atoms of a program — a choice on a fresh atom plus exactly the integrity constraints
`BooleanFormula.do_translate` writes — is a definitional extension in the sense of `DefExt.conservative`: the stable
models of the extended program are the stable models of the program, each with the fresh atom set to the
connective's value.
-/
import TelProofs.ClauseProofs
import TelProofs.Meta.DefExt

set_option linter.unusedVariables false
set_option linter.unusedSimpArgs false

namespace TelProofs
open TelModel

/-- an integrity constraint over program literals as a rule over atoms (atoms are the positive literal numbers) -/
def clauseRule (c : Clause) : DefExt.Rule Nat :=
  { head := [], pos := (c.filter (· > 0)).map Int.toNat, neg := (c.filter (fun l => !(l > 0))).map (fun l => (-l).toNat) }

theorem clauseRule_sat (Y : Nat → Bool) (c : Clause) : (clauseRule c).sat Y Y = Clause.ok Y c := by
  simp only [DefExt.Rule.sat, DefExt.Rule.headHolds, clauseRule, Bool.false_eq_true, if_false, List.any_nil, Bool.or_false,
    DefExt.Rule.bodyHolds, List.all_nil, Bool.and_true, Clause.ok]
  congr 1
  induction c with
  | nil => rfl
  | cons l ls ih =>
    by_cases hl : l > 0
    · simp only [List.filter_cons, hl, decide_true, if_true, List.map_cons, List.all_cons, Bool.not_true, Bool.false_eq_true,
        if_false, litTrue]
      rw [← ih]
      simp only [Bool.and_assoc]
    · simp only [List.filter_cons, hl, decide_false, Bool.false_eq_true, if_false, Bool.not_false, if_true, List.map_cons,
        List.all_cons, litTrue]
      rw [← ih]
      cases (List.map Int.toNat (List.filter (fun x => decide (x > 0)) ls)).all Y <;>
        cases Y (-l).toNat <;> simp

/-- what is added for the literal `v` of `a op b`: the choice on `v` and the clauses of `do_translate` -/
def boolDefinition (op : String) (v a b : Nat) : List (DefExt.Rule Nat) :=
  { head := [v], choice := true } :: (boolClauses op (v : Int) (a : Int) (b : Int)).map clauseRule

theorem boolDefinition_shape (op : String) (v a b : Nat) :
    ∀ r ∈ boolDefinition op v a b, DefExt.EShape (fun n => n == v) r := by
  intro r hr
  simp only [boolDefinition, List.mem_cons, List.mem_map] at hr
  rcases hr with rfl | ⟨c, _, rfl⟩
  · exact Or.inl ⟨rfl, rfl, rfl, rfl, by simp⟩
  · exact Or.inr (Or.inl ⟨rfl, rfl⟩)

/-- **the Tseitin definition of a Boolean connective is conservative**: for any program `P` that does not mention the
    fresh atom `v`, cutting is a bijection between the stable models of `P` plus the definition of `v := a op b` and
    the stable models of `P` -/
theorem bool_definition_conservative (P : List (DefExt.Rule Nat)) (op : String) (v a b : Nat)
    (hv : 0 < v) (ha : 0 < a) (hb : 0 < b) (hva : v ≠ a) (hvb : v ≠ b)
    (hop : op = "&" ∨ op = "|" ∨ op = "<-" ∨ op = "->" ∨ op = "<>")
    (hP : ∀ r ∈ P, ∀ x ∈ r.atoms, (x == v) = false) :
    (∀ X, DefExt.Stable (P ++ boolDefinition op v a b) X → DefExt.Stable P (DefExt.cut (fun n => n == v) X)) ∧
    (∀ X0, DefExt.Stable P X0 → ∃ X, DefExt.Stable (P ++ boolDefinition op v a b) X ∧ (∀ x, (x == v) = false → X x = X0 x)) ∧
    (∀ X X', DefExt.Stable (P ++ boolDefinition op v a b) X → DefExt.Stable (P ++ boolDefinition op v a b) X' →
      (∀ x, (x == v) = false → X x = X' x) → ∀ x, X x = X' x) := by
  have hE := boolDefinition_shape op v a b
  apply DefExt.conservative P _ _ hP hE
  apply DefExt.det_of_function P _ _ hP hE (fun Y _ => boolVal op (Y a) (Y b))
  · intro Y Y' hag n
    have h1 : (a == v) = false := by simp; omega
    have h2 : (b == v) = false := by simp; omega
    simp only [hag a h1, hag b h2]
  · intro Y
    have hlit : ∀ n : Nat, 0 < n → litTrue Y (n : Int) = Y n := by
      intro n hn
      have h1 : (n : Int) > 0 := by omega
      unfold litTrue
      rw [if_pos h1, Int.toNat_natCast]
    have hcl := boolClauses_ok Y op (v : Int) (a : Int) (b : Int) (by omega) (by omega) (by omega) hop
    rw [hlit v hv, hlit a ha, hlit b hb] at hcl
    constructor
    · intro hsat n hn
      have hnv : n = v := by simpa using hn
      subst hnv
      have hall : clausesOk Y (boolClauses op (n : Int) (a : Int) (b : Int)) = true := by
        simp only [clausesOk, List.all_eq_true]
        intro c hc
        rw [← clauseRule_sat]
        exact hsat _ (by simp only [boolDefinition, List.mem_cons, List.mem_map]; exact Or.inr ⟨c, hc, rfl⟩)
      rw [hcl] at hall
      exact beq_iff_eq.mp hall
    · intro hval r hr
      simp only [boolDefinition, List.mem_cons, List.mem_map] at hr
      rcases hr with rfl | ⟨c, hc, rfl⟩
      · simp [DefExt.Rule.sat, DefExt.Rule.bodyHolds, DefExt.Rule.headHolds]
      · rw [clauseRule_sat]
        have hall : clausesOk Y (boolClauses op (v : Int) (a : Int) (b : Int)) = true := by
          rw [hcl, hval v (by simp)]; simp
        exact List.all_eq_true.mp hall c hc
  · intro n hn
    have hnv : n = v := by simpa using hn
    subst hnv
    exact ⟨{ head := [n], choice := true }, by simp [boolDefinition], by simp, rfl, rfl, rfl⟩

end TelProofs
