/-
`theory_term_to_term` preserves the value of the term: under every assignment of the variables the converted plain term
evaluates to what the theory term reads (arithmetic `-` / `+`, tuples, function symbols); it fails only with the
`RuntimeError` "invalid term".
-/
import TelModel.TermConv
import TelProofs.NoInternal

set_option linter.unusedSimpArgs false
set_option linter.unusedVariables false

namespace TelProofs
open TelModel TelModel.Generated

theorem opt_bind_some {α β} (a : α) (f : α → Option β) : (some a >>= f) = f a := rfl
theorem opt_bind_none {α β} (f : α → Option β) : ((none : Option α) >>= f) = none := rfl

theorem isNum_eval (σ : String → GVal) (p : PTerm) (n : Int) (h : p.isNum = some n) : p.eval σ = some (.num n) := by
  cases p <;> simp [PTerm.isNum] at h
  subst h; simp [PTerm.eval]

/-- the arithmetic branches: folding constants does not change the value -/
theorem combine_eval (σ : String → GVal) (name : String) (cs : List PTerm) (h : isArith name cs.length = true) :
    (combine name cs).eval σ = (PTerm.evalL σ cs >>= gCombine name) := by
  match cs, h with
  | [rhs], _ =>
    simp only [combine, PTerm.evalL]
    cases hn : rhs.isNum with
    | some n =>
      rw [isNum_eval σ rhs n hn]
      simp [PTerm.eval, gCombine, gNeg, opt_bind_some, bind_pure_comp]
    | none =>
      simp only [PTerm.eval]
      cases rhs.eval σ with
      | none => rfl
      | some v => simp [gCombine, opt_bind_some]
  | [lhs, rhs], _ =>
    simp only [combine, PTerm.evalL]
    cases hl : lhs.isNum with
    | some l =>
      cases hr : rhs.isNum with
      | some r =>
        rw [isNum_eval σ lhs l hl, isNum_eval σ rhs r hr]
        by_cases hp : (name == "+") = true <;> simp [PTerm.eval, gCombine, gBin, opt_bind_some, hp]
      | none =>
        simp only [PTerm.eval]
        cases lhs.eval σ with
        | none => rfl
        | some a =>
          cases rhs.eval σ with
          | none => rfl
          | some b => simp [gCombine, opt_bind_some]
    | none =>
      simp only [PTerm.eval]
      cases lhs.eval σ with
      | none => rfl
      | some a =>
        cases rhs.eval σ with
        | none => rfl
        | some b => simp [gCombine, opt_bind_some]
  | [], h => simp [isArith] at h
  | _ :: _ :: _ :: _, h => simp [isArith] at h

mutual
/-- **the conversion preserves the value** -/
theorem conv_preserves (tbl : List OpEntry) (σ : String → GVal) : ∀ (t : HTerm) (p : PTerm),
    convTerm tbl t = .ok p → p.eval σ = t.eval σ
  | .num n, p, h => by simp only [convTerm, py_pure, Except.ok.injEq] at h; subst h; simp [PTerm.eval, HTerm.eval]
  | .var x, p, h => by simp only [convTerm, py_pure, Except.ok.injEq] at h; subst h; simp [PTerm.eval, HTerm.eval]
  | .sym s, p, h => by simp only [convTerm, py_pure, Except.ok.injEq] at h; subst h; simp [PTerm.eval, HTerm.eval]
  | .seq _, p, h => by simp [convTerm] at h
  | .tuple args, p, h => by
    simp only [convTerm] at h
    cases hc : convTerms tbl args with
    | error e => rw [hc] at h; cases h
    | ok cs =>
      rw [hc] at h
      simp only [ok_bind, py_pure, Except.ok.injEq] at h
      subst h
      simp only [PTerm.eval, HTerm.eval, convs_preserve tbl σ args cs hc]
  | .fn name args, p, h => by
    simp only [convTerm] at h
    by_cases ha : isArith name args.length = true
    · rw [if_pos ha] at h
      cases hc : convTerms tbl args with
      | error e => rw [hc] at h; cases h
      | ok cs =>
        rw [hc] at h
        simp only [ok_bind, py_pure, Except.ok.injEq] at h
        subst h
        have hlen : cs.length = args.length := convs_length tbl args cs hc
        rw [combine_eval σ name cs (by rw [hlen]; exact ha)]
        simp only [HTerm.eval, if_pos ha, convs_preserve tbl σ args cs hc]
    · rw [if_neg ha] at h
      by_cases ho : isOperatorName tbl name = true
      · rw [if_pos ho] at h; cases h
      · rw [if_neg ho] at h
        cases hc : convTerms tbl args with
        | error e => rw [hc] at h; cases h
        | ok cs =>
          rw [hc] at h
          simp only [ok_bind, py_pure, Except.ok.injEq] at h
          subst h
          simp only [PTerm.eval, HTerm.eval, if_neg ha, convs_preserve tbl σ args cs hc]
theorem convs_preserve (tbl : List OpEntry) (σ : String → GVal) : ∀ (ts : List HTerm) (ps : List PTerm),
    convTerms tbl ts = .ok ps → PTerm.evalL σ ps = HTerm.evalL σ ts
  | [], ps, h => by simp only [convTerms, py_pure, Except.ok.injEq] at h; subst h; rfl
  | t :: ts, ps, h => by
    simp only [convTerms] at h
    cases h1 : convTerm tbl t with
    | error e => rw [h1] at h; cases h
    | ok p1 =>
      rw [h1] at h
      simp only [ok_bind] at h
      cases h2 : convTerms tbl ts with
      | error e => rw [h2] at h; cases h
      | ok p2 =>
        rw [h2] at h
        simp only [ok_bind, py_pure, Except.ok.injEq] at h
        subst h
        simp only [PTerm.evalL, HTerm.evalL, conv_preserves tbl σ t p1 h1, convs_preserve tbl σ ts p2 h2]
theorem convs_length (tbl : List OpEntry) : ∀ (ts : List HTerm) (ps : List PTerm),
    convTerms tbl ts = .ok ps → ps.length = ts.length
  | [], ps, h => by simp only [convTerms, py_pure, Except.ok.injEq] at h; subst h; rfl
  | t :: ts, ps, h => by
    simp only [convTerms] at h
    cases h1 : convTerm tbl t with
    | error e => rw [h1] at h; cases h
    | ok p1 =>
      rw [h1] at h
      simp only [ok_bind] at h
      cases h2 : convTerms tbl ts with
      | error e => rw [h2] at h; cases h
      | ok p2 =>
        rw [h2] at h
        simp only [ok_bind, py_pure, Except.ok.injEq] at h
        subst h
        simp [convs_length tbl ts p2 h2]
end

mutual
/-- the conversion fails only on purpose -/
theorem convTerm_noInternal (tbl : List OpEntry) : ∀ t : HTerm, NoInternal (convTerm tbl t)
  | .num n => by simp only [convTerm, py_pure]; exact noInternal_ok _
  | .var x => by simp only [convTerm, py_pure]; exact noInternal_ok _
  | .sym s => by simp only [convTerm, py_pure]; exact noInternal_ok _
  | .seq _ => by simp only [convTerm, py_throw]; exact noInternal_runtime _
  | .tuple args => by
    simp only [convTerm]
    exact noInternal_bind _ _ (convTerms_noInternal tbl args) (fun a _ => noInternal_ok _)
  | .fn name args => by
    simp only [convTerm]
    split
    · exact noInternal_bind _ _ (convTerms_noInternal tbl args) (fun a _ => noInternal_ok _)
    · split
      · exact noInternal_runtime _
      · exact noInternal_bind _ _ (convTerms_noInternal tbl args) (fun a _ => noInternal_ok _)
theorem convTerms_noInternal (tbl : List OpEntry) : ∀ ts : List HTerm, NoInternal (convTerms tbl ts)
  | [] => by simp only [convTerms, py_pure]; exact noInternal_ok _
  | t :: ts => by
    simp only [convTerms]
    exact noInternal_bind _ _ (convTerm_noInternal tbl t) (fun a _ =>
      noInternal_bind _ _ (convTerms_noInternal tbl ts) (fun b _ => noInternal_ok _))
end

end TelProofs
