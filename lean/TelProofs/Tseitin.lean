/-
`tel_unique`: any valuation of (formula, step) pairs that solves the one-step equations
`TelModel.eqn` on a closed set of pairs coincides there with the LTL_f semantics `BForm.sem`.
No bound on nesting, sharing or horizon.  (C03 (b))
-/
import TelModel.BodySem
import TelProofs.Quant

set_option linter.unusedSimpArgs false

namespace TelProofs
open TelSpec TelModel

/-- formulas without dynamic modalities -/
def isTel : BForm → Bool
  | .atom _ _ _ => true
  | .numLit _ => true
  | .const _ => true
  | .neg f => isTel f
  | .bin _ l r => isTel l && isTel r
  | .prev f _ _ => isTel f
  | .initially f => isTel f
  | .next f _ _ => isTel f
  | .telP2 _ l r => isTel l && isTel r
  | .telP1 _ r => isTel r
  | .telN2 _ l r => isTel l && isTel r
  | .telN1 _ r => isTel r
  | .dia _ _ => false
  | .box _ _ => false

/-- `v` solves the equation system on the set `S` of (formula, step) pairs, which is closed under
    the references of its equations and lies within the horizon. -/
structure Sys (h : Nat) (tr : Trace) (lv : Int → Bool) (v : BForm → Nat → Bool) (S : BForm → Nat → Prop) : Prop where
  bound : ∀ f k, S f k → k ≤ h
  closed : ∀ f k, S f k → ∀ p ∈ (eqn h f k).refs, S p.1 p.2
  solves : ∀ f k, S f k → v f k = (eqn h f k).eval tr lv v

theorem binExpr_eval (op : String) (a b : BExpr) (tr lv v) :
    (binExpr op a b).eval tr lv v = binSem op (a.eval tr lv v) (b.eval tr lv v) := by
  unfold binExpr binSem
  split
  · rfl
  · split
    · rfl
    · split
      · rfl
      · split
        · rfl
        · split <;> rfl

theorem binExpr_known_or (op : String) (a b : BExpr) :
    ((∀ x y, binSem op x y = false) ∧ binExpr op a b = .const false) ∨
    (∀ p, p ∈ a.refs ++ b.refs → p ∈ (binExpr op a b).refs) := by
  unfold binExpr binSem
  by_cases h1 : (op == "&") = true
  · right; intro p hp; simpa [h1, BExpr.refs] using hp
  · by_cases h2 : (op == "|") = true
    · right; intro p hp; simpa [h1, h2, BExpr.refs] using hp
    · by_cases h3 : (op == "<-") = true
      · right; intro p hp; simpa [h1, h2, h3, BExpr.refs] using hp
      · by_cases h4 : (op == "->") = true
        · right; intro p hp; simpa [h1, h2, h3, h4, BExpr.refs] using hp
        · by_cases h5 : (op == "<>") = true
          · right; intro p hp; simpa [h1, h2, h3, h4, h5, BExpr.refs] using hp
          · left; simp [h1, h2, h3, h4, h5]

theorem sem_telP2_eq (h tr lv) (d : Bool) (l r : BForm) (k : Nat) :
    (BForm.telP2 d l r).sem h tr lv k =
      if d then triggerB (l.sem h tr lv) (r.sem h tr lv) k else sinceB (l.sem h tr lv) (r.sem h tr lv) k := by
  cases d <;> rfl

theorem sem_telP1_eq (h tr lv) (d : Bool) (r : BForm) (k : Nat) :
    (BForm.telP1 d r).sem h tr lv k = if d then alPB (r.sem h tr lv) k else evPB (r.sem h tr lv) k := by
  cases d <;> rfl

theorem sem_telN2_eq (h tr lv) (d : Bool) (l r : BForm) (k : Nat) :
    (BForm.telN2 d l r).sem h tr lv k =
      if d then releaseB h (l.sem h tr lv) (r.sem h tr lv) k else untilB h (l.sem h tr lv) (r.sem h tr lv) k := by
  cases d <;> rfl

theorem sem_telN1_eq (h tr lv) (d : Bool) (r : BForm) (k : Nat) :
    (BForm.telN1 d r).sem h tr lv k = if d then alFB h (r.sem h tr lv) k else evFB h (r.sem h tr lv) k := by
  cases d <;> rfl

section
variable {h : Nat} {tr : Trace} {lv : Int → Bool} {v : BForm → Nat → Bool} {S : BForm → Nat → Prop}

theorem telStep_eval_some (d : Bool) (l r pre : BExpr) (tr lv v) :
    (telStep d (some l) r pre).eval tr lv v =
      if d then r.eval tr lv v && (l.eval tr lv v || pre.eval tr lv v)
      else r.eval tr lv v || (l.eval tr lv v && pre.eval tr lv v) := by
  cases d <;> rfl

theorem telStep_eval_none (d : Bool) (r pre : BExpr) (tr lv v) :
    (telStep d none r pre).eval tr lv v =
      if d then r.eval tr lv v && pre.eval tr lv v else r.eval tr lv v || pre.eval tr lv v := by
  cases d <;> rfl

theorem tel_unique (sys : Sys h tr lv v S) :
    ∀ f, isTel f = true → ∀ k, S f k → v f k = f.sem h tr lv k := by
  intro f
  induction f with
  | atom n a p => intro _ k hS; rw [sys.solves _ _ hS]; rfl
  | numLit l => intro _ k hS; rw [sys.solves _ _ hS]; rfl
  | const b => intro _ k hS; rw [sys.solves _ _ hS]; rfl
  | neg f ih =>
    intro ht k hS
    have hc := sys.closed _ _ hS
    rw [sys.solves _ _ hS]
    simp only [eqn, BExpr.eval, BForm.sem]
    rw [ih ht k (hc (f, k) (by simp [eqn, BExpr.refs]))]
  | bin op l r ihl ihr =>
    intro ht k hS
    simp only [isTel, Bool.and_eq_true] at ht
    have hc := sys.closed _ _ hS
    rw [sys.solves _ _ hS]
    simp only [eqn, binExpr_eval, BExpr.eval, BForm.sem]
    rcases binExpr_known_or op (.ref l k) (.ref r k) with ⟨h0, _⟩ | hk
    · rw [h0, h0]
    · have hl : S l k := hc (l, k) (by simp only [eqn]; exact hk _ (by simp [BExpr.refs]))
      have hr : S r k := hc (r, k) (by simp only [eqn]; exact hk _ (by simp [BExpr.refs]))
      rw [ihl ht.1 k hl, ihr ht.2 k hr]
  | prev f n w ih =>
    intro ht k hS
    have hc := sys.closed _ _ hS
    rw [sys.solves _ _ hS]
    simp only [eqn, BForm.sem]
    by_cases hn : n ≤ k
    · simp only [hn, if_true, BExpr.eval]
      exact ih ht _ (hc (f, k - n) (by simp [eqn, hn, BExpr.refs]))
    · simp only [hn, if_false, BExpr.eval]
  | initially f ih =>
    intro ht k hS
    have hc := sys.closed _ _ hS
    rw [sys.solves _ _ hS]
    simp only [eqn, BForm.sem, BExpr.eval]
    exact ih ht _ (hc (f, 0) (by simp [eqn, BExpr.refs]))
  | next f n w ih =>
    intro ht k hS
    have hc := sys.closed _ _ hS
    rw [sys.solves _ _ hS]
    simp only [eqn, BForm.sem]
    by_cases hn : k + n ≤ h
    · simp only [hn, if_true, BExpr.eval]
      exact ih ht _ (hc (f, k + n) (by simp [eqn, hn, BExpr.refs]))
    · simp only [hn, if_false, BExpr.eval]
  | telP2 d l r ihl ihr =>
    intro ht k
    simp only [isTel, Bool.and_eq_true] at ht
    induction k with
    | zero =>
      intro hS
      have hc := sys.closed _ _ hS
      rw [sys.solves _ _ hS, sem_telP2_eq]
      simp only [eqn, if_true, BExpr.eval]
      rw [ihr ht.2 0 (hc (r, 0) (by simp [eqn, BExpr.refs]))]
      cases d <;> simp [sinceB_zero, triggerB_zero]
    | succ k ihk =>
      intro hS
      have hc := sys.closed _ _ hS
      have hne : ¬ (k + 1 = 0) := by omega
      have hl : S l (k+1) := hc (l, k+1) (by cases d <;> simp [eqn, telStep, BExpr.refs])
      have hr : S r (k+1) := hc (r, k+1) (by cases d <;> simp [eqn, telStep, BExpr.refs])
      have hp : S (.telP2 d l r) k := hc (.telP2 d l r, k) (by cases d <;> simp [eqn, telStep, BExpr.refs])
      rw [sys.solves _ _ hS, sem_telP2_eq]
      simp only [eqn, hne, if_false, telStep_eval_some, telStep_eval_none, BExpr.eval, Nat.add_sub_cancel]
      rw [ihl ht.1 _ hl, ihr ht.2 _ hr, ihk hp, sem_telP2_eq]
      cases d <;> simp [sinceB_succ, triggerB_succ]
  | telP1 d r ihr =>
    intro ht k
    simp only [isTel] at ht
    induction k with
    | zero =>
      intro hS
      have hc := sys.closed _ _ hS
      rw [sys.solves _ _ hS, sem_telP1_eq]
      simp only [eqn, if_true, BExpr.eval]
      rw [ihr ht 0 (hc (r, 0) (by simp [eqn, BExpr.refs]))]
      cases d <;> simp [evPB_zero, alPB_zero]
    | succ k ihk =>
      intro hS
      have hc := sys.closed _ _ hS
      have hne : ¬ (k + 1 = 0) := by omega
      have hr : S r (k+1) := hc (r, k+1) (by cases d <;> simp [eqn, telStep, BExpr.refs])
      have hp : S (.telP1 d r) k := hc (.telP1 d r, k) (by cases d <;> simp [eqn, telStep, BExpr.refs])
      rw [sys.solves _ _ hS, sem_telP1_eq]
      simp only [eqn, hne, if_false, telStep_eval_some, telStep_eval_none, BExpr.eval, Nat.add_sub_cancel]
      rw [ihr ht _ hr, ihk hp, sem_telP1_eq]
      cases d <;> simp [evPB_succ, alPB_succ]
  | telN2 d l r ihl ihr =>
    intro ht
    simp only [isTel, Bool.and_eq_true] at ht
    -- induction on the distance to the end of the trace
    suffices hmain : ∀ m k, h - k = m → S (.telN2 d l r) k → v (.telN2 d l r) k = (BForm.telN2 d l r).sem h tr lv k from
      fun k hS => hmain (h - k) k rfl hS
    intro m
    induction m with
    | zero =>
      intro k hm hS
      have hkb := sys.bound _ _ hS
      have hkh : ¬ (k + 1 ≤ h) := by omega
      have hc := sys.closed _ _ hS
      have hl : S l k := hc (l, k) (by cases d <;> simp [eqn, telStep, BExpr.refs])
      have hr : S r k := hc (r, k) (by cases d <;> simp [eqn, telStep, BExpr.refs])
      have hn : S (.next (.telN2 d l r) 1 d) k := hc (_, k) (by cases d <;> simp [eqn, telStep, BExpr.refs])
      rw [sys.solves _ _ hS, sem_telN2_eq]
      simp only [eqn, telStep_eval_some, telStep_eval_none, BExpr.eval]
      rw [ihl ht.1 _ hl, ihr ht.2 _ hr, sys.solves _ _ hn]
      simp only [eqn, hkh, if_false, BExpr.eval]
      cases d <;> simp [untilB_unfold h _ _ k hkb, releaseB_unfold h _ _ k hkb, hkh]
    | succ m ihm =>
      intro k hm hS
      have hkb := sys.bound _ _ hS
      have hkh : k + 1 ≤ h := by omega
      have hc := sys.closed _ _ hS
      have hl : S l k := hc (l, k) (by cases d <;> simp [eqn, telStep, BExpr.refs])
      have hr : S r k := hc (r, k) (by cases d <;> simp [eqn, telStep, BExpr.refs])
      have hn : S (.next (.telN2 d l r) 1 d) k := hc (_, k) (by cases d <;> simp [eqn, telStep, BExpr.refs])
      have hs : S (.telN2 d l r) (k+1) := sys.closed _ _ hn (_, k+1) (by simp [eqn, hkh, BExpr.refs])
      rw [sys.solves _ _ hS, sem_telN2_eq]
      simp only [eqn, telStep_eval_some, telStep_eval_none, BExpr.eval]
      rw [ihl ht.1 _ hl, ihr ht.2 _ hr, sys.solves _ _ hn]
      simp only [eqn, hkh, if_true, BExpr.eval]
      rw [ihm (k+1) (by omega) hs, sem_telN2_eq]
      cases d <;> simp [untilB_unfold h _ _ k hkb, releaseB_unfold h _ _ k hkb, hkh]
  | telN1 d r ihr =>
    intro ht
    simp only [isTel] at ht
    suffices hmain : ∀ m k, h - k = m → S (.telN1 d r) k → v (.telN1 d r) k = (BForm.telN1 d r).sem h tr lv k from
      fun k hS => hmain (h - k) k rfl hS
    intro m
    induction m with
    | zero =>
      intro k hm hS
      have hkb := sys.bound _ _ hS
      have hkh : ¬ (k + 1 ≤ h) := by omega
      have hc := sys.closed _ _ hS
      have hr : S r k := hc (r, k) (by cases d <;> simp [eqn, telStep, BExpr.refs])
      have hn : S (.next (.telN1 d r) 1 d) k := hc (_, k) (by cases d <;> simp [eqn, telStep, BExpr.refs])
      rw [sys.solves _ _ hS, sem_telN1_eq]
      simp only [eqn, telStep_eval_some, telStep_eval_none, BExpr.eval]
      rw [ihr ht _ hr, sys.solves _ _ hn]
      simp only [eqn, hkh, if_false, BExpr.eval]
      cases d <;> simp [evFB_unfold h _ k hkb, alFB_unfold h _ k hkb, hkh]
    | succ m ihm =>
      intro k hm hS
      have hkb := sys.bound _ _ hS
      have hkh : k + 1 ≤ h := by omega
      have hc := sys.closed _ _ hS
      have hr : S r k := hc (r, k) (by cases d <;> simp [eqn, telStep, BExpr.refs])
      have hn : S (.next (.telN1 d r) 1 d) k := hc (_, k) (by cases d <;> simp [eqn, telStep, BExpr.refs])
      have hs : S (.telN1 d r) (k+1) := sys.closed _ _ hn (_, k+1) (by simp [eqn, hkh, BExpr.refs])
      rw [sys.solves _ _ hS, sem_telN1_eq]
      simp only [eqn, telStep_eval_some, telStep_eval_none, BExpr.eval]
      rw [ihr ht _ hr, sys.solves _ _ hn]
      simp only [eqn, hkh, if_true, BExpr.eval]
      rw [ihm (k+1) (by omega) hs, sem_telN1_eq]
      cases d <;> simp [evFB_unfold h _ k hkb, alFB_unfold h _ k hkb, hkh]
  | dia p f _ => intro ht; simp [isTel] at ht
  | box p f _ => intro ht; simp [isTel] at ht
end

end TelProofs
