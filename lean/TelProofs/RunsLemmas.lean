/-
Algebra of the LDL_f run relation: diamond/box over a step relation `R : Nat → Nat → Bool`
on positions `0..h`, the unfolding laws used by the translation, and the sufficiency of the
fuel `h+1` for iteration over step-consuming paths.
-/
import TelSpec.Dynamic
import TelProofs.Quant

namespace TelProofs
open TelSpec

/-- diamond over a relation -/
def diaR (h : Nat) (R : Nat → Nat → Bool) (X : Nat → Bool) (k : Nat) : Bool :=
  anyUpTo h fun j => R k j && X j
/-- box over a relation -/
def boxR (h : Nat) (R : Nat → Nat → Bool) (X : Nat → Bool) (k : Nat) : Bool :=
  allUpTo h fun j => !(R k j) || X j

theorem diaR_iff (h R X k) : diaR h R X k = true ↔ ∃ j, j ≤ h ∧ R k j = true ∧ X j = true := by
  simp [diaR, anyUpTo_iff]

theorem boxR_iff (h R X k) : boxR h R X k = true ↔ ∀ j, j ≤ h → R k j = true → X j = true := by
  simp only [boxR, allUpTo_iff, Bool.or_eq_true, Bool.not_eq_true']
  constructor
  · intro hh j hj hr
    rcases hh j hj with h1 | h1
    · rw [hr] at h1; cases h1
    · exact h1
  · intro hh j hj
    cases hr : R k j
    · exact Or.inl rfl
    · exact Or.inr (hh j hj hr)

theorem boxR_eq_not_diaR (h R X k) : boxR h R X k = !(diaR h R (fun j => !(X j)) k) := by
  apply bool_eq_of_iff
  rw [boxR_iff]
  constructor
  · intro hh
    cases hd : diaR h R (fun j => !(X j)) k
    · rfl
    · obtain ⟨j, h1, h2, h3⟩ := (diaR_iff _ _ _ _).mp hd
      have := hh j h1 h2
      simp [this] at h3
  · intro hn j hj hr
    cases hx : X j
    · have : diaR h R (fun j => !(X j)) k = true := (diaR_iff _ _ _ _).mpr ⟨j, hj, hr, by simp [hx]⟩
      simp [this] at hn
    · rfl

/-- a relation that stays inside the trace and never goes backwards -/
structure Bounded (h : Nat) (R : Nat → Nat → Bool) : Prop where
  fwd : ∀ k j, R k j = true → k ≤ j
  inside : ∀ k j, R k j = true → k ≤ h → j ≤ h

/-- … and consumes at least one state -/
def Consuming (R : Nat → Nat → Bool) : Prop := ∀ k j, R k j = true → k < j

def skipR (h : Nat) : Nat → Nat → Bool := fun k j => j == k + 1 && decide (j ≤ h)
def checkR (t : Nat → Bool) : Nat → Nat → Bool := fun k j => j == k && t k
def choiceR (A B : Nat → Nat → Bool) : Nat → Nat → Bool := fun k j => A k j || B k j
def seqR (h : Nat) (A B : Nat → Nat → Bool) : Nat → Nat → Bool := fun k j => anyUpTo h fun m => A k m && B m j
def starR (h : Nat) (A : Nat → Nat → Bool) : Nat → Nat → Bool := fun k j => starRuns h A (h + 1) k j

theorem diaR_skip (h X k) : diaR h (skipR h) X k = if k + 1 ≤ h then X (k+1) else false := by
  apply bool_eq_of_iff
  rw [diaR_iff]
  by_cases hk : k + 1 ≤ h
  · simp only [hk, if_true, skipR, Bool.and_eq_true, beq_iff_eq, decide_eq_true_eq]
    constructor
    · rintro ⟨j, _, ⟨h2, _⟩, h4⟩; subst h2; exact h4
    · intro hx; exact ⟨k+1, hk, ⟨rfl, hk⟩, hx⟩
  · simp only [hk, if_false, skipR, Bool.and_eq_true, beq_iff_eq, decide_eq_true_eq]
    constructor
    · rintro ⟨j, _, ⟨h2, h3⟩, _⟩; subst h2; exact absurd h3 hk
    · intro hx; cases hx

theorem diaR_check (h t X k) (hk : k ≤ h) : diaR h (checkR t) X k = (t k && X k) := by
  apply bool_eq_of_iff
  rw [diaR_iff]
  simp only [checkR, Bool.and_eq_true, beq_iff_eq]
  constructor
  · rintro ⟨j, _, ⟨h2, h3⟩, h4⟩; subst h2; exact ⟨h3, h4⟩
  · rintro ⟨h1, h2⟩; exact ⟨k, hk, ⟨rfl, h1⟩, h2⟩

theorem diaR_choice (h A B X k) : diaR h (choiceR A B) X k = (diaR h A X k || diaR h B X k) := by
  apply bool_eq_of_iff
  simp only [Bool.or_eq_true, diaR_iff, choiceR]
  constructor
  · rintro ⟨j, h1, h2 | h2, h3⟩
    · exact Or.inl ⟨j, h1, h2, h3⟩
    · exact Or.inr ⟨j, h1, h2, h3⟩
  · rintro (⟨j, h1, h2, h3⟩ | ⟨j, h1, h2, h3⟩)
    · exact ⟨j, h1, Or.inl h2, h3⟩
    · exact ⟨j, h1, Or.inr h2, h3⟩

theorem diaR_seq (h A B X k) : diaR h (seqR h A B) X k = diaR h A (diaR h B X) k := by
  apply bool_eq_of_iff
  simp only [diaR_iff, seqR, anyUpTo_iff, Bool.and_eq_true]
  constructor
  · rintro ⟨j, h1, ⟨m, h2, h3, h4⟩, h5⟩; exact ⟨m, h2, h3, j, h1, h4, h5⟩
  · rintro ⟨m, h2, h3, j, h1, h4, h5⟩; exact ⟨j, h1, ⟨m, h2, h3, h4⟩, h5⟩

theorem diaR_congr {h R X Y k} (hxy : ∀ j, j ≤ h → R k j = true → X j = Y j) : diaR h R X k = diaR h R Y k := by
  apply bool_eq_of_iff
  simp only [diaR_iff]
  constructor
  · rintro ⟨j, h1, h2, h3⟩; exact ⟨j, h1, h2, by rw [← hxy j h1 h2]; exact h3⟩
  · rintro ⟨j, h1, h2, h3⟩; exact ⟨j, h1, h2, by rw [hxy j h1 h2]; exact h3⟩

/-- for a consuming relation nothing is reachable from the last state -/
theorem diaR_last {h R X} (hc : Consuming R) (hb : Bounded h R) : diaR h R X h = false := by
  cases hd : diaR h R X h
  · rfl
  · obtain ⟨j, h1, h2, _⟩ := (diaR_iff _ _ _ _).mp hd
    have := hc h j h2
    omega

/-- fuel sufficiency: over a consuming relation, chains from `k` have at most `h - k` steps -/
theorem starRuns_fuel {h R} (hc : Consuming R) (hb : Bounded h R) :
    ∀ n k j, h - k ≤ n → k ≤ h → starRuns h R (n+1) k j = starRuns h R n k j := by
  intro n
  induction n with
  | zero =>
    intro k j hk hkh
    have hkeq : k = h := by omega
    subst hkeq
    simp only [starRuns]
    have : (anyUpTo k fun m => R k m && (j == m)) = false := by
      cases ha : anyUpTo k fun m => R k m && (j == m)
      · rfl
      · obtain ⟨m, h1, h2⟩ := (anyUpTo_iff _ _).mp ha
        simp only [Bool.and_eq_true] at h2
        have := hc k m h2.1
        omega
    rw [this]; simp
  | succ n ih =>
    intro k j hk hkh
    rw [starRuns, starRuns]
    congr 1
    apply bool_eq_of_iff
    simp only [anyUpTo_iff, Bool.and_eq_true]
    constructor
    · rintro ⟨m, h1, h2, h3⟩
      have hlt := hc k m h2
      refine ⟨m, h1, h2, ?_⟩
      rw [← ih m j (by omega) h1]; exact h3
    · rintro ⟨m, h1, h2, h3⟩
      have hlt := hc k m h2
      refine ⟨m, h1, h2, ?_⟩
      rw [ih m j (by omega) h1]; exact h3

/-- unfolding of iteration: `⟨ρ*⟩X = X ∨ ⟨ρ⟩⟨ρ*⟩X` -/
theorem diaR_star {h R X k} (hc : Consuming R) (hb : Bounded h R) (hk : k ≤ h) :
    diaR h (starR h R) X k = (X k || diaR h R (diaR h (starR h R) X) k) := by
  have hstep : ∀ j, starRuns h R (h+1) k j = (j == k || anyUpTo h fun m => R k m && starRuns h R (h+1) m j) := by
    intro j
    rw [starRuns]
    congr 1
    apply bool_eq_of_iff
    simp only [anyUpTo_iff, Bool.and_eq_true]
    constructor
    · rintro ⟨m, h1, h2, h3⟩
      exact ⟨m, h1, h2, by rw [starRuns_fuel hc hb h m j (by omega) h1]; exact h3⟩
    · rintro ⟨m, h1, h2, h3⟩
      exact ⟨m, h1, h2, by rw [← starRuns_fuel hc hb h m j (by omega) h1]; exact h3⟩
  apply bool_eq_of_iff
  simp only [Bool.or_eq_true, diaR_iff, starR]
  constructor
  · rintro ⟨j, h1, h2, h3⟩
    rw [hstep j] at h2
    simp only [Bool.or_eq_true, beq_iff_eq, anyUpTo_iff, Bool.and_eq_true] at h2
    rcases h2 with h2 | ⟨m, h4, h5, h6⟩
    · subst h2; exact Or.inl h3
    · exact Or.inr ⟨m, h4, h5, j, h1, h6, h3⟩
  · rintro (hx | ⟨m, h4, h5, j, h1, h6, h3⟩)
    · refine ⟨k, hk, ?_, hx⟩
      rw [hstep k]; simp
    · refine ⟨j, h1, ?_, h3⟩
      rw [hstep j]
      simp only [Bool.or_eq_true, beq_iff_eq, anyUpTo_iff, Bool.and_eq_true]
      exact Or.inr ⟨m, h4, h5, h6⟩

/-! ### box versions by duality -/

theorem boxR_skip (h X k) : boxR h (skipR h) X k = if k + 1 ≤ h then X (k+1) else true := by
  rw [boxR_eq_not_diaR, diaR_skip]; split <;> simp

theorem boxR_check (h t X k) (hk : k ≤ h) : boxR h (checkR t) X k = (!(t k) || X k) := by
  rw [boxR_eq_not_diaR, diaR_check h t _ k hk]; cases t k <;> cases X k <;> rfl

theorem boxR_choice (h A B X k) : boxR h (choiceR A B) X k = (boxR h A X k && boxR h B X k) := by
  rw [boxR_eq_not_diaR, diaR_choice, boxR_eq_not_diaR, boxR_eq_not_diaR]
  cases diaR h A (fun j => !X j) k <;> cases diaR h B (fun j => !X j) k <;> rfl

theorem boxR_seq (h A B X k) : boxR h (seqR h A B) X k = boxR h A (boxR h B X) k := by
  rw [boxR_eq_not_diaR, diaR_seq, boxR_eq_not_diaR]
  congr 1
  apply diaR_congr
  intro j _ _
  rw [boxR_eq_not_diaR]; simp

theorem boxR_congr {h R X Y k} (hxy : ∀ j, j ≤ h → R k j = true → X j = Y j) : boxR h R X k = boxR h R Y k := by
  rw [boxR_eq_not_diaR, boxR_eq_not_diaR]
  congr 1
  apply diaR_congr
  intro j h1 h2; rw [hxy j h1 h2]

theorem boxR_last {h R X} (hc : Consuming R) (hb : Bounded h R) : boxR h R X h = true := by
  rw [boxR_eq_not_diaR, diaR_last hc hb]; rfl

theorem boxR_star {h R X k} (hc : Consuming R) (hb : Bounded h R) (hk : k ≤ h) :
    boxR h (starR h R) X k = (X k && boxR h R (boxR h (starR h R) X) k) := by
  rw [boxR_eq_not_diaR, diaR_star hc hb hk, boxR_eq_not_diaR]
  have : diaR h R (diaR h (starR h R) fun j => !X j) k = diaR h R (fun j => !(boxR h (starR h R) X j)) k := by
    apply diaR_congr
    intro j _ _
    rw [boxR_eq_not_diaR]; simp
  rw [this]
  cases X k <;> cases diaR h R (fun j => !(boxR h (starR h R) X j)) k <;> rfl

end TelProofs
