/-
Composition of the todo-list model and the `StepData` model over any number of `Theory.translate` calls (model
TelModel/TheoryCall.lean): every ground theory atom met in any call — also one that turns up for a (formula, step) pair that an
earlier call has already translated — ends up equal to the literal of its formula at its step, because the call that
registers it also queues the pair and translates everything queued before it returns.
-/
import TelModel.TheoryCall
import TelProofs.TodoProofs
import TelProofs.StepDataProofs

namespace TelProofs.TC
open TelModel

/-- the operations on a pair end with a `translate` -/
def EndsTr (l : List SDOp) : Prop := ∃ ops s, l = ops ++ [SDOp.translate s]

theorem endsTr_append (l1 l2 : List SDOp) (h : EndsTr l2) : EndsTr (l1 ++ l2) := by
  obtain ⟨ops, s, rfl⟩ := h
  exact ⟨l1 ++ ops, s, by simp⟩

theorem projKey_append (k : TodoKey) (l1 l2 : List (TodoKey × SDOp)) :
    projKey k (l1 ++ l2) = projKey k l1 ++ projKey k l2 := by
  simp [projKey]

theorem projKey_cons (k : TodoKey) (x : TodoKey × SDOp) (l : List (TodoKey × SDOp)) :
    projKey k (x :: l) = if x.1 == k then x.2 :: projKey k l else projKey k l := by
  unfold projKey
  by_cases h : (x.1 == k) = true
  · simp [h]
  · simp [h]

theorem proj_regs_nil (k : TodoKey) :
    ∀ as : List (TodoKey × Int), k ∉ as.map (·.1) → projKey k (as.map fun (x, a) => (x, SDOp.addAtom a)) = [] := by
  intro as
  induction as with
  | nil => intro _; rfl
  | cons x xs ih =>
    intro h
    simp only [List.map_cons, List.mem_cons, not_or] at h
    rw [List.map_cons, projKey_cons]
    have hx : ¬ (x.1 == k) = true := by
      intro e; exact h.1 (beq_iff_eq.mp e).symm
    simp only [hx]
    exact ih h.2

theorem proj_regs_mem (k : TodoKey) (a : Int) :
    ∀ as : List (TodoKey × Int), (k, a) ∈ as → SDOp.addAtom a ∈ projKey k (as.map fun (x, a) => (x, SDOp.addAtom a)) := by
  intro as
  induction as with
  | nil => intro h; simp at h
  | cons x xs ih =>
    intro h
    rw [List.map_cons, projKey_cons]
    rcases List.mem_cons.mp h with h1 | h1
    · subst h1; simp
    · have := ih h1
      by_cases hx : (x.1 == k) = true
      · simp only [hx, if_true]; exact List.mem_cons_of_mem _ this
      · simp only [hx]; exact this

theorem mem_projKey (k : TodoKey) (op : SDOp) : ∀ l : List (TodoKey × SDOp), (k, op) ∈ l → op ∈ projKey k l := by
  intro l
  induction l with
  | nil => intro h; simp at h
  | cons x xs ih =>
    intro h
    rw [projKey_cons]
    rcases List.mem_cons.mp h with h1 | h1
    · subst h1; simp
    · have := ih h1
      by_cases hx : (x.1 == k) = true
      · simp only [hx, if_true]; exact List.mem_cons_of_mem _ this
      · simp only [hx]; exact this

/-- what the second loop of `Theory.translate` guarantees: every queued pair is translated, and on every pair the operations
    of the loop are none or end with a translation (a registration a formula makes on its own pair is followed by the end of
    its `translate`) -/
structure GoodCall (c : TheoryCall) : Prop where
  covers : ∀ k ∈ c.queue, ∃ s, (k, SDOp.translate s) ∈ c.body
  closed : ∀ k, projKey k c.body = [] ∨ EndsTr (projKey k c.body)

/-- one call: the operations on a pair are none at all, or end with a translation of the pair -/
theorem call_proj (c : TheoryCall) (hg : GoodCall c) (k : TodoKey) :
    projKey k c.ops = [] ∨ EndsTr (projKey k c.ops) := by
  unfold TheoryCall.ops
  rw [projKey_append]
  rcases hg.closed k with hb | hb
  · left
    have hq : k ∉ c.queue := by
      intro hm
      obtain ⟨s, hs⟩ := hg.covers k hm
      have := mem_projKey k _ c.body hs
      rw [hb] at this; simp at this
    have hat : k ∉ c.atoms.map (·.1) := by
      intro hm
      apply hq
      unfold TheoryCall.queue
      exact ((todo_exactly_once _).2 k).mpr (List.mem_append_right _ hm)
    rw [proj_regs_nil k c.atoms hat, hb]
    rfl
  · right; exact endsTr_append _ _ hb

theorem call_reg (c : TheoryCall) (k : TodoKey) (a : Int) (h : (k, a) ∈ c.atoms) :
    SDOp.addAtom a ∈ projKey k c.ops := by
  unfold TheoryCall.ops
  rw [projKey_append]
  exact List.mem_append_left _ (proj_regs_mem k a c.atoms h)

/-- all operations of a run of calls -/
def runOps (calls : List TheoryCall) : List (TodoKey × SDOp) :=
  calls.flatMap TheoryCall.ops

theorem calls_proj (k : TodoKey) : ∀ (calls : List TheoryCall),
    (∀ p ∈ calls, GoodCall p) → projKey k (runOps calls) = [] ∨ EndsTr (projKey k (runOps calls)) := by
  intro calls
  induction calls with
  | nil => intro _; left; rfl
  | cons p ps ih =>
    intro h
    have e : runOps (p :: ps) = p.ops ++ runOps ps := by simp [runOps]
    rw [e, projKey_append]
    rcases ih (fun q hq => h q (List.mem_cons_of_mem _ hq)) with h1 | h1
    · rw [h1, List.append_nil]
      exact call_proj p (h p List.mem_cons_self) k
    · right; exact endsTr_append _ _ h1

theorem calls_reg (k : TodoKey) (a : Int) : ∀ (calls : List TheoryCall),
    (∃ p ∈ calls, (k, a) ∈ p.atoms) → SDOp.addAtom a ∈ projKey k (runOps calls) := by
  intro calls
  induction calls with
  | nil => rintro ⟨p, hp, _⟩; simp at hp
  | cons q qs ih =>
    rintro ⟨p, hp, ha⟩
    have e : runOps (q :: qs) = q.ops ++ runOps qs := by simp [runOps]
    rw [e, projKey_append]
    rcases List.mem_cons.mp hp with rfl | hp'
    · exact List.mem_append_left _ (call_reg p k a ha)
    · exact List.mem_append_right _ (ih ⟨p, hp', ha⟩)

theorem mem_added : ∀ (ops : List SDOp) (a : Int), SDOp.addAtom a ∈ ops → a ∈ SD.added ops := by
  intro ops
  induction ops with
  | nil => intro a h; simp at h
  | cons op ops ih =>
    intro a h
    cases op with
    | addAtom b =>
      rcases List.mem_cons.mp h with h1 | h1
      · cases h1; simp [SD.added]
      · simp [SD.added, ih a h1]
    | translate s =>
      rcases List.mem_cons.mp h with h1 | h1
      · cases h1
      · simpa [SD.added] using ih a h1

/-- After any number of `Theory.translate` calls, whatever the order in which each call works through its queue and whatever
    sub-formula translations happen on the way: every ground theory atom met in any of the calls is the literal of its
    (formula, step) pair or has both clauses of the equivalence with it written. -/
theorem theory_atoms_equated (calls : List TheoryCall)
    (ho : ∀ p ∈ calls, GoodCall p) (k : TodoKey) (a : Int) (ha : ∃ p ∈ calls, (k, a) ∈ p.atoms) :
    ∃ l, (StepData.run {} (projKey k (runOps calls))).1.literal = some l ∧
      (a = l ∨ ∀ c ∈ makeEqual a l, SDOut.clause c ∈ (StepData.run {} (projKey k (runOps calls))).2) := by
  have hmem := calls_reg k a calls ha
  rcases calls_proj k calls ho with h1 | ⟨ops, s, h1⟩
  · rw [h1] at hmem; simp at hmem
  · rw [h1] at hmem ⊢
    have hin : SDOp.addAtom a ∈ ops := by
      rcases List.mem_append.mp hmem with h2 | h2
      · exact h2
      · simp at h2
    obtain ⟨l, hl, hcov, _⟩ := SD.occurrences_equated ops s
    exact ⟨l, hl, hcov a (mem_added ops a hin)⟩

end TelProofs.TC
