/-
C15: on every theory term that clingo's theory-term parser can produce with telingo's theory definitions
(operator names only with the arities their tables allow), the formula constructors end in a formula or in a
`RuntimeError` — never in an internal error (AttributeError, IndexError, AssertionError, …).  Symbols, numbers
and `__get_param` never produce internal errors on any input.
-/
import TelModel.BodySem
import TelModel.Head
import TelModel.Reject
import TelModel.Parser
import TelProofs.PyLemmas

set_option linter.unusedSimpArgs false
set_option linter.unusedVariables false

namespace TelProofs
open TelSpec TelModel TelModel.Generated

/-- the result is not an internal error -/
def NoInternal {α} (r : Py α) : Prop := ∀ e, r = .error e → e.isInternal = false

theorem noInternal_ok {α} (a : α) : NoInternal (.ok a : Py α) := by intro e h; cases h
theorem noInternal_runtime {α} (m : String) : NoInternal (.error (.runtime m) : Py α) := by
  intro e h; cases h; rfl

theorem noInternal_bind {α β} (x : Py α) (f : α → Py β) (hx : NoInternal x) (hf : ∀ a, x = .ok a → NoInternal (f a)) :
    NoInternal (x >>= f) := by
  cases x with
  | error e => intro e' h; exact hx e' (by simpa using h)
  | ok a => exact hf a rfl

theorem noInternal_ite {α} (c : Prop) [Decidable c] (x y : Py α) (hx : NoInternal x) (hy : NoInternal y) :
    NoInternal (if c then x else y) := by split <;> assumption

/-- close a `NoInternal` goal by walking through binds, conditionals and matches -/
macro "noint" : tactic =>
  `(tactic| repeat (first
      | exact noInternal_ok _
      | exact noInternal_runtime _
      | assumption
      | (guard_target =~ NoInternal (_ >>= _); apply noInternal_bind; (first | assumption | skip); intro _ _)
      | (guard_target =~ NoInternal (ite _ _ _); apply noInternal_ite)
      | (guard_target =~ NoInternal (match _ with | _ => _); split)
      | split))

theorem createNumber_noInternal : ∀ t, NoInternal (createNumber t) := by
  intro t
  fun_induction createNumber t <;> simp only [py_throw, py_pure] <;> noint

set_option maxHeartbeats 1000000 in
theorem createSymbol_noInternal : (∀ t, NoInternal (createSymbol t)) ∧ (∀ ts, NoInternal (createSymbols ts)) := by
  apply createSymbol.mutual_induct (motive_1 := fun t => NoInternal (createSymbol t)) (motive_2 := fun ts => NoInternal (createSymbols ts))
  all_goals intros
  all_goals (try simp only [createSymbol, createSymbols, py_throw, py_pure, *])
  all_goals (try noint)
  all_goals (try (apply noInternal_bind; exact createNumber_noInternal _; intro _ _; exact noInternal_ok _))
  all_goals (try (intro e he; exact createNumber_noInternal _ e he))
  all_goals (try (intro _ _; exact noInternal_ok _))
  all_goals (try (exact createNumber_noInternal _ _ (by assumption)))
  all_goals (try (unfold createSymbol; simp only [*, py_throw, py_pure, if_true, if_false, Bool.false_eq_true, ite_true, ite_false]; noint))

/-- operator names may only occur with an arity their table allows (what gringo's theory-term parser guarantees) -/
def arityOK (tbl : List OpEntry) (name : String) (n : Nat) : Bool :=
  if tbl.any (fun e => e.op == name) then
    (n == 1 && (tableFind tbl name true).isSome) || (n == 2 && (tableFind tbl name false).isSome)
  else true

mutual
def gringoOK (tbl : List OpEntry) : TTerm → Bool
  | .fn name args => arityOK tbl name args.length && gringoOKs tbl args
  | .tup args => gringoOKs tbl args
  | .lst args => gringoOKs tbl args
  | .set args => gringoOKs tbl args
  | _ => true
def gringoOKs (tbl : List OpEntry) : List TTerm → Bool
  | [] => true
  | a :: as => gringoOK tbl a && gringoOKs tbl as
end

/-- `noint` with the lemmas about numbers and symbols -/
macro "noint2" : tactic =>
  `(tactic| repeat (first
      | exact noInternal_ok _
      | exact noInternal_runtime _
      | assumption
      | exact createNumber_noInternal _
      | exact createSymbol_noInternal.1 _
      | exact createSymbol_noInternal.2 _
      | exact createNumber_noInternal _ _ (by assumption)
      | exact createSymbol_noInternal.2 _ _ (by assumption)
      | (guard_target =~ NoInternal (_ >>= _); refine noInternal_bind _ _ ?_ (fun _ _ => ?_))
      | (guard_target =~ NoInternal (ite _ _ _); apply noInternal_ite)
      | split))

theorem createAtom_noInternal : ∀ t p, NoInternal (createAtom t p) := by
  intro t p
  fun_induction createAtom t p
  all_goals (try simp only [mkAtom, py_throw, py_pure])
  all_goals (try noint2)

theorem createOffset_noInternal (t : TTerm) : NoInternal (createOffset t) := by
  unfold createOffset
  noint2

/-- the sequence operators are binary only -/
theorem no_unary_seq (name : String) (h : (name == "<;" || name == "<:;" || name == ";>" || name == ";>:") = true)
    (hok : arityOK bodyTable name 1 = true) : False := by
  simp only [Bool.or_eq_true, beq_iff_eq] at h
  rcases h with ((h | h) | h) | h <;> subst h <;> revert hok <;> decide

/-- the list of temporal operators is exhausted by the branches of `create_formula` -/
theorem tel_ops_exhaustive (name : String) (h : telOperators.contains name = true) :
    name = "<" ∨ name = "<:" ∨ name = ">" ∨ name = ">:" ∨ name = "<;" ∨ name = "<:;" ∨ name = "<*" ∨ name = "<?" ∨
    name = "<<" ∨ name = ";>" ∨ name = ";>:" ∨ name = ">*" ∨ name = ">?" ∨ name = ">>" := by
  simp only [telOperators, List.contains_cons, List.contains_nil, Bool.or_false, Bool.or_eq_true, beq_iff_eq] at h
  rcases h with h | h | h | h | h | h | h | h | h | h | h | h | h | h <;> simp [h]

/-- temporal operators and `&` have arity one or two -/
theorem op_arity (name : String) (n : Nat) (h : telOperators.contains name = true ∨ name = "&")
    (hok : arityOK bodyTable name n = true) : n = 1 ∨ n = 2 := by
  have hop : (bodyTable.any fun e => e.op == name) = true := by
    rcases h with h | h
    · rcases tel_ops_exhaustive name h with h | h | h | h | h | h | h | h | h | h | h | h | h | h <;> subst h <;> decide
    · subst h; decide
  simp only [arityOK, hop, if_true, Bool.or_eq_true, Bool.and_eq_true, beq_iff_eq] at hok
  rcases hok with ⟨h1, _⟩ | ⟨h1, _⟩
  · exact Or.inl h1
  · exact Or.inr h1

theorem createFormula_noInternal (t : TTerm) (hok : gringoOK bodyTable t = true) : NoInternal (createFormula t) := by
  fun_induction createFormula t
  all_goals (try simp only [py_throw, py_pure])
  all_goals (try (simp only [gringoOK, gringoOKs, Bool.and_eq_true, Bool.and_true, List.length_cons, List.length_nil] at hok))
  all_goals (try (exact createAtom_noInternal _ _))
  case case3 name a h1 h2 ih =>
    have iha := ih hok.2
    refine noInternal_bind _ _ iha (fun f _ => ?_)
    by_cases hs : (name == "<;" || name == "<:;" || name == ";>" || name == ";>:") = true
    · exact absurd hok.1 (fun h => no_unary_seq name hs h)
    · have hx := tel_ops_exhaustive name h2
      simp only [Bool.or_eq_true, beq_iff_eq, not_or] at hs
      rcases hx with h | h | h | h | h | h | h | h | h | h | h | h | h | h <;> subst h <;> simp_all <;> noint2
  case case2 name a h1 ih =>
    exact noInternal_bind _ _ (ih hok.2) (fun f _ => noInternal_ok _)
  case case11 name a b h1 iha ihb =>
    refine noInternal_bind _ _ (iha hok.2.1) (fun l _ => ?_)
    exact noInternal_bind _ _ (ihb hok.2.2) (fun r _ => noInternal_ok _)
  case case12 name a b h1 h2 ihb iha =>
    refine noInternal_bind _ _ (ihb hok.2.2) (fun r _ => ?_)
    have hx := tel_ops_exhaustive name h2
    have hoff := createOffset_noInternal a
    have hia := iha hok.2.1
    rcases hx with h | h | h | h | h | h | h | h | h | h | h | h | h | h <;> subst h <;> simp <;> noint2
  case case20 name args hn1 hn2 h1 =>
    exfalso
    rcases op_arity name args.length (Or.inl h1) hok.1 with hl | hl
    · match args, hl with
      | [a], _ => exact hn1 a rfl
    · match args, hl with
      | [a, b], _ => exact hn2 a b rfl
  case case21 name args hn1 hn2 h1 h2 =>
    exfalso
    have : name = "&" := by simpa using h2
    rcases op_arity name args.length (Or.inr this) hok.1 with hl | hl
    · match args, hl with
      | [a], _ => exact hn1 a rfl
    · match args, hl with
      | [a, b], _ => exact hn2 a b rfl
  all_goals (try noint2)

theorem getParamL_noInternal (cs : List Char) (rf ff fp : Bool) : NoInternal (getParamL cs rf ff fp) := by
  unfold getParamL
  simp only [py_throw, py_pure]
  noint

theorem atomToTest_ok (f : BForm) (n : String) (a : List Sym) (p : Bool) (h : f = .atom n a p) : NoInternal (atomToTest f) := by
  subst h; exact noInternal_ok _

/-- `create_atom` returns an `Atom` -/
theorem createAtom_isAtom (t : TTerm) (p : Bool) (f : BForm) (h : createAtom t p = .ok f) : ∃ n a q, f = .atom n a q := by
  fun_induction createAtom t p
  all_goals (try simp only [mkAtom, py_throw, py_pure] at h)
  · split at h
    · cases h
    · split at h
      · cases h
      · cases h; exact ⟨_, _, _, rfl⟩
  · rename_i ih; exact ih h
  · rename_i hh _ 
    simp only [hh, if_true] at h
    cases hx : createSymbols _ with
    | error e => rw [hx] at h; cases h
    | ok xs =>
      rw [hx] at h
      simp only [ok_bind] at h
      split at h
      · cases h
      · split at h
        · cases h
        · cases h; exact ⟨_, _, _, rfl⟩
  · rename_i hh _
    simp only [hh] at h
    cases h
  · cases h

theorem testOfAtom_noInternal (t : TTerm) : NoInternal (createAtom t true >>= atomToTest) := by
  refine noInternal_bind _ _ (createAtom_noInternal _ _) (fun f hf => ?_)
  obtain ⟨n, a, q, rfl⟩ := createAtom_isAtom t true f hf
  exact noInternal_ok _

/-- `noint2` extended with the atom/test lemma -/
macro "noint3" : tactic =>
  `(tactic| repeat (first
      | exact noInternal_ok _
      | exact noInternal_runtime _
      | assumption
      | exact testOfAtom_noInternal _
      | exact createAtom_noInternal _ _
      | exact createOffset_noInternal _
      | (guard_target =~ NoInternal (_ >>= _); refine noInternal_bind _ _ ?_ (fun _ _ => ?_))
      | (guard_target =~ NoInternal (ite _ _ _); apply noInternal_ite)
      | split))

theorem amp_arity_del (n : Nat) (hok : arityOK delTable "&" n = true) : n = 1 ∨ n = 2 := by
  have hop : (delTable.any fun e => e.op == "&") = true := by decide
  simp only [arityOK, hop, if_true, Bool.or_eq_true, Bool.and_eq_true, beq_iff_eq] at hok
  rcases hok with ⟨h1, _⟩ | ⟨h1, _⟩
  · exact Or.inl h1
  · exact Or.inr h1

theorem createPathCheck_noInternal (t : TTerm) (hok : gringoOK delTable t = true) : NoInternal (createPathCheck t) := by
  cases t with
  | sym name => simp only [createPathCheck]; noint3
  | fn name args =>
    simp only [createPathCheck, py_throw, py_pure]
    simp only [gringoOK, Bool.and_eq_true] at hok
    split
    · noint3
    · split
      · noint3
      · split
        · rename_i hamp
          have hn : name = "&" := by simpa using hamp
          subst hn
          cases args with
          | nil => exfalso; rcases amp_arity_del _ hok.1 with h | h <;> simp at h
          | cons a rest => simp only; noint3
        · noint3
  | num n => simp only [createPathCheck, py_throw]; noint3
  | tup a => simp only [createPathCheck, py_throw]; noint3
  | lst a => simp only [createPathCheck, py_throw]; noint3
  | set a => simp only [createPathCheck, py_throw]; noint3

theorem del_op_arity (name : String) (n : Nat)
    (h : pathBinaryOperators.contains name = true ∨ pathUnaryOperators.contains name = true ∨ delOperators.contains name = true ∨ name = "&")
    (hok : arityOK delTable name n = true) :
    (n = 1 ∧ (pathUnaryOperators.contains name = true ∨ name = "&")) ∨
    (n = 2 ∧ (pathBinaryOperators.contains name = true ∨ delOperators.contains name = true)) := by
  have hcases : name = "+" ∨ name = ";;" ∨ name = "*" ∨ name = "?" ∨ name = ".>*" ∨ name = ".>?" ∨ name = "&" := by
    simp only [pathBinaryOperators, pathUnaryOperators, delOperators, List.contains_cons, List.contains_nil, Bool.or_false,
      Bool.or_eq_true, beq_iff_eq] at h
    rcases h with (h | h) | (h | h) | (h | h) | h <;> simp [h]
  rcases hcases with h | h | h | h | h | h | h <;> subst h <;> revert hok <;>
    simp only [arityOK, tableFind] <;>
    (cases n with
     | zero => decide
     | succ m => cases m with
       | zero => decide
       | succ k => cases k with
         | zero => decide
         | succ j => simp [delTable])

end TelProofs

/-! ### paths, dynamic formulas, elements -/

namespace TelProofs
open TelSpec TelModel TelModel.Generated

theorem testThen_noInternal {α} (t : TTerm) (k : PTest → Py α) (hk : ∀ p, NoInternal (k p)) :
    NoInternal (createAtom t true >>= fun x => atomToTest x >>= k) := by
  refine noInternal_bind _ _ (createAtom_noInternal _ _) (fun f hf => ?_)
  obtain ⟨n, a, q, rfl⟩ := createAtom_isAtom t true f hf
  exact noInternal_bind _ _ (noInternal_ok _) (fun p _ => hk p)

theorem path_unary_cases (name : String) (h : pathUnaryOperators.contains name = true) : name = "?" ∨ name = "*" := by
  simp only [pathUnaryOperators, List.contains_cons, List.contains_nil, Bool.or_false, Bool.or_eq_true, beq_iff_eq] at h
  rcases h with h | h <;> simp [h]

theorem path_binary_cases (name : String) (h : pathBinaryOperators.contains name = true) : name = "+" ∨ name = ";;" := by
  simp only [pathBinaryOperators, List.contains_cons, List.contains_nil, Bool.or_false, Bool.or_eq_true, beq_iff_eq] at h
  rcases h with h | h <;> simp [h]

theorem createPath_noInternal (t : TTerm) (hok : gringoOK delTable t = true) : NoInternal (createPath t) := by
  fun_induction createPath t
  all_goals (try simp only [py_throw, py_pure])
  all_goals (try (simp only [gringoOK, gringoOKs, Bool.and_eq_true, Bool.and_true, List.length_cons, List.length_nil] at hok))
  case case1 => exact testThen_noInternal _ _ (fun p => noInternal_ok _)
  case case9 => exact testThen_noInternal _ _ (fun p => noInternal_ok _)
  case case17 => exact testThen_noInternal _ _ (fun p => noInternal_ok _)
  case case19 => exact testThen_noInternal _ _ (fun p => noInternal_ok _)
  case case2 name a h =>
    exfalso
    rcases del_op_arity name 1 (Or.inl h) hok.1 with ⟨_, h2⟩ | ⟨h2, _⟩
    · rcases path_binary_cases name h with rfl | rfl <;> revert h2 <;> decide
    · omega
  case case5 name a h1 h2 h3 h4 =>
    exfalso
    rcases path_unary_cases name h2 with rfl | rfl
    · exact h3 (by decide)
    · exact h4 (by decide)
  case case13 name a b h1 h2 h3 h4 =>
    exfalso
    rcases path_unary_cases name h2 with rfl | rfl
    · exact h3 (by decide)
    · exact h4 (by decide)
  case case18 name args hn1 hn2 h =>
    exfalso
    simp only [Bool.or_eq_true, beq_iff_eq] at h
    have h' : pathBinaryOperators.contains name = true ∨ pathUnaryOperators.contains name = true ∨ delOperators.contains name = true ∨ name = "&" := by
      rcases h with (h | h) | h
      · exact Or.inl h
      · exact Or.inr (Or.inl h)
      · exact Or.inr (Or.inr (Or.inr h))
    rcases del_op_arity name args.length h' hok.1 with ⟨hl, _⟩ | ⟨hl, _⟩
    · match args, hl with
      | [a], _ => exact hn1 a rfl
    · match args, hl with
      | [a, b], _ => exact hn2 a b rfl
  case case3 name a h1 h2 h3 =>
    exact noInternal_bind _ _ (createPathCheck_noInternal a hok.2) (fun _ _ => noInternal_ok _)
  case case4 name a h1 h2 h3 h4 ih =>
    exact noInternal_bind _ _ (ih hok.2) (fun _ _ => noInternal_ok _)
  case case10 name a b h ih2 ih1 =>
    refine noInternal_bind _ _ (ih2 hok.2.1) (fun l _ => ?_)
    refine noInternal_bind _ _ (ih1 hok.2.2) (fun r _ => ?_)
    rcases path_binary_cases name h with rfl | rfl <;> simp <;> exact noInternal_ok _
  case case11 name a b h1 h2 h3 =>
    exact noInternal_bind _ _ (createPathCheck_noInternal a hok.2.1) (fun _ _ => noInternal_ok _)
  case case12 name a b h1 h2 h3 h4 ih =>
    exact noInternal_bind _ _ (ih hok.2.1) (fun _ _ => noInternal_ok _)
  all_goals (try noint3)

theorem del_ops_cases (name : String) (h : delOperators.contains name = true) : name = ".>*" ∨ name = ".>?" := by
  simp only [delOperators, List.contains_cons, List.contains_nil, Bool.or_false, Bool.or_eq_true, beq_iff_eq] at h
  rcases h with h | h <;> simp [h]

theorem createDynamicFormula_noInternal (t : TTerm) (hok : gringoOK delTable t = true) :
    NoInternal (createDynamicFormula t) := by
  fun_induction createDynamicFormula t
  all_goals (try simp only [py_throw, py_pure])
  all_goals (try (simp only [gringoOK, gringoOKs, Bool.and_eq_true, Bool.and_true, List.length_cons, List.length_nil] at hok))
  all_goals (try (exact createAtom_noInternal _ _))
  case case2 name a h =>
    exfalso
    rcases del_op_arity name 1 (Or.inr (Or.inr (Or.inl h))) hok.1 with ⟨_, h2⟩ | ⟨h2, _⟩
    · rcases del_ops_cases name h with rfl | rfl <;> revert h2 <;> decide
    · omega
  case case10 name a b h ih =>
    refine noInternal_bind _ _ (createPath_noInternal a hok.2.1) (fun p _ => ?_)
    refine noInternal_bind _ _ (ih hok.2.2) (fun f _ => ?_)
    rcases del_ops_cases name h with rfl | rfl <;> simp <;> exact noInternal_ok _
  case case18 name args hn1 hn2 h =>
    exfalso
    simp only [Bool.or_eq_true, beq_iff_eq] at h
    have h' : pathBinaryOperators.contains name = true ∨ pathUnaryOperators.contains name = true ∨ delOperators.contains name = true ∨ name = "&" := by
      rcases h with h | h
      · exact Or.inr (Or.inr (Or.inl h))
      · exact Or.inr (Or.inr (Or.inr h))
    rcases del_op_arity name args.length h' hok.1 with ⟨hl, _⟩ | ⟨hl, _⟩
    · match args, hl with
      | [a], _ => exact hn1 a rfl
    · match args, hl with
      | [a, b], _ => exact hn2 a b rfl
  all_goals (try noint3)

/-- `elemFormula` / `translate_elements` add no error of their own -/
theorem elemFormula_noInternal (e : TElem) (dynamic : Bool)
    (hok : gringoOK (if dynamic then delTable else bodyTable) e.term = true) : NoInternal (elemFormula e dynamic) := by
  unfold elemFormula
  refine noInternal_bind _ _ ?_ (fun f _ => ?_)
  · cases dynamic
    · exact createFormula_noInternal _ (by simpa using hok)
    · exact createDynamicFormula_noInternal _ (by simpa using hok)
  · split <;> exact noInternal_ok _

theorem mapM_noInternal {α β} (f : α → Py β) (l : List α) (h : ∀ x ∈ l, NoInternal (f x)) : NoInternal (l.mapM f) := by
  induction l with
  | nil => simp only [List.mapM_nil]; exact noInternal_ok _
  | cons x xs ih =>
    simp only [List.mapM_cons]
    refine noInternal_bind _ _ (h x List.mem_cons_self) (fun y _ => ?_)
    refine noInternal_bind _ _ (ih (fun z hz => h z (List.mem_cons_of_mem _ hz))) (fun ys _ => noInternal_ok _)

theorem translateElements_noInternal (els : List TElem) (dynamic : Bool)
    (hok : ∀ e ∈ els, gringoOK (if dynamic then delTable else bodyTable) e.term = true) :
    NoInternal (translateElements els dynamic) := by
  unfold translateElements
  refine noInternal_bind _ _ (mapM_noInternal _ _ (fun e he => elemFormula_noInternal e dynamic (hok e he))) (fun fs _ => noInternal_ok _)

end TelProofs

/-! ### head formulas -/

namespace TelProofs
open TelSpec TelModel TelModel.Generated

theorem hCreateAtom_noInternal : ∀ t p, NoInternal (hCreateAtom t p) := by
  intro t p
  fun_induction hCreateAtom t p
  all_goals (try simp only [py_throw, py_pure])
  all_goals (try noint2)

theorem hCreateFormula_noInternal (t : TTerm) (hok : gringoOK bodyTable t = true) : NoInternal (hCreateFormula t) := by
  fun_induction hCreateFormula t
  all_goals (try simp only [py_throw, py_pure])
  all_goals (try (simp only [gringoOK, gringoOKs, Bool.and_eq_true, Bool.and_true, List.length_cons, List.length_nil] at hok))
  all_goals (try (exact hCreateAtom_noInternal _ _))
  case case2 name a h1 ih =>
    exact noInternal_bind _ _ (ih hok.2) (fun f _ => noInternal_ok _)
  case case4 name a h1 h2 h3 ih =>
    refine noInternal_bind _ _ (ih hok.2) (fun f _ => ?_)
    by_cases hs : (name == "<;" || name == "<:;" || name == ";>" || name == ";>:") = true
    · exact absurd hok.1 (fun h => no_unary_seq name hs h)
    · have hx := tel_ops_exhaustive name h2
      simp only [Bool.or_eq_true, beq_iff_eq, not_or] at hs
      rcases hx with h | h | h | h | h | h | h | h | h | h | h | h | h | h <;> subst h <;> simp_all [pastOps] <;> noint2
  case case12 name a b h1 h2 ih2 ih1 =>
    refine noInternal_bind _ _ (ih2 hok.2.1) (fun l _ => ?_)
    exact noInternal_bind _ _ (ih1 hok.2.2) (fun r _ => noInternal_ok _)
  case case15 name a b h1 h2 h3 ihb iha =>
    refine noInternal_bind _ _ (ihb hok.2.2) (fun r _ => ?_)
    have hx := tel_ops_exhaustive name h2
    have hoff := createOffset_noInternal a
    have hia := iha hok.2.1
    rcases hx with h | h | h | h | h | h | h | h | h | h | h | h | h | h <;> subst h <;> simp_all [pastOps] <;> noint2
  case case23 name args hn1 hn2 h =>
    exfalso
    simp only [Bool.or_eq_true, beq_iff_eq] at h
    rcases op_arity name args.length h hok.1 with hl | hl
    · match args, hl with
      | [a], _ => exact hn1 a rfl
    · match args, hl with
      | [a, b], _ => exact hn2 a b rfl
  all_goals (try noint2)
end TelProofs

/-! ### `TheoryParser.parse` -/

namespace TelProofs
open TelSpec TelModel TelModel.Generated

/-- shape of the parser stack (top first): `wf true` — an operand is on top; `wf false` — an operand is expected -/
def wf : Bool → List StackItem → Bool
  | true, .term _ :: rest => wf false rest
  | true, _ => false
  | false, [] => true
  | false, .op _ true :: rest => wf false rest
  | false, .op _ false :: rest => wf true rest
  | false, .term _ :: _ => false

def opsIn (tbl : List OpEntry) (stack : List StackItem) : Prop :=
  ∀ x ∈ stack, match x with | .op n u => (tableFind tbl n u).isSome = true | _ => True

theorem opsIn_tail {tbl : List OpEntry} {x : StackItem} {s : List StackItem} (h : opsIn tbl (x :: s)) : opsIn tbl s :=
  fun y hy => h y (List.mem_cons_of_mem _ hy)

theorem opsIn_cons_term {tbl : List OpEntry} {t : PTree} {s : List StackItem} (h : opsIn tbl s) : opsIn tbl (.term t :: s) := by
  intro y hy
  rcases List.mem_cons.mp hy with rfl | hy
  · trivial
  · exact h y hy

theorem opsIn_cons_op {tbl : List OpEntry} {n : String} {u : Bool} {s : List StackItem} (h : opsIn tbl s)
    (hn : (tableFind tbl n u).isSome = true) : opsIn tbl (.op n u :: s) := by
  intro y hy
  rcases List.mem_cons.mp hy with rfl | hy
  · exact hn
  · exact h y hy

/-- `__reduce` on a well-shaped stack with at least two items succeeds, keeps the shape and shortens the stack -/
theorem preduce_ok (tbl : List OpEntry) (stack : List StackItem) (hw : wf true stack = true) (ho : opsIn tbl stack)
    (hl : 1 < stack.length) :
    ∃ s, preduce stack = .ok s ∧ wf true s = true ∧ opsIn tbl s ∧ s.length < stack.length := by
  match stack, hw, hl with
  | .term b :: .op name true :: rest, hw, _ =>
    refine ⟨.term (.un name b) :: rest, rfl, ?_, ?_, by simp⟩
    · simpa [wf] using hw
    · exact opsIn_cons_term (opsIn_tail (opsIn_tail ho))
  | .term b :: .op name false :: .term a :: rest, hw, _ =>
    refine ⟨.term (.bin name a b) :: rest, rfl, ?_, ?_, by simp⟩
    · simpa [wf] using hw
    · exact opsIn_cons_term (opsIn_tail (opsIn_tail (opsIn_tail ho)))
  | .term b :: .op name false :: .op _ _ :: rest, hw, _ => simp [wf] at hw
  | .term b :: .op name false :: [], hw, _ => simp [wf] at hw
  | .term b :: .term _ :: rest, hw, _ => simp [wf] at hw
  | .op _ _ :: rest, hw, _ => simp [wf] at hw
  | [.term b], _, hl => simp at hl

/-- `__check` on a well-shaped stack whose operators are in the table never fails -/
theorem pcheck_ok (tbl : List OpEntry) (stack : List StackItem) (op : String) (hw : wf true stack = true)
    (ho : opsIn tbl stack) (hop : (tableFind tbl op false).isSome = true) :
    ∃ b, pcheck tbl stack op = .ok b ∧ (b = true → 1 < stack.length) := by
  match stack, hw with
  | [.term t], _ => exact ⟨false, rfl, by simp⟩
  | .term t :: .op pn pu :: rest, hw =>
    have hp : (tableFind tbl pn pu).isSome = true := ho (.op pn pu) (by simp)
    obtain ⟨e, he⟩ := Option.isSome_iff_exists.mp hop
    obtain ⟨pe, hpe⟩ := Option.isSome_iff_exists.mp hp
    refine ⟨_, by simp only [pcheck, he, hpe]; rfl, by simp⟩
  | .term t :: .term _ :: rest, hw => simp [wf] at hw
  | .op _ _ :: rest, hw => simp [wf] at hw
  | [], hw => simp [wf] at hw

theorem reduceWhile_ok (tbl : List OpEntry) (op : String) (hop : (tableFind tbl op false).isSome = true) :
    ∀ (fuel : Nat) (stack : List StackItem), wf true stack = true → opsIn tbl stack → stack.length < fuel →
      ∃ s, reduceWhile tbl op fuel stack = .ok s ∧ wf true s = true ∧ opsIn tbl s := by
  intro fuel
  induction fuel with
  | zero => intro stack _ _ hl; omega
  | succ n ih =>
    intro stack hw ho hl
    obtain ⟨b, hb, hlen⟩ := pcheck_ok tbl stack op hw ho hop
    simp only [reduceWhile, hb, ok_bind]
    cases b with
    | false => exact ⟨stack, by simp, hw, ho⟩
    | true =>
      obtain ⟨s, hs, hw', ho', hl'⟩ := preduce_ok tbl stack hw ho (hlen rfl)
      obtain ⟨s', hs', hw'', ho''⟩ := ih s hw' ho' (by omega)
      exact ⟨s', by simp [hs, hs'], hw'', ho''⟩

/-- pushing the operators of one element: either a diagnostic, or a stack that expects an operand -/
theorem pushOps_ok (tbl : List OpEntry) :
    ∀ (ops : List String) (unary : Bool) (stack : List StackItem), wf (!unary) stack = true → opsIn tbl stack →
      (∃ m, pushOps tbl ops unary stack = .error (.runtime m)) ∨
      (∃ s, pushOps tbl ops unary stack = .ok s ∧ opsIn tbl s ∧ wf (ops.isEmpty && !unary) s = true) := by
  intro ops
  induction ops with
  | nil =>
    intro unary stack hw ho
    right
    exact ⟨stack, rfl, ho, by simpa using hw⟩
  | cons op ops ih =>
    intro unary stack hw ho
    simp only [pushOps]
    by_cases hnone : (tableFind tbl op unary).isNone = true
    · left
      simp only [hnone, if_true, py_throw]
      exact ⟨_, rfl⟩
    · have hsome : (tableFind tbl op unary).isSome = true := by
        cases h : tableFind tbl op unary <;> simp_all
      simp only [hnone, Bool.false_eq_true, if_false, pure_bind, py_pure, ok_bind]
      cases unary with
      | true =>
        simp only [if_true, py_pure, ok_bind]
        have hw' : wf (!true) (.op op true :: stack) = true := by simpa [wf] using hw
        rcases ih true (.op op true :: stack) hw' (opsIn_cons_op ho hsome) with h | ⟨s, hs, ho', hw''⟩
        · exact Or.inl h
        · right; exact ⟨s, hs, ho', by simpa using hw''⟩
      | false =>
        simp only [Bool.false_eq_true, if_false]
        obtain ⟨s1, hs1, hw1, ho1⟩ := reduceWhile_ok tbl op hsome (stack.length + 1) stack (by simpa using hw) ho (by omega)
        simp only [hs1, ok_bind]
        have hw' : wf (!true) (.op op false :: s1) = true := by simpa [wf] using hw1
        rcases ih true (.op op false :: s1) hw' (opsIn_cons_op ho1 hsome) with h | ⟨s, hs, ho', hw''⟩
        · exact Or.inl h
        · right; exact ⟨s, hs, ho', by simpa using hw''⟩

/-- what clingo's grammar guarantees for an unparsed theory term: every element but the first starts with an operator -/
def elemsOK (unary : Bool) : List UElem → Prop
  | [] => True
  | e :: rest => (unary = true ∨ e.ops ≠ []) ∧ ∀ e' ∈ rest, e'.ops ≠ []

theorem pushElems_ok (tbl : List OpEntry) :
    ∀ (es : List UElem) (unary : Bool) (stack : List StackItem), elemsOK unary es → wf (!unary) stack = true → opsIn tbl stack →
      (∃ m, pushElems tbl es unary stack = .error (.runtime m)) ∨
      (∃ s, pushElems tbl es unary stack = .ok s ∧ opsIn tbl s ∧ wf (!(es.isEmpty) || !unary) s = true) := by
  intro es
  induction es with
  | nil =>
    intro unary stack _ hw ho
    right
    exact ⟨stack, rfl, ho, by simpa using hw⟩
  | cons e es ih =>
    intro unary stack hok hw ho
    simp only [pushElems]
    rcases pushOps_ok tbl e.ops unary stack hw ho with ⟨m, hm⟩ | ⟨s, hs, ho', hw'⟩
    · left; exact ⟨m, by simp [hm]⟩
    · simp only [hs, ok_bind]
      have hshape : wf false s = true := by
        have : (e.ops.isEmpty && !unary) = false := by
          rcases hok.1 with h | h
          · simp [h]
          · have : e.ops.isEmpty = false := by
              cases hh : e.ops with
              | nil => exact absurd hh h
              | cons _ _ => rfl
            simp [this]
        rw [this] at hw'; exact hw'
      have hw2 : wf (!false) (.term (.leaf e.term) :: s) = true := by simpa [wf] using hshape
      have hok2 : elemsOK false es := by
        cases es with
        | nil => trivial
        | cons e2 rest =>
          exact ⟨Or.inr (hok.2 e2 List.mem_cons_self), fun e' he' => hok.2 e' (List.mem_cons_of_mem _ he')⟩
      rcases ih false (.term (.leaf e.term) :: s) hok2 hw2 (opsIn_cons_term ho') with h | ⟨s', hs', ho'', hw''⟩
      · exact Or.inl h
      · right; exact ⟨s', hs', ho'', by simpa using hw''⟩

theorem reduceAll_ok (tbl : List OpEntry) :
    ∀ (fuel : Nat) (stack : List StackItem), wf true stack = true → opsIn tbl stack → stack.length < fuel →
      ∃ t, reduceAll fuel stack = .ok [.term t] := by
  intro fuel
  induction fuel with
  | zero => intro stack _ _ hl; omega
  | succ n ih =>
    intro stack hw ho hl
    simp only [reduceAll]
    by_cases hlen : stack.length > 1
    · obtain ⟨s, hs, hw', ho', hl'⟩ := preduce_ok tbl stack hw ho hlen
      obtain ⟨t, ht⟩ := ih s hw' ho' (by omega)
      exact ⟨t, by simp [hlen, hs, ht]⟩
    · simp only [hlen, if_false]
      match stack, hw with
      | [.term t], _ => exact ⟨t, rfl⟩
      | [], hw => simp [wf] at hw
      | .op _ _ :: _, hw => simp [wf] at hw
      | .term _ :: _ :: _, _ => simp at hlen

/-- **`TheoryParser.parse` never ends in an internal error**: on every non-empty element list of the shape
    clingo's grammar produces and every operator table, the result is a tree or the diagnostic
    "invalid operator in temporal formula" -/
theorem stackParse_noInternal (tbl : List OpEntry) (elems : List UElem) (hne : elems ≠ []) (hok : elemsOK true elems) :
    NoInternal (stackParse tbl elems) := by
  unfold stackParse
  rcases pushElems_ok tbl elems true [] hok (by simp [wf]) (by intro x hx; cases hx) with ⟨m, hm⟩ | ⟨s, hs, ho, hw⟩
  · rw [hm]; exact noInternal_runtime m
  · have hne' : elems.isEmpty = false := by
      cases elems with
      | nil => exact absurd rfl hne
      | cons _ _ => rfl
    simp only [hne', Bool.not_false, Bool.true_or] at hw
    obtain ⟨t, ht⟩ := reduceAll_ok tbl (s.length + 1) s hw ho (by omega)
    simp only [hs, ok_bind, ht]
    exact noInternal_ok _

end TelProofs
