/-
C15: on every theory term that clingo's theory-term parser can produce with telingo's theory definitions
(operator names only with the arities their tables allow), the formula constructors end in a formula or in a
`RuntimeError` — never in an internal error (AttributeError, IndexError, AssertionError, …).  Symbols, numbers
and `__get_param` never produce internal errors on any input.
-/
import TelModel.BodySem
import TelModel.Head
import TelModel.Reject
import TelModel.Parser
import TelProofs.PyLemmas

set_option linter.unusedSimpArgs false
set_option linter.unusedVariables false

namespace TelProofs
open TelSpec TelModel TelModel.Generated

/-- the result is not an internal error -/
def NoInternal {α} (r : Py α) : Prop := ∀ e, r = .error e → e.isInternal = false

theorem noInternal_ok {α} (a : α) : NoInternal (.ok a : Py α) := by intro e h; cases h
theorem noInternal_runtime {α} (m : String) : NoInternal (.error (.runtime m) : Py α) := by
  intro e h; cases h; rfl

theorem noInternal_bind {α β} (x : Py α) (f : α → Py β) (hx : NoInternal x) (hf : ∀ a, x = .ok a → NoInternal (f a)) :
    NoInternal (x >>= f) := by
  cases x with
  | error e => intro e' h; exact hx e' (by simpa using h)
  | ok a => exact hf a rfl

theorem noInternal_ite {α} (c : Prop) [Decidable c] (x y : Py α) (hx : NoInternal x) (hy : NoInternal y) :
    NoInternal (if c then x else y) := by split <;> assumption

/-- close a `NoInternal` goal by walking through binds, conditionals and matches -/
macro "noint" : tactic =>
  `(tactic| repeat (first
      | exact noInternal_ok _
      | exact noInternal_runtime _
      | assumption
      | (guard_target =~ NoInternal (_ >>= _); apply noInternal_bind; (first | assumption | skip); intro _ _)
      | (guard_target =~ NoInternal (ite _ _ _); apply noInternal_ite)
      | (guard_target =~ NoInternal (match _ with | _ => _); split)
      | split))

theorem createNumber_noInternal : ∀ t, NoInternal (createNumber t) := by
  intro t
  fun_induction createNumber t <;> simp only [py_throw, py_pure] <;> noint

set_option maxHeartbeats 1000000 in
theorem createSymbol_noInternal : (∀ t, NoInternal (createSymbol t)) ∧ (∀ ts, NoInternal (createSymbols ts)) := by
  apply createSymbol.mutual_induct (motive_1 := fun t => NoInternal (createSymbol t)) (motive_2 := fun ts => NoInternal (createSymbols ts))
  all_goals intros
  all_goals (try simp only [createSymbol, createSymbols, py_throw, py_pure, *])
  all_goals (try noint)
  all_goals (try (apply noInternal_bind; exact createNumber_noInternal _; intro _ _; exact noInternal_ok _))
  all_goals (try (intro e he; exact createNumber_noInternal _ e he))
  all_goals (try (intro _ _; exact noInternal_ok _))
  all_goals (try (exact createNumber_noInternal _ _ (by assumption)))
  all_goals (try (unfold createSymbol; simp only [*, py_throw, py_pure, if_true, if_false, Bool.false_eq_true, ite_true, ite_false]; noint))

/-- operator names may only occur with an arity their table allows (what gringo's theory-term parser guarantees) -/
def arityOK (tbl : List OpEntry) (name : String) (n : Nat) : Bool :=
  if tbl.any (fun e => e.op == name) then
    (n == 1 && (tableFind tbl name true).isSome) || (n == 2 && (tableFind tbl name false).isSome)
  else true

mutual
def gringoOK (tbl : List OpEntry) : TTerm → Bool
  | .fn name args => arityOK tbl name args.length && gringoOKs tbl args
  | .tup args => gringoOKs tbl args
  | .lst args => gringoOKs tbl args
  | .set args => gringoOKs tbl args
  | _ => true
def gringoOKs (tbl : List OpEntry) : List TTerm → Bool
  | [] => true
  | a :: as => gringoOK tbl a && gringoOKs tbl as
end

/-- `noint` with the lemmas about numbers and symbols -/
macro "noint2" : tactic =>
  `(tactic| repeat (first
      | exact noInternal_ok _
      | exact noInternal_runtime _
      | assumption
      | exact createNumber_noInternal _
      | exact createSymbol_noInternal.1 _
      | exact createSymbol_noInternal.2 _
      | exact createNumber_noInternal _ _ (by assumption)
      | exact createSymbol_noInternal.2 _ _ (by assumption)
      | (guard_target =~ NoInternal (_ >>= _); refine noInternal_bind _ _ ?_ (fun _ _ => ?_))
      | (guard_target =~ NoInternal (ite _ _ _); apply noInternal_ite)
      | split))

theorem createAtom_noInternal : ∀ t p, NoInternal (createAtom t p) := by
  intro t p
  fun_induction createAtom t p
  all_goals (try simp only [mkAtom, py_throw, py_pure])
  all_goals (try noint2)

theorem createOffset_noInternal (t : TTerm) : NoInternal (createOffset t) := by
  unfold createOffset
  noint2

/-- the sequence operators are binary only -/
theorem no_unary_seq (name : String) (h : (name == "<;" || name == "<:;" || name == ";>" || name == ";>:") = true)
    (hok : arityOK bodyTable name 1 = true) : False := by
  simp only [Bool.or_eq_true, beq_iff_eq] at h
  rcases h with ((h | h) | h) | h <;> subst h <;> revert hok <;> decide

/-- the list of temporal operators is exhausted by the branches of `create_formula` -/
theorem tel_ops_exhaustive (name : String) (h : telOperators.contains name = true) :
    name = "<" ∨ name = "<:" ∨ name = ">" ∨ name = ">:" ∨ name = "<;" ∨ name = "<:;" ∨ name = "<*" ∨ name = "<?" ∨
    name = "<<" ∨ name = ";>" ∨ name = ";>:" ∨ name = ">*" ∨ name = ">?" ∨ name = ">>" := by
  simp only [telOperators, List.contains_cons, List.contains_nil, Bool.or_false, Bool.or_eq_true, beq_iff_eq] at h
  rcases h with h | h | h | h | h | h | h | h | h | h | h | h | h | h <;> simp [h]

/-- temporal operators and `&` have arity one or two -/
theorem op_arity (name : String) (n : Nat) (h : telOperators.contains name = true ∨ name = "&")
    (hok : arityOK bodyTable name n = true) : n = 1 ∨ n = 2 := by
  have hop : (bodyTable.any fun e => e.op == name) = true := by
    rcases h with h | h
    · rcases tel_ops_exhaustive name h with h | h | h | h | h | h | h | h | h | h | h | h | h | h <;> subst h <;> decide
    · subst h; decide
  simp only [arityOK, hop, if_true, Bool.or_eq_true, Bool.and_eq_true, beq_iff_eq] at hok
  rcases hok with ⟨h1, _⟩ | ⟨h1, _⟩
  · exact Or.inl h1
  · exact Or.inr h1

theorem createFormula_noInternal (t : TTerm) (hok : gringoOK bodyTable t = true) : NoInternal (createFormula t) := by
  fun_induction createFormula t
  all_goals (try simp only [py_throw, py_pure])
  all_goals (try (simp only [gringoOK, gringoOKs, Bool.and_eq_true, Bool.and_true, List.length_cons, List.length_nil] at hok))
  all_goals (try (exact createAtom_noInternal _ _))
  case case3 name a h1 h2 ih =>
    have iha := ih hok.2
    refine noInternal_bind _ _ iha (fun f _ => ?_)
    by_cases hs : (name == "<;" || name == "<:;" || name == ";>" || name == ";>:") = true
    · exact absurd hok.1 (fun h => no_unary_seq name hs h)
    · have hx := tel_ops_exhaustive name h2
      simp only [Bool.or_eq_true, beq_iff_eq, not_or] at hs
      rcases hx with h | h | h | h | h | h | h | h | h | h | h | h | h | h <;> subst h <;> simp_all <;> noint2
  case case2 name a h1 ih =>
    exact noInternal_bind _ _ (ih hok.2) (fun f _ => noInternal_ok _)
  case case11 name a b h1 iha ihb =>
    refine noInternal_bind _ _ (iha hok.2.1) (fun l _ => ?_)
    exact noInternal_bind _ _ (ihb hok.2.2) (fun r _ => noInternal_ok _)
  case case12 name a b h1 h2 ihb iha =>
    refine noInternal_bind _ _ (ihb hok.2.2) (fun r _ => ?_)
    have hx := tel_ops_exhaustive name h2
    have hoff := createOffset_noInternal a
    have hia := iha hok.2.1
    rcases hx with h | h | h | h | h | h | h | h | h | h | h | h | h | h <;> subst h <;> simp <;> noint2
  case case20 name args hn1 hn2 h1 =>
    exfalso
    rcases op_arity name args.length (Or.inl h1) hok.1 with hl | hl
    · match args, hl with
      | [a], _ => exact hn1 a rfl
    · match args, hl with
      | [a, b], _ => exact hn2 a b rfl
  case case21 name args hn1 hn2 h1 h2 =>
    exfalso
    have : name = "&" := by simpa using h2
    rcases op_arity name args.length (Or.inr this) hok.1 with hl | hl
    · match args, hl with
      | [a], _ => exact hn1 a rfl
    · match args, hl with
      | [a, b], _ => exact hn2 a b rfl
  all_goals (try noint2)

theorem getParamL_noInternal (cs : List Char) (rf ff fp : Bool) : NoInternal (getParamL cs rf ff fp) := by
  unfold getParamL
  simp only [py_throw, py_pure]
  noint

theorem atomToTest_ok (f : BForm) (n : String) (a : List Sym) (p : Bool) (h : f = .atom n a p) : NoInternal (atomToTest f) := by
  subst h; exact noInternal_ok _

/-- `create_atom` returns an `Atom` -/
theorem createAtom_isAtom (t : TTerm) (p : Bool) (f : BForm) (h : createAtom t p = .ok f) : ∃ n a q, f = .atom n a q := by
  fun_induction createAtom t p
  all_goals (try simp only [mkAtom, py_throw, py_pure] at h)
  · split at h
    · cases h
    · split at h
      · cases h
      · cases h; exact ⟨_, _, _, rfl⟩
  · rename_i ih; exact ih h
  · rename_i hh _ 
    simp only [hh, if_true] at h
    cases hx : createSymbols _ with
    | error e => rw [hx] at h; cases h
    | ok xs =>
      rw [hx] at h
      simp only [ok_bind] at h
      split at h
      · cases h
      · split at h
        · cases h
        · cases h; exact ⟨_, _, _, rfl⟩
  · rename_i hh _
    simp only [hh] at h
    cases h
  · cases h

theorem testOfAtom_noInternal (t : TTerm) : NoInternal (createAtom t true >>= atomToTest) := by
  refine noInternal_bind _ _ (createAtom_noInternal _ _) (fun f hf => ?_)
  obtain ⟨n, a, q, rfl⟩ := createAtom_isAtom t true f hf
  exact noInternal_ok _

/-- `noint2` extended with the atom/test lemma -/
macro "noint3" : tactic =>
  `(tactic| repeat (first
      | exact noInternal_ok _
      | exact noInternal_runtime _
      | assumption
      | exact testOfAtom_noInternal _
      | exact createAtom_noInternal _ _
      | exact createOffset_noInternal _
      | (guard_target =~ NoInternal (_ >>= _); refine noInternal_bind _ _ ?_ (fun _ _ => ?_))
      | (guard_target =~ NoInternal (ite _ _ _); apply noInternal_ite)
      | split))

theorem amp_arity_del (n : Nat) (hok : arityOK delTable "&" n = true) : n = 1 ∨ n = 2 := by
  have hop : (delTable.any fun e => e.op == "&") = true := by decide
  simp only [arityOK, hop, if_true, Bool.or_eq_true, Bool.and_eq_true, beq_iff_eq] at hok
  rcases hok with ⟨h1, _⟩ | ⟨h1, _⟩
  · exact Or.inl h1
  · exact Or.inr h1

theorem createPathCheck_noInternal (t : TTerm) (hok : gringoOK delTable t = true) : NoInternal (createPathCheck t) := by
  cases t with
  | sym name => simp only [createPathCheck]; noint3
  | fn name args =>
    simp only [createPathCheck, py_throw, py_pure]
    simp only [gringoOK, Bool.and_eq_true] at hok
    split
    · noint3
    · split
      · noint3
      · split
        · rename_i hamp
          have hn : name = "&" := by simpa using hamp
          subst hn
          cases args with
          | nil => exfalso; rcases amp_arity_del _ hok.1 with h | h <;> simp at h
          | cons a rest => simp only; noint3
        · noint3
  | num n => simp only [createPathCheck, py_throw]; noint3
  | tup a => simp only [createPathCheck, py_throw]; noint3
  | lst a => simp only [createPathCheck, py_throw]; noint3
  | set a => simp only [createPathCheck, py_throw]; noint3

theorem del_op_arity (name : String) (n : Nat)
    (h : pathBinaryOperators.contains name = true ∨ pathUnaryOperators.contains name = true ∨ delOperators.contains name = true ∨ name = "&")
    (hok : arityOK delTable name n = true) :
    (n = 1 ∧ (pathUnaryOperators.contains name = true ∨ name = "&")) ∨
    (n = 2 ∧ (pathBinaryOperators.contains name = true ∨ delOperators.contains name = true)) := by
  have hcases : name = "+" ∨ name = ";;" ∨ name = "*" ∨ name = "?" ∨ name = ".>*" ∨ name = ".>?" ∨ name = "&" := by
    simp only [pathBinaryOperators, pathUnaryOperators, delOperators, List.contains_cons, List.contains_nil, Bool.or_false,
      Bool.or_eq_true, beq_iff_eq] at h
    rcases h with (h | h) | (h | h) | (h | h) | h <;> simp [h]
  rcases hcases with h | h | h | h | h | h | h <;> subst h <;> revert hok <;>
    simp only [arityOK, tableFind] <;>
    (cases n with
     | zero => decide
     | succ m => cases m with
       | zero => decide
       | succ k => cases k with
         | zero => decide
         | succ j => simp [delTable])

end TelProofs
