/-
C01: for programs of the core rule fragment, the stable models of the model's accumulated ground
program `G P h` are exactly (the embeddings of) the temporal stable models of `P` over traces of
length `h+1`.
-/
import TelProofs.GroundLemmas
import TelProofs.Props.C09
import TelProofs.Quant

set_option linter.unusedSimpArgs false
set_option linter.unusedVariables false

namespace TelProofs
open TelSpec TelModel TelModel.Generated

/-! ### the core fragment -/

def litCore : BLit → Bool
  | .atom _ _ sh => decide (sh ≤ 0)
  | .init _ _ => true
  | .kw _ _ => true
  | .tel _ _ => false
  | .del _ _ => false

def headCore : Head → Bool
  | .atom _ n => n == 0
  | .disj _ => true
  | .choice _ => true
  | .falsum => true
  | .nlit _ _ _ => false
  | .tel _ => false

def ruleCore (r : TRule) : Bool := headCore r.head && r.body.all litCore
def progCore (P : TProg) : Bool := P.all ruleCore

/-! ### interpretations from traces -/

def embed (h : Nat) (T : Trace) : Interp
  | .user a k => decide (0 ≤ k) && decide (k ≤ (h : Int)) && T k.toNat a
  | .initial k => k == 0
  | .final k => k == (h : Int)
  | .future _ _ _ => false

def traceOf (X : Interp) : Trace := fun k a => X (.user a (k : Int))

/-- value of an evaluated literal in the HT interpretation `(H, X)` -/
def litVal (H X : Interp) : LitRes → Bool
  | .tt => true
  | .ff => false
  | .pos a => H a
  | .neg a => !(X a)
  | .nneg a => X a

theorem mkRule_some {head : List GAtom} {c : Bool} {lits : List LitRes} {r : GRule} (H X : Interp)
    (h : mkRule head c lits = some r) :
    r.head = head ∧ r.choice = c ∧ r.bodyHolds H X = lits.all (litVal H X) := by
  unfold mkRule at h
  split at h
  · cases h
  · rename_i hno
    cases h
    refine ⟨rfl, rfl, ?_⟩
    simp only [GRule.bodyHolds]
    have hnoff : ∀ l ∈ lits, (match l with | LitRes.ff => true | _ => false) = false := by
      intro l hl
      cases hm : (match l with | LitRes.ff => true | _ => false)
      · rfl
      · exfalso; apply hno; simp only [List.any_eq_true]; exact ⟨l, hl, hm⟩
    clear hno
    induction lits with
    | nil => rfl
    | cons l ls ih =>
      have hl := hnoff l (List.mem_cons_self)
      have ih' := ih (fun x hx => hnoff x (List.mem_cons_of_mem _ hx))
      cases l with
      | tt => simpa [litVal] using ih'
      | ff => simp at hl
      | pos a =>
        simp only [List.filterMap_cons, List.all_cons, litVal] at ih' ⊢
        rw [← ih']; cases H a <;> simp
      | neg a =>
        simp only [List.filterMap_cons, List.all_cons, litVal] at ih' ⊢
        rw [← ih']
        cases X a <;> simp [Bool.and_comm, Bool.and_left_comm, Bool.and_assoc]
      | nneg a =>
        simp only [List.filterMap_cons, List.all_cons, litVal] at ih' ⊢
        rw [← ih']
        cases X a <;> simp [Bool.and_comm, Bool.and_left_comm, Bool.and_assoc]

theorem mkRule_none {head : List GAtom} {c : Bool} {lits : List LitRes} (H X : Interp)
    (h : mkRule head c lits = none) : lits.all (litVal H X) = false := by
  unfold mkRule at h
  split at h
  · rename_i hany
    simp only [List.any_eq_true] at hany
    obtain ⟨l, hl, hm⟩ := hany
    cases hall : lits.all (litVal H X)
    · rfl
    · simp only [List.all_eq_true] at hall
      have := hall l hl
      cases l <;> simp [litVal] at hm this
  · cases h

end TelProofs

namespace TelProofs
open TelSpec TelModel TelModel.Generated

section
variable (h : Nat) (W T : Trace)

theorem int_beq_nat (a b : Nat) : ((a : Int) == (b : Int)) = (a == b) := by
  by_cases hab : a = b
  · subst hab; simp
  · have h1 : ¬ ((a : Int) = (b : Int)) := by omega
    have e1 : ((a : Int) == (b : Int)) = false := by
      cases hh : ((a : Int) == (b : Int))
      · rfl
      · exact absurd (beq_iff_eq.mp hh) h1
    have e2 : (a == b) = false := by
      cases hh : (a == b)
      · rfl
      · exact absurd (beq_iff_eq.mp hh) hab
    rw [e1, e2]

theorem embed_user_in (a : String) (j : Nat) (hj : j ≤ h) : embed h W (.user a (j : Int)) = W j a := by
  simp [embed]; omega

theorem atPos_embed (a : String) (j : Int) : atPos h W a j = embed h W (.user a j) := by
  unfold atPos embed
  by_cases h1 : 0 ≤ j ∧ j ≤ (h : Int)
  · simp [h1, h1.1, h1.2]
  · simp only [h1, if_false]
    by_cases h0 : 0 ≤ j
    · have : ¬ j ≤ (h : Int) := fun hh => h1 ⟨h0, hh⟩
      simp [h0, this]
    · simp [h0]

theorem signLit_val (sg : Sign) (a : GAtom) : litVal (embed h W) (embed h T) (signLit sg true a) =
    sg.app (embed h W a) (embed h T a) := by
  cases sg <;> rfl

theorem signConst_val (sg : Sign) (b : Bool) : litVal (embed h W) (embed h T) (signConst sg b) = sg.app b b := by
  cases sg <;> cases b <;> rfl

/-- an evaluated core literal has the value the specification gives it -/
theorem litAt_val (k : Nat) (hk : k ≤ h) (l : BLit) (hl : litCore l = true) :
    litVal (embed h W) (embed h T) (litAt k (k : Int) l) = l.holds h W T k := by
  cases l with
  | atom sg a sh =>
    simp only [litCore, decide_eq_true_eq] at hl
    simp only [litAt, BLit.holds, atPos_embed]
    by_cases hkn : known k ((k : Int) + sh) = true
    · rw [hkn, signLit_val]
    · have hkn' : known k ((k : Int) + sh) = false := by
        cases hh : known k ((k : Int) + sh)
        · rfl
        · exact absurd hh hkn
      rw [hkn']
      -- unknown at grounding time means before state 0: false in both worlds
      have hneg : ¬ (0 ≤ (k : Int) + sh) := by
        intro h0
        apply hkn
        simp [known, h0]; omega
      have e1 : embed h W (.user a ((k : Int) + sh)) = false := by simp [embed, hneg]
      have e2 : embed h T (.user a ((k : Int) + sh)) = false := by simp [embed, hneg]
      rw [e1, e2]
      cases sg <;> rfl
  | init sg a =>
    simp only [litAt, BLit.holds, signLit_val]
    have e1 : embed h W (.user a 0) = W 0 a := by simpa using embed_user_in h W a 0 (Nat.zero_le _)
    have e2 : embed h T (.user a 0) = T 0 a := by simpa using embed_user_in h T a 0 (Nat.zero_le _)
    rw [e1, e2]
  | kw sg w =>
    cases w with
    | ktrue => simp only [litAt, BLit.holds, signConst_val, Kw.holds]
    | kfalse => simp only [litAt, BLit.holds, signConst_val, Kw.holds]
    | kinitial =>
      simp only [litAt, BLit.holds, signLit_val, Kw.holds, embed]
      have : ((k : Int) == 0) = (k == 0) := int_beq_nat k 0
      rw [this]
    | kfinal =>
      simp only [litAt, BLit.holds, signLit_val, Kw.holds, embed]
      rw [int_beq_nat k h]
  | tel _ _ => simp [litCore] at hl
  | del _ _ => simp [litCore] at hl

theorem body_val (k : Nat) (hk : k ≤ h) (body : List BLit) (hb : body.all litCore = true) :
    (body.map (litAt k (k : Int))).all (litVal (embed h W) (embed h T)) = body.all (BLit.holds h W T k) := by
  induction body with
  | nil => rfl
  | cons l ls ih =>
    simp only [List.all_cons, Bool.and_eq_true] at hb
    simp only [List.map_cons, List.all_cons, litAt_val h W T k hk l hb.1, ih hb.2]

/-- the body literals of the instance, including the `__final(t)` literal of final-part rules -/
def instBody (k : Nat) (r : TRule) : List LitRes :=
  let body := r.body.map (litAt k (k : Int))
  if r.part == .final then body ++ [LitRes.pos (.final (k : Int))] else body

theorem instBody_val (k : Nat) (hk : k ≤ h) (r : TRule) (hb : r.body.all litCore = true) :
    (instBody k r).all (litVal (embed h W) (embed h T)) =
      (r.body.all (BLit.holds h W T k) && (if r.part == .final then k == h else true)) := by
  unfold instBody
  have hfin : embed h W (.final (k : Int)) = (k == h) := by
    simp only [embed]; exact int_beq_nat k h
  by_cases hf : (r.part == .final) = true
  · simp only [hf, if_true, List.all_append, List.all_cons, List.all_nil, litVal, hfin, Bool.and_true]
    rw [body_val h W T k hk r.body hb]
  · simp only [hf, if_false, Bool.and_true, Bool.false_eq_true]
    rw [body_val h W T k hk r.body hb]

/-- for a core rule the instance is built from `instBody` and the present-state head atoms -/
theorem instAt_core (k : Nat) (r : TRule) (hc : headCore r.head = true) :
    instAt k (k : Int) none r =
      match r.head with
      | .atom a _ => mkRule [.user a (k : Int)] false (instBody k r)
      | .disj as => mkRule (as.map fun a => .user a (k : Int)) false (instBody k r)
      | .choice as => mkRule (as.map fun a => .user a (k : Int)) true (instBody k r)
      | .falsum => mkRule [] false (instBody k r)
      | _ => none := by
  unfold instAt instBody
  cases hh : r.head with
  | atom a n =>
    rw [hh] at hc
    simp only [headCore, beq_iff_eq] at hc
    subst hc
    simp
  | disj as => simp
  | choice as => simp
  | falsum => simp
  | nlit sg a n => rw [hh] at hc; simp [headCore] at hc
  | tel f => simp

/-- head of a core rule: specification value = value of the instance head -/
theorem head_val (k : Nat) (hk : k ≤ h) (r : TRule) (hc : headCore r.head = true) (r' : GRule)
    (hi : instAt k (k : Int) none r = some r') :
    r'.headHolds (embed h W) (embed h T) = r.head.holds h W T k := by
  rw [instAt_core k r hc] at hi
  cases hh : r.head with
  | atom a n =>
    rw [hh] at hc hi
    simp only [headCore, beq_iff_eq] at hc
    subst hc
    obtain ⟨h1, h2, _⟩ := mkRule_some (embed h W) (embed h T) hi
    simp only [GRule.headHolds, h1, h2, Bool.false_eq_true, if_false, List.any_cons, List.any_nil, Bool.or_false,
      Head.holds, atPos_embed]
    rfl
  | disj as =>
    rw [hh] at hi
    obtain ⟨h1, h2, _⟩ := mkRule_some (embed h W) (embed h T) hi
    simp only [GRule.headHolds, h1, h2, Bool.false_eq_true, if_false, Head.holds, List.any_map]
    congr 1; funext a
    exact embed_user_in h W a k hk
  | choice as =>
    rw [hh] at hi
    obtain ⟨h1, h2, _⟩ := mkRule_some (embed h W) (embed h T) hi
    simp only [GRule.headHolds, h1, h2, if_true, Head.holds, List.all_map]
    congr 1; funext a
    simp only [Function.comp, embed_user_in h W a k hk, embed_user_in h T a k hk]
  | falsum =>
    rw [hh] at hi
    obtain ⟨h1, h2, _⟩ := mkRule_some (embed h W) (embed h T) hi
    simp [GRule.headHolds, h1, h2, Head.holds]
  | nlit sg a n => rw [hh] at hc; simp [headCore] at hc
  | tel f => rw [hh] at hc; simp [headCore] at hc

/-- **instance lemma**: satisfaction of the ground instance at time `k` = satisfaction of the temporal
    rule at position `k` (the `__final` literal of final-part rules plays the role of "applies at h") -/
theorem inst_sat (k : Nat) (hk : k ≤ h) (r : TRule) (hc : ruleCore r = true) :
    (match instAt k (k : Int) none r with
     | some r' => r'.sat (embed h W) (embed h T)
     | none => true) =
    (!(r.body.all (BLit.holds h W T k) && (if r.part == .final then k == h else true)) || r.head.holds h W T k) := by
  simp only [ruleCore, Bool.and_eq_true] at hc
  cases hi : instAt k (k : Int) none r with
  | none =>
    rw [instAt_core k r hc.1] at hi
    have hbf : (instBody k r).all (litVal (embed h W) (embed h T)) = false := by
      cases hh : r.head with
      | atom a n => rw [hh] at hi; exact mkRule_none _ _ hi
      | disj as => rw [hh] at hi; exact mkRule_none _ _ hi
      | choice as => rw [hh] at hi; exact mkRule_none _ _ hi
      | falsum => rw [hh] at hi; exact mkRule_none _ _ hi
      | nlit sg a n => rw [hh] at hc; simp [headCore] at hc
      | tel f => rw [hh] at hc; simp [headCore] at hc
    rw [instBody_val h W T k hk r hc.2] at hbf
    rw [hbf]; rfl
  | some r' =>
    have hhead := head_val h W T k hk r hc.1 r' hi
    have hbody : r'.bodyHolds (embed h W) (embed h T) = (instBody k r).all (litVal (embed h W) (embed h T)) := by
      rw [instAt_core k r hc.1] at hi
      cases hh : r.head with
      | atom a n => rw [hh] at hi; exact (mkRule_some _ _ hi).2.2
      | disj as => rw [hh] at hi; exact (mkRule_some _ _ hi).2.2
      | choice as => rw [hh] at hi; exact (mkRule_some _ _ hi).2.2
      | falsum => rw [hh] at hi; exact (mkRule_some _ _ hi).2.2
      | nlit sg a n => rw [hh] at hc; simp [headCore] at hc
      | tel f => rw [hh] at hc; simp [headCore] at hc
    simp only [GRule.sat, hbody, instBody_val h W T k hk r hc.2, hhead]
end

end TelProofs

namespace TelProofs
open TelSpec TelModel TelModel.Generated

/-! ### structure of `G P h` for core programs -/

theorem foldl_max_zero (l : List Nat) (hl : ∀ x ∈ l, x = 0) : l.foldl max 0 = 0 := by
  induction l with
  | nil => rfl
  | cons x xs ih =>
    have hx := hl x (List.mem_cons_self)
    subst hx
    simp only [List.foldl_cons, Nat.max_self]
    exact ih (fun y hy => hl y (List.mem_cons_of_mem _ hy))

theorem core_lookahead (r : TRule) (hc : ruleCore r = true) : lookahead r = 0 := by
  simp only [ruleCore, Bool.and_eq_true] at hc
  unfold lookahead
  split
  · unfold maxShift
    have hhd : (match r.head with | .nlit _ _ n => n | _ => 0) = 0 := by
      cases hh : r.head <;> simp
      rw [hh] at hc; simp [headCore] at hc
    show List.foldl max (match r.head with | .nlit _ _ n => n | _ => 0)
      (r.body.map fun l => match l with | .atom _ _ sh => sh.toNat | _ => 0) = 0
    rw [hhd]
    apply foldl_max_zero
    intro x hx
    simp only [List.mem_map] at hx
    obtain ⟨l, hl, rfl⟩ := hx
    have := List.all_eq_true.mp hc.2 l hl
    cases l with
    | atom sg a sh => simp only [litCore, decide_eq_true_eq] at this; simp; omega
    | _ => rfl
  · rfl

theorem core_lookKeys (P : TProg) (hc : progCore P = true) : lookKeys P = [] := by
  unfold lookKeys
  suffices h : ∀ (Q : TProg), (∀ r ∈ Q, ruleCore r = true) →
      Q.foldl (fun acc r =>
        let n := lookahead r
        if n > 0 && !(acc.contains (rootOf r.part, n)) then acc ++ [(rootOf r.part, n)] else acc) [] = [] from
    h P (fun r hr => List.all_eq_true.mp hc r hr)
  intro Q
  induction Q with
  | nil => intro _; rfl
  | cons q Q ih =>
    intro hq
    have hl := core_lookahead q (hq q List.mem_cons_self)
    have hstep : (let n := lookahead q;
        if n > 0 && !(([] : List (Root × Nat)).contains (rootOf q.part, n)) then [] ++ [(rootOf q.part, n)] else []) = [] := by
      simp [hl]
    simp only [List.foldl_cons]
    rw [hstep]
    exact ih (fun r hr => hq r (List.mem_cons_of_mem _ hr))

theorem core_futureHeads (P : TProg) (hc : progCore P = true) : futureHeads P = [] := by
  unfold futureHeads
  suffices h : ∀ (Q : TProg), (∀ r ∈ Q, ruleCore r = true) →
      Q.foldl (fun acc r => match r.head with
        | .atom a n => if n > 0 && !(acc.contains (a, n)) then acc ++ [(a, n)] else acc
        | _ => acc) [] = [] from
    h P (fun r hr => List.all_eq_true.mp hc r hr)
  intro Q
  induction Q with
  | nil => intro _; rfl
  | cons q Q ih =>
    intro hq
    have hqc := hq q List.mem_cons_self
    simp only [ruleCore, Bool.and_eq_true] at hqc
    simp only [List.foldl_cons]
    have : (match q.head with
        | .atom a n => if n > 0 && !(([] : List (String × Nat)).contains (a, n)) then [] ++ [(a, n)] else []
        | _ => []) = [] := by
      cases hh : q.head with
      | atom a n =>
        rw [hh] at hqc; simp only [headCore, beq_iff_eq] at hqc
        simp [hqc.1]
      | _ => rfl
    rw [this]
    exact ih (fun r hr => hq r (List.mem_cons_of_mem _ hr))

/-- does the root of the rule's part apply at step `s`? -/
def rootOK (r : TRule) (s : Nat) : Bool :=
  match rootOf r.part with
  | .always => true
  | .dynamic => decide (0 < s)
  | .initial => s == 0

theorem core_spartsOf (P : TProg) (hc : progCore P = true) :
    spartsOf P = [⟨.always, .std⟩, ⟨.dynamic, .std⟩, ⟨.initial, .std⟩] := by
  simp [spartsOf, core_lookKeys P hc]

theorem core_selected (P : TProg) (hc : progCore P = true) (s : Nat) (p : SPart) (t : Int) :
    (p, t) ∈ selected P s ↔ t = (s : Int) ∧ p.kind = .std ∧
      ((p.root = .always) ∨ (p.root = .dynamic ∧ 0 < s) ∨ (p.root = .initial ∧ s = 0)) := by
  simp only [selected, core_spartsOf P hc, List.mem_flatMap, List.mem_filterMap, List.mem_cons, List.mem_nil_iff, or_false]
  constructor
  · rintro ⟨q, hq, i, hi, hsel⟩
    split at hsel
    · rename_i hcond
      simp only [Option.some.injEq, Prod.mk.injEq] at hsel
      obtain ⟨rfl, rfl⟩ := hsel
      rcases hq with rfl | rfl | rfl <;> simp only [SPart.range, List.mem_singleton] at hi <;> subst hi
      · exact ⟨by simp, rfl, Or.inl rfl⟩
      · refine ⟨by simp, rfl, Or.inr (Or.inl ⟨rfl, ?_⟩)⟩
        rcases (partCond_spec _ _ _).mp hcond with ⟨h1, _⟩ | ⟨_, h2⟩ | ⟨h1, _⟩
        · simp [Root.name] at h1
        · omega
        · simp [Root.name] at h1
      · refine ⟨by simp, rfl, Or.inr (Or.inr ⟨rfl, ?_⟩)⟩
        rcases (partCond_spec _ _ _).mp hcond with ⟨h1, _⟩ | ⟨h1, _⟩ | ⟨_, h2⟩
        · simp [Root.name] at h1
        · simp [Root.name] at h1
        · omega
    · cases hsel
  · rintro ⟨rfl, hk, hroot⟩
    obtain ⟨root, kind⟩ := p
    simp only at hk hroot
    subst hk
    rcases hroot with rfl | ⟨rfl, hs⟩ | ⟨rfl, hs⟩
    · refine ⟨_, Or.inl rfl, 0, by simp [SPart.range], ?_⟩
      have : partCond "always" (s : Int) 0 = true := (partCond_spec _ _ _).mpr (Or.inl ⟨rfl, by omega⟩)
      simp [Root.name, this]
    · refine ⟨_, Or.inr (Or.inl rfl), 0, by simp [SPart.range], ?_⟩
      have : partCond "dynamic" (s : Int) 0 = true := (partCond_spec _ _ _).mpr (Or.inr (Or.inl ⟨rfl, by omega⟩))
      simp [Root.name, this]
    · refine ⟨_, Or.inr (Or.inr rfl), 0, by simp [SPart.range], ?_⟩
      subst hs
      have : partCond "initial" 0 0 = true := (partCond_spec _ _ _).mpr (Or.inr (Or.inr ⟨rfl, by simp⟩))
      simp [Root.name, this]

theorem core_rulesOfPart (P : TProg) (hc : progCore P = true) (root : Root) (r : TRule) (g : Bool) :
    (r, g) ∈ rulesOfPart P ⟨root, .std⟩ ↔ r ∈ P ∧ rootOf r.part = root ∧ g = false := by
  simp only [rulesOfPart, List.mem_filterMap]
  constructor
  · rintro ⟨q, hq, hsel⟩
    split at hsel
    · cases hsel
    · rename_i hroot
      split at hsel
      · simp only [Option.some.injEq, Prod.mk.injEq] at hsel
        obtain ⟨rfl, rfl⟩ := hsel
        refine ⟨hq, ?_, rfl⟩
        simpa using hroot
      · cases hsel
  · rintro ⟨hr, hroot, rfl⟩
    refine ⟨r, hr, ?_⟩
    have hl := core_lookahead r (List.all_eq_true.mp hc r hr)
    simp [hroot, hl]

/-- the rules one step adds, for a core program -/
theorem core_groundAt (P : TProg) (hc : progCore P = true) (s : Nat) (r' : GRule) :
    r' ∈ groundAt P s ↔
      (∃ r ∈ P, rootOK r s = true ∧ instAt s (s : Int) none r = some r') ∨
      (s = 0 ∧ r' = { head := [.initial 0] }) := by
  simp only [groundAt, List.mem_flatMap, core_futureHeads P hc, List.map_nil, List.append_nil, ite_self]
  constructor
  · rintro ⟨⟨p, t⟩, hsel, hr⟩
    obtain ⟨rfl, hk, hroot⟩ := (core_selected P hc s p t).mp hsel
    obtain ⟨root, kind⟩ := p
    simp only at hk hroot
    subst hk
    simp only [List.mem_append, List.mem_filterMap] at hr
    rcases hr with ⟨⟨r, g⟩, hmem, hinst⟩ | hr
    · obtain ⟨hrP, hrr, rfl⟩ := (core_rulesOfPart P hc root r g).mp hmem
      left
      refine ⟨r, hrP, ?_, by simpa using hinst⟩
      unfold rootOK
      rw [hrr]
      rcases hroot with rfl | ⟨rfl, hs⟩ | ⟨rfl, hs⟩ <;> simp [*]
    · split at hr
      · rename_i hp
        simp only [SPart.mk.injEq] at hp
        rcases hroot with h1 | ⟨h1, _⟩ | ⟨h1, hs⟩
        · rw [h1] at hp; simp at hp
        · rw [h1] at hp; simp at hp
        · right; subst hs; simp at hr; exact ⟨rfl, hr⟩
      · cases hr
  · rintro (⟨r, hrP, hok, hinst⟩ | ⟨rfl, rfl⟩)
    · refine ⟨(⟨rootOf r.part, .std⟩, (s : Int)), ?_, ?_⟩
      · apply (core_selected P hc s _ _).mpr
        refine ⟨rfl, rfl, ?_⟩
        unfold rootOK at hok
        cases hroot : rootOf r.part <;> rw [hroot] at hok <;> simp at hok ⊢
        · exact hok
        · exact hok
      · simp only [List.mem_append, List.mem_filterMap]
        left
        exact ⟨(r, false), (core_rulesOfPart P hc _ r false).mpr ⟨hrP, rfl, rfl⟩, by simpa using hinst⟩
    · refine ⟨(⟨.initial, .std⟩, 0), ?_, ?_⟩
      · exact (core_selected P hc 0 _ _).mpr ⟨rfl, rfl, Or.inr (Or.inr ⟨rfl, rfl⟩)⟩
      · simp

/-- no future atoms in core programs, hence no assumption constraints -/
theorem core_G_mem (P : TProg) (hc : progCore P = true) (h : Nat) (r' : GRule) :
    r' ∈ G P h ↔ (∃ s, s ≤ h ∧ r' ∈ groundAt P s) ∨ r' = { head := [.final (h : Int)] } := by
  have hfa : futureAtoms (accRules P h) = [] := by
    apply List.eq_nil_iff_forall_not_mem.mpr
    intro a ha
    simp only [futureAtoms, List.mem_eraseDups, List.mem_flatMap, List.mem_filter] at ha
    obtain ⟨r, hr, hmem, hfut⟩ := ha
    obtain ⟨s, _, hg⟩ := (mem_accRules P h r).mp hr
    have hok := groundAt_heads P s r hg a hmem
    cases a with
    | future x n k =>
      simp only [HeadAtomOk, core_futureHeads P hc] at hok
      exact absurd hok.1 (by simp)
    | _ => simp at hfut
  simp only [G, hfa, List.filterMap_nil, List.append_nil, List.mem_append, List.mem_singleton, mem_accRules]

end TelProofs

namespace TelProofs
open TelSpec TelModel TelModel.Generated

/-- the specification's per-position satisfaction, reorganised by the root of the part -/
theorem spec_pos_eq (h : Nat) (W T : Trace) (r : TRule) (k : Nat) :
    (!(r.part.applies h k) || !(r.body.all (BLit.holds h W T k)) || r.head.holds h W T k) =
    (if rootOK r k then
      (!(r.body.all (BLit.holds h W T k) && (if r.part == .final then k == h else true)) || r.head.holds h W T k)
     else true) := by
  unfold rootOK
  cases hp : r.part <;> simp [rootOf, Part.applies] <;>
    cases r.body.all (BLit.holds h W T k) <;> cases r.head.holds h W T k <;> simp
  all_goals (by_cases hk : k = 0 <;> simp [hk] <;> omega)

/-- **satisfaction equivalence**: the embedded HT interpretation satisfies all rules of `G P h` iff the
    pair of traces satisfies all temporal rules -/
theorem core_sat_iff (P : TProg) (hc : progCore P = true) (h : Nat) (W T : Trace) :
    (∀ r' ∈ G P h, r'.sat (embed h W) (embed h T) = true) ↔ (∀ r ∈ P, r.sat h W T = true) := by
  constructor
  · intro hG r hr
    have hrc := List.all_eq_true.mp hc r hr
    simp only [TRule.sat, allUpTo_iff]
    intro k hk
    rw [spec_pos_eq]
    split
    · rename_i hok
      rw [← inst_sat h W T k hk r hrc]
      cases hi : instAt k (k : Int) none r with
      | none => rfl
      | some r' =>
        apply hG r'
        exact (core_G_mem P hc h r').mpr (Or.inl ⟨k, hk, (core_groundAt P hc k r').mpr (Or.inl ⟨r, hr, hok, hi⟩)⟩)
    · rfl
  · intro hP r' hr'
    rcases (core_G_mem P hc h r').mp hr' with ⟨s, hs, hg⟩ | rfl
    · rcases (core_groundAt P hc s r').mp hg with ⟨r, hr, hok, hi⟩ | ⟨rfl, rfl⟩
      · have hrc := List.all_eq_true.mp hc r hr
        have := hP r hr
        simp only [TRule.sat, allUpTo_iff] at this
        have hk := this s hs
        rw [spec_pos_eq, hok, if_pos rfl, ← inst_sat h W T s hs r hrc, hi] at hk
        exact hk
      · simp [GRule.sat, GRule.bodyHolds, GRule.headHolds, embed]
    · simp [GRule.sat, GRule.bodyHolds, GRule.headHolds, embed]

theorem embed_le {h : Nat} {W T : Trace} (hle : TraceLe h W T) : (embed h W).le (embed h T) := by
  intro a ha
  cases a with
  | user x k =>
    simp only [embed, Bool.and_eq_true, decide_eq_true_eq] at ha ⊢
    refine ⟨ha.1, hle k.toNat (by omega) x ha.2⟩
  | initial k => exact ha
  | final k => exact ha
  | future x n k => exact ha

theorem traceOf_embed (h : Nat) (T : Trace) : TraceEq h (traceOf (embed h T)) T := by
  intro k hk a
  simp [traceOf, embed]; omega

/-- an interpretation below an embedded trace that contains the two facts is itself an embedding -/
theorem below_embed {h : Nat} {T : Trace} {H : Interp} (hle : H.le (embed h T))
    (hi : H (.initial 0) = true) (hf : H (.final (h : Int)) = true) : ∀ a, H a = embed h (traceOf H) a := by
  intro a
  cases a with
  | user x k =>
    by_cases hr : 0 ≤ k ∧ k ≤ (h : Int)
    · have : ((k.toNat : Nat) : Int) = k := by omega
      simp only [embed, traceOf, hr.1, hr.2, decide_true, Bool.true_and, this]
    · have hX : embed h T (.user x k) = false := by
        simp only [embed]
        by_cases h0 : 0 ≤ k
        · have : ¬ k ≤ (h : Int) := fun hh => hr ⟨h0, hh⟩
          simp [h0, this]
        · simp [h0]
      have hH : H (.user x k) = false := by
        cases hh : H (.user x k)
        · rfl
        · have := hle _ hh; rw [hX] at this; cases this
      rw [hH]
      simp only [embed]
      by_cases h0 : 0 ≤ k
      · have : ¬ k ≤ (h : Int) := fun hh => hr ⟨h0, hh⟩
        simp [h0, this]
      · simp [h0]
  | initial k =>
    simp only [embed]
    by_cases hk : k = 0
    · subst hk; simpa using hi
    · have hX : embed h T (.initial k) = false := by simp [embed, hk]
      cases hh : H (.initial k)
      · simp [hk]
      · have := hle _ hh; rw [hX] at this; cases this
  | final k =>
    simp only [embed]
    by_cases hk : k = (h : Int)
    · subst hk; simpa using hf
    · have hX : embed h T (.final k) = false := by simp [embed, hk]
      cases hh : H (.final k)
      · simp [hk]
      · have := hle _ hh; rw [hX] at this; cases this
  | future x n k =>
    cases hh : H (.future x n k)
    · rfl
    · have := hle _ hh; simp [embed] at this

theorem embed_congr {h : Nat} {W T : Trace} (heq : TraceEq h W T) : embed h W = embed h T := by
  funext a
  cases a with
  | user x k =>
    simp only [embed]
    by_cases hr : 0 ≤ k ∧ k ≤ (h : Int)
    · rw [heq k.toNat (by omega) x]
    · by_cases h0 : 0 ≤ k
      · have : ¬ k ≤ (h : Int) := fun hh => hr ⟨h0, hh⟩
        simp [h0, this]
      · simp [h0]
  | _ => rfl

/-- **C01, main theorem** (core fragment): the stable models of the accumulated ground program at horizon
    `h` are exactly the embeddings of the temporal stable models of `P` over traces of length `h+1`. -/
theorem core_stable_iff (P : TProg) (hc : progCore P = true) (h : Nat) :
    (∀ X, Stable (G P h) X → TSM h P (traceOf X) ∧ X = embed h (traceOf X)) ∧
    (∀ T, TSM h P T → Stable (G P h) (embed h T)) := by
  constructor
  · intro X hs
    -- X is an embedding (C09)
    have hX : X = embed h (traceOf X) := by
      funext a
      cases a with
      | user x k =>
        by_cases hr : 0 ≤ k ∧ k ≤ (h : Int)
        · have : ((k.toNat : Nat) : Int) = k := by omega
          simp only [embed, traceOf, hr.1, hr.2, decide_true, Bool.true_and, this]
        · have : X (.user x k) = false := by
            cases hh : X (.user x k)
            · rfl
            · exact absurd (C09.times_in_range P h X hs x k hh) hr
          rw [this]
          simp only [embed]
          by_cases h0 : 0 ≤ k
          · have : ¬ k ≤ (h : Int) := fun hh => hr ⟨h0, hh⟩
            simp [h0, this]
          · simp [h0]
      | initial k =>
        simp only [embed]
        by_cases hk : k = 0
        · subst hk; simpa using (C09.initial_exact P h X hs 0).mpr rfl
        · have : X (.initial k) = false := by
            cases hh : X (.initial k)
            · rfl
            · exact absurd ((C09.initial_exact P h X hs k).mp hh) hk
          simp [this, hk]
      | final k =>
        simp only [embed]
        by_cases hk : k = (h : Int)
        · subst hk; simpa using (C09.final_exact P h X hs (h : Int)).mpr rfl
        · have : X (.final k) = false := by
            cases hh : X (.final k)
            · rfl
            · exact absurd ((C09.final_exact P h X hs k).mp hh) hk
          simp [this, hk]
      | future x n k =>
        cases hh : X (.future x n k)
        · rfl
        · obtain ⟨r, hr, hmem⟩ := C09.supported P h X hs _ hh
          rcases C09.G_heads P h r hr _ hmem with hok | hf
          · simp only [HeadAtomOk, core_futureHeads P hc] at hok
            exact absurd hok.1 (by simp)
          · cases hf
    refine ⟨⟨?_, ?_⟩, hX⟩
    · have := hs.1
      rw [hX] at this
      exact (core_sat_iff P hc h _ _).mp this
    · intro W hle hW
      have hGW : ∀ r' ∈ G P h, r'.sat (embed h W) (embed h (traceOf X)) = true :=
        (core_sat_iff P hc h W (traceOf X)).mpr hW
      have hmin := hs.2 (embed h W) (by rw [hX]; exact embed_le hle) (by rw [hX]; exact hGW)
      intro k hk a
      have := hmin (.user a (k : Int))
      rw [hX] at this
      simpa [embed, hk] using this
  · intro T hT
    constructor
    · exact (core_sat_iff P hc h T T).mpr hT.1
    · intro H hle hsat a
      have hi : H (.initial 0) = true := by
        have := hsat _ (C09.initial_fact_mem P h)
        simpa [GRule.sat, GRule.bodyHolds, GRule.headHolds] using this
      have hf : H (.final (h : Int)) = true := by
        have := hsat _ (C09.final_fact_mem P h)
        simpa [GRule.sat, GRule.bodyHolds, GRule.headHolds] using this
      have hH := below_embed hle hi hf
      have hHeq : H = embed h (traceOf H) := funext hH
      have hWle : TraceLe h (traceOf H) T := by
        intro k hk x hx
        have := hle (.user x (k : Int)) hx
        simpa [embed, hk] using this
      have hW : ∀ r ∈ P, r.sat h (traceOf H) T = true := by
        apply (core_sat_iff P hc h (traceOf H) T).mp
        rw [← hHeq]; exact hsat
      have heq := hT.2 (traceOf H) hWle hW
      rw [hHeq, embed_congr heq]

end TelProofs
