/-
The executable enumerator of the specification (`isTSM`, used by the `telspec tsm` oracle of the searches) decides
the propositional definition `TSM` that the theorems are about: for ground programs (rules with any heads incl. `&tel` head formulas, body literals incl. `&tel`;
`&del` excluded) whose atoms are in the enumerated atom list, a bit mask passes `isTSM` iff the trace it encodes is a temporal stable
model (and is consistent w.r.t. classical negation, which the enumerator checks in addition).
-/
import TelSpec.Program
import TelProofs.Quant
import TelProofs.DocEq

set_option linter.unusedVariables false
set_option linter.unusedSimpArgs false
set_option linter.unusedSectionVars false

namespace TelProofs
open TelSpec

/-! ### numbers from bits -/

def bitsNat (f : Nat → Bool) : Nat → Nat
  | 0 => 0
  | n+1 => bitsNat f n + (if f n then 2^n else 0)

theorem bitsNat_lt (f : Nat → Bool) : ∀ n, bitsNat f n < 2^n
  | 0 => by simp [bitsNat]
  | n+1 => by
    have ih := bitsNat_lt f n
    simp only [bitsNat]
    have : 2^(n+1) = 2^n + 2^n := by rw [Nat.pow_succ]; omega
    split <;> omega

theorem testBit_bitsNat (f : Nat → Bool) : ∀ n i, (bitsNat f n).testBit i = (decide (i < n) && f i)
  | 0, i => by simp [bitsNat]
  | n+1, i => by
    have ih := testBit_bitsNat f n
    have hlt := bitsNat_lt f n
    simp only [bitsNat]
    by_cases hf : f n = true
    · simp only [hf, if_true]
      rw [Nat.add_comm]
      rcases Nat.lt_trichotomy i n with hi | hi | hi
      · rw [Nat.testBit_two_pow_add_gt hi, ih]
        have : i < n + 1 := by omega
        simp [hi, this]
      · subst hi
        rw [Nat.testBit_two_pow_add_eq, Nat.testBit_lt_two_pow hlt]
        simp [hf]
      · have hbig : 2^n + bitsNat f n < 2^i := by
          have : 2^(n+1) ≤ 2^i := Nat.pow_le_pow_right (by omega) (by omega)
          have : 2^(n+1) = 2^n + 2^n := by rw [Nat.pow_succ]; omega
          omega
        rw [Nat.testBit_lt_two_pow hbig]
        have : ¬ i < n + 1 := by omega
        simp [this]
    · have hf' : f n = false := by
        cases h : f n
        · rfl
        · exact absurd h hf
      simp only [hf', Bool.false_eq_true, if_false, Nat.add_zero, ih]
      by_cases hi : i < n
      · have : i < n + 1 := by omega
        simp [hi, this]
      · by_cases hin : i = n
        · subst hin; simp [hf']
        · have : ¬ i < n + 1 := by omega
          simp [hi, this]

/-! ### positions of atoms -/

theorem idxIn_some {l : List String} {a : String} {i : Nat} (h : idxIn l a = some i) : i < l.length ∧ l[i]? = some a := by
  induction l generalizing i with
  | nil => simp [idxIn] at h
  | cons x xs ih =>
    simp only [idxIn] at h
    by_cases hx : (x == a) = true
    · simp only [hx, if_true, Option.some.injEq] at h
      subst h
      have : x = a := by simpa using hx
      simp [this]
    · simp only [hx, Bool.false_eq_true, if_false, Option.map_eq_some_iff] at h
      obtain ⟨j, hj, rfl⟩ := h
      have := ih hj
      refine ⟨by simp; omega, ?_⟩
      simp only [List.getElem?_cons_succ]
      exact this.2

theorem idxIn_none {l : List String} {a : String} : idxIn l a = none ↔ a ∉ l := by
  induction l with
  | nil => simp [idxIn]
  | cons x xs ih =>
    simp only [idxIn, List.mem_cons, not_or]
    by_cases hx : (x == a) = true
    · have : x = a := by simpa using hx
      simp [hx, this]
    · have hne : ¬ a = x := by intro h; apply hx; simp [h]
      simp [hx, ih, hne]

theorem idxIn_of_get {l : List String} (hnd : l.Nodup) {a : String} {i : Nat} (h : l[i]? = some a) : idxIn l a = some i := by
  induction l generalizing i with
  | nil => simp at h
  | cons x xs ih =>
    rw [List.nodup_cons] at hnd
    cases i with
    | zero =>
      simp only [List.getElem?_cons_zero, Option.some.injEq] at h
      simp [idxIn, h]
    | succ j =>
      simp only [List.getElem?_cons_succ] at h
      have hmem : a ∈ xs := List.mem_of_getElem? h
      have hne : (x == a) = false := by
        cases hh : x == a
        · rfl
        · have : x = a := by simpa using hh
          exact absurd (this ▸ hmem) hnd.1
      simp [idxIn, hne, ih hnd.2 h]

theorem idxIn_mem {l : List String} {a : String} (h : a ∈ l) : ∃ i, idxIn l a = some i := by
  cases hh : idxIn l a with
  | none => exact absurd h (idxIn_none.mp hh)
  | some i => exact ⟨i, rfl⟩

/-! ### masks and traces -/

section
variable (atoms : List String) (h : Nat)

/-- agreement on the enumerated atoms and the positions `0..h` -/
def AgreeOn (W W' : Trace) : Prop := ∀ k, k ≤ h → ∀ a ∈ atoms, W k a = W' k a

/-- the mask of a trace -/
def traceMask (W : Trace) : Nat :=
  bitsNat (fun b => W (b / atoms.length) (atoms.getD (b % atoms.length) "")) (atoms.length * (h + 1))

theorem bit_lt {k i : Nat} (hk : k ≤ h) (hi : i < atoms.length) : k * atoms.length + i < atoms.length * (h + 1) := by
  have : k * atoms.length ≤ h * atoms.length := Nat.mul_le_mul_right _ hk
  rw [Nat.mul_comm atoms.length (h + 1), Nat.succ_mul]
  omega

theorem bit_div {k i : Nat} (hi : i < atoms.length) : (k * atoms.length + i) / atoms.length = k := by
  have hpos : 0 < atoms.length := by omega
  rw [Nat.mul_comm, Nat.mul_add_div hpos, Nat.div_eq_of_lt hi, Nat.add_zero]

theorem bit_mod {k i : Nat} (hi : i < atoms.length) : (k * atoms.length + i) % atoms.length = i := by
  rw [Nat.mul_comm, Nat.mul_add_mod, Nat.mod_eq_of_lt hi]

variable (hnd : atoms.Nodup)
include hnd

theorem maskTrace_traceMask (W : Trace) : AgreeOn atoms h (maskTrace atoms (traceMask atoms h W)) W := by
  intro k hk a ha
  obtain ⟨i, hi⟩ := idxIn_mem ha
  obtain ⟨hil, hget⟩ := idxIn_some hi
  simp only [maskTrace, hi, traceMask, testBit_bitsNat, bit_lt atoms h hk hil, decide_true, Bool.true_and,
    bit_div atoms hil, bit_mod atoms hil]
  have : atoms.getD i "" = a := by simp [List.getD, hget]
  rw [this]

/-- the bit of `maskTrace` read back -/
theorem maskTrace_bit (m : Nat) {k i : Nat} (hi : i < atoms.length) :
    maskTrace atoms m k (atoms.getD i "") = m.testBit (k * atoms.length + i) := by
  have hget : atoms[i]? = some (atoms.getD i "") := by simp [List.getD, hi]
  simp only [maskTrace, idxIn_of_get hnd hget]

theorem maskTrace_notMem (m : Nat) (k : Nat) {a : String} (ha : a ∉ atoms) : maskTrace atoms m k a = false := by
  simp only [maskTrace, idxIn_none.mpr ha]

/-- two masks below `2^(|atoms|·(h+1))` that encode traces agreeing on `0..h` are equal -/
theorem mask_eq_of_agree {s m : Nat} (hs : s < 2 ^ (atoms.length * (h + 1))) (hm : m < 2 ^ (atoms.length * (h + 1)))
    (hag : AgreeOn atoms h (maskTrace atoms s) (maskTrace atoms m)) : s = m := by
  apply Nat.eq_of_testBit_eq
  intro b
  by_cases hb : b < atoms.length * (h + 1)
  · have hpos : 0 < atoms.length := by
      rcases Nat.eq_zero_or_pos atoms.length with h0 | h0
      · rw [h0] at hb; simp at hb
      · exact h0
    have hmod : b % atoms.length < atoms.length := Nat.mod_lt _ hpos
    have hdiv : b / atoms.length ≤ h := by
      have : b / atoms.length < h + 1 := by
        apply (Nat.div_lt_iff_lt_mul hpos).mpr
        rw [Nat.mul_comm]; exact hb
      omega
    have hbe : b / atoms.length * atoms.length + b % atoms.length = b := by
      rw [Nat.mul_comm]; exact Nat.div_add_mod b atoms.length
    have hmem : atoms.getD (b % atoms.length) "" ∈ atoms := by
      simp [List.getD, hmod]
    have := hag (b / atoms.length) hdiv _ hmem
    rw [maskTrace_bit atoms hnd s hmod, maskTrace_bit atoms hnd m hmod, hbe] at this
    exact this
  · have h1 : 2 ^ (atoms.length * (h + 1)) ≤ 2 ^ b := Nat.pow_le_pow_right (by omega) (by omega)
    rw [Nat.testBit_lt_two_pow (by omega : s < 2 ^ b), Nat.testBit_lt_two_pow (by omega : m < 2 ^ b)]

/-- sub-masks encode smaller traces -/
theorem maskTrace_le {s m : Nat} (hsub : s &&& m = s) (k : Nat) (a : String) :
    maskTrace atoms s k a = true → maskTrace atoms m k a = true := by
  simp only [maskTrace]
  cases idxIn atoms a with
  | none => exact id
  | some i =>
    intro hs
    have : (s &&& m).testBit (k * atoms.length + i) = true := by rw [hsub]; exact hs
    rw [Nat.testBit_and] at this
    simp only [Bool.and_eq_true] at this
    exact this.2

end

end TelProofs

namespace TelProofs
open TelSpec

/-! ### finite support -/

def SForm.names : SForm → List String
  | .atom a => [a]
  | .kw _ => []
  | .neg f => SForm.names f
  | .bin _ l r => SForm.names l ++ SForm.names r
  | .prev _ _ f => SForm.names f
  | .next _ _ f => SForm.names f
  | .since l r => SForm.names l ++ SForm.names r
  | .trigger l r => SForm.names l ++ SForm.names r
  | .evP r => SForm.names r
  | .alP r => SForm.names r
  | .unt l r => SForm.names l ++ SForm.names r
  | .rel l r => SForm.names l ++ SForm.names r
  | .evF r => SForm.names r
  | .alF r => SForm.names r
  | .initially f => SForm.names f
  | .finally_ f => SForm.names f
  | .seqPrev _ l r => SForm.names l ++ SForm.names r
  | .seqNext _ l r => SForm.names l ++ SForm.names r

theorem tht_congr_on (atoms : List String) (h : Nat) (f : SForm) (hn : ∀ a ∈ SForm.names f, a ∈ atoms) :
    ∀ (W W' T T' : Trace), AgreeOn atoms h W W' → AgreeOn atoms h T T' → ∀ k, k ≤ h → tht h W T f k = tht h W' T' f k := by
  induction f with
  | atom a =>
    intro W W' T T' hW hT k hk
    simp only [tht]
    exact hW k hk a (hn a (by simp [SForm.names]))
  | kw w => intro W W' T T' hW hT k hk; cases w <;> rfl
  | neg f ih =>
    intro W W' T T' hW hT k hk
    simp only [tht, ih hn T T' T T' hT hT k hk]
  | bin op l r ihl ihr =>
    intro W W' T T' hW hT k hk
    have hl : ∀ a ∈ SForm.names l, a ∈ atoms := fun a ha => hn a (by simp [SForm.names, ha])
    have hr : ∀ a ∈ SForm.names r, a ∈ atoms := fun a ha => hn a (by simp [SForm.names, ha])
    cases op <;> simp only [tht, ihl hl W W' T T' hW hT k hk, ihr hr W W' T T' hW hT k hk,
      ihl hl T T' T T' hT hT k hk, ihr hr T T' T T' hT hT k hk]
  | prev n w f ih =>
    intro W W' T T' hW hT k hk
    simp only [tht]
    split
    · exact ih hn W W' T T' hW hT (k - n) (by omega)
    · rfl
  | next n w f ih =>
    intro W W' T T' hW hT k hk
    simp only [tht]
    split
    · rename_i hle; exact ih hn W W' T T' hW hT (k + n) hle
    · rfl
  | since l r ihl ihr =>
    intro W W' T T' hW hT k hk
    have hl : ∀ a ∈ SForm.names l, a ∈ atoms := fun a ha => hn a (by simp [SForm.names, ha])
    have hr : ∀ a ∈ SForm.names r, a ∈ atoms := fun a ha => hn a (by simp [SForm.names, ha])
    rw [tht_since, tht_since]
    exact sinceB_congr (fun j hj => ihl hl W W' T T' hW hT j (by omega)) (fun j hj => ihr hr W W' T T' hW hT j (by omega))
  | trigger l r ihl ihr =>
    intro W W' T T' hW hT k hk
    have hl : ∀ a ∈ SForm.names l, a ∈ atoms := fun a ha => hn a (by simp [SForm.names, ha])
    have hr : ∀ a ∈ SForm.names r, a ∈ atoms := fun a ha => hn a (by simp [SForm.names, ha])
    rw [tht_trigger, tht_trigger]
    exact triggerB_congr (fun j hj => ihl hl W W' T T' hW hT j (by omega)) (fun j hj => ihr hr W W' T T' hW hT j (by omega))
  | evP r ih =>
    intro W W' T T' hW hT k hk
    rw [tht_evP, tht_evP]
    exact evPB_congr (fun j hj => ih hn W W' T T' hW hT j (by omega))
  | alP r ih =>
    intro W W' T T' hW hT k hk
    rw [tht_alP, tht_alP]
    exact alPB_congr (fun j hj => ih hn W W' T T' hW hT j (by omega))
  | unt l r ihl ihr =>
    intro W W' T T' hW hT k hk
    have hl : ∀ a ∈ SForm.names l, a ∈ atoms := fun a ha => hn a (by simp [SForm.names, ha])
    have hr : ∀ a ∈ SForm.names r, a ∈ atoms := fun a ha => hn a (by simp [SForm.names, ha])
    rw [tht_unt, tht_unt]
    exact untilB_congr (fun j hj => ihl hl W W' T T' hW hT j hj) (fun j hj => ihr hr W W' T T' hW hT j hj)
  | rel l r ihl ihr =>
    intro W W' T T' hW hT k hk
    have hl : ∀ a ∈ SForm.names l, a ∈ atoms := fun a ha => hn a (by simp [SForm.names, ha])
    have hr : ∀ a ∈ SForm.names r, a ∈ atoms := fun a ha => hn a (by simp [SForm.names, ha])
    rw [tht_rel, tht_rel]
    exact releaseB_congr (fun j hj => ihl hl W W' T T' hW hT j hj) (fun j hj => ihr hr W W' T T' hW hT j hj)
  | evF r ih =>
    intro W W' T T' hW hT k hk
    rw [tht_evF, tht_evF]
    exact evFB_congr (fun j hj => ih hn W W' T T' hW hT j hj)
  | alF r ih =>
    intro W W' T T' hW hT k hk
    rw [tht_alF, tht_alF]
    exact alFB_congr (fun j hj => ih hn W W' T T' hW hT j hj)
  | initially f ih =>
    intro W W' T T' hW hT k hk
    simp only [tht]
    exact ih hn W W' T T' hW hT 0 (Nat.zero_le _)
  | finally_ f ih =>
    intro W W' T T' hW hT k hk
    simp only [tht]
    exact ih hn W W' T T' hW hT h (Nat.le_refl _)
  | seqPrev w l r ihl ihr =>
    intro W W' T T' hW hT k hk
    have hl : ∀ a ∈ SForm.names l, a ∈ atoms := fun a ha => hn a (by simp [SForm.names, ha])
    have hr : ∀ a ∈ SForm.names r, a ∈ atoms := fun a ha => hn a (by simp [SForm.names, ha])
    simp only [tht, ihr hr W W' T T' hW hT k hk]
    congr 1
    split
    · exact ihl hl W W' T T' hW hT (k - 1) (by omega)
    · rfl
  | seqNext w l r ihl ihr =>
    intro W W' T T' hW hT k hk
    have hl : ∀ a ∈ SForm.names l, a ∈ atoms := fun a ha => hn a (by simp [SForm.names, ha])
    have hr : ∀ a ∈ SForm.names r, a ∈ atoms := fun a ha => hn a (by simp [SForm.names, ha])
    simp only [tht, ihl hl W W' T T' hW hT k hk]
    congr 1
    split
    · rename_i hle; exact ihr hr W W' T T' hW hT (k + 1) hle
    · rfl


def BLit.names : BLit → List String
  | .atom _ a _ => [a]
  | .init _ a => [a]
  | .tel _ f => SForm.names f
  | _ => []

def Head.names : Head → List String
  | .atom a _ => [a]
  | .disj as => as
  | .choice as => as
  | .nlit _ a _ => [a]
  | .tel f => SForm.names f
  | _ => []

/-- `&del` literals are outside the theorem (the enumerator handles them, the support lemma for `runs` is not proved) -/
def litRule : BLit → Bool
  | .del _ _ => false
  | _ => true

def headRule : Head → Bool := fun _ => true

/-- a rule of the rule fragment all of whose atoms are enumerated -/
def ruleOver (atoms : List String) (r : TRule) : Bool :=
  headRule r.head && r.body.all litRule && (Head.names r.head).all (atoms.contains ·) &&
    r.body.all fun l => (BLit.names l).all (atoms.contains ·)

theorem allUpTo_congr {n : Nat} {p q : Nat → Bool} (h : ∀ j, j ≤ n → p j = q j) : allUpTo n p = allUpTo n q := by
  apply bool_eq_of_iff
  simp only [allUpTo_iff]
  constructor
  · intro hh j hj; rw [← h j hj]; exact hh j hj
  · intro hh j hj; rw [h j hj]; exact hh j hj

section
variable (atoms : List String) (h : Nat)

theorem atPos_congr {W W' : Trace} (hW : AgreeOn atoms h W W') {a : String} (ha : a ∈ atoms) (j : Int) :
    atPos h W a j = atPos h W' a j := by
  unfold atPos
  split
  · rename_i hj; exact hW j.toNat (by omega) a ha
  · rfl

theorem lit_congr {W W' T T' : Trace} (hW : AgreeOn atoms h W W') (hT : AgreeOn atoms h T T') (k : Nat) (hk : k ≤ h)
    (l : BLit) (hl : litRule l = true) (hn : (BLit.names l).all (atoms.contains ·) = true) :
    l.holds h W T k = l.holds h W' T' k := by
  cases l with
  | atom sg a sh =>
    have ha : a ∈ atoms := by simpa [BLit.names] using hn
    simp only [BLit.holds, atPos_congr atoms h hW ha, atPos_congr atoms h hT ha]
  | init sg a =>
    have ha : a ∈ atoms := by simpa [BLit.names] using hn
    simp only [BLit.holds, hW 0 (Nat.zero_le _) a ha, hT 0 (Nat.zero_le _) a ha]
  | kw sg w => rfl
  | tel sg f =>
    have hf : ∀ a ∈ SForm.names f, a ∈ atoms := by
      intro a ha
      have := List.all_eq_true.mp hn a (by simpa [BLit.names] using ha)
      simpa using this
    simp only [BLit.holds, docSem, tht_congr_on atoms h f hf T T' T T' hT hT k hk]
  | del _ _ => simp [litRule] at hl

theorem head_congr {W W' T T' : Trace} (hW : AgreeOn atoms h W W') (hT : AgreeOn atoms h T T') (k : Nat) (hk : k ≤ h)
    (hd : Head) (hh : headRule hd = true) (hn : (Head.names hd).all (atoms.contains ·) = true) :
    hd.holds h W T k = hd.holds h W' T' k := by
  cases hd with
  | atom a n =>
    have ha : a ∈ atoms := by simpa [Head.names] using hn
    simp only [Head.holds, atPos_congr atoms h hW ha]
  | disj as =>
    simp only [Head.names, List.all_eq_true] at hn
    simp only [Head.holds]
    induction as with
    | nil => rfl
    | cons x xs ih =>
      have hx : x ∈ atoms := by simpa using hn x List.mem_cons_self
      simp only [List.any_cons, hW k hk x hx, ih rfl (fun y hy => hn y (List.mem_cons_of_mem _ hy))]
  | choice as =>
    simp only [Head.names, List.all_eq_true] at hn
    simp only [Head.holds]
    induction as with
    | nil => rfl
    | cons x xs ih =>
      have hx : x ∈ atoms := by simpa using hn x List.mem_cons_self
      simp only [List.all_cons, hW k hk x hx, hT k hk x hx, ih rfl (fun y hy => hn y (List.mem_cons_of_mem _ hy))]
  | falsum => rfl
  | nlit sg a n =>
    have ha : a ∈ atoms := by simpa [Head.names] using hn
    simp only [Head.holds, atPos_congr atoms h hW ha, atPos_congr atoms h hT ha]
  | tel f =>
    have hf : ∀ a ∈ SForm.names f, a ∈ atoms := by
      intro a ha
      have := List.all_eq_true.mp hn a (by simpa [Head.names] using ha)
      simpa using this
    simp only [Head.holds]
    exact tht_congr_on atoms h f hf W W' T T' hW hT k hk

/-- satisfaction of a rule over the enumerated atoms sees the traces only on those atoms and positions -/
theorem sat_congr_on {W W' T T' : Trace} (hW : AgreeOn atoms h W W') (hT : AgreeOn atoms h T T') (r : TRule)
    (hr : ruleOver atoms r = true) : r.sat h W T = r.sat h W' T' := by
  simp only [ruleOver, Bool.and_eq_true] at hr
  obtain ⟨⟨⟨h1, h2⟩, h3⟩, h4⟩ := hr
  unfold TRule.sat
  apply allUpTo_congr
  intro k hk
  have hb : r.body.all (BLit.holds h W T k) = r.body.all (BLit.holds h W' T' k) := by
    have h2' := List.all_eq_true.mp h2
    have h4' := List.all_eq_true.mp h4
    generalize r.body = body at h2' h4'
    induction body with
    | nil => rfl
    | cons l ls ih =>
      simp only [List.all_cons,
        lit_congr atoms h hW hT k hk l (h2' l List.mem_cons_self) (h4' l List.mem_cons_self),
        ih (fun x hx => h2' x (List.mem_cons_of_mem _ hx)) (fun x hx => h4' x (List.mem_cons_of_mem _ hx))]
  rw [hb, head_congr atoms h hW hT k hk r.head h1 h3]

end

/-! ### the enumerator decides `TSM` -/

theorem mem_subMasks (m nb s : Nat) : s ∈ subMasks m nb ↔ s < m ∧ s &&& m = s := by
  simp [subMasks, List.mem_filter, List.mem_range]

section
variable (atoms : List String) (h : Nat) (P : TProg)
variable (hnd : atoms.Nodup) (hP : ∀ r ∈ P, ruleOver atoms r = true)
include hnd hP

theorem thtModel_iff (W T : Trace) :
    thtModel h P W T = true ↔ (∀ r ∈ P, r.sat h W T = true) ∧ (∀ r ∈ P, r.sat h T T = true) := by
  simp only [thtModel, List.all_eq_true, Bool.and_eq_true]
  constructor
  · intro hh; exact ⟨fun r hr => (hh r hr).1, fun r hr => (hh r hr).2⟩
  · intro hh r hr; exact ⟨hh.1 r hr, hh.2 r hr⟩

/-- **the enumerator is the specification**: a mask passes `isTSM` iff its trace is a temporal stable model and
    consistent -/
theorem isTSM_iff (m : Nat) (hm : m < 2 ^ (atoms.length * (h + 1))) :
    isTSM h atoms P m = true ↔
      (TSM h P (maskTrace atoms m) ∧ consistent h atoms (maskTrace atoms m) = true) := by
  simp only [isTSM, Bool.and_eq_true, List.all_eq_true, Bool.not_eq_true']
  constructor
  · rintro ⟨⟨hmod, hcons⟩, hmin⟩
    have hTT := ((thtModel_iff atoms h P hnd hP _ _).mp hmod).1
    refine ⟨⟨hTT, ?_⟩, hcons⟩
    intro W hle hW
    -- the mask of W
    let s := traceMask atoms h W
    have hag : AgreeOn atoms h (maskTrace atoms s) W := maskTrace_traceMask atoms h hnd W
    have hsatS : ∀ r ∈ P, r.sat h (maskTrace atoms s) (maskTrace atoms m) = true := by
      intro r hr
      rw [sat_congr_on atoms h hag (fun _ _ _ _ => rfl) r (hP r hr)]
      exact hW r hr
    have hmodS : thtModel h P (maskTrace atoms s) (maskTrace atoms m) = true :=
      (thtModel_iff atoms h P hnd hP _ _).mpr ⟨hsatS, hTT⟩
    have hslt : s < 2 ^ (atoms.length * (h + 1)) := bitsNat_lt _ _
    -- s is a sub-mask of m
    have hsub : s &&& m = s := by
      apply Nat.eq_of_testBit_eq
      intro b
      rw [Nat.testBit_and]
      cases hsb : s.testBit b
      · rfl
      · simp only [Bool.true_and]
        have hb : b < atoms.length * (h + 1) := by
          apply Classical.byContradiction; intro hnb
          have h1 : 2 ^ (atoms.length * (h + 1)) ≤ 2 ^ b := Nat.pow_le_pow_right (by omega) (by omega)
          rw [Nat.testBit_lt_two_pow (by omega : s < 2 ^ b)] at hsb; cases hsb
        have hpos : 0 < atoms.length := by
          rcases Nat.eq_zero_or_pos atoms.length with h0 | h0
          · rw [h0] at hb; simp at hb
          · exact h0
        have hmod' : b % atoms.length < atoms.length := Nat.mod_lt _ hpos
        have hdiv : b / atoms.length ≤ h := by
          have : b / atoms.length < h + 1 := by
            apply (Nat.div_lt_iff_lt_mul hpos).mpr
            rw [Nat.mul_comm]; exact hb
          omega
        have hbe : b / atoms.length * atoms.length + b % atoms.length = b := by
          rw [Nat.mul_comm]; exact Nat.div_add_mod b atoms.length
        have hmem : atoms.getD (b % atoms.length) "" ∈ atoms := by simp [List.getD, hmod']
        have h1 : maskTrace atoms s (b / atoms.length) (atoms.getD (b % atoms.length) "") = true := by
          rw [maskTrace_bit atoms hnd s hmod', hbe]; exact hsb
        have h2 : W (b / atoms.length) (atoms.getD (b % atoms.length) "") = true := by
          rw [← hag (b / atoms.length) hdiv _ hmem]; exact h1
        have h3 := hle (b / atoms.length) hdiv _ h2
        rw [maskTrace_bit atoms hnd m hmod', hbe] at h3
        exact h3
    have hsm : s = m := by
      apply Classical.byContradiction; intro hne
      have hle' : s ≤ m := by rw [← hsub]; exact Nat.and_le_right
      have hlt : s < m := by omega
      have := hmin s ((mem_subMasks m _ s).mpr ⟨hlt, hsub⟩)
      rw [hmodS] at this; cases this
    intro k hk a
    by_cases ha : a ∈ atoms
    · rw [← hag k hk a ha, hsm]
    · have hT : maskTrace atoms m k a = false := maskTrace_notMem atoms hnd m k ha
      rw [hT]
      cases hw : W k a
      · rfl
      · have := hle k hk a hw; rw [hT] at this; cases this
  · rintro ⟨⟨hTT, hmin⟩, hcons⟩
    refine ⟨⟨(thtModel_iff atoms h P hnd hP _ _).mpr ⟨hTT, hTT⟩, hcons⟩, ?_⟩
    intro s hs
    obtain ⟨hlt, hsub⟩ := (mem_subMasks m _ s).mp hs
    cases hmod : thtModel h P (maskTrace atoms s) (maskTrace atoms m)
    · rfl
    · exfalso
      have hsat := ((thtModel_iff atoms h P hnd hP _ _).mp hmod).1
      have hle : TraceLe h (maskTrace atoms s) (maskTrace atoms m) :=
        fun k _ a => maskTrace_le atoms hnd hsub k a
      have heq := hmin _ hle hsat
      have : s = m := mask_eq_of_agree atoms h hnd (by omega) hm (fun k hk a _ => heq k hk a)
      omega

/-- the list the oracle prints: exactly the masks below `2^(|atoms|·(h+1))` whose trace is a consistent temporal stable model -/
theorem mem_tsmMasks (m : Nat) :
    m ∈ tsmMasks h atoms P ↔
      m < 2 ^ (atoms.length * (h + 1)) ∧ TSM h P (maskTrace atoms m) ∧ consistent h atoms (maskTrace atoms m) = true := by
  simp only [tsmMasks, List.mem_filter, List.mem_range]
  constructor
  · rintro ⟨hm, hi⟩
    exact ⟨hm, (isTSM_iff atoms h P hnd hP m hm).mp hi⟩
  · rintro ⟨hm, hi⟩
    exact ⟨hm, (isTSM_iff atoms h P hnd hP m hm).mpr hi⟩

end

end TelProofs

namespace TelProofs
open TelSpec

section
variable (atoms : List String) (h : Nat) (P : TProg)
variable (hnd : atoms.Nodup) (hP : ∀ r ∈ P, ruleOver atoms r = true)
include hnd hP

/-- a temporal stable model is false on every atom the program does not mention -/
theorem tsm_outside_false (T : Trace) (hT : TSM h P T) : ∀ k, k ≤ h → ∀ a, a ∉ atoms → T k a = false := by
  intro k hk a ha
  let W : Trace := fun j b => if b ∈ atoms then T j b else false
  have hle : TraceLe h W T := by
    intro j _ b hb
    simp only [W] at hb
    split at hb
    · exact hb
    · cases hb
  have hag : AgreeOn atoms h W T := by
    intro j _ b hb; simp [W, hb]
  have hsat : ∀ r ∈ P, r.sat h W T = true := by
    intro r hr
    rw [sat_congr_on atoms h hag (fun _ _ _ _ => rfl) r (hP r hr)]
    exact hT.1 r hr
  have := hT.2 W hle hsat k hk a
  simp only [W, ha, if_false] at this
  exact this.symm

/-- **completeness of the enumeration**: every consistent temporal stable model is printed (as the mask of its trace) -/
theorem tsm_enumerated (T : Trace) (hT : TSM h P T) (hc : consistent h atoms T = true) :
    traceMask atoms h T ∈ tsmMasks h atoms P ∧ TraceEq h (maskTrace atoms (traceMask atoms h T)) T := by
  let m := traceMask atoms h T
  have hag : AgreeOn atoms h (maskTrace atoms m) T := maskTrace_traceMask atoms h hnd T
  have hout := tsm_outside_false atoms h P hnd hP T hT
  have heq : TraceEq h (maskTrace atoms m) T := by
    intro k hk a
    by_cases ha : a ∈ atoms
    · exact hag k hk a ha
    · rw [maskTrace_notMem atoms hnd m k ha, hout k hk a ha]
  have hTSM : TSM h P (maskTrace atoms m) := by
    constructor
    · intro r hr
      rw [sat_congr_on atoms h hag hag r (hP r hr)]
      exact hT.1 r hr
    · intro W hle hW
      have hle' : TraceLe h W T := fun k hk a hw => by rw [← heq k hk a]; exact hle k hk a hw
      have hW' : ∀ r ∈ P, r.sat h W T = true := by
        intro r hr
        rw [← sat_congr_on atoms h (fun _ _ _ _ => rfl) hag r (hP r hr)]
        exact hW r hr
      intro k hk a
      rw [hT.2 W hle' hW' k hk a, heq k hk a]
  have hcons : consistent h atoms (maskTrace atoms m) = true := by
    simp only [consistent, allUpTo_iff, List.all_eq_true] at hc ⊢
    intro k hk a ha
    rw [heq k hk a, heq k hk (compl a)]
    exact hc k hk a ha
  exact ⟨(mem_tsmMasks atoms h P hnd hP m).mpr ⟨bitsNat_lt _ _, hTSM, hcons⟩, heq⟩

end

end TelProofs
