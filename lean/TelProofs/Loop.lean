/-
Lemmas about the generated loop condition and the fuelled loop model (C08).
-/
import TelModel.Imain

namespace TelProofs
open TelModel TelModel.Generated

@[simp] theorem pyAnd_ok (a : Bool) (b : Py Bool) : pyAnd (.ok a) b = if a then b else .ok false := by
  cases a <;> rfl
@[simp] theorem pyOr_ok (a : Bool) (b : Py Bool) : pyOr (.ok a) b = if a then .ok true else b := by
  cases a <;> rfl
@[simp] theorem pyNot_ok (a : Bool) : pyNot (.ok a) = .ok (!a) := rfl
@[simp] theorem pure_ok {α} (a : α) : (pure a : Py α) = .ok a := rfl
@[simp] theorem pyLtOpt_some (x m : Int) : pyLtOpt x (some m) = .ok (decide (x < m)) := rfl
@[simp] theorem retAttr_sat (r : SolveResult) : retAttr (some r) "satisfiable" = .ok (r == .sat) := rfl
@[simp] theorem retAttr_unsat (r : SolveResult) : retAttr (some r) "unsatisfiable" = .ok (r == .unsat) := rfl
@[simp] theorem retAttr_unknown (r : SolveResult) : retAttr (some r) "unknown" = .ok (r == .unknown) := rfl

/-- the stop criterion matches the result -/
def stopMatch (istop : String) (r : SolveResult) : Bool :=
  (istop == "SAT" && r == .sat) || (istop == "UNSAT" && r == .unsat) || (istop == "UNKNOWN" && r == .unknown)

/-- the loop continues because the stop criterion is not met by the last result -/
def contMatch (istop : String) (r : SolveResult) : Bool :=
  (istop == "SAT" && !(r == .sat)) || (istop == "UNSAT" && !(r == .unsat)) || (istop == "UNKNOWN" && !(r == .unknown))

/-- for the three admissible criteria, "continue" is "no match" -/
theorem contMatch_valid (istop : String) (r : SolveResult)
    (h : istop = "SAT" ∨ istop = "UNSAT" ∨ istop = "UNKNOWN") : contMatch istop r = !(stopMatch istop r) := by
  rcases h with h | h | h <;> subst h <;> cases r <;> decide

/-- `step < imax` with `None` meaning no bound -/
def belowMax (imax : Option Int) (step : Int) : Bool :=
  match imax with
  | none => true
  | some m => decide (step < m)

/-- At the very first test (`step = 0`, `ret = None`) the generated condition never touches `ret`. -/
theorem loopCond_zero (imin : Int) (imax : Option Int) (istop : String) :
    loopCond imin imax istop 0 none = .ok (belowMax imax 0) := by
  cases imax with
  | none => simp [loopCond, belowMax]
  | some m =>
    simp only [loopCond, belowMax, Option.isNone, pure_ok, pyOr_ok, pyLtOpt_some, pyAnd_ok]
    generalize decide ((0:Int) < m) = b
    cases b <;> simp

/-- After at least one solve call the generated condition is the documented one. -/
theorem loopCond_succ (imin : Int) (imax : Option Int) (istop : String) (step : Nat) (r : SolveResult)
    (hs : 0 < step) :
    loopCond imin imax istop (step : Int) (some r)
      = .ok (belowMax imax step && (decide ((step : Int) < imin) || contMatch istop r)) := by
  have h0 : ((step : Int) == 0) = false := by
    simp; omega
  cases imax with
  | none =>
    simp only [loopCond, belowMax, contMatch, Option.isNone, pure_ok, pyOr_ok, pyAnd_ok, pyNot_ok,
      retAttr_sat, retAttr_unsat, retAttr_unknown, h0]
    generalize decide ((step:Int) < imin) = b1
    generalize (istop == "SAT") = b2
    generalize (istop == "UNSAT") = b3
    generalize (istop == "UNKNOWN") = b4
    cases b1 <;> cases b2 <;> cases b3 <;> cases b4 <;> cases r <;> simp
  | some m =>
    simp only [loopCond, belowMax, contMatch, Option.isNone, pure_ok, pyOr_ok, pyAnd_ok, pyNot_ok,
      pyLtOpt_some, retAttr_sat, retAttr_unsat, retAttr_unknown, h0]
    generalize decide ((step:Int) < m) = b0
    generalize decide ((step:Int) < imin) = b1
    generalize (istop == "SAT") = b2
    generalize (istop == "UNSAT") = b3
    generalize (istop == "UNKNOWN") = b4
    cases b0 <;> cases b1 <;> cases b2 <;> cases b3 <;> cases b4 <;> cases r <;> simp

end TelProofs

namespace TelProofs
open TelModel TelModel.Generated

/-- "continue?" as a pure function of the number `s` of solve calls made so far -/
def cont (o : Opts) (res : Nat → SolveResult) (s : Nat) : Bool :=
  if s = 0 then belowMax o.imax 0
  else belowMax o.imax s && (decide ((s : Int) < o.imin) || contMatch o.istop (res (s - 1)))

/-- pure version of the loop -/
def loopList (o : Opts) (res : Nat → SolveResult) : Nat → Nat → List Nat
  | 0, _ => []
  | fuel+1, step => if cont o res step then step :: loopList o res fuel (step+1) else []

/-- the loop invariant relating `ret` to `step` -/
def RetOk (res : Nat → SolveResult) (step : Nat) (ret : Option SolveResult) : Prop :=
  (step = 0 ∧ ret = none) ∨ (0 < step ∧ ret = some (res (step - 1)))

theorem loopCond_cont (o : Opts) (res : Nat → SolveResult) (step : Nat) (ret : Option SolveResult)
    (h : RetOk res step ret) : loopCond o.imin o.imax o.istop (step : Int) ret = .ok (cont o res step) := by
  rcases h with ⟨h0, hr⟩ | ⟨hp, hr⟩
  · subst h0; subst hr; simp [cont, loopCond_zero]
  · subst hr
    have : step ≠ 0 := by omega
    simp [cont, this, loopCond_succ _ _ _ _ _ hp]

theorem runLoop_eq (o : Opts) (res : Nat → SolveResult) (fuel : Nat) :
    ∀ (step : Nat) (ret : Option SolveResult), RetOk res step ret →
      runLoop o res fuel step ret = .ok (loopList o res fuel step) := by
  induction fuel with
  | zero => intro step ret _; rfl
  | succ n ih =>
    intro step ret h
    have hnext : RetOk res (step+1) (some (res step)) := Or.inr ⟨by omega, by simp⟩
    simp only [runLoop, loopList, loopCond_cont o res step ret h, bind, Except.bind]
    cases hc : cont o res step
    · simp [pure, Except.pure]
    · simp [ih (step+1) _ hnext, pure, Except.pure]

theorem run_eq (o : Opts) (res : Nat → SolveResult) (fuel : Nat) :
    run o res fuel = .ok (loopList o res fuel 0) :=
  runLoop_eq o res fuel 0 none (Or.inl ⟨rfl, rfl⟩)

theorem loopList_range' (o : Opts) (res : Nat → SolveResult) (fuel : Nat) :
    ∀ step, loopList o res fuel step = List.range' step (loopList o res fuel step).length := by
  induction fuel with
  | zero => intro step; simp [loopList]
  | succ n ih =>
    intro step
    simp only [loopList]
    split
    · rw [List.length_cons, List.range'_succ]; congr 1; exact ih (step+1)
    · simp

theorem loopList_length_le (o : Opts) (res : Nat → SolveResult) (fuel : Nat) :
    ∀ step, (loopList o res fuel step).length ≤ fuel := by
  induction fuel with
  | zero => intro step; simp [loopList]
  | succ n ih =>
    intro step; simp only [loopList]; split
    · simp; exact ih _
    · simp

/-- every element was admitted by `cont` -/
theorem loopList_cont (o : Opts) (res : Nat → SolveResult) (fuel : Nat) :
    ∀ step s, s ∈ loopList o res fuel step → cont o res s = true := by
  induction fuel with
  | zero => intro step s h; simp [loopList] at h
  | succ n ih =>
    intro step s h
    simp only [loopList] at h
    split at h
    · rcases List.mem_cons.mp h with rfl | h'
      · assumption
      · exact ih _ _ h'
    · simp at h

/-- if the loop stopped before the fuel ran out, `cont` is false right after the last call -/
theorem loopList_stop (o : Opts) (res : Nat → SolveResult) (fuel : Nat) :
    ∀ step, (loopList o res fuel step).length < fuel →
      cont o res (step + (loopList o res fuel step).length) = false := by
  induction fuel with
  | zero => intro step h; simp at h
  | succ n ih =>
    intro step h
    simp only [loopList] at h ⊢
    split
    · rename_i hc
      simp only [hc, if_true, List.length_cons] at h
      have := ih (step+1) (by omega)
      simp only [List.length_cons]
      rw [show step + ((loopList o res n (step + 1)).length + 1) = step + 1 + (loopList o res n (step + 1)).length by omega]
      exact this
    · rename_i hc; simp at hc ⊢; exact hc

/-- as long as `cont` holds and fuel remains, the loop goes on -/
theorem loopList_length_ge (o : Opts) (res : Nat → SolveResult) (fuel : Nat) :
    ∀ step n, n ≤ fuel → (∀ s, step ≤ s → s < step + n → cont o res s = true) →
      n ≤ (loopList o res fuel step).length := by
  induction fuel with
  | zero => intro step n hn _; omega
  | succ f ih =>
    intro step n hn hc
    cases n with
    | zero => omega
    | succ m =>
      simp only [loopList]
      have h0 : cont o res step = true := hc step (by omega) (by omega)
      simp only [h0, if_true, List.length_cons]
      have := ih (step+1) m (by omega) (fun s h1 h2 => hc s (by omega) (by omega))
      omega

end TelProofs

namespace TelProofs
open TelModel TelModel.Generated TelSpec

/-! ### Refinement: the model of the loop computes what the specification `specCalls` says -/

theorem contMatch_stop (istop : String) (st : Stop) (h : Stop.ofString? istop = some st) (r : SolveResult) :
    contMatch istop r = !(st.matches r) := by
  unfold Stop.ofString? at h
  split at h <;> simp at h <;> subst h <;> cases r <;> decide

/-- the value of `ret` when `step` calls have been made -/
def lastRes (res : Nat → SolveResult) (step : Nat) : Option SolveResult :=
  if step = 0 then none else some (res (step - 1))

theorem decide_lt_not_le (a b : Int) : decide (a < b) = !decide (b ≤ a) := by
  by_cases h : a < b
  · have : ¬ b ≤ a := by omega
    simp [h, this]
  · have : b ≤ a := by omega
    simp [h, this]

theorem cont_eq_not_mayStop (o : Opts) (st : Stop) (h : Stop.ofString? o.istop = some st)
    (res : Nat → SolveResult) (s : Nat) :
    cont o res s = !(mayStop o.imin o.imax st s (lastRes res s)) := by
  unfold cont mayStop lastRes belowMax
  by_cases hs : s = 0
  · subst hs
    cases o.imax with
    | none => simp
    | some m => simp [decide_lt_not_le]
  · simp only [hs, if_false, contMatch_stop o.istop st h]
    cases o.imax with
    | none => cases hm : st.matches (res (s-1)) <;> simp [decide_lt_not_le]
    | some m =>
      cases hm : st.matches (res (s-1)) <;> simp [decide_lt_not_le]

theorem loopList_spec (o : Opts) (st : Stop) (h : Stop.ofString? o.istop = some st)
    (res : Nat → SolveResult) (fuel : Nat) :
    ∀ step, loopList o res fuel step =
      List.range' step (specCallsFrom o.imin o.imax st ((List.range' step fuel).map res) step (lastRes res step) - step) := by
  induction fuel with
  | zero => intro step; simp [loopList, specCallsFrom]
  | succ n ih =>
    intro step
    simp only [loopList, List.range'_succ, List.map_cons, specCallsFrom, cont_eq_not_mayStop o st h]
    cases hm : mayStop o.imin o.imax st step (lastRes res step)
    · simp only [Bool.not_false, if_true, Bool.false_eq_true, if_false]
      rw [ih (step+1)]
      have hl : lastRes res (step+1) = some (res step) := by simp [lastRes]
      rw [hl]
      -- specCallsFrom … (step+1) ≥ step+1
      have hge : ∀ (l : List SolveResult) (k : Nat) (last : Option SolveResult),
          k ≤ specCallsFrom o.imin o.imax st l k last := by
        intro l
        induction l with
        | nil => intro k last; simp [specCallsFrom]
        | cons r rs ihl =>
          intro k last; simp only [specCallsFrom]; split
          · exact Nat.le_refl _
          · exact Nat.le_trans (Nat.le_succ k) (ihl (k+1) (some r))
      have := hge ((List.range' (step+1) n).map res) (step+1) (some (res step))
      generalize specCallsFrom o.imin o.imax st ((List.range' (step+1) n).map res) (step+1) (some (res step)) = c at this ⊢
      have hc : c - step = (c - (step+1)) + 1 := by omega
      rw [hc, List.range'_succ]
    · simp

/-- Refinement theorem for C08: for an admissible stop criterion the model's run is exactly
    `0 .. specCalls-1`. -/
theorem run_refines_spec (o : Opts) (st : Stop) (h : Stop.ofString? o.istop = some st)
    (res : Nat → SolveResult) (fuel : Nat) :
    run o res fuel = .ok (List.range (specCalls o.imin o.imax st ((List.range fuel).map res))) := by
  rw [run_eq, loopList_spec o st h res fuel 0]
  simp [specCalls, lastRes, List.range_eq_range']

end TelProofs
