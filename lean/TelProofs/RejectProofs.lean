/-
C11: prime arithmetic of `__get_param` and the acceptance table.
-/
import TelModel.Reject

set_option linter.unusedSimpArgs false

namespace TelProofs
open TelModel TelModel.Generated

def primes (n : Nat) : List Char := List.replicate n '\''

/-- a predicate name core: non-empty, no prime at either end -/
def CleanCore (core : List Char) : Prop :=
  core ≠ [] ∧ (∀ c, core.head? = some c → isPrime c = false) ∧ (∀ c, core.getLast? = some c → isPrime c = false)

theorem dropWhile_primes (n : Nat) (rest : List Char) :
    (primes n ++ rest).dropWhile isPrime = rest.dropWhile isPrime := by
  induction n with
  | zero => rfl
  | succ n ih => simp [primes, List.replicate_succ, isPrime] at ih ⊢; exact ih

theorem takeWhile_primes_len (n : Nat) (rest : List Char) (h : ∀ c, rest.head? = some c → isPrime c = false) :
    ((primes n ++ rest).takeWhile isPrime).length = n := by
  induction n with
  | zero =>
    cases rest with
    | nil => rfl
    | cons c cs => have := h c rfl; simp [primes, List.takeWhile, this]
  | succ n ih => simp [primes, List.replicate_succ, isPrime] at ih ⊢; exact ih

theorem dropWhile_clean (core : List Char) (h : ∀ c, core.head? = some c → isPrime c = false) :
    core.dropWhile isPrime = core := by
  cases core with
  | nil => rfl
  | cons c cs => have := h c rfl; simp [List.dropWhile, this]

theorem reverse_head_last (core : List Char) : core.reverse.head? = core.getLast? := by
  simp [List.head?_reverse]

theorem stripPrimes_spec (l t : Nat) (core : List Char) (hc : CleanCore core) :
    stripPrimes (primes l ++ core ++ primes t) = core := by
  obtain ⟨_, hh, hl⟩ := hc
  unfold stripPrimes
  rw [List.append_assoc, dropWhile_primes]
  have h1 : (core ++ primes t).dropWhile isPrime = core ++ primes t := by
    apply dropWhile_clean
    intro c hcc
    cases core with
    | nil => contradiction
    | cons x xs => exact hh c (by simpa using hcc)
  rw [h1, List.reverse_append]
  have h2 : (primes t).reverse = primes t := by simp [primes]
  rw [h2, dropWhile_primes]
  have h3 : core.reverse.dropWhile isPrime = core.reverse := by
    apply dropWhile_clean
    intro c hcc
    rw [reverse_head_last] at hcc
    exact hl c hcc
  rw [h3, List.reverse_reverse]

theorem leadingPrimes_spec (l t : Nat) (core : List Char) (hc : CleanCore core) :
    leadingPrimes (primes l ++ core ++ primes t) = l := by
  obtain ⟨hne, hh, _⟩ := hc
  unfold leadingPrimes
  rw [List.append_assoc]
  apply takeWhile_primes_len
  intro c hcc
  cases core with
  | nil => contradiction
  | cons x xs => exact hh c (by simpa using hcc)

/-- the shift computed by the code for `'^l core '^t` is `t - l` -/
theorem shift_spec (l t : Nat) (core : List Char) (hc : CleanCore core) :
    -(leadingPrimes (primes l ++ core ++ primes t) : Int) +
      (((primes l ++ core ++ primes t).length : Int) - ((stripPrimes (primes l ++ core ++ primes t)).length : Int)) +
      -(leadingPrimes (primes l ++ core ++ primes t) : Int) = (t : Int) - (l : Int) := by
  rw [stripPrimes_spec l t core hc, leadingPrimes_spec l t core hc]
  simp [primes]
  omega

end TelProofs
