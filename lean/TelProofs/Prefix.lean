/-
C17: for past-only programs (core rule fragment, plus `&tel` body atoms with past-only formulas on the
specification side), cutting a temporal stable model of horizon h+1 to its
first h+1 states gives a temporal stable model of horizon h — first on the specification, then, through
C01_core, on the model's accumulated ground program.
-/
import TelProofs.CoreEquiv

set_option linter.unusedSimpArgs false
set_option linter.unusedVariables false

namespace TelProofs
open TelSpec TelModel

/-- formulas that only look backwards: no future operator, no `&final` -/
def pastF : SForm → Bool
  | .atom _ => true
  | .kw w => match w with | .kfinal => false | _ => true
  | .neg f => pastF f
  | .bin _ l r => pastF l && pastF r
  | .prev _ _ f => pastF f
  | .since l r => pastF l && pastF r
  | .trigger l r => pastF l && pastF r
  | .evP r => pastF r
  | .alP r => pastF r
  | .initially f => pastF f
  | .seqPrev _ l r => pastF l && pastF r
  | _ => false

/-- a past-only formula does not see the horizon at all -/
theorem tht_horizon (h h' : Nat) (f : SForm) (hp : pastF f = true) :
    ∀ (W T : Trace) (k : Nat), tht h W T f k = tht h' W T f k := by
  induction f with
  | atom a => intro W T k; rfl
  | kw w => intro W T k; cases w <;> simp_all [pastF, tht]
  | neg f ih => intro W T k; simp only [pastF] at hp; simp only [tht, ih hp]
  | bin op l r ihl ihr =>
    intro W T k
    simp only [pastF, Bool.and_eq_true] at hp
    cases op <;> simp only [tht, ihl hp.1, ihr hp.2]
  | prev n w f ih => intro W T k; simp only [pastF] at hp; simp only [tht, ih hp]
  | next n w f ih => simp [pastF] at hp
  | since l r ihl ihr =>
    intro W T k
    simp only [pastF, Bool.and_eq_true] at hp
    simp only [tht, ihl hp.1, ihr hp.2]
  | trigger l r ihl ihr =>
    intro W T k
    simp only [pastF, Bool.and_eq_true] at hp
    simp only [tht, ihl hp.1, ihr hp.2]
  | evP r ih => intro W T k; simp only [pastF] at hp; simp only [tht, ih hp]
  | alP r ih => intro W T k; simp only [pastF] at hp; simp only [tht, ih hp]
  | unt l r ihl ihr => simp [pastF] at hp
  | rel l r ihl ihr => simp [pastF] at hp
  | evF r ih => simp [pastF] at hp
  | alF r ih => simp [pastF] at hp
  | initially f ih => intro W T k; simp only [pastF] at hp; simp only [tht, ih hp]
  | finally_ f ih => simp [pastF] at hp
  | seqPrev w l r ihl ihr =>
    intro W T k
    simp only [pastF, Bool.and_eq_true] at hp
    simp only [tht, ihl hp.1, ihr hp.2]
  | seqNext w l r ihl ihr => simp [pastF] at hp
/-- past-only body literals, including `&tel` atoms whose formula only looks backwards -/
def litPastT : BLit → Bool
  | .atom _ _ sh => decide (sh ≤ 0)
  | .init _ _ => true
  | .kw _ w => match w with | .kfinal => false | _ => true
  | .tel _ f => pastF f
  | .del _ _ => false

def litPast : BLit → Bool
  | .atom _ _ sh => decide (sh ≤ 0)
  | .init _ _ => true
  | .kw _ w => match w with | .kfinal => false | _ => true
  | .tel _ _ => false
  | .del _ _ => false

/-- past-only rule of the core fragment: no `final` part, no `&final`, no future reference -/
def rulePast (r : TRule) : Bool := headCore r.head && r.body.all litPast && (r.part != .final)
def progPast (P : TProg) : Bool := P.all rulePast

theorem litPast_T (l : BLit) (h : litPast l = true) : litPastT l = true := by
  cases l <;> simp_all [litPast, litPastT]

/-- past-only rule, possibly with past `&tel` formulas in the body -/
def rulePastT (r : TRule) : Bool := headCore r.head && r.body.all litPastT && (r.part != .final)
def progPastT (P : TProg) : Bool := P.all rulePastT

theorem litPast_core (l : BLit) (h : litPast l = true) : litCore l = true := by
  cases l <;> simp_all [litPast, litCore]

theorem rulePast_core (r : TRule) (h : rulePast r = true) : ruleCore r = true := by
  simp only [rulePast, Bool.and_eq_true] at h
  simp only [ruleCore, Bool.and_eq_true, List.all_eq_true]
  exact ⟨h.1.1, fun l hl => litPast_core l (List.all_eq_true.mp h.1.2 l hl)⟩

theorem progPast_T (P : TProg) (h : progPast P = true) : progPastT P = true := by
  simp only [progPast, progPastT, List.all_eq_true] at h ⊢
  intro r hr
  have := h r hr
  simp only [rulePast, rulePastT, Bool.and_eq_true, List.all_eq_true] at this ⊢
  exact ⟨⟨this.1.1, fun l hl => litPast_T l (this.1.2 l hl)⟩, this.2⟩

theorem progPast_core (P : TProg) (h : progPast P = true) : progCore P = true := by
  simp only [progCore, List.all_eq_true]
  exact fun r hr => rulePast_core r (List.all_eq_true.mp h r hr)

theorem atPos_le (h : Nat) (W : Trace) (a : String) (j : Int) (k : Nat) (hk : k ≤ h) (hj : j ≤ (k : Int)) :
    atPos (h+1) W a j = atPos h W a j := by
  unfold atPos
  by_cases h0 : 0 ≤ j
  · have h1 : j ≤ ((h+1 : Nat) : Int) := by omega
    have h2 : j ≤ (h : Int) := by omega
    rw [if_pos ⟨h0, h1⟩, if_pos ⟨h0, h2⟩]
  · rw [if_neg (fun hh => h0 hh.1), if_neg (fun hh => h0 hh.1)]

theorem all_congr' {α} (l : List α) (f g : α → Bool) (h : ∀ x ∈ l, f x = g x) : l.all f = l.all g := by
  induction l with
  | nil => rfl
  | cons x xs ih =>
    simp only [List.all_cons, h x List.mem_cons_self, ih (fun y hy => h y (List.mem_cons_of_mem _ hy))]

/-- a past-only literal at position `k ≤ h` does not see the horizon -/
theorem lit_horizon (h : Nat) (W T : Trace) (k : Nat) (hk : k ≤ h) (l : BLit) (hl : litPastT l = true) :
    l.holds (h+1) W T k = l.holds h W T k := by
  cases l with
  | atom sg a sh =>
    simp only [litPastT, decide_eq_true_eq] at hl
    simp only [BLit.holds, atPos_le h W a ((k : Int) + sh) k hk (by omega), atPos_le h T a ((k : Int) + sh) k hk (by omega)]
  | init sg a => rfl
  | kw sg w => cases w <;> simp_all [litPastT, BLit.holds, Kw.holds]
  | tel sg f =>
    simp only [litPastT] at hl
    simp only [BLit.holds, docSem, tht_horizon (h+1) h f hl]
  | del _ _ => simp [litPastT] at hl

theorem head_horizon (h : Nat) (W T : Trace) (k : Nat) (hk : k ≤ h) (hd : Head) (hc : headCore hd = true) :
    hd.holds (h+1) W T k = hd.holds h W T k := by
  cases hd with
  | atom a n =>
    simp only [headCore, beq_iff_eq] at hc; subst hc
    simp only [Head.holds]
    exact atPos_le h W a _ k hk (by simp)
  | disj as => rfl
  | choice as => rfl
  | falsum => rfl
  | nlit _ _ _ => simp [headCore] at hc
  | tel _ => simp [headCore] at hc

/-- a past-only literal at position `k` sees only the positions `≤ k` -/
theorem lit_local (h : Nat) (W W' T : Trace) (k : Nat) (hk : k ≤ h) (hag : ∀ j, j ≤ k → ∀ a, W j a = W' j a)
    (l : BLit) (hl : litPastT l = true) : l.holds h W T k = l.holds h W' T k := by
  cases l with
  | atom sg a sh =>
    simp only [litPastT, decide_eq_true_eq] at hl
    simp only [BLit.holds]
    have : atPos h W a ((k : Int) + sh) = atPos h W' a ((k : Int) + sh) := by
      unfold atPos
      by_cases h0 : 0 ≤ (k : Int) + sh ∧ (k : Int) + sh ≤ (h : Int)
      · simp only [h0, and_self, if_true]
        exact hag _ (by omega) a
      · simp only [h0, if_false]
    rw [this]
  | init sg a => simp only [BLit.holds, hag 0 (Nat.zero_le _) a]
  | kw sg w => rfl
  | tel _ _ => rfl
  | del _ _ => simp [litPastT] at hl

theorem head_local (h : Nat) (W W' T : Trace) (k : Nat) (hk : k ≤ h) (hag : ∀ a, W k a = W' k a)
    (hd : Head) (hc : headCore hd = true) : hd.holds h W T k = hd.holds h W' T k := by
  cases hd with
  | atom a n =>
    simp only [headCore, beq_iff_eq] at hc; subst hc
    simp only [Head.holds, atPos]
    have h1 : (0 : Int) ≤ (k : Int) + ((0 : Nat) : Int) ∧ (k : Int) + ((0 : Nat) : Int) ≤ (h : Int) := by omega
    simp only [h1, and_self, if_true]
    have : ((k : Int) + ((0 : Nat) : Int)).toNat = k := by omega
    rw [this, hag a]
  | disj as => simp only [Head.holds, hag]
  | choice as => simp only [Head.holds, hag]
  | falsum => rfl
  | nlit _ _ _ => simp [headCore] at hc
  | tel _ => simp [headCore] at hc

/-- bodies are monotone in the "here" trace -/
theorem lit_mono (h : Nat) (W T : Trace) (k : Nat) (hle : ∀ j, j ≤ h → ∀ a, W j a = true → T j a = true)
    (l : BLit) (hl : litPastT l = true) (hb : l.holds h W T k = true) : l.holds h T T k = true := by
  cases l with
  | atom sg a sh =>
    simp only [BLit.holds] at hb ⊢
    cases sg with
    | pos =>
      simp only [Sign.app] at hb ⊢
      unfold atPos at hb ⊢
      by_cases h0 : 0 ≤ (k : Int) + sh ∧ (k : Int) + sh ≤ (h : Int)
      · simp only [h0, and_self, if_true] at hb ⊢
        exact hle _ (by omega) a hb
      · simp [h0] at hb
    | not => exact hb
    | notnot => exact hb
  | init sg a =>
    simp only [BLit.holds] at hb ⊢
    cases sg with
    | pos => exact hle 0 (Nat.zero_le _) a hb
    | not => exact hb
    | notnot => exact hb
  | kw sg w => exact hb
  | tel _ _ => exact hb
  | del _ _ => simp [litPastT] at hl

/-- per-position satisfaction of a rule -/
def satAt (h : Nat) (W T : Trace) (r : TRule) (k : Nat) : Bool :=
  !(r.part.applies h k) || !(r.body.all (BLit.holds h W T k)) || r.head.holds h W T k

theorem sat_iff_satAt (h : Nat) (W T : Trace) (r : TRule) :
    r.sat h W T = true ↔ ∀ k, k ≤ h → satAt h W T r k = true := by
  simp only [TRule.sat, allUpTo_iff, satAt]

theorem applies_horizon (h k : Nat) (p : Part) (hp : p ≠ .final) : p.applies (h+1) k = p.applies h k := by
  cases p <;> simp_all [Part.applies]

theorem satAt_horizon (h : Nat) (W T : Trace) (r : TRule) (hr : rulePastT r = true) (k : Nat) (hk : k ≤ h) :
    satAt (h+1) W T r k = satAt h W T r k := by
  simp only [rulePastT, Bool.and_eq_true, bne_iff_ne, ne_eq] at hr
  have hb : r.body.all (BLit.holds (h+1) W T k) = r.body.all (BLit.holds h W T k) := by
    apply all_congr'
    intro l hl
    exact lit_horizon h W T k hk l (List.all_eq_true.mp hr.1.2 l hl)
  simp only [satAt, applies_horizon h k r.part hr.2, hb, head_horizon h W T k hk r.head hr.1.1]

/-- **prefix theorem on the specification**: cutting a temporal stable model of a past-only program by one
    state gives a temporal stable model of the shorter horizon -/
theorem tsm_prefix_tel (P : TProg) (hp : progPastT P = true) (h : Nat) (T : Trace) (hT : TSM (h+1) P T) : TSM h P T := by
  constructor
  · intro r hr
    have hrp := List.all_eq_true.mp hp r hr
    rw [sat_iff_satAt]
    intro k hk
    rw [← satAt_horizon h T T r hrp k hk]
    exact (sat_iff_satAt (h+1) T T r).mp (hT.1 r hr) k (by omega)
  · intro W hle hW
    -- extend W by the last state of T
    let W' : Trace := fun j a => if j ≤ h then W j a else T j a
    have hle' : TraceLe (h+1) W' T := by
      intro j hj a hw
      simp only [W'] at hw
      split at hw
      · rename_i hjh; exact hle j hjh a hw
      · exact hw
    have hW' : ∀ r ∈ P, r.sat (h+1) W' T = true := by
      intro r hr
      have hrp := List.all_eq_true.mp hp r hr
      have hrp' := hrp
      simp only [rulePastT, Bool.and_eq_true, bne_iff_ne, ne_eq] at hrp'
      rw [sat_iff_satAt]
      intro k hk
      by_cases hkh : k ≤ h
      · -- positions inside the shorter trace: W' agrees with W there
        rw [satAt_horizon h W' T r hrp k hkh]
        have hWk := (sat_iff_satAt h W T r).mp (hW r hr) k hkh
        have hb : r.body.all (BLit.holds h W' T k) = r.body.all (BLit.holds h W T k) := by
          apply all_congr'
          intro l hl
          apply lit_local h W' W T k hkh _ l (List.all_eq_true.mp hrp'.1.2 l hl)
          intro j hj a; simp only [W']; have : j ≤ h := by omega
          simp [this]
        have hh : r.head.holds h W' T k = r.head.holds h W T k := by
          apply head_local h W' W T k hkh _ r.head hrp'.1.1
          intro a; simp only [W']; simp [hkh]
        simp only [satAt, hb, hh] at hWk ⊢
        exact hWk
      · -- the new last state: W' = T there, bodies are monotone
        have hk1 : k = h + 1 := by omega
        subst hk1
        have hTk := (sat_iff_satAt (h+1) T T r).mp (hT.1 r hr) (h+1) (Nat.le_refl _)
        simp only [satAt, Bool.or_eq_true, Bool.not_eq_true'] at hTk ⊢
        rcases hTk with (hTk | hTk) | hTk
        · exact Or.inl (Or.inl hTk)
        · left; right
          cases hb : r.body.all (BLit.holds (h+1) W' T (h+1))
          · rfl
          · exfalso
            have : r.body.all (BLit.holds (h+1) T T (h+1)) = true := by
              simp only [List.all_eq_true] at hb ⊢
              intro l hl
              exact lit_mono (h+1) W' T (h+1) hle' l (List.all_eq_true.mp hrp'.1.2 l hl) (hb l hl)
            rw [this] at hTk; cases hTk
        · right
          rw [← hTk]
          apply head_local (h+1) W' T T (h+1) (Nat.le_refl _) _ r.head hrp'.1.1
          intro a; simp only [W']
          have : ¬ (h + 1 ≤ h) := by omega
          simp [this]
    have heq := hT.2 W' hle' hW'
    intro k hk a
    have := heq k (by omega) a
    simp only [W', hk, if_true] at this
    exact this

/-- the rule fragment without theory atoms -/
theorem tsm_prefix (P : TProg) (hp : progPast P = true) (h : Nat) (T : Trace) (hT : TSM (h+1) P T) : TSM h P T :=
  tsm_prefix_tel P (progPast_T P hp) h T hT

/-- **C17 on the model**: the first h+1 states of every stable model of the accumulated ground program at
    horizon h+1 form a stable model of the accumulated ground program at horizon h -/
theorem stable_prefix (P : TProg) (hp : progPast P = true) (h : Nat) (X : Interp) (hs : Stable (G P (h+1)) X) :
    Stable (G P h) (embed h (traceOf X)) := by
  have hc := progPast_core P hp
  have hT := ((core_stable_iff P hc (h+1)).1 X hs).1
  exact (core_stable_iff P hc h).2 _ (tsm_prefix P hp h _ hT)

end TelProofs
