/-
What the rule emitted for one clause of a head formula means:
* `toBody_sem`   a head formula read as a body formula (`head_formula_to_body_formula`) has, on a total trace, the value of
                 the head formula in the total here-and-there world;
* `shiftBody_sem` the body formula whose literal `ClauseToRule` negates for a `TelShift(n, f)` has the value of that shifted
                 part in the there-world;
* `rule_reads_clause` the emitted rule `atoms of this step ← not l₁, …, not lₘ` holds in a world `(W, T)` exactly when the
                 clause holds with every shifted part read in the there-world `T` — the clause with its off-time parts under
                 double negation, which is what the documentation of `HeadFormula.translate` says.
-/
import TelModel.HeadRule
import TelProofs.HeadShift

set_option linter.unusedSimpArgs false
set_option linter.unusedVariables false

namespace TelProofs
open TelSpec TelModel

theorem toBody_sem (h : Nat) (T : Trace) (lv : Int → Bool) : ∀ (f : HForm), noShift f = true →
    ∀ k, (toBody f).sem h T lv k = hsem h T T f k := by
  intro f
  induction f with
  | atom p n a => intro _ k; rfl
  | next n f w ih =>
    intro hn k
    simp only [noShift] at hn
    simp only [toBody, BForm.sem, hsem, ih hn]
  | until2 l r u ihl ihr =>
    intro hn k
    simp only [noShift, Bool.and_eq_true] at hn
    have hl : (fun i => (toBody l).sem h T lv i) = fun i => hsem h T T l i := funext (ihl hn.1)
    have hr : (fun i => (toBody r).sem h T lv i) = fun i => hsem h T T r i := funext (ihr hn.2)
    cases u
    · simp only [toBody, Bool.not_false, BForm.sem, hsem, releaseB]
      simp only [ihl hn.1, ihr hn.2]
    · simp only [toBody, Bool.not_true, BForm.sem, hsem, untilB]
      simp only [ihl hn.1, ihr hn.2]
  | until1 r u ihr =>
    intro hn k
    simp only [noShift] at hn
    cases u
    · simp only [toBody, Bool.not_false, BForm.sem, hsem, alFB, ihr hn]
    · simp only [toBody, Bool.not_true, BForm.sem, hsem, evFB, ihr hn]
  | clause2 l r c ihl ihr =>
    intro hn k
    simp only [noShift, Bool.and_eq_true] at hn
    cases c
    · simp only [toBody, Bool.false_eq_true, if_false, BForm.sem, hsem, ihl hn.1, ihr hn.2]
      simp [binSem]
    · simp only [toBody, if_true, BForm.sem, hsem, ihl hn.1, ihr hn.2]
      simp [binSem]
  | neg f ih =>
    intro hn k
    simp only [noShift] at hn
    simp only [toBody, BForm.sem, hsem, ih hn]
  | const b => intro _ k; rfl
  | shift n f ih => intro hn; simp [noShift] at hn

/-- the negated body literal of a shifted part: its formula has the value of the shifted part in the there-world -/
theorem shiftBody_sem (h : Nat) (T : Trace) (lv : Int → Bool) (n : Int) (f : HForm) (hn : noShift f = true) (k : Nat)
    (hk : k ≤ h) : (shiftBody n f).sem h T lv k = hsem h T T (.shift n f) k := by
  unfold shiftBody
  by_cases h0 : n = 0
  · subst h0
    simp only [if_true, hsem, Int.le_refl, Int.toNat_zero, Nat.add_zero, hk, toBody_sem h T lv f hn]
  · simp only [h0, if_false]
    by_cases hp : n > 0
    · have h1 : 0 ≤ n := by omega
      simp only [hp, if_true, BForm.sem, hsem, h1, toBody_sem h T lv f hn]
    · have h1 : ¬ (0 ≤ n) := by omega
      simp only [hp, if_false, BForm.sem, hsem, h1, toBody_sem h T lv f hn]

/-- here-and-there satisfaction of the emitted rule (its own body atom being true): some negated body literal is violated in
    the there-world, or some head atom holds here -/
def ruleSat (h : Nat) (W T : Trace) (lv : Int → Bool) (k : Nat) (es : List RuleElem) : Bool :=
  (es.any fun e => match e with
    | .nbody f => f.sem h T lv k
    | _ => false) ||
  (es.any fun e => match e with
    | .head p n a => W k (atomKey n a p)
    | _ => false)

/-- the clause with its shifted parts read in the there-world (double negation) -/
def dnegClause (h : Nat) (W T : Trace) (k : Nat) (c : List HForm) : Bool :=
  c.any fun x => match x with
    | .atom p n a => W k (atomKey n a p)
    | .shift n f => hsem h T T (.shift n f) k
    | _ => false

/-- a clause as `unfold_formula` delivers it after `shift_formula`: atoms of the current step and shifted parts -/
def clauseShape (c : List HForm) : Prop :=
  ∀ x ∈ c, (∃ p n a, x = .atom p n a) ∨ (∃ n f, x = .shift n f ∧ noShift f = true)

/-- **the emitted rule reads the clause with its off-time parts double negated** -/
theorem rule_reads_clause (h : Nat) (W T : Trace) (lv : Int → Bool) (k : Nat) (hk : k ≤ h) (c : List HForm)
    (hc : clauseShape c) : ruleSat h W T lv k (ruleShape c) = dnegClause h W T k c := by
  induction c with
  | nil => rfl
  | cons x xs ih =>
    have hx := hc x (by simp)
    have ih' := ih (fun y hy => hc y (by simp [hy]))
    simp only [ruleSat, ruleShape, List.map_cons, List.any_cons, dnegClause] at ih' ⊢
    rcases hx with ⟨p, n, a, rfl⟩ | ⟨n, f, rfl, hn⟩
    · simp only [ruleElem, Bool.false_or]
      rw [← ih']
      cases W k (atomKey n a p) <;> simp [Bool.or_comm, Bool.or_assoc, Bool.or_left_comm]
    · simp only [ruleElem, Bool.false_or, shiftBody_sem h T lv n f hn k hk]
      rw [← ih']
      simp [Bool.or_assoc]

/-- the shape of a shifted formula: atoms of the current step, shifted parts, and clauses of such -/
inductive Shifted : HForm → Prop where
  | atom (p n a) : Shifted (.atom p n a)
  | shift (n f) (hn : noShift f = true) : Shifted (.shift n f)
  | clause (l r c) (hl : Shifted l) (hr : Shifted r) : Shifted (.clause2 l r c)

/-- `shift_formula` delivers that shape, for every distance and every nesting -/
theorem shiftF_shifted : ∀ (d : Nat) (f : HForm), noShift f = true → Shifted (shiftF d f) := by
  intro d
  induction d using Nat.strongRecOn with
  | _ d ihd =>
    intro f
    induction f with
    | atom p n a =>
      intro _
      unfold shiftF
      by_cases hd : d = 0
      · simp only [hd, if_true]; exact .atom p n a
      · simp only [hd, if_false]; exact .shift _ _ rfl
    | next n f w ihf =>
      intro hn
      simp only [noShift] at hn
      unfold shiftF
      by_cases hnd : n ≤ d
      · simp only [hnd, if_true]
        by_cases hn0 : n = 0
        · subst hn0; simpa using ihf hn
        · exact ihd (d - n) (by omega) f hn
      · simp only [hnd, if_false]; exact .shift _ _ (by simp [noShift, hn])
    | until2 l r u ihl ihr =>
      intro hn
      simp only [noShift, Bool.and_eq_true] at hn
      unfold shiftF
      refine .clause _ _ _ (ihr hn.2) (.clause _ _ _ (ihl hn.1) ?_)
      cases d with
      | zero => exact .shift _ _ (by simp [noShift, hn.1, hn.2])
      | succ d' => exact ihd d' (by omega) (.until2 l r u) (by simp [noShift, hn.1, hn.2])
    | until1 r u ihr =>
      intro hn
      simp only [noShift] at hn
      unfold shiftF
      refine .clause _ _ _ (ihr hn) ?_
      cases d with
      | zero => exact .shift _ _ (by simp [noShift, hn])
      | succ d' => exact ihd d' (by omega) (.until1 r u) (by simp [noShift, hn])
    | clause2 l r c ihl ihr =>
      intro hn
      simp only [noShift, Bool.and_eq_true] at hn
      unfold shiftF
      exact .clause _ _ _ (ihl hn.1) (ihr hn.2)
    | neg f ih =>
      intro hn
      unfold shiftF
      exact .shift _ _ hn
    | const b =>
      intro hn
      unfold shiftF
      exact .shift _ _ rfl
    | shift n f ih => intro hn; simp [noShift] at hn

/-- … and `unfold_formula` turns it into clauses of atoms and shifted parts -/
theorem unfold_shape : ∀ (f : HForm), Shifted f → ∀ c ∈ unfoldF f, clauseShape c := by
  intro f hf
  induction hf with
  | atom p n a =>
    intro c hc x hx
    simp only [unfoldF, List.mem_singleton] at hc
    subst hc
    simp only [List.mem_singleton] at hx
    exact Or.inl ⟨p, n, a, hx⟩
  | shift n f hn =>
    intro c hc x hx
    simp only [unfoldF, List.mem_singleton] at hc
    subst hc
    simp only [List.mem_singleton] at hx
    exact Or.inr ⟨n, f, hx, hn⟩
  | clause l r cj hl hr ihl ihr =>
    intro c hc
    cases cj with
    | true =>
      simp only [unfoldF, List.mem_append] at hc
      rcases hc with hc | hc
      · exact ihl c hc
      · exact ihr c hc
    | false =>
      simp only [unfoldF, List.mem_flatMap, List.mem_map] at hc
      obtain ⟨c1, h1, c2, h2, rfl⟩ := hc
      intro x hx
      rcases List.mem_append.mp hx with hx | hx
      · exact ihl c1 h1 x hx
      · exact ihr c2 h2 x hx

/-- every rule emitted for a head formula `d` steps after its own step reads its clause with the off-time parts double negated -/
theorem emitted_rule_reads_clause (h : Nat) (W T : Trace) (lv : Int → Bool) (d : Nat) (f : HForm) (hn : noShift f = true)
    (k : Nat) (hk : k ≤ h) (c : List HForm) (hc : c ∈ unfoldF (shiftF d f)) :
    ruleSat h W T lv k (ruleShape c) = dnegClause h W T k c :=
  rule_reads_clause h W T lv k hk c (unfold_shape _ (shiftF_shifted d f hn) c hc)

/-- on a total world the rule is the clause -/
theorem rule_total (h : Nat) (T : Trace) (lv : Int → Bool) (k : Nat) (hk : k ≤ h) (c : List HForm) (hc : clauseShape c) :
    ruleSat h T T lv k (ruleShape c) = c.any fun x => hsem h T T x k := by
  rw [rule_reads_clause h T T lv k hk c hc]
  unfold dnegClause
  induction c with
  | nil => rfl
  | cons x xs ih =>
    simp only [List.any_cons]
    rw [ih (fun y hy => hc y (by simp [hy]))]
    congr 1
    rcases hc x (by simp) with ⟨p, n, a, rfl⟩ | ⟨n, f, rfl, _⟩ <;> rfl

end TelProofs
