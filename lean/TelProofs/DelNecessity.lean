/-
Necessity of the normal form in `del_unique` (C05): outside the documented normal form — an iteration
over a path that consumes no step — the one-step equations that `translate_KleeneStarPath` writes do
not determine the value of the formula.  `<(a?)*> b` at horizon 1 on the trace `{a},{}`: the equation
of the formula at state 0 reduces to `F ↔ (b ∨ (a ∧ F))`, i.e. `F ↔ F`; the LDL_f value is false, and
the valuation below, which makes it true, solves every equation as well.  (The implementation behaves
accordingly: the check of C05 runs this program and finds both values, see `excluded_point`.)
-/
import TelProofs.DelUnique

namespace TelProofs.DelNecessity
open TelSpec TelModel TelProofs

def a : BForm := .atom "a" [] true
def b : BForm := .atom "b" [] true
def P : Path := .star (.check (.atom "a" [] true))
/-- `<(a?)*> b` -/
def F : BForm := .dia P b
def D : BForm := .dia (.check (.atom "a" [] true)) F
def A : BForm := .bin "&" a F
def O : BForm := .bin "|" b D
def I : BForm := .bin "->" finalForm b
def N : BForm := .bin "&" I O

/-- `a` holds in state 0, nothing else -/
def tr : Trace := fun k x => k == 0 && x == "a"

def S (f : BForm) (k : Nat) : Prop :=
  (f, k) ∈ [(F, 0), (N, 0), (I, 0), (O, 0), (finalForm, 0), (BForm.next (.const true) 1 false, 0),
            (BForm.const true, 1), (b, 0), (D, 0), (A, 0), (a, 0)]

def bad : BForm → Bool
  | .dia _ _ => true
  | .bin op _ _ => op == "&" || op == "|"
  | _ => false

/-- the second solution: the formula and the nodes of its unfolding are true at state 0 -/
def v (f : BForm) (k : Nat) : Bool := bad f || f.sem 1 tr (fun _ => false) k

theorem not_normal : isDel F = false := by decide

theorem second_solution : Sys 1 tr (fun _ => false) v S := by
  refine ⟨?_, ?_, ?_⟩
  · intro f k hS
    simp only [S, List.mem_cons, Prod.mk.injEq, List.mem_nil_iff, or_false] at hS
    omega
  · intro f k hS p hp
    simp only [S, List.mem_cons, Prod.mk.injEq, List.mem_nil_iff, or_false] at hS
    rcases hS with ⟨rfl, rfl⟩ | ⟨rfl, rfl⟩ | ⟨rfl, rfl⟩ | ⟨rfl, rfl⟩ | ⟨rfl, rfl⟩ | ⟨rfl, rfl⟩ | ⟨rfl, rfl⟩ |
      ⟨rfl, rfl⟩ | ⟨rfl, rfl⟩ | ⟨rfl, rfl⟩ | ⟨rfl, rfl⟩ <;>
    simp [F, N, I, O, D, A, a, b, P, finalForm, eqn, BExpr.refs, binExpr, PTest.toForm] at hp <;>
    (try subst hp) <;> simp [S, F, N, I, O, D, A, a, b, P, finalForm] <;>
    (try (rcases hp with rfl | rfl <;> simp))
  · intro f k hS
    simp only [S, List.mem_cons, Prod.mk.injEq, List.mem_nil_iff, or_false] at hS
    rcases hS with ⟨rfl, rfl⟩ | ⟨rfl, rfl⟩ | ⟨rfl, rfl⟩ | ⟨rfl, rfl⟩ | ⟨rfl, rfl⟩ | ⟨rfl, rfl⟩ | ⟨rfl, rfl⟩ |
      ⟨rfl, rfl⟩ | ⟨rfl, rfl⟩ | ⟨rfl, rfl⟩ | ⟨rfl, rfl⟩ <;> decide

/-- The normal-form hypothesis of `del_unique` cannot be dropped: there is a dynamic formula, a horizon, a trace and a
    valuation that solves all one-step equations of the formula's unfolding and differs from the LDL_f value. -/
theorem normal_form_necessary :
    ∃ (f : BForm) (h : Nat) (t : Trace) (lv : Int → Bool) (w : BForm → Nat → Bool) (T : BForm → Nat → Prop),
      Sys h t lv w T ∧ T f 0 ∧ w f 0 ≠ f.sem h t lv 0 :=
  ⟨F, 1, tr, fun _ => false, v, S, second_solution, by simp [S], by decide⟩

/-- … while the semantics itself is a solution too (restricted to the same set), so the equations have two solutions -/
theorem first_solution : ∀ f k, S f k → f.sem 1 tr (fun _ => false) k = (eqn 1 f k).eval tr (fun _ => false)
    (fun g j => g.sem 1 tr (fun _ => false) j) := by
  intro f k hS
  simp only [S, List.mem_cons, Prod.mk.injEq, List.mem_nil_iff, or_false] at hS
  rcases hS with ⟨rfl, rfl⟩ | ⟨rfl, rfl⟩ | ⟨rfl, rfl⟩ | ⟨rfl, rfl⟩ | ⟨rfl, rfl⟩ | ⟨rfl, rfl⟩ | ⟨rfl, rfl⟩ |
    ⟨rfl, rfl⟩ | ⟨rfl, rfl⟩ | ⟨rfl, rfl⟩ | ⟨rfl, rfl⟩ <;> decide

end TelProofs.DelNecessity
