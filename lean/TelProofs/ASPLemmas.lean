/-
Basic facts about stable models of `GRule` programs (M1/M4 of DESIGN §5): facts are true, atoms that
occur in no head are false, constraints matter only in the total world.
-/
import TelModel.ASP

namespace TelProofs
open TelModel

theorem all_le {l : List GAtom} {H T : Interp} (hle : H.le T) (h : l.all H = true) : l.all T = true := by
  simp only [List.all_eq_true] at h ⊢
  exact fun a ha => hle a (h a ha)

/-- bodies are monotone in the "here" world -/
theorem body_mono {r : GRule} {H T : Interp} (hle : H.le T) (h : r.bodyHolds H T = true) : r.bodyHolds T T = true := by
  simp only [GRule.bodyHolds, Bool.and_eq_true] at h ⊢
  exact ⟨⟨all_le hle h.1.1, h.1.2⟩, h.2⟩

/-- a fact is true in every stable model -/
theorem stable_fact {rs : List GRule} {T : Interp} (hs : Stable rs T) (a : GAtom)
    (hf : ({ head := [a] } : GRule) ∈ rs) : T a = true := by
  have := hs.1 _ hf
  simpa [GRule.sat, GRule.bodyHolds, GRule.headHolds] using this

/-- atoms that occur in no rule head are false in every stable model -/
theorem stable_unsupported {rs : List GRule} {T : Interp} (hs : Stable rs T) (U : GAtom → Bool)
    (hU : ∀ r ∈ rs, ∀ a ∈ r.head, U a = false) : ∀ a, U a = true → T a = false := by
  intro a hUa
  let H : Interp := fun x => T x && !(U x)
  have hle : H.le T := by
    intro x hx; simp only [H, Bool.and_eq_true] at hx; exact hx.1
  have hsat : ∀ r ∈ rs, r.sat H T = true := by
    intro r hr
    have hT := hs.1 r hr
    simp only [GRule.sat, Bool.or_eq_true, Bool.not_eq_true'] at hT ⊢
    cases hb : r.bodyHolds H T
    · exact Or.inl rfl
    · right
      have hbT := body_mono hle hb
      rcases hT with hT | hT
      · rw [hbT] at hT; cases hT
      · by_cases hc : r.choice = true
        · simp only [GRule.headHolds, hc, if_true, List.all_eq_true, Bool.or_eq_true, Bool.not_eq_true'] at hT ⊢
          intro x hx
          rcases hT x hx with h1 | h1
          · left; simp only [H, Bool.and_eq_true, Bool.not_eq_true']; exact ⟨h1, hU r hr x hx⟩
          · exact Or.inr h1
        · have hc' : r.choice = false := by
            cases h : r.choice
            · rfl
            · exact absurd h hc
          simp only [GRule.headHolds, hc', Bool.false_eq_true, if_false, List.any_eq_true] at hT ⊢
          obtain ⟨x, hx, hTx⟩ := hT
          refine ⟨x, hx, ?_⟩
          simp only [H, Bool.and_eq_true, Bool.not_eq_true']
          exact ⟨hTx, hU r hr x hx⟩
  have := hs.2 H hle hsat a
  simp only [H, hUa] at this
  cases hT : T a
  · rfl
  · rw [hT] at this; simp at this

/-- a constraint whose body holds excludes the interpretation -/
theorem stable_constraint {rs : List GRule} {T : Interp} (hs : Stable rs T) (r : GRule) (hr : r ∈ rs)
    (hh : r.head = []) (hc : r.choice = false) : r.bodyHolds T T = false := by
  have := hs.1 r hr
  simp only [GRule.sat, GRule.headHolds, hh, hc] at this
  cases hb : r.bodyHolds T T
  · rfl
  · rw [hb] at this; simp at this

/-- a rule with a true body and a single head atom derives it -/
theorem stable_derive {rs : List GRule} {T : Interp} (hs : Stable rs T) (r : GRule) (hr : r ∈ rs) (a : GAtom)
    (hh : r.head = [a]) (hc : r.choice = false) (hb : r.bodyHolds T T = true) : T a = true := by
  have := hs.1 r hr
  simpa [GRule.sat, GRule.headHolds, hh, hc, hb] using this

end TelProofs

namespace TelProofs
open TelModel

/-- **supportedness**: a true atom of a stable model is in the head of a rule whose body is true -/
theorem stable_supported_body {rs : List GRule} {T : Interp} (hs : Stable rs T) (a : GAtom) (ha : T a = true) :
    ∃ r ∈ rs, a ∈ r.head ∧ r.bodyHolds T T = true := by
  apply Classical.byContradiction; intro hcon
  let H : Interp := fun x => T x && !(x == a)
  have hle : H.le T := by
    intro x hx; simp only [H, Bool.and_eq_true] at hx; exact hx.1
  have hH : ∀ x, x ≠ a → H x = T x := by
    intro x hx
    have : (x == a) = false := by
      cases h : x == a
      · rfl
      · exact absurd (beq_iff_eq.mp h) hx
    simp [H, this]
  have hsat : ∀ r ∈ rs, r.sat H T = true := by
    intro r hr
    have hT := hs.1 r hr
    simp only [GRule.sat, Bool.or_eq_true, Bool.not_eq_true'] at hT ⊢
    cases hb : r.bodyHolds H T
    · exact Or.inl rfl
    · right
      have hbT := body_mono hle hb
      have hna : a ∉ r.head := fun hmem => hcon ⟨r, hr, hmem, hbT⟩
      rcases hT with hT | hT
      · rw [hbT] at hT; cases hT
      · by_cases hc : r.choice = true
        · simp only [GRule.headHolds, hc, if_true, List.all_eq_true, Bool.or_eq_true, Bool.not_eq_true'] at hT ⊢
          intro x hx
          have hxa : x ≠ a := fun h => hna (h ▸ hx)
          rw [hH x hxa]
          exact hT x hx
        · have hc' : r.choice = false := by
            cases h : r.choice
            · rfl
            · exact absurd h hc
          simp only [GRule.headHolds, hc', Bool.false_eq_true, if_false, List.any_eq_true] at hT ⊢
          obtain ⟨x, hx, hTx⟩ := hT
          have hxa : x ≠ a := fun h => hna (h ▸ hx)
          exact ⟨x, hx, by rw [hH x hxa]; exact hTx⟩
  have := hs.2 H hle hsat a
  simp [H, ha] at this

end TelProofs
