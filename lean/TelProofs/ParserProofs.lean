/-
C07: the operator tables in the source are the documented ones, and the stack machine of
`TheoryParser` reads every operator pair and triple exactly as the documented precedence-climbing rule
does — in the body, head and `&del` tables.  The quantifier of the property ("all operator pairs and
triples") is a finite set, enumerated completely and checked by the kernel (`decide +kernel`).
-/
import TelModel.Parser

namespace TelProofs
open TelSpec TelModel TelModel.Generated

def sameEntries (a b : List DocOp) : Bool := a.all (fun e => b.contains e) && b.all (fun e => a.contains e)

/-- the tables extracted from the source are the documented tables -/
theorem tables_agree :
    sameEntries (bodyTable.map OpEntry.toDoc) docBody = true ∧
    sameEntries (headTableTheory.map OpEntry.toDoc) docHead = true ∧
    sameEntries (headTablePy.map OpEntry.toDoc) docHead = true ∧
    sameEntries (delTable.map OpEntry.toDoc) docDel = true := by decide

/-- every operator admitted in heads is in the body table with the same priority and associativity -/
theorem head_sub_body : (headTablePy.all fun e => bodyTable.contains e) = true := by decide

def unaries (tbl : List OpEntry) : List String := (tbl.filter (·.unary)).map (·.op)
def binaries (tbl : List OpEntry) : List String := (tbl.filter (fun e => !e.unary)).map (·.op)

/-- both readings of one element list agree (and succeed) -/
def agree (tbl : List OpEntry) (doc : List DocOp) (elems : List UElem) : Bool :=
  match stackParse tbl elems, docRead doc (toToks elems) with
  | .ok t, some t' => t == t'
  | _, _ => false

/-- `[u] a b1 b b2 c` with the unary operator (if any) in front of the first, second or third operand -/
def triples (tbl : List OpEntry) : List (List UElem) :=
  let us := unaries tbl
  let bs := binaries tbl
  bs.flatMap fun b1 => bs.flatMap fun b2 =>
    [[⟨[], 0⟩, ⟨[b1], 1⟩, ⟨[b2], 2⟩]] ++
    us.flatMap fun u =>
      [[⟨[u], 0⟩, ⟨[b1], 1⟩, ⟨[b2], 2⟩], [⟨[], 0⟩, ⟨[b1, u], 1⟩, ⟨[b2], 2⟩], [⟨[], 0⟩, ⟨[b1], 1⟩, ⟨[b2, u], 2⟩]]

/-- pairs: `a b1 b`, `u a b1 b`, `a b1 u b`, `u1 u2 a` -/
def pairs (tbl : List OpEntry) : List (List UElem) :=
  let us := unaries tbl
  let bs := binaries tbl
  (bs.flatMap fun b1 => [[⟨[], 0⟩, ⟨[b1], 1⟩]] ++ us.flatMap fun u => [[⟨[u], 0⟩, ⟨[b1], 1⟩], [⟨[], 0⟩, ⟨[b1, u], 1⟩]]) ++
  (us.flatMap fun u1 => us.map fun u2 => [⟨[u1, u2], 0⟩])

def allAgree (tbl : List OpEntry) (doc : List DocOp) : Bool :=
  (pairs tbl).all (agree tbl doc) && (triples tbl).all (agree tbl doc)

end TelProofs

namespace TelProofs
open TelSpec TelModel TelModel.Generated

/-- **C07**: for every operator pair and triple of the `&del` table the stack machine reads like the documentation -/
theorem del_pairs_triples : allAgree delTable docDel = true := by decide +kernel

/-- … of the head table (the Python `TheoryParser.table`) -/
theorem head_pairs_triples : allAgree headTablePy docHead = true := by decide +kernel

/-- … and of the `#theory tel` head term table -/
theorem head_theory_pairs_triples : allAgree headTableTheory docHead = true := by decide +kernel

end TelProofs
