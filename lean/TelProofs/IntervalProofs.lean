/-
C06 (b): `IntervalSet` keeps a sorted list of disjoint, non-adjacent, non-empty intervals, and a point lies
in the set after `add` iff it lay in it before or lies in the added interval.
-/
import TelModel.Interval

namespace TelProofs
open TelModel

/-- sorted, pairwise separated by a gap, all non-empty -/
def IvSorted : List Ival → Prop
  | [] => True
  | e :: es => e.left < e.right ∧ (∀ f ∈ es, e.right < f.left) ∧ IvSorted es

theorem IvSorted.nonempty : ∀ {es : List Ival}, IvSorted es → ∀ f ∈ es, f.left < f.right := by
  intro es
  induction es with
  | nil => intro _ f hf; cases hf
  | cons e es ih =>
    intro hs f hf
    rcases List.mem_cons.mp hf with rfl | hf
    · exact hs.1
    · exact ih hs.2.2 f hf

theorem hull_is_union (y e : Ival) (x : Int) (h1 : e.left ≤ y.right) (h2 : y.left ≤ e.right)
    (_hy : y.left < y.right) (_he : e.left < e.right) :
    Ival.mem x (y.union e) = (Ival.mem x y || Ival.mem x e) := by
  rw [Bool.eq_iff_iff]
  simp only [Ival.mem, Ival.union, Bool.and_eq_true, Bool.or_eq_true, decide_eq_true_eq, Int.min_def, Int.max_def]
  by_cases c1 : y.left ≤ e.left <;> by_cases c2 : y.right ≤ e.right <;>
    simp only [c1, c2, if_true, if_false, decide_eq_true_eq] <;> constructor <;> intro h <;> omega

theorem mergeLoop_spec : ∀ (es : List Ival) (y : Ival), y.left < y.right → IvSorted es →
    (∀ e ∈ es, y.left ≤ e.right) →
    (mergeLoop es y).1.left < (mergeLoop es y).1.right ∧ IvSorted (mergeLoop es y).2 ∧
    (∀ f ∈ (mergeLoop es y).2, (mergeLoop es y).1.right < f.left) ∧ (mergeLoop es y).1.left ≤ y.left ∧
    (∀ f ∈ (mergeLoop es y).2, f ∈ es) ∧
    (∀ z, z < y.left → (∀ f ∈ es, z < f.left) → z < (mergeLoop es y).1.left) ∧
    (∀ x, (Ival.mem x (mergeLoop es y).1 || (mergeLoop es y).2.any (Ival.mem x)) = (Ival.mem x y || es.any (Ival.mem x))) := by
  intro es
  induction es with
  | nil =>
    intro y hy _ _
    simp [mergeLoop, hy, IvSorted]
  | cons e es ih =>
    intro y hy hs hle
    obtain ⟨he, hgap, hs'⟩ := hs
    cases hb : y.before e
    · -- merge
      simp only [mergeLoop, hb, Bool.false_eq_true, if_false]
      simp only [Ival.before, decide_eq_false_iff_not, Int.not_lt] at hb
      have hle_e := hle e List.mem_cons_self
      have hu : (y.union e).left < (y.union e).right := by simp only [Ival.union]; omega
      have hle' : ∀ f ∈ es, (y.union e).left ≤ f.right := by
        intro f hf
        have h1 := hgap f hf
        have h2 := hs'.nonempty f hf
        simp only [Ival.union]; omega
      obtain ⟨r1, r2, r3, r4, r5, r7, r6⟩ := ih (y.union e) hu hs' hle'
      refine ⟨r1, r2, r3, ?_, fun f hf => List.mem_cons_of_mem _ (r5 f hf), ?_, ?_⟩
      · have : (y.union e).left ≤ y.left := by simp only [Ival.union]; omega
        omega
      · intro z hz hall
        apply r7 z
        · have := hall e List.mem_cons_self
          simp only [Ival.union]; omega
        · intro f hf; exact hall f (List.mem_cons_of_mem _ hf)
      · intro x
        rw [r6 x, hull_is_union y e x hb hle_e hy he]
        simp only [List.any_cons, Bool.or_assoc]
    · simp only [mergeLoop, hb, if_true]
      simp only [Ival.before, decide_eq_true_eq] at hb
      refine ⟨hy, ⟨he, hgap, hs'⟩, ?_, Int.le_refl _, fun f hf => hf, fun z hz _ => hz, fun x => trivial⟩
      intro f hf
      rcases List.mem_cons.mp hf with rfl | hf
      · exact hb
      · have := hgap f hf; omega

theorem mem_takeWhile_sub {α} (p : α → Bool) : ∀ (l : List α) (x : α), x ∈ l.takeWhile p → x ∈ l ∧ p x = true := by
  intro l
  induction l with
  | nil => intro x hx; cases hx
  | cons a as ih =>
    intro x hx
    cases hp : p a
    · simp [List.takeWhile, hp] at hx
    · simp only [List.takeWhile, hp] at hx
      rcases List.mem_cons.mp hx with rfl | hx
      · exact ⟨List.mem_cons_self, hp⟩
      · exact ⟨List.mem_cons_of_mem _ (ih x hx).1, (ih x hx).2⟩

theorem mem_dropWhile_sub {α} (p : α → Bool) : ∀ (l : List α) (x : α), x ∈ l.dropWhile p → x ∈ l := by
  intro l
  induction l with
  | nil => intro x hx; cases hx
  | cons a as ih =>
    intro x hx
    cases hp : p a
    · simp only [List.dropWhile, hp] at hx; exact hx
    · simp only [List.dropWhile, hp] at hx; exact List.mem_cons_of_mem _ (ih x hx)

theorem head_dropWhile_false {α} (p : α → Bool) : ∀ (l : List α) (e : α) (r : List α), l.dropWhile p = e :: r → p e = false := by
  intro l
  induction l with
  | nil => intro e r h; cases h
  | cons a as ih =>
    intro e r h
    cases hp : p a
    · simp only [List.dropWhile, hp] at h
      cases h; exact hp
    · simp only [List.dropWhile, hp] at h
      exact ih e r h

theorem IvSorted.append {a b : List Ival} (ha : IvSorted a) (hb : IvSorted b)
    (hab : ∀ e ∈ a, ∀ f ∈ b, e.right < f.left) : IvSorted (a ++ b) := by
  induction a with
  | nil => exact hb
  | cons e es ih =>
    obtain ⟨h1, h2, h3⟩ := ha
    refine ⟨h1, ?_, ih h3 (fun e' he' f hf => hab e' (List.mem_cons_of_mem _ he') f hf)⟩
    intro f hf
    rcases List.mem_append.mp hf with hf | hf
    · exact h2 f hf
    · exact hab e List.mem_cons_self f hf

theorem IvSorted.split (p : Ival → Bool) : ∀ {es : List Ival}, IvSorted es →
    IvSorted (es.takeWhile p) ∧ IvSorted (es.dropWhile p) ∧
    (∀ e ∈ es.takeWhile p, ∀ f ∈ es.dropWhile p, e.right < f.left) := by
  intro es
  induction es with
  | nil => intro _; exact ⟨trivial, trivial, fun e he => nomatch he⟩
  | cons e es ih =>
    intro hs
    obtain ⟨h1, h2, h3⟩ := hs
    obtain ⟨i1, i2, i3⟩ := ih h3
    cases hp : p e
    · simp only [List.takeWhile, List.dropWhile, hp]
      exact ⟨trivial, ⟨h1, h2, h3⟩, fun e he => nomatch he⟩
    · simp only [List.takeWhile, List.dropWhile, hp]
      refine ⟨⟨h1, fun f hf => h2 f (mem_takeWhile_sub p es f hf).1, i1⟩, i2, ?_⟩
      intro a ha f hf
      rcases List.mem_cons.mp ha with rfl | ha
      · exact h2 f (mem_dropWhile_sub p es f hf)
      · exact i3 a ha f hf

/-- **IntervalSet.add**: the invariant is kept and membership is exactly "was a member or lies in the new interval" -/
theorem add_spec (s : List Ival) (y : Ival) (hs : IvSorted s) :
    IvSorted (IntervalSet.add s y) ∧
    ∀ x, IntervalSet.memPoint (IntervalSet.add s y) x = (IntervalSet.memPoint s x || Ival.mem x y) := by
  unfold IntervalSet.add
  cases hem : y.isEmpty
  · simp only [Bool.false_eq_true, if_false]
    have hy : y.left < y.right := by simpa [Ival.isEmpty] using hem
    obtain ⟨s1, s2, s3⟩ := IvSorted.split (fun e => e.before y) hs
    have hpre : ∀ e ∈ s.takeWhile (fun e => e.before y), e.right < y.left := by
      intro e he
      have := (mem_takeWhile_sub _ s e he).2
      simpa [Ival.before] using this
    have hrest : ∀ e ∈ s.dropWhile (fun e => e.before y), y.left ≤ e.right := by
      intro e he
      cases hd : s.dropWhile (fun e => e.before y) with
      | nil => rw [hd] at he; cases he
      | cons e0 r =>
        have h0 : (fun e : Ival => e.before y) e0 = false := head_dropWhile_false _ s e0 r hd
        simp only [Ival.before, decide_eq_false_iff_not, Int.not_lt] at h0
        rw [hd] at he s2
        rcases List.mem_cons.mp he with rfl | he
        · exact h0
        · have g := s2.2.1 e he
          have ne := s2.2.2.nonempty e he
          have n0 := s2.1
          omega
    obtain ⟨r1, r2, r3, r4, r5, r7, r6⟩ := mergeLoop_spec _ y hy s2 hrest
    unfold addIval
    simp only
    constructor
    · apply IvSorted.append s1 (show IvSorted (_ :: _) from ⟨r1, r3, r2⟩)
      intro e he f hf
      rcases List.mem_cons.mp hf with rfl | hf
      · exact r7 e.right (hpre e he) (fun g hg => s3 e he g hg)
      · exact s3 e he f (r5 f hf)
    · intro x
      simp only [IntervalSet.memPoint, List.any_append, List.any_cons]
      rw [r6 x]
      conv => rhs; rw [← List.takeWhile_append_dropWhile (p := fun e => e.before y) (l := s)]
      simp only [List.any_append]
      cases (List.takeWhile (fun e => e.before y) s).any (Ival.mem x) <;>
        cases (List.dropWhile (fun e => e.before y) s).any (Ival.mem x) <;> cases Ival.mem x y <;> rfl
  · simp only [if_true]
    refine ⟨hs, fun x => ?_⟩
    have : Ival.mem x y = false := by
      simp only [Ival.isEmpty, decide_eq_true_eq] at hem
      simp only [Ival.mem]
      by_cases h1 : y.left ≤ x <;> by_cases h2 : x < y.right <;> simp [h1, h2]
      omega
    rw [this, Bool.or_false]

/-- adding any sequence of ranges: invariant kept, members = union of the ranges -/
theorem addAll_spec (ys : List Ival) : ∀ (s : List Ival), IvSorted s →
    IvSorted (ys.foldl IntervalSet.add s) ∧
    ∀ x, IntervalSet.memPoint (ys.foldl IntervalSet.add s) x = (IntervalSet.memPoint s x || ys.any (Ival.mem x)) := by
  induction ys with
  | nil => intro s hs; exact ⟨hs, fun x => by simp⟩
  | cons y ys ih =>
    intro s hs
    obtain ⟨h1, h2⟩ := add_spec s y hs
    obtain ⟨i1, i2⟩ := ih _ h1
    refine ⟨i1, fun x => ?_⟩
    simp only [List.foldl_cons, i2 x, h2 x, List.any_cons, Bool.or_assoc]

end TelProofs
