/-
The time-argument rewriting commutes with substitution: `TermTransformer` looks at the predicate names, the classical
negations and the pool structure of an atom term and never at the arguments, so rewriting a schema and then replacing
its variables gives the rewriting of the instance — same renamed predicates, same appended parameters, same
bookkeeping (`future_predicates`, `max_shift`), same rejections.
-/
import TelProofs.TimeArgProofs

namespace TelProofs
open TelSpec TelModel TelModel.Generated

mutual
/-- a substitution `σ` applied to every argument of every predicate of an atom term -/
def ATerm.substArgs (σ : String → String) : ATerm → ATerm
  | .fn name args => .fn name (args.map σ)
  | .neg t => .neg (ATerm.substArgs σ t)
  | .pool ts => .pool (ATerm.substArgsL σ ts)
def ATerm.substArgsL (σ : String → String) : List ATerm → List ATerm
  | [] => []
  | t :: ts => ATerm.substArgs σ t :: ATerm.substArgsL σ ts
end

mutual
def RTerm.substArgs (σ : String → String) : RTerm → RTerm
  | .fn name args params => .fn name (args.map σ) params
  | .neg t => .neg (RTerm.substArgs σ t)
  | .pool ts => .pool (RTerm.substArgsL σ ts)
def RTerm.substArgsL (σ : String → String) : List RTerm → List RTerm
  | [] => []
  | t :: ts => RTerm.substArgs σ t :: RTerm.substArgsL σ ts
end

mutual
/-- **rewriting commutes with substitution** (terms of atoms) -/
theorem addTime_subst (rf ff fp : Bool) (σ : String → String) : ∀ (t : ATerm) (pos : Bool) (st : TState),
    addTime rf ff fp pos st (ATerm.substArgs σ t) =
      (addTime rf ff fp pos st t).map (fun p => (RTerm.substArgs σ p.1, p.2))
  | .fn name args, pos, st => by
    simp only [ATerm.substArgs, addTime]
    cases hg : getParam name rf ff fp with
    | error e => rfl
    | ok r => simp [ok_bind, py_pure, Except.map, RTerm.substArgs, List.length_map]
  | .neg t, pos, st => by
    simp only [ATerm.substArgs, addTime]
    rw [addTime_subst rf ff fp σ t (!pos) st]
    cases hr : addTime rf ff fp (!pos) st t with
    | error e => rfl
    | ok p => obtain ⟨u, su⟩ := p; simp [ok_bind, py_pure, Except.map, RTerm.substArgs]
  | .pool ts, pos, st => by
    simp only [ATerm.substArgs, addTime]
    rw [addTimes_subst rf ff fp σ ts pos st]
    cases hr : addTimes rf ff fp pos st ts with
    | error e => rfl
    | ok p => obtain ⟨us, su⟩ := p; simp [ok_bind, py_pure, Except.map, RTerm.substArgs]
theorem addTimes_subst (rf ff fp : Bool) (σ : String → String) : ∀ (ts : List ATerm) (pos : Bool) (st : TState),
    addTimes rf ff fp pos st (ATerm.substArgsL σ ts) =
      (addTimes rf ff fp pos st ts).map (fun p => (RTerm.substArgsL σ p.1, p.2))
  | [], pos, st => by simp [ATerm.substArgsL, addTimes, py_pure, Except.map, RTerm.substArgsL]
  | t :: ts, pos, st => by
    simp only [ATerm.substArgsL, addTimes]
    rw [addTime_subst rf ff fp σ t pos st]
    cases h1 : addTime rf ff fp pos st t with
    | error e => rfl
    | ok p1 =>
      obtain ⟨u, s1⟩ := p1
      simp only [Except.map, ok_bind]
      rw [addTimes_subst rf ff fp σ ts pos s1]
      cases h2 : addTimes rf ff fp pos s1 ts with
      | error e => rfl
      | ok p2 => obtain ⟨us, s2⟩ := p2; simp [ok_bind, py_pure, Except.map, RTerm.substArgsL]
end

end TelProofs
