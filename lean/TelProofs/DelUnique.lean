/-
`del_unique` (C05): under the documented normal form (iteration only over step-consuming
paths) any valuation solving the one-step equations of Diamond/Box formulas is the LDL_f
semantics.  Induction on the path expression, inner induction on the distance to the end of
the trace for iteration.
-/
import TelModel.BodySem
import TelProofs.RunsLemmas
import TelProofs.Tseitin

set_option linter.unusedSimpArgs false
set_option linter.unusedVariables false

namespace TelProofs
open TelSpec TelModel

def pconsumes : Path → Bool
  | .skip => true
  | .check _ => false
  | .choice l r => pconsumes l && pconsumes r
  | .seq l r => pconsumes l || pconsumes r
  | .star _ => false

def pnormal : Path → Bool
  | .skip => true
  | .check _ => true
  | .choice l r => pnormal l && pnormal r
  | .seq l r => pnormal l && pnormal r
  | .star p => pnormal p && pconsumes p

/-- user-level dynamic formulas with normal-form paths -/
def isDel : BForm → Bool
  | .atom _ _ _ => true
  | .const _ => true
  | .dia p f => pnormal p && isDel f
  | .box p f => pnormal p && isDel f
  | _ => false

section
variable {h : Nat} {tr : Trace}

theorem runs_skip : Path.runs h tr .skip = skipR h := rfl
theorem runs_check (t : PTest) : Path.runs h tr (.check t) = checkR (fun k => t.holds tr k) := rfl
theorem runs_choice (l r : Path) : Path.runs h tr (.choice l r) = choiceR (l.runs h tr) (r.runs h tr) := rfl
theorem runs_seq (l r : Path) : Path.runs h tr (.seq l r) = seqR h (l.runs h tr) (r.runs h tr) := rfl
theorem runs_star (p : Path) : Path.runs h tr (.star p) = starR h (p.runs h tr) := rfl

theorem starRuns_fwd {R : Nat → Nat → Bool} (hf : ∀ k j, R k j = true → k ≤ j) :
    ∀ n k j, starRuns h R n k j = true → k ≤ j := by
  intro n
  induction n with
  | zero => intro k j hs; simp [starRuns] at hs; omega
  | succ n ih =>
    intro k j hs
    simp only [starRuns, Bool.or_eq_true, beq_iff_eq, anyUpTo_iff, Bool.and_eq_true] at hs
    rcases hs with hs | ⟨m, _, h2, h3⟩
    · omega
    · have := hf k m h2; have := ih m j h3; omega

theorem starRuns_inside {R : Nat → Nat → Bool} (hi : ∀ k j, R k j = true → k ≤ h → j ≤ h) :
    ∀ n k j, starRuns h R n k j = true → k ≤ h → j ≤ h := by
  intro n
  induction n with
  | zero => intro k j hs hk; simp [starRuns] at hs; omega
  | succ n ih =>
    intro k j hs hk
    simp only [starRuns, Bool.or_eq_true, beq_iff_eq, anyUpTo_iff, Bool.and_eq_true] at hs
    rcases hs with hs | ⟨m, h1, h2, h3⟩
    · omega
    · exact ih m j h3 h1

theorem runs_bounded : ∀ p : Path, Bounded h (p.runs h tr) := by
  intro p
  induction p with
  | skip =>
    constructor
    · intro k j hr; simp [Path.runs] at hr; omega
    · intro k j hr _; simp [Path.runs] at hr; omega
  | check t =>
    constructor
    · intro k j hr; simp [Path.runs] at hr; omega
    · intro k j hr hk; simp [Path.runs] at hr; omega
  | choice l r ihl ihr =>
    constructor
    · intro k j hr
      simp only [Path.runs, Bool.or_eq_true] at hr
      rcases hr with hr | hr
      · exact ihl.fwd k j hr
      · exact ihr.fwd k j hr
    · intro k j hr hk
      simp only [Path.runs, Bool.or_eq_true] at hr
      rcases hr with hr | hr
      · exact ihl.inside k j hr hk
      · exact ihr.inside k j hr hk
  | seq l r ihl ihr =>
    constructor
    · intro k j hr
      simp only [Path.runs, anyUpTo_iff, Bool.and_eq_true] at hr
      obtain ⟨m, _, h2, h3⟩ := hr
      have := ihl.fwd k m h2; have := ihr.fwd m j h3; omega
    · intro k j hr hk
      simp only [Path.runs, anyUpTo_iff, Bool.and_eq_true] at hr
      obtain ⟨m, h1, h2, h3⟩ := hr
      exact ihr.inside m j h3 h1
  | star p ih =>
    constructor
    · intro k j hr; exact starRuns_fwd ih.fwd _ k j hr
    · intro k j hr hk; exact starRuns_inside ih.inside _ k j hr hk

theorem runs_consuming : ∀ p : Path, pconsumes p = true → Consuming (p.runs h tr) := by
  intro p
  induction p with
  | skip => intro _ k j hr; simp [Path.runs] at hr; omega
  | check t => intro hc; simp [pconsumes] at hc
  | choice l r ihl ihr =>
    intro hc k j hr
    simp only [pconsumes, Bool.and_eq_true] at hc
    simp only [Path.runs, Bool.or_eq_true] at hr
    rcases hr with hr | hr
    · exact ihl hc.1 k j hr
    · exact ihr hc.2 k j hr
  | seq l r ihl ihr =>
    intro hc k j hr
    simp only [pconsumes, Bool.or_eq_true] at hc
    simp only [Path.runs, anyUpTo_iff, Bool.and_eq_true] at hr
    obtain ⟨m, _, h2, h3⟩ := hr
    have b1 := (runs_bounded (h := h) (tr := tr) l).fwd k m h2
    have b2 := (runs_bounded (h := h) (tr := tr) r).fwd m j h3
    rcases hc with hc | hc
    · have := ihl hc k m h2; omega
    · have := ihr hc m j h3; omega
  | star p _ => intro hc; simp [pconsumes] at hc

theorem sem_dia_eq (lv : Int → Bool) (p : Path) (f : BForm) (k : Nat) :
    (BForm.dia p f).sem h tr lv k = diaR h (p.runs h tr) (f.sem h tr lv) k := rfl
theorem sem_dia_fun (lv : Int → Bool) (p : Path) (f : BForm) :
    (BForm.dia p f).sem h tr lv = diaR h (p.runs h tr) (f.sem h tr lv) := funext fun _ => rfl
theorem sem_box_fun (lv : Int → Bool) (p : Path) (f : BForm) :
    (BForm.box p f).sem h tr lv = boxR h (p.runs h tr) (f.sem h tr lv) := funext fun _ => rfl
theorem sem_box_eq (lv : Int → Bool) (p : Path) (f : BForm) (k : Nat) :
    (BForm.box p f).sem h tr lv k = boxR h (p.runs h tr) (f.sem h tr lv) k := rfl

end

section
variable {h : Nat} {tr : Trace} {lv : Int → Bool} {v : BForm → Nat → Bool} {S : BForm → Nat → Prop}

theorem binSem_or (a b : Bool) : binSem "|" a b = (a || b) := by simp [binSem]
theorem binSem_and' (a b : Bool) : binSem "&" a b = (a && b) := by simp [binSem]
theorem binSem_rimp (a b : Bool) : binSem "->" a b = (!a || b) := by simp [binSem]

/-- value of a generated binary formula from the values of its parts -/
theorem v_bin (sys : Sys h tr lv v S) (op : String) (l r : BForm) (k : Nat) (hS : S (.bin op l r) k)
    (hop : op = "&" ∨ op = "|" ∨ op = "->") :
    S l k ∧ S r k ∧ v (.bin op l r) k = binSem op (v l k) (v r k) := by
  have hc := sys.closed _ _ hS
  have hs := sys.solves _ _ hS
  simp only [eqn, binExpr_eval, BExpr.eval] at hs
  rcases hop with h1 | h1 | h1 <;> subst h1 <;>
    exact ⟨hc (l, k) (by simp [eqn, binExpr, BExpr.refs]), hc (r, k) (by simp [eqn, binExpr, BExpr.refs]), hs⟩

/-- `finalForm` is true exactly in the last state -/
theorem v_final (sys : Sys h tr lv v S) (k : Nat) (hS : S finalForm k) : v finalForm k = !(decide (k + 1 ≤ h)) := by
  have hc := sys.closed _ _ hS
  have h1 : S (.next (.const true) 1 false) k := hc (_, k) (by simp [finalForm, eqn, BExpr.refs])
  have hs := sys.solves _ _ hS
  simp only [finalForm, eqn, BExpr.eval] at hs
  rw [show finalForm = BForm.neg (.next (.const true) 1 false) from rfl, hs, sys.solves _ _ h1]
  by_cases hk : k + 1 ≤ h
  · have h2 : S (.const true) (k+1) := sys.closed _ _ h1 (_, k+1) (by simp [eqn, hk, BExpr.refs])
    simp only [eqn, hk, if_true, BExpr.eval]
    rw [sys.solves _ _ h2]; simp [eqn, BExpr.eval]
  · simp [eqn, hk, BExpr.eval]

theorem v_test (sys : Sys h tr lv v S) (t : PTest) (k : Nat) (hS : S t.toForm k) : v t.toForm k = t.holds tr k := by
  have hs := sys.solves _ _ hS
  cases t <;> simpa [PTest.toForm, eqn, BExpr.eval, PTest.holds] using hs

/-- the diamond case for one path, for an arbitrary continuation `X` whose value is already known
    at the positions the path can reach -/
theorem dia_path (sys : Sys h tr lv v S) :
    ∀ p : Path, pnormal p = true → ∀ (X : BForm) (k : Nat), S (.dia p X) k →
      (∀ j, k ≤ j → (pconsumes p = true → k < j) → S X j → v X j = X.sem h tr lv j) →
      v (.dia p X) k = (BForm.dia p X).sem h tr lv k := by
  intro p
  induction p with
  | skip =>
    intro _ X k hS hX
    have hc := sys.closed _ _ hS
    have h1 : S (.next X 1 false) k := hc (_, k) (by simp [eqn, BExpr.refs])
    rw [sys.solves _ _ hS, sem_dia_eq, runs_skip, diaR_skip]
    simp only [eqn, BExpr.eval]
    rw [sys.solves _ _ h1]
    by_cases hk : k + 1 ≤ h
    · have h2 : S X (k+1) := sys.closed _ _ h1 (_, k+1) (by simp [eqn, hk, BExpr.refs])
      simp only [eqn, hk, if_true, BExpr.eval]
      exact hX (k+1) (by omega) (fun _ => by omega) h2
    · simp [eqn, hk, BExpr.eval]
  | check t =>
    intro _ X k hS hX
    have hkb := sys.bound _ _ hS
    have hc := sys.closed _ _ hS
    have h1 : S (.bin "&" t.toForm X) k := hc (_, k) (by simp [eqn, BExpr.refs])
    obtain ⟨h2, h3, h4⟩ := v_bin sys "&" _ _ k h1 (Or.inl rfl)
    rw [sys.solves _ _ hS, sem_dia_eq, runs_check, diaR_check _ _ _ _ hkb]
    simp only [eqn, BExpr.eval]
    rw [h4, binSem_and', v_test sys t k h2, hX k (Nat.le_refl _) (fun hc => by simp [pconsumes] at hc) h3]
  | choice l r ihl ihr =>
    intro hn X k hS hX
    simp only [pnormal, Bool.and_eq_true] at hn
    have hc := sys.closed _ _ hS
    have h1 : S (.bin "|" (.dia r X) (.dia l X)) k := hc (_, k) (by simp [eqn, BExpr.refs])
    obtain ⟨h2, h3, h4⟩ := v_bin sys "|" _ _ k h1 (Or.inr (Or.inl rfl))
    rw [sys.solves _ _ hS, sem_dia_eq, runs_choice, diaR_choice]
    simp only [eqn, BExpr.eval]
    rw [h4, binSem_or,
      ihr hn.2 X k h2 (fun j hj hcj hs => hX j hj (fun hcc => hcj (by simp [pconsumes] at hcc; exact hcc.2)) hs),
      ihl hn.1 X k h3 (fun j hj hcj hs => hX j hj (fun hcc => hcj (by simp [pconsumes] at hcc; exact hcc.1)) hs),
      sem_dia_eq, sem_dia_eq, Bool.or_comm]
  | seq l r ihl ihr =>
    intro hn X k hS hX
    simp only [pnormal, Bool.and_eq_true] at hn
    have hc := sys.closed _ _ hS
    have h1 : S (.dia l (.dia r X)) k := hc (_, k) (by simp [eqn, BExpr.refs])
    rw [sys.solves _ _ hS, sem_dia_eq, runs_seq, diaR_seq]
    simp only [eqn, BExpr.eval]
    rw [ihl hn.1 (.dia r X) k h1 ?_, sem_dia_eq]
    · rfl
    · intro j hj hcj hs
      apply ihr hn.2 X j hs
      intro i hi hci hsi
      apply hX i (by omega) ?_ hsi
      intro hcc
      simp only [pconsumes, Bool.or_eq_true] at hcc
      rcases hcc with hcc | hcc
      · have := hcj hcc; omega
      · have := hci hcc; omega
  | star p ih =>
    intro hn X
    simp only [pnormal, Bool.and_eq_true] at hn
    have hcons : Consuming (p.runs h tr) := runs_consuming p hn.2
    have hbnd : Bounded h (p.runs h tr) := runs_bounded p
    -- induction on the distance to the end of the trace
    suffices hmain : ∀ m k, h - k = m → S (.dia (.star p) X) k →
        (∀ j, k ≤ j → S X j → v X j = X.sem h tr lv j) →
        v (.dia (.star p) X) k = (BForm.dia (.star p) X).sem h tr lv k from
      fun k hS hX => hmain (h - k) k rfl hS (fun j hj hs => hX j hj (fun hcc => by simp [pconsumes] at hcc) hs)
    intro m
    induction m using Nat.strongRecOn with
    | _ m ihm =>
      intro k hm hS hX
      have hkb := sys.bound _ _ hS
      have hc := sys.closed _ _ hS
      -- the generated formula  (final -> X) & (X | <p><p*>X)
      have h1 : S (.bin "&" (.bin "->" finalForm X) (.bin "|" X (.dia p (.dia (.star p) X)))) k :=
        hc (_, k) (by simp [eqn, BExpr.refs])
      obtain ⟨h2, h3, h4⟩ := v_bin sys "&" _ _ k h1 (Or.inl rfl)
      obtain ⟨h5, h6, h7⟩ := v_bin sys "->" _ _ k h2 (Or.inr (Or.inr rfl))
      obtain ⟨h8, h9, h10⟩ := v_bin sys "|" _ _ k h3 (Or.inr (Or.inl rfl))
      have hXk := hX k (Nat.le_refl _) h6
      -- the inner diamond through the induction hypothesis on the path
      have hinner : v (.dia p (.dia (.star p) X)) k = (BForm.dia p (.dia (.star p) X)).sem h tr lv k := by
        apply ih hn.1 (.dia (.star p) X) k h9
        intro j hj hcj hs
        have hlt : k < j := hcj hn.2
        have hjb := sys.bound _ _ hs
        exact ihm (h - j) (by omega) j rfl hs (fun i hi hsi => hX i (by omega) hsi)
      rw [sys.solves _ _ hS, sem_dia_eq, runs_star, diaR_star hcons hbnd hkb]
      simp only [eqn, BExpr.eval]
      rw [h4, binSem_and', h7, binSem_rimp, h10, binSem_or, v_final sys k h5, hXk, hinner, sem_dia_eq, sem_dia_fun, runs_star]
      by_cases hk : k + 1 ≤ h
      · simp [hk]
      · have hkh : k = h := by omega
        subst hkh
        rw [diaR_last hcons hbnd]
        simp [hk]

/-- the box case, dual to `dia_path` -/
theorem box_path (sys : Sys h tr lv v S) :
    ∀ p : Path, pnormal p = true → ∀ (X : BForm) (k : Nat), S (.box p X) k →
      (∀ j, k ≤ j → (pconsumes p = true → k < j) → S X j → v X j = X.sem h tr lv j) →
      v (.box p X) k = (BForm.box p X).sem h tr lv k := by
  intro p
  induction p with
  | skip =>
    intro _ X k hS hX
    have hc := sys.closed _ _ hS
    have h1 : S (.next X 1 true) k := hc (_, k) (by simp [eqn, BExpr.refs])
    rw [sys.solves _ _ hS, sem_box_eq, runs_skip, boxR_skip]
    simp only [eqn, BExpr.eval]
    rw [sys.solves _ _ h1]
    by_cases hk : k + 1 ≤ h
    · have h2 : S X (k+1) := sys.closed _ _ h1 (_, k+1) (by simp [eqn, hk, BExpr.refs])
      simp only [eqn, hk, if_true, BExpr.eval]
      exact hX (k+1) (by omega) (fun _ => by omega) h2
    · simp [eqn, hk, BExpr.eval]
  | check t =>
    intro _ X k hS hX
    have hkb := sys.bound _ _ hS
    have hc := sys.closed _ _ hS
    have h1 : S (.bin "->" t.toForm X) k := hc (_, k) (by simp [eqn, BExpr.refs])
    obtain ⟨h2, h3, h4⟩ := v_bin sys "->" _ _ k h1 (Or.inr (Or.inr rfl))
    rw [sys.solves _ _ hS, sem_box_eq, runs_check, boxR_check _ _ _ _ hkb]
    simp only [eqn, BExpr.eval]
    rw [h4, binSem_rimp, v_test sys t k h2, hX k (Nat.le_refl _) (fun hc => by simp [pconsumes] at hc) h3]
  | choice l r ihl ihr =>
    intro hn X k hS hX
    simp only [pnormal, Bool.and_eq_true] at hn
    have hc := sys.closed _ _ hS
    have h1 : S (.bin "&" (.box r X) (.box l X)) k := hc (_, k) (by simp [eqn, BExpr.refs])
    obtain ⟨h2, h3, h4⟩ := v_bin sys "&" _ _ k h1 (Or.inl rfl)
    rw [sys.solves _ _ hS, sem_box_eq, runs_choice, boxR_choice]
    simp only [eqn, BExpr.eval]
    rw [h4, binSem_and',
      ihr hn.2 X k h2 (fun j hj hcj hs => hX j hj (fun hcc => hcj (by simp [pconsumes] at hcc; exact hcc.2)) hs),
      ihl hn.1 X k h3 (fun j hj hcj hs => hX j hj (fun hcc => hcj (by simp [pconsumes] at hcc; exact hcc.1)) hs),
      sem_box_eq, sem_box_eq, Bool.and_comm]
  | seq l r ihl ihr =>
    intro hn X k hS hX
    simp only [pnormal, Bool.and_eq_true] at hn
    have hc := sys.closed _ _ hS
    have h1 : S (.box l (.box r X)) k := hc (_, k) (by simp [eqn, BExpr.refs])
    rw [sys.solves _ _ hS, sem_box_eq, runs_seq, boxR_seq]
    simp only [eqn, BExpr.eval]
    rw [ihl hn.1 (.box r X) k h1 ?_, sem_box_eq]
    · rfl
    · intro j hj hcj hs
      apply ihr hn.2 X j hs
      intro i hi hci hsi
      apply hX i (by omega) ?_ hsi
      intro hcc
      simp only [pconsumes, Bool.or_eq_true] at hcc
      rcases hcc with hcc | hcc
      · have := hcj hcc; omega
      · have := hci hcc; omega
  | star p ih =>
    intro hn X
    simp only [pnormal, Bool.and_eq_true] at hn
    have hcons : Consuming (p.runs h tr) := runs_consuming p hn.2
    have hbnd : Bounded h (p.runs h tr) := runs_bounded p
    suffices hmain : ∀ m k, h - k = m → S (.box (.star p) X) k →
        (∀ j, k ≤ j → S X j → v X j = X.sem h tr lv j) →
        v (.box (.star p) X) k = (BForm.box (.star p) X).sem h tr lv k from
      fun k hS hX => hmain (h - k) k rfl hS (fun j hj hs => hX j hj (fun hcc => by simp [pconsumes] at hcc) hs)
    intro m
    induction m using Nat.strongRecOn with
    | _ m ihm =>
      intro k hm hS hX
      have hkb := sys.bound _ _ hS
      have hc := sys.closed _ _ hS
      have h1 : S (.bin "&" (.bin "->" finalForm X) (.bin "&" X (.box p (.box (.star p) X)))) k :=
        hc (_, k) (by simp [eqn, BExpr.refs])
      obtain ⟨h2, h3, h4⟩ := v_bin sys "&" _ _ k h1 (Or.inl rfl)
      obtain ⟨h5, h6, h7⟩ := v_bin sys "->" _ _ k h2 (Or.inr (Or.inr rfl))
      obtain ⟨h8, h9, h10⟩ := v_bin sys "&" _ _ k h3 (Or.inl rfl)
      have hXk := hX k (Nat.le_refl _) h6
      have hinner : v (.box p (.box (.star p) X)) k = (BForm.box p (.box (.star p) X)).sem h tr lv k := by
        apply ih hn.1 (.box (.star p) X) k h9
        intro j hj hcj hs
        have hlt : k < j := hcj hn.2
        have hjb := sys.bound _ _ hs
        exact ihm (h - j) (by omega) j rfl hs (fun i hi hsi => hX i (by omega) hsi)
      rw [sys.solves _ _ hS, sem_box_eq, runs_star, boxR_star hcons hbnd hkb]
      simp only [eqn, BExpr.eval]
      rw [h4, binSem_and', h7, binSem_rimp, h10, binSem_and', v_final sys k h5, hXk, hinner, sem_box_eq, sem_box_fun, runs_star]
      by_cases hk : k + 1 ≤ h
      · simp [hk]
      · have hkh : k = h := by omega
        subst hkh
        rw [boxR_last hcons hbnd]
        simp [hk]

/-- **del_unique**: the equations of dynamic formulas in normal form have exactly one solution, the
    LDL_f semantics; nested modalities by structural induction. -/
theorem del_unique (sys : Sys h tr lv v S) :
    ∀ f, isDel f = true → ∀ k, S f k → v f k = f.sem h tr lv k := by
  intro f
  induction f with
  | atom n a p => intro _ k hS; rw [sys.solves _ _ hS]; rfl
  | const b => intro _ k hS; rw [sys.solves _ _ hS]; rfl
  | dia p f ih =>
    intro hd k hS
    simp only [isDel, Bool.and_eq_true] at hd
    exact dia_path sys p hd.1 f k hS (fun j _ _ hs => ih hd.2 j hs)
  | box p f ih =>
    intro hd k hS
    simp only [isDel, Bool.and_eq_true] at hd
    exact box_path sys p hd.1 f k hS (fun j _ _ hs => ih hd.2 j hs)
  | numLit _ => intro hd; simp [isDel] at hd
  | neg _ _ => intro hd; simp [isDel] at hd
  | bin _ _ _ _ _ => intro hd; simp [isDel] at hd
  | prev _ _ _ _ => intro hd; simp [isDel] at hd
  | initially _ _ => intro hd; simp [isDel] at hd
  | next _ _ _ _ => intro hd; simp [isDel] at hd
  | telP2 _ _ _ _ _ => intro hd; simp [isDel] at hd
  | telP1 _ _ _ => intro hd; simp [isDel] at hd
  | telN2 _ _ _ _ _ => intro hd; simp [isDel] at hd
  | telN1 _ _ _ => intro hd; simp [isDel] at hd

end

end TelProofs
