/-
`del_doc_eq` (C05): the code's construction of dynamic formulas (`create_dynamic_formula`,
`create_path`) applied to the term of a specification-level LDL_f formula yields a code-level
formula with the specified semantics; normal form is preserved.
-/
import TelProofs.DelUnique
import TelProofs.DocEq

set_option linter.unusedSimpArgs false

namespace TelProofs
open TelSpec TelModel TelModel.Generated

def toTermT : DTest → TTerm
  | .atom a => .sym a
  | .const b => .fn "&" [.sym (if b then "true" else "false")]

def toTermP : DPath → TTerm
  | .skip => .fn "&" [.sym "true"]
  | .test t => .fn "?" [toTermT t]
  | .step a => .sym a
  | .choice l r => .fn "+" [toTermP l, toTermP r]
  | .seq l r => .fn ";;" [toTermP l, toTermP r]
  | .star p => .fn "*" [toTermP p]

def toTermD : DForm → TTerm
  | .atom a => .sym a
  | .const b => .fn "&" [.sym (if b then "true" else "false")]
  | .final => .fn "&" [.sym "final"]
  | .dia p f => .fn ".>?" [toTermP p, toTermD f]
  | .box p f => .fn ".>*" [toTermP p, toTermD f]

def mtest : DTest → PTest
  | .atom a => .atom a [] true
  | .const b => .const b

/-- the code-level path of a specification-level path -/
def mpath : DPath → Path
  | .skip => .skip
  | .test t => .check (mtest t)
  | .step a => .seq (.check (.atom a [] true)) .skip
  | .choice l r => .choice (mpath l) (mpath r)
  | .seq l r => .seq (mpath l) (mpath r)
  | .star p => .star (mpath p)

def GoodT : DTest → Prop
  | .atom a => GoodAtom a
  | .const _ => True

def GoodP : DPath → Prop
  | .skip => True
  | .test t => GoodT t
  | .step a => GoodAtom a
  | .choice l r => GoodP l ∧ GoodP r
  | .seq l r => GoodP l ∧ GoodP r
  | .star p => GoodP p

def GoodD : DForm → Prop
  | .atom a => GoodAtom a
  | .const _ => True
  | .final => True
  | .dia p f => GoodP p ∧ GoodD f
  | .box p f => GoodP p ∧ GoodD f

theorem createAtom_good (a : String) (hg : GoodAtom a) : createAtom (.sym a) true = .ok (.atom a [] true) := by
  obtain ⟨_, h2, h3, _, _⟩ := hg
  simp [createAtom, mkAtom, h2, h3]

theorem createPath_mpath (p : DPath) (hg : GoodP p) : createPath (toTermP p) = .ok (mpath p) := by
  induction p with
  | skip => simp [toTermP, createPath, pathBinaryOperators, pathUnaryOperators, kwName, mpath]
  | test t =>
    cases t with
    | atom a =>
      simp [toTermP, toTermT, createPath, pathBinaryOperators, pathUnaryOperators, createPathCheck,
        createAtom_good a hg, atomToTest, mpath, mtest]
    | const b =>
      cases b <;> simp [toTermP, toTermT, createPath, pathBinaryOperators, pathUnaryOperators, createPathCheck,
        kwName, mpath, mtest]
  | step a => simp [toTermP, createPath, createAtom_good a hg, atomToTest, mpath]
  | choice l r ihl ihr =>
    simp [toTermP, createPath, pathBinaryOperators, ihl hg.1, ihr hg.2, mpath]
  | seq l r ihl ihr =>
    simp [toTermP, createPath, pathBinaryOperators, ihl hg.1, ihr hg.2, mpath]
  | star p ih =>
    simp [toTermP, createPath, pathBinaryOperators, pathUnaryOperators, ih hg, mpath]

theorem mtest_holds (h : Nat) (tr : Trace) (t : DTest) (hg : GoodT t) (k : Nat) :
    (mtest t).holds (withAdmin h tr) k = t.holds tr k := by
  cases t with
  | atom a =>
    obtain ⟨h1, _, _, h4, h5⟩ := hg
    simp [mtest, PTest.holds, DTest.holds, atomKey_prop a h1, withAdmin, h4, h5]
  | const b => rfl

theorem mpath_runs (h : Nat) (tr : Trace) (p : DPath) (hg : GoodP p) :
    (mpath p).runs h (withAdmin h tr) = runs h tr p := by
  induction p with
  | skip => rfl
  | test t =>
    funext k j
    simp only [mpath, Path.runs, runs, mtest_holds h tr t hg]
  | step a =>
    funext k j
    obtain ⟨h1, _, _, h4, h5⟩ := hg
    apply bool_eq_of_iff
    simp only [mpath, Path.runs, runs, anyUpTo_iff, Bool.and_eq_true, beq_iff_eq, decide_eq_true_eq,
      PTest.holds, atomKey_prop a h1, withAdmin, h4, h5, if_false]
    constructor
    · rintro ⟨m, _, ⟨h2, h3⟩, h6, h7⟩; subst h2; exact ⟨h3, h6, h7⟩
    · rintro ⟨h3, h6, h7⟩; exact ⟨k, by omega, ⟨rfl, h3⟩, h6, h7⟩
  | choice l r ihl ihr =>
    funext k j
    simp only [mpath, Path.runs, runs, ihl hg.1, ihr hg.2]
  | seq l r ihl ihr =>
    funext k j
    simp only [mpath, Path.runs, runs, ihl hg.1, ihr hg.2]
  | star p ih =>
    funext k j
    simp only [mpath, Path.runs, runs, ih hg]

theorem mpath_normal (p : DPath) : pnormal (mpath p) = p.normal ∧ pconsumes (mpath p) = p.consumes := by
  induction p with
  | skip => simp [mpath, pnormal, pconsumes, DPath.normal, DPath.consumes]
  | test t => simp [mpath, pnormal, pconsumes, DPath.normal, DPath.consumes]
  | step a => simp [mpath, pnormal, pconsumes, DPath.normal, DPath.consumes]
  | choice l r ihl ihr => simp [mpath, pnormal, pconsumes, DPath.normal, DPath.consumes, ihl, ihr]
  | seq l r ihl ihr => simp [mpath, pnormal, pconsumes, DPath.normal, DPath.consumes, ihl, ihr]
  | star p ih => simp [mpath, pnormal, pconsumes, DPath.normal, DPath.consumes, ih]

/-- what `del_doc_eq` says about one formula -/
def DelDocEq (s : DForm) (f : BForm) : Prop :=
  (s.normal = true → isDel f = true) ∧ ∀ (h : Nat) (tr : Trace) (lv : Int → Bool) (k : Nat), k ≤ h →
    f.sem h (withAdmin h tr) lv k = ldlSem h tr s k

theorem del_doc_eq (s : DForm) (hg : GoodD s) : ∃ f, createDynamicFormula (toTermD s) = .ok f ∧ DelDocEq s f := by
  induction s with
  | atom a =>
    have hg' : GoodAtom a := hg
    obtain ⟨h1, _, _, h4, h5⟩ := hg
    refine ⟨.atom a [] true, by simp [toTermD, createDynamicFormula, createAtom_good a hg'], fun _ => rfl, ?_⟩
    intro h tr lv k _
    simp [BForm.sem, atomKey_prop a h1, withAdmin, h4, h5, ldlSem]
  | const b =>
    refine ⟨.const b, ?_, fun _ => rfl, fun h tr lv k _ => rfl⟩
    cases b <;> simp [toTermD, createDynamicFormula, delOperators, kwName]
  | final =>
    refine ⟨.box .skip (.const false), by simp [toTermD, createDynamicFormula, delOperators, kwName],
      fun _ => by simp [isDel, pnormal], ?_⟩
    intro h tr lv k hk
    rw [sem_box_eq, runs_skip, boxR_skip]
    simp only [BForm.sem, ldlSem]
    by_cases hkh : k + 1 ≤ h
    · have : k ≠ h := by omega
      simp [hkh, this]
    · have : k = h := by omega
      simp [hkh, this]
  | dia p f ih =>
    obtain ⟨f', hc, hn, hs⟩ := ih hg.2
    refine ⟨.dia (mpath p) f', by simp [toTermD, createDynamicFormula, delOperators, createPath_mpath p hg.1, hc], ?_, ?_⟩
    · intro hnorm
      simp only [DForm.normal, Bool.and_eq_true] at hnorm
      simp [isDel, (mpath_normal p).1, hnorm.1, hn hnorm.2]
    · intro h tr lv k hk
      rw [sem_dia_eq, mpath_runs h tr p hg.1]
      simp only [ldlSem]
      exact diaR_congr (fun j hj _ => hs h tr lv j hj)
  | box p f ih =>
    obtain ⟨f', hc, hn, hs⟩ := ih hg.2
    refine ⟨.box (mpath p) f', by simp [toTermD, createDynamicFormula, delOperators, createPath_mpath p hg.1, hc], ?_, ?_⟩
    · intro hnorm
      simp only [DForm.normal, Bool.and_eq_true] at hnorm
      simp [isDel, (mpath_normal p).1, hnorm.1, hn hnorm.2]
    · intro h tr lv k hk
      rw [sem_box_eq, mpath_runs h tr p hg.1]
      simp only [ldlSem]
      exact boxR_congr (fun j hj _ => hs h tr lv j hj)

end TelProofs
