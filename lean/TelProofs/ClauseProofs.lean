/-
The clauses telingo writes for a Boolean connective, a temporal induction step or an equivalence hold exactly when
the literal of the formula has the value the one-step equation (`binExpr`, `telStep` of `eqn`) gives it.
-/
import TelModel.Clauses

set_option linter.unusedSimpArgs false

namespace TelProofs
open TelModel

theorem litTrue_neg (v : Nat → Bool) (l : Int) (hl : l ≠ 0) : litTrue v (-l) = !(litTrue v l) := by
  unfold litTrue
  by_cases h : l > 0
  · have h' : ¬ (-l > 0) := by omega
    rw [if_neg h', if_pos h, Int.neg_neg]
  · have h' : -l > 0 := by omega
    rw [if_pos h', if_neg h, Bool.not_not]

theorem makeEqual_ok (v : Nat → Bool) (a b : Int) (ha : a ≠ 0) (hb : b ≠ 0) :
    clausesOk v (makeEqual a b) = (litTrue v a == litTrue v b) := by
  simp only [clausesOk, makeEqual, List.all_cons, List.all_nil, Clause.ok, litTrue_neg v a ha, litTrue_neg v b hb, Bool.and_true]
  cases litTrue v a <;> cases litTrue v b <;> rfl

theorem makeDisjunction_ok (v : Nat → Bool) (e a b : Int) (he : e ≠ 0) (ha : a ≠ 0) (hb : b ≠ 0) :
    clausesOk v (makeDisjunction e a b) = (litTrue v e == (litTrue v a || litTrue v b)) := by
  simp only [clausesOk, makeDisjunction, List.all_cons, List.all_nil, Clause.ok, litTrue_neg v a ha, litTrue_neg v b hb,
    litTrue_neg v e he, Bool.and_true]
  cases litTrue v e <;> cases litTrue v a <;> cases litTrue v b <;> rfl

/-- value of a Boolean connective (as in `binExpr`) -/
def boolVal (op : String) (a b : Bool) : Bool :=
  if op == "&" then a && b
  else if op == "|" then a || b
  else if op == "<-" then a || !b
  else if op == "->" then !a || b
  else if op == "<>" then a == b
  else false

/-- **Boolean connectives**: the clauses hold iff the formula's literal has the connective's value -/
theorem boolClauses_ok (v : Nat → Bool) (op : String) (lit lhs rhs : Int) (h0 : lit ≠ 0) (h1 : lhs ≠ 0) (h2 : rhs ≠ 0)
    (hop : op = "&" ∨ op = "|" ∨ op = "<-" ∨ op = "->" ∨ op = "<>") :
    clausesOk v (boolClauses op lit lhs rhs) = (litTrue v lit == boolVal op (litTrue v lhs) (litTrue v rhs)) := by
  have n0 : -lit ≠ 0 := by omega
  have n1 : -lhs ≠ 0 := by omega
  have n2 : -rhs ≠ 0 := by omega
  rcases hop with rfl | rfl | rfl | rfl | rfl
  · simp only [boolClauses, boolVal]
    rw [show (("&" : String) != "<>") = true by decide]
    simp only [if_true, beq_self_eq_true]
    rw [makeDisjunction_ok v _ _ _ n0 n1 n2, litTrue_neg v lit h0, litTrue_neg v lhs h1, litTrue_neg v rhs h2]
    cases litTrue v lit <;> cases litTrue v lhs <;> cases litTrue v rhs <;> rfl
  · simp only [boolClauses, boolVal]
    rw [show (("|" : String) != "<>") = true by decide, show (("|" : String) == "&") = false by decide,
      show (("|" : String) == "<-") = false by decide, show (("|" : String) == "->") = false by decide]
    simp only [if_true, Bool.false_eq_true, if_false, beq_self_eq_true]
    rw [makeDisjunction_ok v _ _ _ h0 h1 h2]
  · simp only [boolClauses, boolVal]
    rw [show (("<-" : String) != "<>") = true by decide, show (("<-" : String) == "&") = false by decide,
      show (("<-" : String) == "|") = false by decide]
    simp only [if_true, Bool.false_eq_true, if_false, beq_self_eq_true]
    rw [makeDisjunction_ok v _ _ _ h0 h1 n2, litTrue_neg v rhs h2]
  · simp only [boolClauses, boolVal]
    rw [show (("->" : String) != "<>") = true by decide, show (("->" : String) == "&") = false by decide,
      show (("->" : String) == "|") = false by decide, show (("->" : String) == "<-") = false by decide]
    simp only [if_true, Bool.false_eq_true, if_false, beq_self_eq_true]
    rw [makeDisjunction_ok v _ _ _ h0 n1 h2, litTrue_neg v lhs h1]
  · simp only [boolClauses, boolVal]
    rw [show (("<>" : String) != "<>") = false by decide, show (("<>" : String) == "&") = false by decide,
      show (("<>" : String) == "|") = false by decide, show (("<>" : String) == "<-") = false by decide,
      show (("<>" : String) == "->") = false by decide]
    simp only [Bool.false_eq_true, if_false, beq_self_eq_true, if_true, clausesOk, List.all_cons, List.all_nil, Clause.ok,
      litTrue_neg v lit h0, litTrue_neg v lhs h1, litTrue_neg v rhs h2, Bool.and_true]
    cases litTrue v lit <;> cases litTrue v lhs <;> cases litTrue v rhs <;> rfl

/-- value of one induction step of since/trigger/until/release and their unary forms (as in `telStep`) -/
def telVal (dual : Bool) (lhs : Option Bool) (rhs pre : Bool) : Bool :=
  match dual, lhs with
  | false, some l => rhs || (l && pre)
  | false, none => rhs || pre
  | true, some l => rhs && (l || pre)
  | true, none => rhs && pre

/-- **temporal induction step**: the clauses hold iff the literal has the value of the step equation -/
theorem telClauses_ok (v : Nat → Bool) (dual : Bool) (lit : Int) (lhs : Option Int) (rhs pre : Int)
    (h0 : lit ≠ 0) (h1 : ∀ l, lhs = some l → l ≠ 0) (h2 : rhs ≠ 0) (h3 : pre ≠ 0) :
    clausesOk v (telClauses dual lit lhs rhs pre) =
      (litTrue v lit == telVal dual (lhs.map (litTrue v)) (litTrue v rhs) (litTrue v pre)) := by
  cases dual <;> cases lhs with
  | none =>
    simp only [telClauses, clausesOk, Bool.false_eq_true, if_false, if_true, List.all_cons, List.all_nil, List.cons_append,
      List.nil_append, Clause.ok, telVal, Option.map_none, litTrue_neg v lit h0, litTrue_neg v rhs h2, litTrue_neg v pre h3,
      litTrue_neg v (-lit) (by omega), litTrue_neg v (-rhs) (by omega), litTrue_neg v (-pre) (by omega), Bool.and_true]
    cases litTrue v lit <;> cases litTrue v rhs <;> cases litTrue v pre <;> rfl
  | some l =>
    have hl := h1 l rfl
    simp only [telClauses, clausesOk, Bool.false_eq_true, if_false, if_true, List.all_cons, List.all_nil, List.cons_append,
      List.nil_append, Clause.ok, telVal, Option.map_some, litTrue_neg v lit h0, litTrue_neg v rhs h2, litTrue_neg v pre h3,
      litTrue_neg v l hl, litTrue_neg v (-lit) (by omega), litTrue_neg v (-rhs) (by omega), litTrue_neg v (-pre) (by omega),
      litTrue_neg v (-l) (by omega), Bool.and_true]
    cases litTrue v lit <;> cases litTrue v rhs <;> cases litTrue v pre <;> cases litTrue v l <;> rfl

/-- the clause-level values are the equation-level ones: `boolVal` is `binExpr`, `telVal` is `telStep` -/
theorem boolVal_binExpr (op : String) (a b : BExpr) (tr : TelSpec.Trace) (lv : Int → Bool) (val : BForm → Nat → Bool) :
    (binExpr op a b).eval tr lv val = boolVal op (a.eval tr lv val) (b.eval tr lv val) := by
  unfold binExpr boolVal
  split
  · rfl
  · split
    · rfl
    · split
      · rfl
      · split
        · rfl
        · split <;> rfl

theorem telVal_telStep (dual : Bool) (l : Option BExpr) (r p : BExpr) (tr : TelSpec.Trace) (lv : Int → Bool) (val : BForm → Nat → Bool) :
    (telStep dual l r p).eval tr lv val = telVal dual (l.map fun e => e.eval tr lv val) (r.eval tr lv val) (p.eval tr lv val) := by
  cases dual <;> cases l <;> rfl

end TelProofs
