/-
C12: the answer sets depend on the program only as a *set* of rules.
-/
import TelProofs.CoreEquiv

set_option linter.unusedSimpArgs false
set_option linter.unusedVariables false

namespace TelProofs
open TelSpec TelModel TelModel.Generated

/-- same members (permutation, duplication, redistribution over files all preserve this) -/
def SameRules {α} (P Q : List α) : Prop := ∀ r, r ∈ P ↔ r ∈ Q

theorem stable_mem_congr {rs rs' : List GRule} (hm : SameRules rs rs') (X : Interp) : Stable rs X ↔ Stable rs' X := by
  constructor
  · rintro ⟨h1, h2⟩
    exact ⟨fun r hr => h1 r ((hm r).mpr hr), fun H hle hs => h2 H hle (fun r hr => hs r ((hm r).mp hr))⟩
  · rintro ⟨h1, h2⟩
    exact ⟨fun r hr => h1 r ((hm r).mp hr), fun H hle hs => h2 H hle (fun r hr => hs r ((hm r).mpr hr))⟩

theorem tsm_mem_congr {P Q : TProg} (hm : SameRules P Q) (h : Nat) (T : Trace) : TSM h P T ↔ TSM h Q T := by
  constructor
  · rintro ⟨h1, h2⟩
    exact ⟨fun r hr => h1 r ((hm r).mpr hr), fun W hle hs => h2 W hle (fun r hr => hs r ((hm r).mp hr))⟩
  · rintro ⟨h1, h2⟩
    exact ⟨fun r hr => h1 r ((hm r).mp hr), fun W hle hs => h2 W hle (fun r hr => hs r ((hm r).mpr hr))⟩

/-- membership in a "append if new" fold -/
theorem dedupFold_mem {α β} [BEq β] [LawfulBEq β] (c : α → Bool) (key : α → β) (x : β) :
    ∀ (P : List α) (acc : List β),
      x ∈ P.foldl (fun acc r => if c r && !(acc.contains (key r)) then acc ++ [key r] else acc) acc ↔
        x ∈ acc ∨ ∃ r ∈ P, c r = true ∧ key r = x := by
  intro P
  induction P with
  | nil => intro acc; simp
  | cons q Q ih =>
    intro acc
    simp only [List.foldl_cons]
    rw [ih]
    constructor
    · rintro (h | ⟨r, hr, hc, hk⟩)
      · split at h
        · rename_i hcond
          simp only [Bool.and_eq_true] at hcond
          rcases List.mem_append.mp h with h | h
          · exact Or.inl h
          · simp at h; exact Or.inr ⟨q, List.mem_cons_self, hcond.1, h.symm⟩
        · exact Or.inl h
      · exact Or.inr ⟨r, List.mem_cons_of_mem _ hr, hc, hk⟩
    · rintro (h | ⟨r, hr, hc, hk⟩)
      · left; split
        · exact List.mem_append_left _ h
        · exact h
      · rcases List.mem_cons.mp hr with rfl | hr
        · left
          by_cases hin : acc.contains (key r) = true
          · simp only [hin, Bool.not_true, Bool.and_false, Bool.false_eq_true, if_false]
            rw [← hk]; simpa using hin
          · have hin' : acc.contains (key r) = false := by
              cases h : acc.contains (key r)
              · rfl
              · exact absurd h hin
            simp only [hc, hin', Bool.not_false, Bool.and_true, if_true]
            rw [← hk]; exact List.mem_append_right _ (List.mem_singleton.mpr rfl)
        · exact Or.inr ⟨r, hr, hc, hk⟩

theorem lookKeys_mem (P : TProg) (root : Root) (n : Nat) :
    (root, n) ∈ lookKeys P ↔ ∃ r ∈ P, 0 < lookahead r ∧ (rootOf r.part, lookahead r) = (root, n) := by
  unfold lookKeys
  have := dedupFold_mem (fun r : TRule => decide (lookahead r > 0)) (fun r => (rootOf r.part, lookahead r)) (root, n) P []
  simp only [List.not_mem_nil, false_or, decide_eq_true_eq] at this
  exact this

theorem futureHeads_mem_iff (P : TProg) (a : String) (n : Nat) :
    (a, n) ∈ futureHeads P ↔ ∃ r ∈ P, r.head = .atom a n ∧ 0 < n := by
  constructor
  · intro h
    unfold futureHeads at h
    -- generalise the accumulator
    suffices hg : ∀ (Q : TProg) (acc : List (String × Nat)),
        (a, n) ∈ Q.foldl (fun acc r => match r.head with
          | .atom a n => if n > 0 && !(acc.contains (a, n)) then acc ++ [(a, n)] else acc
          | _ => acc) acc → (a, n) ∈ acc ∨ ∃ r ∈ Q, r.head = .atom a n ∧ 0 < n by
      rcases hg P [] h with h | h
      · cases h
      · exact h
    intro Q
    induction Q with
    | nil => intro acc h; exact Or.inl h
    | cons q Q ih =>
      intro acc h
      simp only [List.foldl_cons] at h
      rcases ih _ h with h | ⟨r, hr, hh⟩
      · cases hq : q.head with
        | atom b m =>
          rw [hq] at h
          simp only at h
          split at h
          · rename_i hcond
            simp only [Bool.and_eq_true, decide_eq_true_eq] at hcond
            rcases List.mem_append.mp h with h | h
            · exact Or.inl h
            · simp at h; obtain ⟨rfl, rfl⟩ := h
              exact Or.inr ⟨q, List.mem_cons_self, hq, hcond.1⟩
          · exact Or.inl h
        | _ => rw [hq] at h; exact Or.inl h
      · exact Or.inr ⟨r, List.mem_cons_of_mem _ hr, hh⟩
  · rintro ⟨r, hr, hh, hn⟩
    exact futureHeads_mem P r hr a n hh hn

theorem spartsOf_congr {P Q : TProg} (hm : SameRules P Q) : SameRules (spartsOf P) (spartsOf Q) := by
  intro p
  simp only [spartsOf, List.mem_append, List.mem_flatMap]
  constructor
  · rintro (⟨⟨root, n⟩, hk, hp⟩ | hp)
    · left
      obtain ⟨r, hr, h0, he⟩ := (lookKeys_mem P root n).mp hk
      exact ⟨(root, n), (lookKeys_mem Q root n).mpr ⟨r, (hm r).mp hr, h0, he⟩, hp⟩
    · exact Or.inr hp
  · rintro (⟨⟨root, n⟩, hk, hp⟩ | hp)
    · left
      obtain ⟨r, hr, h0, he⟩ := (lookKeys_mem Q root n).mp hk
      exact ⟨(root, n), (lookKeys_mem P root n).mpr ⟨r, (hm r).mpr hr, h0, he⟩, hp⟩
    · exact Or.inr hp

theorem selected_congr {P Q : TProg} (hm : SameRules P Q) (s : Nat) : SameRules (selected P s) (selected Q s) := by
  intro pt
  simp only [selected, List.mem_flatMap]
  constructor
  · rintro ⟨p, hp, h⟩; exact ⟨p, (spartsOf_congr hm p).mp hp, h⟩
  · rintro ⟨p, hp, h⟩; exact ⟨p, (spartsOf_congr hm p).mpr hp, h⟩

theorem rulesOfPart_congr {P Q : TProg} (hm : SameRules P Q) (p : SPart) : SameRules (rulesOfPart P p) (rulesOfPart Q p) := by
  intro x
  simp only [rulesOfPart, List.mem_filterMap]
  constructor
  · rintro ⟨r, hr, h⟩; exact ⟨r, (hm r).mp hr, h⟩
  · rintro ⟨r, hr, h⟩; exact ⟨r, (hm r).mpr hr, h⟩

theorem futureHeads_congr {P Q : TProg} (hm : SameRules P Q) : SameRules (futureHeads P) (futureHeads Q) := by
  rintro ⟨a, n⟩
  rw [futureHeads_mem_iff, futureHeads_mem_iff]
  constructor
  · rintro ⟨r, hr, h⟩; exact ⟨r, (hm r).mp hr, h⟩
  · rintro ⟨r, hr, h⟩; exact ⟨r, (hm r).mpr hr, h⟩

theorem groundAt_congr {P Q : TProg} (hm : SameRules P Q) (s : Nat) : SameRules (groundAt P s) (groundAt Q s) := by
  intro r'
  simp only [groundAt, List.mem_flatMap, List.mem_append, List.mem_filterMap, List.mem_map]
  constructor
  · rintro ⟨pt, hpt, h⟩
    refine ⟨pt, (selected_congr hm s pt).mp hpt, ?_⟩
    rcases h with (⟨x, hx, hi⟩ | h) | h
    · exact Or.inl (Or.inl ⟨x, (rulesOfPart_congr hm pt.1 x).mp hx, hi⟩)
    · left; right
      split at h
      · rename_i hp; simp only [hp, if_true]
        simp only [List.mem_map] at h ⊢
        obtain ⟨y, hy, he⟩ := h
        exact ⟨y, (futureHeads_congr hm y).mp hy, he⟩
      · cases h
    · exact Or.inr h
  · rintro ⟨pt, hpt, h⟩
    refine ⟨pt, (selected_congr hm s pt).mpr hpt, ?_⟩
    rcases h with (⟨x, hx, hi⟩ | h) | h
    · exact Or.inl (Or.inl ⟨x, (rulesOfPart_congr hm pt.1 x).mpr hx, hi⟩)
    · left; right
      split at h
      · rename_i hp; simp only [hp, if_true]
        simp only [List.mem_map] at h ⊢
        obtain ⟨y, hy, he⟩ := h
        exact ⟨y, (futureHeads_congr hm y).mpr hy, he⟩
      · cases h
    · exact Or.inr h

theorem accRules_congr {P Q : TProg} (hm : SameRules P Q) (h : Nat) : SameRules (accRules P h) (accRules Q h) := by
  intro r'
  rw [mem_accRules, mem_accRules]
  constructor
  · rintro ⟨s, hs, hr⟩; exact ⟨s, hs, (groundAt_congr hm s r').mp hr⟩
  · rintro ⟨s, hs, hr⟩; exact ⟨s, hs, (groundAt_congr hm s r').mpr hr⟩

theorem futureAtoms_congr {rs rs' : List GRule} (hm : SameRules rs rs') : SameRules (futureAtoms rs) (futureAtoms rs') := by
  intro a
  simp only [futureAtoms, List.mem_eraseDups, List.mem_flatMap]
  constructor
  · rintro ⟨r, hr, h⟩; exact ⟨r, (hm r).mp hr, h⟩
  · rintro ⟨r, hr, h⟩; exact ⟨r, (hm r).mpr hr, h⟩

/-- the program clingo solves at horizon `h` depends on the temporal program only as a set of rules -/
theorem G_congr {P Q : TProg} (hm : SameRules P Q) (h : Nat) : SameRules (G P h) (G Q h) := by
  intro r'
  simp only [G, List.mem_append, List.mem_singleton, List.mem_filterMap]
  have ha := accRules_congr hm h
  have hf := futureAtoms_congr ha
  constructor
  · rintro ((hr | hr) | ⟨x, hx, he⟩)
    · exact Or.inl (Or.inl ((ha r').mp hr))
    · exact Or.inl (Or.inr hr)
    · exact Or.inr ⟨x, (hf x).mp hx, he⟩
  · rintro ((hr | hr) | ⟨x, hx, he⟩)
    · exact Or.inl (Or.inl ((ha r').mpr hr))
    · exact Or.inl (Or.inr hr)
    · exact Or.inr ⟨x, (hf x).mpr hx, he⟩

end TelProofs
