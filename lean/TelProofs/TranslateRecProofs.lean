/-
The recursion of `BodyFormula.translate` (model TelModel/TranslateRec.lean): it ends for every graph of (formula, step) pairs in
which the pairs that wait for their operands point to pairs of smaller rank — also when the unfolding of a box / diamond formula
leads back to a pair that is being translated (iteration over a path that consumes no state) —, the translated pair has a
literal afterwards, literals are never lost, and with the second look of the Boolean connectives (the repair of D17) the
assertion of `StepData.add_literal` never fails; without it, it fails on the smallest such cycle.
-/
import TelModel.TranslateRec

namespace TelProofs.TRP
open TelModel.TR

/-- every call of `translate` returns (the definition is by well-founded recursion), the pair has a literal, no literal is lost -/
theorem translate_returns {n : Nat} (G : Graph n) (hG : G.ok) (fixed : Bool) (k : Fin n) (s : St n) :
    (tr G hG fixed k s).1.set k = true ∧ s.le (tr G hG fixed k s).1 :=
  ⟨(tr G hG fixed k s).2.2.1, (tr G hG fixed k s).2.1⟩

/-- with the second look, the assertion of `add_literal` never fails — cycles through box / diamond pairs included -/
theorem fixed_never_asserts {n : Nat} (G : Graph n) (hG : G.ok) (hr : G.wok) (k : Fin n) (s : St n) (h : s.err = false) :
    (tr G hG true k s).1.err = false :=
  (tr G hG true k s).2.2.2.2 hr rfl h

/-- translating a pair gives literals only to pairs at or below it -/
theorem literals_stay_below {n : Nat} (G : Graph n) (hG : G.ok) (hr : G.wok) (fixed : Bool) (k : Fin n) (s : St n) (i : Fin n)
    (h : (tr G hG fixed k s).1.set i = true) : s.set i = true ∨ G.wrank i ≤ G.wrank k :=
  (tr G hG fixed k s).2.2.2.1 hr i h

/-- the smallest cycle: a Boolean pair (0) whose first operand is a box / diamond pair (1) that unfolds to the Boolean pair
    again; pair 2 is an atom.  (`<(a?)*> …`-like unfoldings outside the normal form have this shape.) -/
def cyc : Graph 3 where
  kind := fun k => if k.val = 0 then .op true ⟨1, by omega⟩ ⟨2, by omega⟩ else if k.val = 1 then .early ⟨0, by omega⟩ else .leaf
  rank := fun k => if k.val = 0 then 1 else 0

theorem cyc_ok : cyc.ok := by
  intro k
  match k with
  | ⟨0, _⟩ => simp [cyc]
  | ⟨1, _⟩ => simp [cyc]
  | ⟨2, _⟩ => simp [cyc]

theorem cyc_wok : cyc.wok := by
  intro k
  match k with
  | ⟨0, _⟩ => simp [cyc]
  | ⟨1, _⟩ => simp [cyc]
  | ⟨2, _⟩ => simp [cyc]

def init3 : St 3 := { set := fun _ => false }


theorem tr_early {n : Nat} (G : Graph n) (hG : G.ok) (fixed : Bool) (k c : Fin n) (s : St n)
    (hs : s.set k = false) (hk : G.kind k = .early c) :
    (tr G hG fixed k s).1 = (tr G hG fixed c (s.put k)).1 := by
  rw [tr]
  simp only [hs, Bool.false_eq_true, dite_false]
  split
  all_goals (rename_i h; rw [hk] at h; first | cases h | skip)
  generalize tr G hG fixed c (s.put k) = x
  obtain ⟨s1, h1, h1', h1'', h1'''⟩ := x
  rfl

theorem tr_op_unfixed {n : Nat} (G : Graph n) (hG : G.ok) (k a b : Fin n) (r : Bool) (s : St n)
    (hs : s.set k = false) (hk : G.kind k = .op r a b) :
    (tr G hG false k s).1 = ((tr G hG false b (tr G hG false a s).1).1).addLiteral k := by
  rw [tr]
  simp only [hs, Bool.false_eq_true, dite_false]
  split
  all_goals (rename_i h; rw [hk] at h; first | cases h | skip)
  generalize tr G hG false a s = x
  obtain ⟨s1, h1, h1', h1'', h1'''⟩ := x
  simp only
  generalize tr G hG false b s1 = y
  obtain ⟨s2, h2, h2', h2'', h2'''⟩ := y
  simp

/-- Without the second look the assertion fails on every cycle of this shape: a Boolean pair whose first operand is a box /
    diamond pair that unfolds to the Boolean pair again (the situation of D17). -/
theorem unfixed_asserts {n : Nat} (G : Graph n) (hG : G.ok) (k a b : Fin n) (r : Bool) (s : St n)
    (hk : G.kind k = .op r a b) (ha : G.kind a = .early k) (hsk : s.set k = false) (hsa : s.set a = false) :
    (tr G hG false k s).1.err = true := by
  rw [tr_op_unfixed G hG k a b r s hsk hk, tr_early G hG false a k s hsa ha]
  have h1 : (tr G hG false k (s.put a)).1.set k = true := (tr G hG false k (s.put a)).2.2.1
  have h2 := (tr G hG false b (tr G hG false k (s.put a)).1).2.1 k h1
  simp [St.addLiteral, h2]

/-- memoisation: a pair that has its literal is not translated again (nothing is written, the state is unchanged) -/
theorem translate_memo {n : Nat} (G : Graph n) (hG : G.ok) (fixed : Bool) (k : Fin n) (s : St n) (h : s.set k = true) :
    (tr G hG fixed k s).1 = s := by
  rw [tr]; simp [h]

/-- … in particular translating a pair twice is translating it once -/
theorem translate_idempotent {n : Nat} (G : Graph n) (hG : G.ok) (fixed : Bool) (k : Fin n) (s : St n) :
    (tr G hG fixed k (tr G hG fixed k s).1).1 = (tr G hG fixed k s).1 :=
  translate_memo G hG fixed k _ (tr G hG fixed k s).2.2.1

/-- the smallest cycle meets the hypotheses of both theorems -/
example : cyc.ok ∧ cyc.wok ∧ cyc.kind ⟨0, by omega⟩ = .op true ⟨1, by omega⟩ ⟨2, by omega⟩ ∧
    cyc.kind ⟨1, by omega⟩ = .early ⟨0, by omega⟩ :=
  ⟨cyc_ok, cyc_wok, by simp [cyc], by simp [cyc]⟩

/-- a cycle with an until pair hanging off it (`<(a?)*> (b >? c)`-like): Boolean pair 0 with operands 1 (box / diamond pair that
    unfolds to 0) and 2 (an until pair over the atom 3); the hypotheses of `fixed_never_asserts` hold -/
def cycT : Graph 4 where
  kind := fun k => if k.val = 0 then .op true ⟨1, by omega⟩ ⟨2, by omega⟩ else if k.val = 1 then .early ⟨0, by omega⟩
                   else if k.val = 2 then .op false ⟨3, by omega⟩ ⟨3, by omega⟩ else .leaf
  rank := fun k => if k.val = 0 then 2 else if k.val = 2 then 1 else 0
  wrank := fun k => if k.val = 3 then 0 else 1

example : cycT.ok ∧ cycT.wok := by
  constructor
  · intro k
    match k with
    | ⟨0, _⟩ => simp +decide [cycT]
    | ⟨1, _⟩ => simp +decide [cycT]
    | ⟨2, _⟩ => simp +decide [cycT]
    | ⟨3, _⟩ => simp +decide [cycT]
  · intro k
    match k with
    | ⟨0, _⟩ => simp +decide [cycT]
    | ⟨1, _⟩ => simp +decide [cycT]
    | ⟨2, _⟩ => simp +decide [cycT]
    | ⟨3, _⟩ => simp +decide [cycT]

end TelProofs.TRP
