/-
C16: the documented abbreviations and dualities, as equivalences of the specification semantics
(`tht` in every world for the head-admissible ones, `docSem` for the classical dualities), and the
substitution theorem that lifts an equivalence to every sub-formula position of every context.
-/
import TelProofs.DocEq

set_option linter.unusedSimpArgs false

namespace TelProofs
open TelSpec

/-- equivalent in every world of every THT interpretation, at every state of the trace -/
def Eqv (h : Nat) (f g : SForm) : Prop := ∀ (W T : Trace) (k : Nat), k ≤ h → tht h W T f k = tht h W T g k
/-- equivalent on total traces (LTL_f) -/
def EqvT (h : Nat) (f g : SForm) : Prop := ∀ (T : Trace) (k : Nat), k ≤ h → docSem h T f k = docSem h T g k

theorem Eqv.toT {h f g} (e : Eqv h f g) : EqvT h f g := fun T k hk => e T T k hk

/-! ### abbreviations -/

theorem false_eq (h : Nat) : Eqv h (.kw .kfalse) (.neg (.kw .ktrue)) := by
  intro W T k _; simp [tht]

theorem initial_eq (h : Nat) : Eqv h (.kw .kinitial) (.neg (.prev 1 false (.kw .ktrue))) := by
  intro W T k _
  simp only [tht]
  by_cases hk : 1 ≤ k
  · have : k ≠ 0 := by omega
    simp [hk, this]
  · have : k = 0 := by omega
    simp [this]

theorem final_eq (h : Nat) : Eqv h (.kw .kfinal) (.neg (.next 1 false (.kw .ktrue))) := by
  intro W T k hk
  simp only [tht]
  by_cases hkh : k + 1 ≤ h
  · have : k ≠ h := by omega
    simp [hkh, this]
  · have : k = h := by omega
    simp [this]

theorem alPB_initial (p : Nat → Bool) (k : Nat) : alPB (fun j => !(j == 0) || p j) k = p 0 := by
  apply bool_eq_of_iff
  simp only [alPB, allUpTo_iff, Bool.or_eq_true, Bool.not_eq_true', beq_eq_false_iff_ne]
  constructor
  · intro hh
    rcases hh 0 (Nat.zero_le _) with h1 | h1
    · exact absurd rfl h1
    · exact h1
  · intro hp j _
    by_cases hj : j = 0
    · subst hj; exact Or.inr hp
    · exact Or.inl hj

theorem initially_eq (h : Nat) (p : SForm) : Eqv h (.initially p) (.alP (.bin .or (.neg (.kw .kinitial)) p)) := by
  intro W T k _
  rw [tht_alP]
  have : (tht h W T (.bin .or (.neg (.kw .kinitial)) p)) = fun j => !(j == 0) || tht h W T p j := by
    funext j; simp [tht]
  rw [this, alPB_initial]
  simp [tht]

theorem finally_eq (h : Nat) (p : SForm) : Eqv h (.finally_ p) (.alF (.bin .or (.neg (.kw .kfinal)) p)) := by
  intro W T k hk
  rw [tht_alF]
  have : (tht h W T (.bin .or (.neg (.kw .kfinal)) p)) = fun j => !(j == h) || tht h W T p j := by
    funext j; simp [tht]
  rw [this, alFB_final h _ k hk]
  simp [tht]

theorem seqNext_eq (h : Nat) (w : Bool) (a b : SForm) : Eqv h (.seqNext w a b) (.bin .and a (.next 1 w b)) := by
  intro W T k _; simp [tht]

theorem seqPrev_eq (h : Nat) (w : Bool) (a b : SForm) : Eqv h (.seqPrev w a b) (.bin .and (.prev 1 w a) b) := by
  intro W T k _; simp [tht]

theorem next_zero (h : Nat) (w : Bool) (p : SForm) : Eqv h (.next 0 w p) p := by
  intro W T k hk; simp [tht, hk]

theorem prev_zero (h : Nat) (w : Bool) (p : SForm) : Eqv h (.prev 0 w p) p := by
  intro W T k _; simp [tht]

/-- `n+1 > p` is `> (n > p)`: an n-fold next is n nested nexts -/
theorem next_succ (h : Nat) (n : Nat) (w : Bool) (p : SForm) : Eqv h (.next (n+1) w p) (.next 1 w (.next n w p)) := by
  intro W T k _
  simp only [tht]
  by_cases h1 : k + 1 ≤ h
  · by_cases h2 : k + (n + 1) ≤ h
    · have : k + 1 + n ≤ h := by omega
      simp [h1, h2, this, Nat.add_assoc, Nat.add_comm 1 n]
    · have : ¬ (k + 1 + n ≤ h) := by omega
      simp [h1, h2, this]
  · have : ¬ (k + (n + 1) ≤ h) := by omega
    simp [h1, this]

theorem prev_succ (h : Nat) (n : Nat) (w : Bool) (p : SForm) : Eqv h (.prev (n+1) w p) (.prev 1 w (.prev n w p)) := by
  intro W T k _
  simp only [tht]
  by_cases h1 : 1 ≤ k
  · by_cases h2 : n + 1 ≤ k
    · have : n ≤ k - 1 := by omega
      have e : k - (n + 1) = k - 1 - n := by omega
      simp [h1, h2, this, e]
    · have : ¬ (n ≤ k - 1) := by omega
      simp [h1, h2, this]
  · have : ¬ (n + 1 ≤ k) := by omega
    simp [h1, this]

/-- nested nexts of the same strength add up: `m > (n > p)` is `(m+n) > p` -/
theorem next_add (h : Nat) (m n : Nat) (w : Bool) (p : SForm) : Eqv h (.next m w (.next n w p)) (.next (m + n) w p) := by
  intro W T k _
  simp only [tht]
  by_cases h1 : k + m ≤ h
  · by_cases h2 : k + (m + n) ≤ h
    · have : k + m + n ≤ h := by omega
      simp [h1, h2, this, Nat.add_assoc]
    · have : ¬ (k + m + n ≤ h) := by omega
      simp [h1, h2, this]
  · have : ¬ (k + (m + n) ≤ h) := by omega
    simp [h1, this]

/-- … and so do nested previous operators of the same strength -/
theorem prev_add (h : Nat) (m n : Nat) (w : Bool) (p : SForm) : Eqv h (.prev m w (.prev n w p)) (.prev (m + n) w p) := by
  intro W T k _
  simp only [tht]
  by_cases h1 : m ≤ k
  · by_cases h2 : m + n ≤ k
    · have : n ≤ k - m := by omega
      have e : k - (m + n) = k - m - n := by omega
      simp [h1, h2, this, e]
    · have : ¬ (n ≤ k - m) := by omega
      simp [h1, h2, this]
  · have : ¬ (m + n ≤ k) := by omega
    simp [h1, this]

/-- nexts of different strength do not add up: a strong next of a weak next is true one state before the end of the trace,
    whatever the operand (`> >: p` is not `2 > p`) -/
theorem next_mixed_not_add : ¬ EqvT 1 (.next 1 false (.next 1 true (.atom "p"))) (.next 2 false (.atom "p")) := by
  intro e
  have := e (fun _ _ => false) 0 (by omega)
  simp [docSem, tht] at this

/-- … nor do previous operators of different strength (`< <: p` is not `2 < p`) -/
theorem prev_mixed_not_add : ¬ EqvT 1 (.prev 1 false (.prev 1 true (.atom "p"))) (.prev 2 false (.atom "p")) := by
  intro e
  have := e (fun _ _ => false) 1 (by omega)
  simp [docSem, tht] at this

theorem evF_eq (h : Nat) (p : SForm) : Eqv h (.evF p) (.unt (.kw .ktrue) p) := by
  intro W T k _
  rw [tht_evF, tht_unt]
  apply bool_eq_of_iff
  simp only [evFB, anyBetween_iff, untilB_iff]
  constructor
  · rintro ⟨j, h1, h2, h3⟩; exact ⟨j, h1, h2, h3, fun i _ _ => by simp [tht]⟩
  · rintro ⟨j, h1, h2, h3, _⟩; exact ⟨j, h1, h2, h3⟩

theorem alF_eq (h : Nat) (p : SForm) : Eqv h (.alF p) (.rel (.kw .kfalse) p) := by
  intro W T k _
  rw [tht_alF, tht_rel]
  apply bool_eq_of_iff
  simp only [alFB, allBetween_iff, releaseB_iff]
  constructor
  · intro hh j h1 h2; exact Or.inl (hh j h1 h2)
  · intro hh j h1 h2
    rcases hh j h1 h2 with h3 | ⟨i, _, _, h4⟩
    · exact h3
    · simp [tht] at h4

theorem evP_eq (h : Nat) (p : SForm) : Eqv h (.evP p) (.since (.kw .ktrue) p) := by
  intro W T k _
  rw [tht_evP, tht_since]
  apply bool_eq_of_iff
  simp only [evPB, anyUpTo_iff, sinceB_iff]
  constructor
  · rintro ⟨j, h1, h2⟩; exact ⟨j, h1, h2, fun i _ _ => by simp [tht]⟩
  · rintro ⟨j, h1, h2, _⟩; exact ⟨j, h1, h2⟩

theorem alP_eq (h : Nat) (p : SForm) : Eqv h (.alP p) (.trigger (.kw .kfalse) p) := by
  intro W T k _
  rw [tht_alP, tht_trigger]
  apply bool_eq_of_iff
  simp only [alPB, allUpTo_iff, triggerB_iff]
  constructor
  · intro hh j h1; exact Or.inl (hh j h1)
  · intro hh j h1
    rcases hh j h1 with h3 | ⟨i, _, _, h4⟩
    · exact h3
    · simp [tht] at h4

/-! ### classical dualities (total traces) -/

theorem weak_next_dual (h : Nat) (p : SForm) : EqvT h (.next 1 true p) (.neg (.next 1 false (.neg p))) := by
  intro T k _
  simp only [docSem, tht]
  by_cases h1 : k + 1 ≤ h <;> simp [h1]

theorem release_dual (h : Nat) (a b : SForm) : EqvT h (.rel a b) (.neg (.unt (.neg a) (.neg b))) := by
  intro T k _
  simp only [docSem]
  rw [tht_rel]
  simp only [tht]
  apply bool_eq_of_iff
  simp only [releaseB_iff, Bool.not_eq_true']
  have hu : (anyBetween k h fun j => !(tht h T T b j) && allBetween k (j - 1) fun i => decide (i ≥ j) || !(tht h T T a i))
      = untilB h (fun i => !(tht h T T a i)) (fun j => !(tht h T T b j)) k := rfl
  rw [hu]
  constructor
  · intro hh
    cases hd : untilB h (fun i => !(tht h T T a i)) (fun j => !(tht h T T b j)) k
    · rfl
    · obtain ⟨j, h1, h2, h3, h4⟩ := (untilB_iff _ _ _ _).mp hd
      rcases hh j h1 h2 with h5 | ⟨i, h6, h7, h8⟩
      · simp [h5] at h3
      · have := h4 i h6 h7; simp [h8] at this
  · intro hn j h1 h2
    apply Classical.byContradiction
    intro hcon
    have hb : tht h T T b j = false := by
      cases hh : tht h T T b j
      · rfl
      · exact absurd (Or.inl hh) hcon
    have ha : ∀ i, k ≤ i → i < j → tht h T T a i = false := by
      intro i h3 h4
      cases hh : tht h T T a i
      · rfl
      · exact absurd (Or.inr ⟨i, h3, h4, hh⟩) hcon
    have : untilB h (fun i => !(tht h T T a i)) (fun j => !(tht h T T b j)) k = true :=
      (untilB_iff _ _ _ _).mpr ⟨j, h1, h2, by simp [hb], fun i h3 h4 => by simp [ha i h3 h4]⟩
    rw [this] at hn; cases hn

theorem trigger_dual (h : Nat) (a b : SForm) : EqvT h (.trigger a b) (.neg (.since (.neg a) (.neg b))) := by
  intro T k _
  simp only [docSem]
  rw [tht_trigger]
  simp only [tht]
  apply bool_eq_of_iff
  simp only [triggerB_iff, Bool.not_eq_true']
  have hu : (anyUpTo k fun j => !(tht h T T b j) && allBetween (j + 1) k fun i => !(tht h T T a i))
      = sinceB (fun i => !(tht h T T a i)) (fun j => !(tht h T T b j)) k := rfl
  rw [hu]
  constructor
  · intro hh
    cases hd : sinceB (fun i => !(tht h T T a i)) (fun j => !(tht h T T b j)) k
    · rfl
    · obtain ⟨j, h1, h3, h4⟩ := (sinceB_iff _ _ _).mp hd
      rcases hh j h1 with h5 | ⟨i, h6, h7, h8⟩
      · simp [h5] at h3
      · have := h4 i h6 h7; simp [h8] at this
  · intro hn j h1
    apply Classical.byContradiction
    intro hcon
    have hb : tht h T T b j = false := by
      cases hh : tht h T T b j
      · rfl
      · exact absurd (Or.inl hh) hcon
    have ha : ∀ i, j < i → i ≤ k → tht h T T a i = false := by
      intro i h3 h4
      cases hh : tht h T T a i
      · rfl
      · exact absurd (Or.inr ⟨i, h3, h4, hh⟩) hcon
    have : sinceB (fun i => !(tht h T T a i)) (fun j => !(tht h T T b j)) k = true :=
      (sinceB_iff _ _ _).mpr ⟨j, h1, by simp [hb], fun i h3 h4 => by simp [ha i h3 h4]⟩
    rw [this] at hn; cases hn

end TelProofs

namespace TelProofs
open TelSpec

/-! ### every context: substitution of equivalent formulas -/

/-- replace every occurrence of the atom `x` in `C` by `f` -/
def substA (x : String) (f : SForm) : SForm → SForm
  | .atom a => if a = x then f else .atom a
  | .kw k => .kw k
  | .neg g => .neg (substA x f g)
  | .bin op l r => .bin op (substA x f l) (substA x f r)
  | .prev n w g => .prev n w (substA x f g)
  | .next n w g => .next n w (substA x f g)
  | .since l r => .since (substA x f l) (substA x f r)
  | .trigger l r => .trigger (substA x f l) (substA x f r)
  | .evP r => .evP (substA x f r)
  | .alP r => .alP (substA x f r)
  | .unt l r => .unt (substA x f l) (substA x f r)
  | .rel l r => .rel (substA x f l) (substA x f r)
  | .evF r => .evF (substA x f r)
  | .alF r => .alF (substA x f r)
  | .initially g => .initially (substA x f g)
  | .finally_ g => .finally_ (substA x f g)
  | .seqPrev w l r => .seqPrev w (substA x f l) (substA x f r)
  | .seqNext w l r => .seqNext w (substA x f l) (substA x f r)

/-- equivalence up to a set of worlds closed under `W ↦ T` -/
theorem subst_congr_gen (h : Nat) (x : String) (f g : SForm) (Ws : Trace → Trace → Prop)
    (hcl : ∀ W T, Ws W T → Ws T T)
    (e : ∀ W T, Ws W T → ∀ k, k ≤ h → tht h W T f k = tht h W T g k) :
    ∀ C W T, Ws W T → ∀ k, k ≤ h → tht h W T (substA x f C) k = tht h W T (substA x g C) k := by
  intro C
  induction C with
  | atom a =>
    intro W T hw k hk
    simp only [substA]
    split
    · exact e W T hw k hk
    · rfl
  | kw k => intro W T _ k _; rfl
  | neg c ih =>
    intro W T hw k hk
    simp only [substA, tht, ih T T (hcl W T hw) k hk]
  | bin op l r ihl ihr =>
    intro W T hw k hk
    have h1 := ihl W T hw k hk
    have h2 := ihr W T hw k hk
    have h3 := ihl T T (hcl W T hw) k hk
    have h4 := ihr T T (hcl W T hw) k hk
    cases op <;> simp only [substA, tht, h1, h2, h3, h4]
  | prev n w c ih =>
    intro W T hw k hk
    simp only [substA, tht]
    split
    · exact ih W T hw _ (by omega)
    · rfl
  | next n w c ih =>
    intro W T hw k hk
    simp only [substA, tht]
    split
    · rename_i hkn; exact ih W T hw _ hkn
    · rfl
  | since l r ihl ihr =>
    intro W T hw k hk
    simp only [substA]; rw [tht_since, tht_since]
    exact sinceB_congr (fun j hj => ihl W T hw j (by omega)) (fun j hj => ihr W T hw j (by omega))
  | trigger l r ihl ihr =>
    intro W T hw k hk
    simp only [substA]; rw [tht_trigger, tht_trigger]
    exact triggerB_congr (fun j hj => ihl W T hw j (by omega)) (fun j hj => ihr W T hw j (by omega))
  | evP r ihr =>
    intro W T hw k hk
    simp only [substA]; rw [tht_evP, tht_evP]
    exact evPB_congr (fun j hj => ihr W T hw j (by omega))
  | alP r ihr =>
    intro W T hw k hk
    simp only [substA]; rw [tht_alP, tht_alP]
    exact alPB_congr (fun j hj => ihr W T hw j (by omega))
  | unt l r ihl ihr =>
    intro W T hw k hk
    simp only [substA]; rw [tht_unt, tht_unt]
    exact untilB_congr (fun j hj => ihl W T hw j hj) (fun j hj => ihr W T hw j hj)
  | rel l r ihl ihr =>
    intro W T hw k hk
    simp only [substA]; rw [tht_rel, tht_rel]
    exact releaseB_congr (fun j hj => ihl W T hw j hj) (fun j hj => ihr W T hw j hj)
  | evF r ihr =>
    intro W T hw k hk
    simp only [substA]; rw [tht_evF, tht_evF]
    exact evFB_congr (fun j hj => ihr W T hw j hj)
  | alF r ihr =>
    intro W T hw k hk
    simp only [substA]; rw [tht_alF, tht_alF]
    exact alFB_congr (fun j hj => ihr W T hw j hj)
  | initially c ih =>
    intro W T hw k hk
    simp only [substA, tht]; exact ih W T hw 0 (Nat.zero_le _)
  | finally_ c ih =>
    intro W T hw k hk
    simp only [substA, tht]; exact ih W T hw h (Nat.le_refl _)
  | seqPrev w l r ihl ihr =>
    intro W T hw k hk
    simp only [substA, tht, ihr W T hw k hk]
    split
    · rw [ihl W T hw _ (by omega)]
    · rfl
  | seqNext w l r ihl ihr =>
    intro W T hw k hk
    simp only [substA, tht, ihl W T hw k hk]
    split
    · rename_i hkn; rw [ihr W T hw _ hkn]
    · rfl

/-- an equivalence holds at every sub-formula position of every context (all worlds: heads and bodies) -/
theorem subst_congr (h : Nat) (x : String) (f g : SForm) (e : Eqv h f g) (C : SForm) :
    Eqv h (substA x f C) (substA x g C) :=
  fun W T k hk => subst_congr_gen h x f g (fun _ _ => True) (fun _ _ _ => trivial) (fun W T _ k hk => e W T k hk) C W T trivial k hk

/-- … and a classical (total-trace) equivalence at every position of every body context -/
theorem subst_congrT (h : Nat) (x : String) (f g : SForm) (e : EqvT h f g) (C : SForm) :
    EqvT h (substA x f C) (substA x g C) :=
  fun T k hk => subst_congr_gen h x f g (fun W T => W = T) (fun _ _ _ => rfl)
    (fun W T hw k hk => by subst hw; exact e W k hk) C T T rfl k hk

end TelProofs

namespace TelProofs
open TelSpec

/-! ### past/future mirror symmetry on reversed traces -/

def revTrace (h : Nat) (tr : Trace) : Trace := fun j a => tr (h - j) a

def mirror : SForm → SForm
  | .atom a => .atom a
  | .kw .kinitial => .kw .kfinal
  | .kw .kfinal => .kw .kinitial
  | .kw k => .kw k
  | .neg f => .neg (mirror f)
  | .bin op l r => .bin op (mirror l) (mirror r)
  | .prev n w f => .next n w (mirror f)
  | .next n w f => .prev n w (mirror f)
  | .since l r => .unt (mirror l) (mirror r)
  | .trigger l r => .rel (mirror l) (mirror r)
  | .evP r => .evF (mirror r)
  | .alP r => .alF (mirror r)
  | .unt l r => .since (mirror l) (mirror r)
  | .rel l r => .trigger (mirror l) (mirror r)
  | .evF r => .evP (mirror r)
  | .alF r => .alP (mirror r)
  | .initially f => .finally_ (mirror f)
  | .finally_ f => .initially (mirror f)
  | .seqPrev w l r => .bin .and (.next 1 w (mirror l)) (mirror r)
  | .seqNext w l r => .bin .and (mirror l) (.prev 1 w (mirror r))

theorem since_mirror (h : Nat) (L R : Nat → Bool) (k : Nat) (hk : k ≤ h) :
    sinceB L R k = untilB h (fun j => L (h - j)) (fun j => R (h - j)) (h - k) := by
  apply bool_eq_of_iff
  rw [sinceB_iff, untilB_iff]
  constructor
  · rintro ⟨j, h1, h2, h3⟩
    refine ⟨h - j, by omega, by omega, ?_, ?_⟩
    · have : h - (h - j) = j := by omega
      rw [this]; exact h2
    · intro i hi1 hi2
      exact h3 (h - i) (by omega) (by omega)
  · rintro ⟨j, h1, h2, h3, h4⟩
    refine ⟨h - j, by omega, h3, ?_⟩
    intro i hi1 hi2
    have := h4 (h - i) (by omega) (by omega)
    have e : h - (h - i) = i := by omega
    rw [e] at this; exact this

theorem trigger_mirror (h : Nat) (L R : Nat → Bool) (k : Nat) (hk : k ≤ h) :
    triggerB L R k = releaseB h (fun j => L (h - j)) (fun j => R (h - j)) (h - k) := by
  apply bool_eq_of_iff
  rw [triggerB_iff, releaseB_iff]
  constructor
  · intro hh j h1 h2
    rcases hh (h - j) (by omega) with h3 | ⟨i, h4, h5, h6⟩
    · exact Or.inl h3
    · refine Or.inr ⟨h - i, by omega, by omega, ?_⟩
      have e : h - (h - i) = i := by omega
      rw [e]; exact h6
  · intro hh j h1
    rcases hh (h - j) (by omega) (by omega) with h3 | ⟨i, h4, h5, h6⟩
    · have e : h - (h - j) = j := by omega
      rw [e] at h3; exact Or.inl h3
    · exact Or.inr ⟨h - i, by omega, by omega, h6⟩

theorem until_mirror (h : Nat) (L R : Nat → Bool) (k : Nat) (hk : k ≤ h) :
    untilB h L R k = sinceB (fun j => L (h - j)) (fun j => R (h - j)) (h - k) := by
  rw [since_mirror h _ _ (h - k) (by omega)]
  have e : h - (h - k) = k := by omega
  rw [e]
  apply untilB_congr
  · intro j hj; have : h - (h - j) = j := by omega
    simp [this]
  · intro j hj; have : h - (h - j) = j := by omega
    simp [this]

theorem release_mirror (h : Nat) (L R : Nat → Bool) (k : Nat) (hk : k ≤ h) :
    releaseB h L R k = triggerB (fun j => L (h - j)) (fun j => R (h - j)) (h - k) := by
  rw [trigger_mirror h _ _ (h - k) (by omega)]
  have e : h - (h - k) = k := by omega
  rw [e]
  apply releaseB_congr
  · intro j hj; have : h - (h - j) = j := by omega
    simp [this]
  · intro j hj; have : h - (h - j) = j := by omega
    simp [this]

theorem evP_mirror (h : Nat) (R : Nat → Bool) (k : Nat) (hk : k ≤ h) :
    evPB R k = evFB h (fun j => R (h - j)) (h - k) := by
  apply bool_eq_of_iff
  simp only [evPB, evFB, anyUpTo_iff, anyBetween_iff]
  constructor
  · rintro ⟨j, h1, h2⟩
    refine ⟨h - j, by omega, by omega, ?_⟩
    have : h - (h - j) = j := by omega
    rw [this]; exact h2
  · rintro ⟨j, h1, h2, h3⟩; exact ⟨h - j, by omega, h3⟩

theorem alP_mirror (h : Nat) (R : Nat → Bool) (k : Nat) (hk : k ≤ h) :
    alPB R k = alFB h (fun j => R (h - j)) (h - k) := by
  apply bool_eq_of_iff
  simp only [alPB, alFB, allUpTo_iff, allBetween_iff]
  constructor
  · intro hh j h1 h2; exact hh (h - j) (by omega)
  · intro hh j h1
    have := hh (h - j) (by omega) (by omega)
    have e : h - (h - j) = j := by omega
    rw [e] at this; exact this

theorem evF_mirror (h : Nat) (R : Nat → Bool) (k : Nat) (hk : k ≤ h) :
    evFB h R k = evPB (fun j => R (h - j)) (h - k) := by
  rw [evP_mirror h _ (h - k) (by omega)]
  have e : h - (h - k) = k := by omega
  rw [e]
  apply evFB_congr
  intro j hj; have : h - (h - j) = j := by omega
  simp [this]

theorem alF_mirror (h : Nat) (R : Nat → Bool) (k : Nat) (hk : k ≤ h) :
    alFB h R k = alPB (fun j => R (h - j)) (h - k) := by
  rw [alP_mirror h _ (h - k) (by omega)]
  have e : h - (h - k) = k := by omega
  rw [e]
  apply alFB_congr
  intro j hj; have : h - (h - j) = j := by omega
  simp [this]

/-- the mirrored formula on the reversed trace, read from the other end, has the same truth value -/
theorem mirror_sym (h : Nat) : ∀ (f : SForm) (tr : Trace) (k : Nat), k ≤ h →
    docSem h tr f k = docSem h (revTrace h tr) (mirror f) (h - k) := by
  intro f
  induction f with
  | atom a =>
    intro tr k hk
    have : h - (h - k) = k := by omega
    simp [docSem, tht, mirror, revTrace, this]
  | kw w =>
    intro tr k hk
    cases w
    · simp [docSem, tht, mirror]
    · simp [docSem, tht, mirror]
    · simp only [docSem, tht, mirror]
      apply bool_eq_of_iff; simp only [beq_iff_eq]; constructor <;> intro _ <;> omega
    · simp only [docSem, tht, mirror]
      apply bool_eq_of_iff; simp only [beq_iff_eq]; constructor <;> intro _ <;> omega
  | neg f ih =>
    intro tr k hk
    simp only [docSem, mirror, tht] at ih ⊢
    rw [ih tr k hk]
  | bin op l r ihl ihr =>
    intro tr k hk
    simp only [docSem] at ihl ihr ⊢
    cases op <;> simp only [mirror, tht, ihl tr k hk, ihr tr k hk]
  | prev n w f ih =>
    intro tr k hk
    simp only [docSem, mirror, tht] at ih ⊢
    by_cases hn : n ≤ k
    · have h1 : h - k + n ≤ h := by omega
      have e : h - k + n = h - (k - n) := by omega
      simp only [hn, h1, if_true]
      rw [ih tr (k - n) (by omega), e]
    · have h1 : ¬ (h - k + n ≤ h) := by omega
      simp [hn, h1]
  | next n w f ih =>
    intro tr k hk
    simp only [docSem, mirror, tht] at ih ⊢
    by_cases hn : k + n ≤ h
    · have h1 : n ≤ h - k := by omega
      have e : h - k - n = h - (k + n) := by omega
      simp only [hn, h1, if_true]
      rw [ih tr (k + n) hn, e]
    · have h1 : ¬ (n ≤ h - k) := by omega
      simp [hn, h1]
  | since l r ihl ihr =>
    intro tr k hk
    simp only [docSem, mirror] at ihl ihr ⊢
    rw [tht_since, tht_unt, since_mirror h _ _ k hk]
    exact untilB_congr (fun j hj => by have := ihl tr (h - j) (by omega); have e : h - (h - j) = j := by omega
                                       rw [e] at this; exact this)
                       (fun j hj => by have := ihr tr (h - j) (by omega); have e : h - (h - j) = j := by omega
                                       rw [e] at this; exact this)
  | trigger l r ihl ihr =>
    intro tr k hk
    simp only [docSem, mirror] at ihl ihr ⊢
    rw [tht_trigger, tht_rel, trigger_mirror h _ _ k hk]
    exact releaseB_congr (fun j hj => by have := ihl tr (h - j) (by omega); have e : h - (h - j) = j := by omega
                                         rw [e] at this; exact this)
                         (fun j hj => by have := ihr tr (h - j) (by omega); have e : h - (h - j) = j := by omega
                                         rw [e] at this; exact this)
  | evP r ihr =>
    intro tr k hk
    simp only [docSem, mirror] at ihr ⊢
    rw [tht_evP, tht_evF, evP_mirror h _ k hk]
    exact evFB_congr (fun j hj => by have := ihr tr (h - j) (by omega); have e : h - (h - j) = j := by omega
                                     rw [e] at this; exact this)
  | alP r ihr =>
    intro tr k hk
    simp only [docSem, mirror] at ihr ⊢
    rw [tht_alP, tht_alF, alP_mirror h _ k hk]
    exact alFB_congr (fun j hj => by have := ihr tr (h - j) (by omega); have e : h - (h - j) = j := by omega
                                     rw [e] at this; exact this)
  | unt l r ihl ihr =>
    intro tr k hk
    simp only [docSem, mirror] at ihl ihr ⊢
    rw [tht_unt, tht_since, until_mirror h _ _ k hk]
    exact sinceB_congr (fun j hj => by have := ihl tr (h - j) (by omega); have e : h - (h - j) = j := by omega
                                       rw [e] at this; exact this)
                       (fun j hj => by have := ihr tr (h - j) (by omega); have e : h - (h - j) = j := by omega
                                       rw [e] at this; exact this)
  | rel l r ihl ihr =>
    intro tr k hk
    simp only [docSem, mirror] at ihl ihr ⊢
    rw [tht_rel, tht_trigger, release_mirror h _ _ k hk]
    exact triggerB_congr (fun j hj => by have := ihl tr (h - j) (by omega); have e : h - (h - j) = j := by omega
                                         rw [e] at this; exact this)
                         (fun j hj => by have := ihr tr (h - j) (by omega); have e : h - (h - j) = j := by omega
                                         rw [e] at this; exact this)
  | evF r ihr =>
    intro tr k hk
    simp only [docSem, mirror] at ihr ⊢
    rw [tht_evF, tht_evP, evF_mirror h _ k hk]
    exact evPB_congr (fun j hj => by have := ihr tr (h - j) (by omega); have e : h - (h - j) = j := by omega
                                     rw [e] at this; exact this)
  | alF r ihr =>
    intro tr k hk
    simp only [docSem, mirror] at ihr ⊢
    rw [tht_alF, tht_alP, alF_mirror h _ k hk]
    exact alPB_congr (fun j hj => by have := ihr tr (h - j) (by omega); have e : h - (h - j) = j := by omega
                                     rw [e] at this; exact this)
  | initially f ih =>
    intro tr k hk
    simp only [docSem, mirror, tht] at ih ⊢
    have := ih tr 0 (Nat.zero_le _)
    simpa using this
  | finally_ f ih =>
    intro tr k hk
    simp only [docSem, mirror, tht] at ih ⊢
    have := ih tr h (Nat.le_refl _)
    simpa using this
  | seqPrev w l r ihl ihr =>
    intro tr k hk
    simp only [docSem, mirror, tht] at ihl ihr ⊢
    rw [ihr tr k hk]
    by_cases h1 : 1 ≤ k
    · have h2 : h - k + 1 ≤ h := by omega
      have e : h - k + 1 = h - (k - 1) := by omega
      simp only [h1, h2, if_true]
      rw [ihl tr (k - 1) (by omega), e]
    · have h2 : ¬ (h - k + 1 ≤ h) := by omega
      simp [h1, h2]
  | seqNext w l r ihl ihr =>
    intro tr k hk
    simp only [docSem, mirror, tht] at ihl ihr ⊢
    rw [ihl tr k hk]
    by_cases h1 : k + 1 ≤ h
    · have h2 : 1 ≤ h - k := by omega
      have e : h - k - 1 = h - (k + 1) := by omega
      simp only [h1, h2, if_true]
      rw [ihr tr (k + 1) h1, e]
    · have h2 : ¬ (1 ≤ h - k) := by omega
      simp [h1, h2]

end TelProofs
