/-
C06: `create_symbol` turns the theory term by which clingo presents a ground symbol inside a theory atom back into
that symbol — for every symbol built from numbers, `#inf`/`#sup`, plain strings, function symbols, tuples and
classical negation, at any nesting depth.
-/
import TelModel.Term
import TelProofs.PyLemmas

set_option linter.unusedVariables false
set_option linter.unusedSimpArgs false

namespace TelProofs
open TelSpec TelModel TelModel.Generated

/-- names that are neither operators nor look like a special constant -/
def plainName (name : String) : Bool :=
  !(arithmeticOperators.contains name) && !(binaryOperators.contains name) && !(unaryOperators.contains name) &&
  !(telOperators.contains name) && name != "#inf" && name != "#sup" &&
  !(name.length > 1 && startsWithChar name '"' && endsWithChar name '"')

mutual
/-- symbols in the scope of the theorem: plain names, strings whose quoted form is recognised -/
def okSym : Sym → Bool
  | .num _ => true
  | .str s => stripEnds ("\"" ++ s ++ "\"") == s && ("\"" ++ s ++ "\"").length > 1 &&
      startsWithChar ("\"" ++ s ++ "\"") '"' && endsWithChar ("\"" ++ s ++ "\"") '"' &&
      !(binaryOperators.contains ("\"" ++ s ++ "\"")) && !(unaryOperators.contains ("\"" ++ s ++ "\"")) &&
      !(telOperators.contains ("\"" ++ s ++ "\"")) && ("\"" ++ s ++ "\"") != "#inf" && ("\"" ++ s ++ "\"") != "#sup"
  | .inf => true
  | .sup => true
  | .fn name args _ => (name == "" || plainName name) && okSyms args
def okSyms : List Sym → Bool
  | [] => true
  | a :: as => okSym a && okSyms as
end


theorem plain_parts {name : String} (h : plainName name = true) :
    arithmeticOperators.contains name = false ∧
    (binaryOperators.contains name || unaryOperators.contains name || telOperators.contains name) = false ∧
    (name == "#inf") = false ∧ (name == "#sup") = false ∧
    (decide (name.length > 1) && startsWithChar name '"' && endsWithChar name '"') = false := by
  simp only [plainName, Bool.and_eq_true, Bool.not_eq_true', bne_iff_ne, ne_eq] at h
  obtain ⟨⟨⟨⟨⟨⟨h1, h2⟩, h3⟩, h4⟩, h5⟩, h6⟩, h7⟩ := h
  refine ⟨h1, by rw [h2, h3, h4]; rfl, by simpa using h5, by simpa using h6, h7⟩

theorem base_roundtrip (name : String) (args : List Sym) (hn : (name == "" || plainName name) = true)
    (ih : createSymbols (symTerms args) = .ok args) :
    createSymbol (baseTerm name (symTerms args)) = .ok (.fn name args true) := by
  unfold baseTerm
  by_cases he : (name == "") = true
  · have : name = "" := by simpa using he
    subst this
    simp only [beq_self_eq_true, if_true, createSymbol, ih, ok_bind, py_pure]
  · have hp : plainName name = true := by
      simp only [Bool.or_eq_true] at hn
      rcases hn with h | h
      · exact absurd h he
      · exact h
    obtain ⟨h1, h2, h3, h4, h5⟩ := plain_parts hp
    simp only [he, Bool.false_eq_true, if_false]
    cases args with
    | nil =>
      simp only [symTerms, createSymbol, h2, Bool.false_eq_true, if_false, h3, h4, h5, py_pure]
    | cons a as =>
      cases hst : symTerms (a :: as) with
      | nil => simp [symTerms] at hst
      | cons x xs =>
        rw [hst] at ih
        simp only
        unfold createSymbol
        simp only [h1, h2, Bool.false_eq_true, if_false, ih, ok_bind, py_pure]

mutual
/-- **round trip** -/
theorem sym_roundtrip : ∀ (s : Sym), okSym s = true → createSymbol (symTerm s) = .ok s
  | .num n, _ => by
    simp only [symTerm]
    by_cases hn : n ≥ 0
    · simp only [hn, if_true, createSymbol, py_pure]
    · simp only [hn, if_false, createSymbol, py_pure, ok_bind]
      have : arithmeticOperators.contains "-" = true := by decide
      simp only [this, if_true, beq_self_eq_true, Int.neg_neg]
  | .str s, h => by
    simp only [okSym, Bool.and_eq_true, Bool.not_eq_true', bne_iff_ne, ne_eq, beq_iff_eq, decide_eq_true_eq] at h
    obtain ⟨⟨⟨⟨⟨⟨⟨⟨h1, h2⟩, h3⟩, h4⟩, h5⟩, h6⟩, h7⟩, h8⟩, h9⟩ := h
    have h8' : ("\"" ++ s ++ "\"" == "#inf") = false := by simpa using h8
    have h9' : ("\"" ++ s ++ "\"" == "#sup") = false := by simpa using h9
    have h2' : decide (("\"" ++ s ++ "\"").length > 1) = true := by simpa using h2
    simp only [symTerm, createSymbol, h5, h6, h7, Bool.or_self, Bool.false_eq_true, if_false, h8', h9', h2', h3, h4,
      Bool.and_self, if_true, py_pure, h1]
  | .inf, _ => by simp only [symTerm]; rfl
  | .sup, _ => by simp only [symTerm]; rfl
  | .fn name args p, h => by
    simp only [okSym, Bool.and_eq_true] at h
    have ih := syms_roundtrip args h.2
    have hb := base_roundtrip name args h.1 ih
    cases p with
    | true => simpa [symTerm] using hb
    | false =>
      simp only [symTerm, Bool.false_eq_true, if_false, createSymbol]
      have : arithmeticOperators.contains "-" = true := by decide
      simp only [this, if_true, hb, ok_bind, beq_self_eq_true, py_pure, Bool.not_true]
theorem syms_roundtrip : ∀ (l : List Sym), okSyms l = true → createSymbols (symTerms l) = .ok l
  | [], _ => by simp only [symTerms, createSymbols, py_pure]
  | a :: as, h => by
    simp only [okSyms, Bool.and_eq_true] at h
    simp only [symTerms, createSymbols, sym_roundtrip a h.1, syms_roundtrip as h.2, ok_bind, py_pure]
end

/-! ### non-vacuity -/
example : okSym (.fn "f" [.num (-3), .str "x y", .fn "" [.num 1, .fn "g" [] false] true, .sup] false) = true := by decide

end TelProofs
