import Mathlib.Data.Set.Basic
import Mathlib.Data.Nat.Find

/-
Time-stratified shifting (DESIGN §5, M7).  If in every non-choice rule all positive body atoms lie at
times ≤ the time of every head atom, then replacing, per time point k, the head disjuncts that lie at
other times by their default negation in the body (`A ∨ X ← B`  ↦  `A ← B, not X`, i.e. `A ∨ ¬¬X ← B`)
preserves the stable models.  This is what `translate_clause` does with the `TelShift` literals of a
head-formula clause; it is the program-level half of C04, the formula-level half being `unshift_equiv`.
-/
namespace TelProofs.Meta
variable {β : Type}

structure Rule (β : Type) where
  head : List β
  choice : Bool := false
  pos : List β := []
  neg : List β := []
  nneg : List β := []

def Rule.bodyHT (r : Rule β) (H T : Set β) : Prop :=
  (∀ a ∈ r.pos, a ∈ H) ∧ (∀ a ∈ r.neg, a ∉ T) ∧ (∀ a ∈ r.nneg, a ∈ T)

def Rule.headHT (r : Rule β) (H T : Set β) : Prop :=
  if r.choice then ∀ a ∈ r.head, a ∈ T → a ∈ H else ∃ a ∈ r.head, a ∈ H

def Rule.sat (r : Rule β) (H T : Set β) : Prop :=
  (r.bodyHT T T → r.headHT T T) ∧ (r.bodyHT H T → r.headHT H T)

def Sat (P : Set (Rule β)) (H T : Set β) : Prop := ∀ r ∈ P, r.sat H T

def Stable (P : Set (Rule β)) (T : Set β) : Prop :=
  Sat P T T ∧ ∀ H, H ⊆ T → Sat P H T → H = T

variable (time : β → Nat)

def Rule.shiftTo (r : Rule β) (k : Nat) : Rule β :=
  { r with head := r.head.filter (fun a => decide (time a = k)),
           neg := r.neg ++ r.head.filter (fun a => !decide (time a = k)) }

def Rule.stratified (r : Rule β) : Prop := ∀ b ∈ r.pos, ∀ a ∈ r.head, time b ≤ time a

def shiftProg (P : Set (Rule β)) : Set (Rule β) :=
  {r' | ∃ r ∈ P, (r.choice = true ∧ r' = r) ∨ (r.choice = false ∧ ∃ k, r' = r.shiftTo time k)}

theorem bodyHT_mono (r : Rule β) {H T : Set β} (h : H ⊆ T) (hb : r.bodyHT H T) : r.bodyHT T T :=
  ⟨fun a ha => h (hb.1 a ha), hb.2.1, hb.2.2⟩

theorem shift_to_disj (P : Set (Rule β)) (T : Set β) (hT : Stable (shiftProg time P) T) :
    Stable P T := by
  obtain ⟨hm, hmin⟩ := hT
  have hTT : Sat P T T := by
    intro r hr
    have key : r.bodyHT T T → r.headHT T T := by
      intro hb
      by_cases hc : r.choice = true
      · exact (hm r ⟨r, hr, Or.inl ⟨hc, rfl⟩⟩).1 hb
      · have hc' : r.choice = false := by simpa using hc
        simp only [Rule.headHT, hc', Bool.false_eq_true, if_false]
        by_contra hne
        push Not at hne
        have := (hm (r.shiftTo time 0) ⟨r, hr, Or.inr ⟨hc', 0, rfl⟩⟩).1
        have hb' : (r.shiftTo time 0).bodyHT T T := by
          refine ⟨hb.1, ?_, hb.2.2⟩
          intro a ha
          simp only [Rule.shiftTo, List.mem_append, List.mem_filter] at ha
          rcases ha with ha | ha
          · exact hb.2.1 a ha
          · exact hne a ha.1
        have hh := this hb'
        simp only [Rule.headHT, Rule.shiftTo, hc', Bool.false_eq_true, if_false, List.mem_filter] at hh
        obtain ⟨a, ⟨ha, _⟩, haT⟩ := hh
        exact hne a ha haT
    exact ⟨key, key⟩
  refine ⟨hTT, ?_⟩
  intro H hHT hS
  apply hmin H hHT
  rintro r' ⟨r, hr, hcase⟩
  rcases hcase with ⟨_, rfl⟩ | ⟨hc, k, rfl⟩
  · exact hS r' hr
  · refine ⟨(hm _ ⟨r, hr, Or.inr ⟨hc, k, rfl⟩⟩).1, ?_⟩
    intro hb
    have hb0 : r.bodyHT H T := by
      refine ⟨hb.1, ?_, hb.2.2⟩
      intro a ha
      exact hb.2.1 a (by simp [Rule.shiftTo, ha])
    have hh := (hS r hr).2 hb0
    simp only [Rule.headHT, hc, Bool.false_eq_true, if_false] at hh
    obtain ⟨a, ha, haH⟩ := hh
    simp only [Rule.headHT, Rule.shiftTo, hc, Bool.false_eq_true, if_false, List.mem_filter]
    refine ⟨a, ⟨ha, ?_⟩, haH⟩
    by_contra hk
    have : a ∉ T := hb.2.1 a (by simp [Rule.shiftTo, ha, hk])
    exact this (hHT haH)

theorem disj_to_shift (P : Set (Rule β)) (hstrat : ∀ r ∈ P, r.stratified time) (T : Set β)
    (hT : Stable P T) : Stable (shiftProg time P) T := by
  obtain ⟨hm, hmin⟩ := hT
  -- total model of the shifted program
  have hTT : Sat (shiftProg time P) T T := by
    rintro r' ⟨r, hr, hcase⟩
    rcases hcase with ⟨_, rfl⟩ | ⟨hc, k, rfl⟩
    · exact hm r' hr
    · have key : (r.shiftTo time k).bodyHT T T → (r.shiftTo time k).headHT T T := by
        intro hb
        have hb0 : r.bodyHT T T := ⟨hb.1, fun a ha => hb.2.1 a (by simp [Rule.shiftTo, ha]), hb.2.2⟩
        have hh := (hm r hr).1 hb0
        simp only [Rule.headHT, hc, Bool.false_eq_true, if_false] at hh
        obtain ⟨a, ha, haT⟩ := hh
        simp only [Rule.headHT, Rule.shiftTo, hc, Bool.false_eq_true, if_false, List.mem_filter]
        refine ⟨a, ⟨ha, ?_⟩, haT⟩
        by_contra hk
        exact hb.2.1 a (by simp [Rule.shiftTo, ha, hk]) haT
      exact ⟨key, key⟩
  refine ⟨hTT, ?_⟩
  intro H hHT hS
  by_contra hne
  -- some atom of T is missing in H; take one of least time
  have hex : ∃ n, ∃ a, a ∈ T ∧ a ∉ H ∧ time a = n := by
    by_contra hno
    push Not at hno
    apply hne
    apply Set.Subset.antisymm hHT
    intro a haT
    by_contra haH
    exact hno (time a) a haT haH rfl
  classical
  let k := Nat.find hex
  obtain ⟨a0, ha0T, ha0H, ha0k⟩ := Nat.find_spec hex
  have hbelow : ∀ a, a ∈ T → time a < k → a ∈ H := by
    intro a haT hlt
    by_contra haH
    exact Nat.find_min hex hlt ⟨a, haT, haH, rfl⟩
  let H' : Set β := {a | a ∈ T ∧ (time a = k → a ∈ H)}
  have hH'T : H' ⊆ T := fun a ha => ha.1
  have hH'ne : H' ≠ T := by
    intro heq
    have : a0 ∈ H' := heq ▸ ha0T
    exact ha0H (this.2 ha0k)
  apply hH'ne
  apply hmin H' hH'T
  intro r hr
  refine ⟨(hm r hr).1, ?_⟩
  intro hb
  have hbT : r.bodyHT T T := bodyHT_mono r hH'T hb
  have hhT := (hm r hr).1 hbT
  -- positive body atoms are in H whenever some head atom has time k
  have hposH : ∀ a ∈ r.head, time a = k → ∀ b ∈ r.pos, b ∈ H := by
    intro a ha hak b hbp
    have hle := hstrat r hr b hbp a ha
    have hbH' := hb.1 b hbp
    rcases Nat.lt_or_ge (time b) k with hlt | hge
    · exact hbelow b hbH'.1 hlt
    · exact hbH'.2 (by omega)
  by_cases hc : r.choice = true
  · simp only [Rule.headHT, hc, if_true] at hhT ⊢
    intro a ha haT
    refine ⟨haT, fun hak => ?_⟩
    have hbH : r.bodyHT H T := ⟨hposH a ha hak, hb.2.1, hb.2.2⟩
    have := (hS r ⟨r, hr, Or.inl ⟨hc, rfl⟩⟩).2 hbH
    simp only [Rule.headHT, hc, if_true] at this
    exact this a ha haT
  · have hc' : r.choice = false := by simpa using hc
    simp only [Rule.headHT, hc', Bool.false_eq_true, if_false] at hhT ⊢
    by_cases hoff : ∃ a ∈ r.head, a ∈ T ∧ time a ≠ k
    · obtain ⟨a, ha, haT, hak⟩ := hoff
      exact ⟨a, ha, haT, fun h => absurd h hak⟩
    · push Not at hoff
      obtain ⟨a, ha, haT⟩ := hhT
      have hak := hoff a ha haT
      have hbs : (r.shiftTo time k).bodyHT H T := by
        refine ⟨hposH a ha hak, ?_, hb.2.2⟩
        intro c hcm
        simp only [Rule.shiftTo, List.mem_append, List.mem_filter] at hcm
        rcases hcm with hcm | ⟨hch, hck⟩
        · exact hb.2.1 c hcm
        · intro hcT
          have := hoff c hch hcT
          simp [this] at hck
      have := (hS _ ⟨r, hr, Or.inr ⟨hc', k, rfl⟩⟩).2 hbs
      simp only [Rule.headHT, Rule.shiftTo, hc', Bool.false_eq_true, if_false, List.mem_filter] at this
      obtain ⟨c, ⟨hch, hck⟩, hcH⟩ := this
      exact ⟨c, hch, hHT hcH, fun _ => hcH⟩

theorem shift_iff (P : Set (Rule β)) (hstrat : ∀ r ∈ P, r.stratified time) (T : Set β) :
    Stable (shiftProg time P) T ↔ Stable P T :=
  ⟨shift_to_disj time P T, disj_to_shift time P hstrat T⟩

end TelProofs.Meta
