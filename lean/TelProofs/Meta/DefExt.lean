/-
Definitional extensions are conservative (used for C13).

Generic answer-set programs over an arbitrary atom type: if a program `Π` is extended by statements `E` that
  * make fresh atoms free (choice rules `{v}.` without body — also what an external with a free truth value is),
  * are integrity constraints (over any atoms), or
  * define a fresh atom by a rule without positive body literals (`w :- not not t.`, a fact for a fresh atom —
    what an external fixed to true is),
then cutting a stable model of `Π ∪ E` to the old atoms gives a stable model of `Π`; and if for every
interpretation of the old atoms exactly one interpretation of the fresh atoms satisfies `E` and is supported, the
cut is a bijection between the stable models of `Π ∪ E` and those of `Π`.
-/

set_option linter.unusedSectionVars false

namespace TelProofs.DefExt

structure Rule (α : Type) where
  head : List α
  choice : Bool := false
  pos : List α := []
  neg : List α := []
  nneg : List α := []

abbrev Interp (α : Type) := α → Bool

variable {α : Type}

def Le (H T : Interp α) : Prop := ∀ a, H a = true → T a = true

def Rule.bodyHolds (r : Rule α) (W T : Interp α) : Bool :=
  r.pos.all W && r.neg.all (fun a => !(T a)) && r.nneg.all T

def Rule.headHolds (r : Rule α) (W T : Interp α) : Bool :=
  if r.choice then r.head.all (fun a => W a || !(T a)) else r.head.any W

def Rule.sat (r : Rule α) (W T : Interp α) : Bool := !(r.bodyHolds W T) || r.headHolds W T

/-- stable (equilibrium) models -/
def Stable (rs : List (Rule α)) (T : Interp α) : Prop :=
  (∀ r ∈ rs, r.sat T T = true) ∧ ∀ H : Interp α, Le H T → (∀ r ∈ rs, r.sat H T = true) → ∀ a, H a = T a

/-- the atoms a rule mentions -/
def Rule.atoms (r : Rule α) : List α := r.head ++ r.pos ++ r.neg ++ r.nneg

theorem all_congr {l : List α} {f g : α → Bool} (h : ∀ x ∈ l, f x = g x) : l.all f = l.all g := by
  induction l with
  | nil => rfl
  | cons x xs ih =>
    simp only [List.all_cons, h x List.mem_cons_self, ih (fun y hy => h y (List.mem_cons_of_mem _ hy))]

theorem any_congr {l : List α} {f g : α → Bool} (h : ∀ x ∈ l, f x = g x) : l.any f = l.any g := by
  induction l with
  | nil => rfl
  | cons x xs ih =>
    simp only [List.any_cons, h x List.mem_cons_self, ih (fun y hy => h y (List.mem_cons_of_mem _ hy))]

/-- satisfaction depends only on the atoms the rule mentions -/
theorem sat_congr (r : Rule α) {W T W' T' : Interp α} (hW : ∀ a ∈ r.atoms, W a = W' a) (hT : ∀ a ∈ r.atoms, T a = T' a) :
    r.sat W T = r.sat W' T' := by
  have mh : ∀ a ∈ r.head, a ∈ r.atoms := fun a h => by simp [Rule.atoms, h]
  have mp : ∀ a ∈ r.pos, a ∈ r.atoms := fun a h => by simp [Rule.atoms, h]
  have mn : ∀ a ∈ r.neg, a ∈ r.atoms := fun a h => by simp [Rule.atoms, h]
  have mnn : ∀ a ∈ r.nneg, a ∈ r.atoms := fun a h => by simp [Rule.atoms, h]
  have hb : r.bodyHolds W T = r.bodyHolds W' T' := by
    simp only [Rule.bodyHolds]
    rw [all_congr (f := W) (g := W') (fun a h => hW a (mp a h)),
        all_congr (l := r.neg) (f := fun a => !(T a)) (g := fun a => !(T' a)) (fun a h => by simp [hT a (mn a h)]),
        all_congr (l := r.nneg) (f := T) (g := T') (fun a h => hT a (mnn a h))]
  have hh : r.headHolds W T = r.headHolds W' T' := by
    simp only [Rule.headHolds]
    rw [all_congr (l := r.head) (f := fun a => W a || !(T a)) (g := fun a => W' a || !(T' a))
          (fun a h => by simp [hW a (mh a h), hT a (mh a h)]),
        any_congr (l := r.head) (f := W) (g := W') (fun a h => hW a (mh a h))]
  simp only [Rule.sat, hb, hh]

theorem all_le {l : List α} {H T : Interp α} (hle : Le H T) (h : l.all H = true) : l.all T = true := by
  simp only [List.all_eq_true] at h ⊢
  exact fun a ha => hle a (h a ha)

theorem body_mono {r : Rule α} {H T : Interp α} (hle : Le H T) (h : r.bodyHolds H T = true) : r.bodyHolds T T = true := by
  simp only [Rule.bodyHolds, Bool.and_eq_true] at h ⊢
  exact ⟨⟨all_le hle h.1.1, h.1.2⟩, h.2⟩

/-- without positive body literals the body does not depend on the "here" world -/
theorem body_nopos {r : Rule α} (hp : r.pos = []) (H T : Interp α) : r.bodyHolds H T = r.bodyHolds T T := by
  simp [Rule.bodyHolds, hp]

/-- supportedness -/
theorem stable_supported [DecidableEq α] {rs : List (Rule α)} {T : Interp α} (hs : Stable rs T) (a : α) (ha : T a = true) :
    ∃ r ∈ rs, a ∈ r.head ∧ r.bodyHolds T T = true := by
  apply Classical.byContradiction; intro hcon
  let H : Interp α := fun x => T x && !(x == a)
  have hle : Le H T := by
    intro x hx; simp only [H, Bool.and_eq_true] at hx; exact hx.1
  have hH : ∀ x, x ≠ a → H x = T x := by
    intro x hx
    have : (x == a) = false := by
      cases h : x == a
      · rfl
      · exact absurd (beq_iff_eq.mp h) hx
    simp [H, this]
  have hsat : ∀ r ∈ rs, r.sat H T = true := by
    intro r hr
    have hT := hs.1 r hr
    simp only [Rule.sat, Bool.or_eq_true, Bool.not_eq_true'] at hT ⊢
    cases hb : r.bodyHolds H T
    · exact Or.inl rfl
    · right
      have hbT := body_mono hle hb
      have hna : a ∉ r.head := fun hmem => hcon ⟨r, hr, hmem, hbT⟩
      rcases hT with hT | hT
      · rw [hbT] at hT; cases hT
      · by_cases hc : r.choice = true
        · simp only [Rule.headHolds, hc, if_true, List.all_eq_true, Bool.or_eq_true, Bool.not_eq_true'] at hT ⊢
          intro x hx
          have hxa : x ≠ a := fun h => hna (h ▸ hx)
          rw [hH x hxa]
          exact hT x hx
        · have hc' : r.choice = false := by
            cases h : r.choice
            · rfl
            · exact absurd h hc
          simp only [Rule.headHolds, hc', Bool.false_eq_true, if_false, List.any_eq_true] at hT ⊢
          obtain ⟨x, hx, hTx⟩ := hT
          have hxa : x ≠ a := fun h => hna (h ▸ hx)
          exact ⟨x, hx, by rw [hH x hxa]; exact hTx⟩
  have := hs.2 H hle hsat a
  simp [H, ha] at this

/-! ### the extension -/

/-- the three admitted shapes of an added statement; `N` marks the fresh atoms -/
def EShape (N : α → Bool) (r : Rule α) : Prop :=
  (r.choice = true ∧ r.pos = [] ∧ r.neg = [] ∧ r.nneg = [] ∧ ∀ a ∈ r.head, N a = true) ∨
  (r.head = [] ∧ r.choice = false) ∨
  (r.choice = false ∧ r.pos = [] ∧ ∃ w, r.head = [w] ∧ N w = true)

/-- cut an interpretation to the old atoms -/
def cut (N : α → Bool) (X : Interp α) : Interp α := fun a => X a && !(N a)

/-- old atoms from `H`, fresh atoms from `X` -/
def glue (N : α → Bool) (H X : Interp α) : Interp α := fun a => if N a then X a else H a

section
variable (P E : List (Rule α)) (N : α → Bool)
variable (hP : ∀ r ∈ P, ∀ a ∈ r.atoms, N a = false) (hE : ∀ r ∈ E, EShape N r)
include hP hE

/-- satisfaction of an added statement by `(glue H X, X)` follows from its satisfaction by `(X, X)` -/
theorem eshape_sat_glue (X H : Interp α) (hle : Le H X) (r : Rule α) (hr : r ∈ E) (hX : r.sat X X = true) :
    r.sat (glue N H X) X = true := by
  have hgle : Le (glue N H X) X := by
    intro a ha
    simp only [glue] at ha
    split at ha
    · exact ha
    · exact hle a ha
  rcases hE r hr with ⟨hc, hp, hn, hnn, hN⟩ | ⟨hh, hc⟩ | ⟨hc, hp, w, hh, hN⟩
  · simp only [Rule.sat, Rule.headHolds, hc, if_true, Bool.or_eq_true, Bool.not_eq_true', List.all_eq_true]
    right
    intro a ha
    simp [glue, hN a ha]
  · simp only [Rule.sat, Rule.headHolds, hh, hc, Bool.false_eq_true, if_false, List.any_nil, Bool.or_false,
      Bool.not_eq_true'] at hX ⊢
    cases hb : r.bodyHolds (glue N H X) X
    · rfl
    · rw [body_mono hgle hb] at hX; cases hX
  · simp only [Rule.sat, body_nopos hp, Rule.headHolds, hc, hh, Bool.false_eq_true, if_false, List.any_cons,
      List.any_nil, Bool.or_false] at hX ⊢
    simpa [glue, hN] using hX

/-- **cutting**: a stable model of `P ∪ E`, cut to the old atoms, is a stable model of `P` -/
theorem cut_stable (X : Interp α) (hs : Stable (P ++ E) X) : Stable P (cut N X) := by
  have hagree : ∀ r ∈ P, ∀ a ∈ r.atoms, cut N X a = X a := by
    intro r hr a ha; simp [cut, hP r hr a ha]
  constructor
  · intro r hr
    rw [sat_congr r (hagree r hr) (hagree r hr)]
    exact hs.1 r (List.mem_append_left _ hr)
  · intro H0 hle hsat a
    let H := glue N H0 X
    have hleH : Le H X := by
      intro b hb
      simp only [H, glue] at hb
      split at hb
      · exact hb
      · have := hle b hb
        simp only [cut, Bool.and_eq_true] at this
        exact this.1
    have hH0le : Le H0 X := by
      intro b hb
      have := hle b hb
      simp only [cut, Bool.and_eq_true] at this
      exact this.1
    have hsatH : ∀ r ∈ P ++ E, r.sat H X = true := by
      intro r hr
      rcases List.mem_append.mp hr with hrP | hrE
      · have h1 : ∀ b ∈ r.atoms, H b = H0 b := by
          intro b hb; simp [H, glue, hP r hrP b hb]
        rw [sat_congr r h1 (fun b hb => (hagree r hrP b hb).symm)]
        exact hsat r hrP
      · exact eshape_sat_glue P E N hP hE X H0 hH0le r hrE (hs.1 r hr)
    have heq := hs.2 H hleH hsatH a
    by_cases hN : N a = true
    · have h0 : cut N X a = false := by simp [cut, hN]
      rw [h0]
      cases hh : H0 a
      · rfl
      · have := hle a hh; rw [h0] at this; cases this
    · have hN' : N a = false := by
        cases h : N a
        · rfl
        · exact absurd h hN
      have : H a = H0 a := by simp [H, glue, hN']
      rw [← this, heq]
      simp [cut, hN']

/-- an interpretation of all atoms is *good* for the extension: it satisfies the added statements and its fresh
    atoms are supported by them -/
def Good (Y : Interp α) : Prop :=
  (∀ r ∈ E, r.sat Y Y = true) ∧ ∀ n, N n = true → Y n = true → ∃ r ∈ E, n ∈ r.head ∧ r.bodyHolds Y Y = true

/-- **extending**: a good extension of a stable model of `P` is a stable model of `P ∪ E` -/
theorem extend_stable (X0 Y : Interp α) (hs : Stable P X0) (hag : ∀ a, N a = false → Y a = X0 a)
    (hgood : Good E N Y) : Stable (P ++ E) Y := by
  have hagree : ∀ r ∈ P, ∀ a ∈ r.atoms, Y a = X0 a := fun r hr a ha => hag a (hP r hr a ha)
  constructor
  · intro r hr
    rcases List.mem_append.mp hr with hrP | hrE
    · rw [sat_congr r (hagree r hrP) (hagree r hrP)]; exact hs.1 r hrP
    · exact hgood.1 r hrE
  · intro H hle hsat a
    -- the old atoms
    let H0 : Interp α := fun b => H b && !(N b)
    have hle0 : Le H0 X0 := by
      intro b hb
      simp only [H0, Bool.and_eq_true, Bool.not_eq_true'] at hb
      rw [← hag b hb.2]; exact hle b hb.1
    have hsat0 : ∀ r ∈ P, r.sat H0 X0 = true := by
      intro r hr
      have h1 : ∀ b ∈ r.atoms, H0 b = H b := by
        intro b hb; simp [H0, hP r hr b hb]
      rw [sat_congr r h1 (fun b hb => (hagree r hr b hb).symm)]
      exact hsat r (List.mem_append_left _ hr)
    have heq0 := hs.2 H0 hle0 hsat0
    by_cases hN : N a = true
    · -- a fresh atom: supported by an added statement whose head it is
      cases hY : Y a
      · cases hh : H a
        · rfl
        · have := hle a hh; rw [hY] at this; cases this
      · obtain ⟨r, hr, hmem, hbody⟩ := hgood.2 a hN hY
        have hrs := hsat r (List.mem_append_right _ hr)
        rcases hE r hr with ⟨hc, hp, hn, hnn, _⟩ | ⟨hh, _⟩ | ⟨hc, hp, w, hh, _⟩
        · simp only [Rule.sat, Rule.bodyHolds, hp, hn, hnn, List.all_nil, Bool.and_self, Bool.not_true, Bool.false_or,
            Rule.headHolds, hc, if_true, List.all_eq_true, Bool.or_eq_true, Bool.not_eq_true'] at hrs
          rcases hrs a hmem with h1 | h1
          · exact h1
          · rw [hY] at h1; cases h1
        · rw [hh] at hmem; cases hmem
        · rw [hh] at hmem
          have haw : a = w := by simpa using hmem
          subst haw
          simp only [Rule.sat, body_nopos hp, hbody, Bool.not_true, Bool.false_or, Rule.headHolds, hc,
            Bool.false_eq_true, if_false, hh, List.any_cons, List.any_nil, Bool.or_false] at hrs
          exact hrs
    · have hN' : N a = false := by
        cases h : N a
        · rfl
        · exact absurd h hN
      have : H0 a = H a := by simp [H0, hN']
      rw [← this, heq0 a, hag a hN']

/-- every stable model of `P ∪ E` is good -/
theorem stable_good [DecidableEq α] (X : Interp α) (hs : Stable (P ++ E) X) : Good E N X := by
  constructor
  · exact fun r hr => hs.1 r (List.mem_append_right _ hr)
  · intro n hN hX
    obtain ⟨r, hr, hmem, hb⟩ := stable_supported hs n hX
    rcases List.mem_append.mp hr with hrP | hrE
    · have : N n = false := hP r hrP n (by simp [Rule.atoms, hmem])
      rw [this] at hN; cases hN
    · exact ⟨r, hrE, hmem, hb⟩

/-- **conservativity**: when every interpretation of the old atoms has exactly one good extension to the fresh
    atoms, cutting is a bijection between the stable models of `P ∪ E` and the stable models of `P` (that are
    false on the fresh atoms, which `P` does not mention) -/
theorem conservative [DecidableEq α]
    (hdet : ∀ X0 : Interp α, ∃ Y, (∀ a, N a = false → Y a = X0 a) ∧ Good E N Y ∧
      ∀ Y', (∀ a, N a = false → Y' a = X0 a) → Good E N Y' → ∀ a, Y' a = Y a) :
    (∀ X, Stable (P ++ E) X → Stable P (cut N X)) ∧
    (∀ X0, Stable P X0 → ∃ X, Stable (P ++ E) X ∧ (∀ a, N a = false → X a = X0 a)) ∧
    (∀ X X', Stable (P ++ E) X → Stable (P ++ E) X' → (∀ a, N a = false → X a = X' a) → ∀ a, X a = X' a) := by
  refine ⟨fun X hs => cut_stable P E N hP hE X hs, ?_, ?_⟩
  · intro X0 hs
    obtain ⟨Y, hag, hgood, _⟩ := hdet X0
    exact ⟨Y, extend_stable P E N hP hE X0 Y hs hag hgood, hag⟩
  · intro X X' hs hs' hag a
    obtain ⟨Y, _, _, huniq⟩ := hdet X
    have h1 := huniq X (fun _ _ => rfl) (stable_good P E N hP hE X hs) a
    have h2 := huniq X' (fun b hb => (hag b hb).symm) (stable_good P E N hP hE X' hs') a
    rw [h1, h2]

/-- the determination hypothesis from a *value function*: the added statements are satisfied exactly when every
    fresh atom has the value `val` computes from the old atoms (for telingo: the truth value of the formula the
    atom stands for — `tel_unique` / `del_unique` say the translation's equations have exactly this solution), and
    every fresh atom is free (has its choice rule) -/
theorem det_of_function (val : Interp α → α → Bool)
    (hval : ∀ Y Y' : Interp α, (∀ a, N a = false → Y a = Y' a) → ∀ n, val Y n = val Y' n)
    (hsat : ∀ Y : Interp α, (∀ r ∈ E, r.sat Y Y = true) ↔ ∀ n, N n = true → Y n = val Y n)
    (hfree : ∀ n, N n = true → ∃ r ∈ E, n ∈ r.head ∧ r.pos = [] ∧ r.neg = [] ∧ r.nneg = []) :
    ∀ X0 : Interp α, ∃ Y, (∀ a, N a = false → Y a = X0 a) ∧ Good E N Y ∧
      ∀ Y', (∀ a, N a = false → Y' a = X0 a) → Good E N Y' → ∀ a, Y' a = Y a := by
  intro X0
  let Y : Interp α := fun a => if N a then val X0 a else X0 a
  have hag : ∀ a, N a = false → Y a = X0 a := by intro a ha; simp [Y, ha]
  have hYval : ∀ n, N n = true → Y n = val Y n := by
    intro n hn
    rw [hval Y X0 hag n]; simp [Y, hn]
  refine ⟨Y, hag, ⟨(hsat Y).mpr hYval, ?_⟩, ?_⟩
  · intro n hn _
    obtain ⟨r, hr, hmem, hp, hng, hnn⟩ := hfree n hn
    exact ⟨r, hr, hmem, by simp [Rule.bodyHolds, hp, hng, hnn]⟩
  · intro Y' hag' hgood' a
    by_cases hn : N a = true
    · rw [(hsat Y').mp hgood'.1 a hn, hYval a hn]
      exact hval Y' Y (fun b hb => by rw [hag' b hb, hag b hb]) a
    · have hn' : N a = false := by
        cases h : N a
        · rfl
        · exact absurd h hn
      rw [hag' a hn', hag a hn']

end

end TelProofs.DefExt

namespace TelProofs.DefExt

/-! ### non-vacuity: `{a}.` extended by the observer `{v}. :- v, not a. :- not v, a.  w :- not not v.` -/

def exP : List (Rule Nat) := [{ head := [0], choice := true }]
def exE : List (Rule Nat) :=
  [{ head := [1], choice := true }, { head := [], pos := [1], neg := [0] }, { head := [], pos := [0], neg := [1] }]
def exN : Nat → Bool := fun n => n == 1

example : ∀ r ∈ exP, ∀ a ∈ r.atoms, exN a = false := by decide
example : ∀ r ∈ exE, EShape exN r := by
  intro r hr
  simp only [exE, List.mem_cons, List.mem_nil_iff, or_false] at hr
  rcases hr with rfl | rfl | rfl
  · exact Or.inl ⟨rfl, rfl, rfl, rfl, by decide⟩
  · exact Or.inr (Or.inl ⟨rfl, rfl⟩)
  · exact Or.inr (Or.inl ⟨rfl, rfl⟩)

/-- the added constraints are satisfied exactly when `v` has the value of `a` -/
example (Y : Interp Nat) : (∀ r ∈ exE, r.sat Y Y = true) ↔ ∀ n, exN n = true → Y n = Y 0 := by
  constructor
  · intro h n hn
    have hn' : n = 1 := by simpa [exN] using hn
    subst hn'
    have h1 := h { head := [], pos := [1], neg := [0] } (by simp [exE])
    have h2 := h { head := [], pos := [0], neg := [1] } (by simp [exE])
    simp [Rule.sat, Rule.bodyHolds, Rule.headHolds] at h1 h2
    cases h0 : Y 0 <;> cases h1' : Y 1 <;> simp_all
  · intro h r hr
    have hv := h 1 (by decide)
    simp only [exE, List.mem_cons, List.mem_nil_iff, or_false] at hr
    rcases hr with rfl | rfl | rfl <;> simp [Rule.sat, Rule.bodyHolds, Rule.headHolds, hv] <;> cases Y 0 <;> simp

end TelProofs.DefExt

namespace TelProofs.DefExt

/-! ### theory atoms in rule bodies are evaluated in the total world

`P` may now mention the fresh atoms in rule *bodies* (a program atom for `&tel{…}` occurs where the theory atom stood);
its heads do not contain them.  Then `X` is a stable model of `P ∪ E` iff `X` is good for `E` and `X`, cut to the old
atoms, is a stable model of `P` with every fresh body literal replaced by its truth value in `X` itself. -/

variable {α : Type}

/-- `P` with the literals on fresh atoms evaluated in `Y`: a rule with a false one disappears, true ones are dropped -/
def stripRule (N : α → Bool) (r : Rule α) : Rule α :=
  { head := r.head, choice := r.choice, pos := r.pos.filter (fun a => !(N a)), neg := r.neg.filter (fun a => !(N a)),
    nneg := r.nneg.filter (fun a => !(N a)) }

def evalRule (N : α → Bool) (Y : Interp α) (r : Rule α) : Option (Rule α) :=
  if (r.pos.filter N).all Y && (r.neg.filter N).all (fun a => !(Y a)) && (r.nneg.filter N).all Y then
    some (stripRule N r)
  else none

def evalProg (N : α → Bool) (Y : Interp α) (P : List (Rule α)) : List (Rule α) := P.filterMap (evalRule N Y)

theorem all_split (N : α → Bool) (l : List α) (f : α → Bool) :
    l.all f = ((l.filter N).all f && (l.filter (fun a => !(N a))).all f) := by
  induction l with
  | nil => rfl
  | cons x xs ih =>
    simp only [List.all_cons, List.filter_cons]
    cases hN : N x <;> simp [ih, Bool.and_assoc, Bool.and_left_comm]

/-- if `W` agrees with `T` on the fresh atoms, a rule is satisfied by `(W, T)` iff its evaluation w.r.t. `T` is
    (or it has disappeared) -/
theorem sat_eval (N : α → Bool) (r : Rule α) (W T W0 T0 : Interp α) (hhead : ∀ a ∈ r.head, N a = false)
    (hWN : ∀ a, N a = true → W a = T a)
    (hW0 : ∀ a, N a = false → W0 a = W a) (hT0 : ∀ a, N a = false → T0 a = T a) :
    r.sat W T = (match evalRule N T r with | some r' => r'.sat W0 T0 | none => true) := by
  have hposN : (r.pos.filter N).all W = (r.pos.filter N).all T :=
    all_congr (fun a ha => hWN a (by simpa using (List.mem_filter.mp ha).2))
  have hposO : (r.pos.filter (fun a => !(N a))).all W = (r.pos.filter (fun a => !(N a))).all W0 :=
    all_congr (fun a ha => (hW0 a (by simpa using (List.mem_filter.mp ha).2)).symm)
  have hnegO : (r.neg.filter (fun a => !(N a))).all (fun a => !(T a)) = (r.neg.filter (fun a => !(N a))).all (fun a => !(T0 a)) :=
    all_congr (fun a ha => by simp [hT0 a (by simpa using (List.mem_filter.mp ha).2)])
  have hnnO : (r.nneg.filter (fun a => !(N a))).all T = (r.nneg.filter (fun a => !(N a))).all T0 :=
    all_congr (fun a ha => (hT0 a (by simpa using (List.mem_filter.mp ha).2)).symm)
  have hbody : r.bodyHolds W T =
      (((r.pos.filter N).all T && (r.neg.filter N).all (fun a => !(T a)) && (r.nneg.filter N).all T) &&
       ((r.pos.filter (fun a => !(N a))).all W0 && (r.neg.filter (fun a => !(N a))).all (fun a => !(T0 a)) &&
        (r.nneg.filter (fun a => !(N a))).all T0)) := by
    simp only [Rule.bodyHolds]
    rw [all_split N r.pos W, all_split N r.neg (fun a => !(T a)), all_split N r.nneg T, hposN, hposO, hnegO, hnnO]
    cases (r.pos.filter N).all T <;> cases (r.neg.filter N).all (fun a => !(T a)) <;> cases (r.nneg.filter N).all T <;>
      simp [Bool.and_assoc, Bool.and_left_comm, Bool.and_comm]
  have hheadEq : r.headHolds W T = (stripRule N r).headHolds W0 T0 := by
    simp only [Rule.headHolds, stripRule]
    rw [all_congr (l := r.head) (f := fun a => W a || !(T a)) (g := fun a => W0 a || !(T0 a))
          (fun a h => by simp [hW0 a (hhead a h), hT0 a (hhead a h)]),
        any_congr (l := r.head) (f := W) (g := W0) (fun a h => (hW0 a (hhead a h)).symm)]
    all_goals rfl
  unfold evalRule
  by_cases hc : ((r.pos.filter N).all T && (r.neg.filter N).all (fun a => !(T a)) && (r.nneg.filter N).all T) = true
  · simp only [hc, if_true]
    simp only [Rule.sat, hbody, hc, Bool.true_and, hheadEq]
    simp only [Rule.bodyHolds, stripRule]
  · have hc' : ((r.pos.filter N).all T && (r.neg.filter N).all (fun a => !(T a)) && (r.nneg.filter N).all T) = false := by
      cases h : ((r.pos.filter N).all T && (r.neg.filter N).all (fun a => !(T a)) && (r.nneg.filter N).all T)
      · rfl
      · exact absurd h hc
    simp only [hc', Bool.false_eq_true, if_false]
    simp only [Rule.sat, hbody, hc', Bool.false_and, Bool.not_false, Bool.true_or]

section
variable (P E : List (Rule α)) (N : α → Bool)
variable (hP : ∀ r ∈ P, ∀ a ∈ r.head, N a = false) (hE : ∀ r ∈ E, EShape N r)
include hP hE

theorem evalProg_sat_iff (W T W0 T0 : Interp α) (hWN : ∀ a, N a = true → W a = T a)
    (hW0 : ∀ a, N a = false → W0 a = W a) (hT0 : ∀ a, N a = false → T0 a = T a) :
    (∀ r ∈ P, r.sat W T = true) ↔ (∀ r' ∈ evalProg N T P, r'.sat W0 T0 = true) := by
  constructor
  · intro h r' hr'
    simp only [evalProg, List.mem_filterMap] at hr'
    obtain ⟨r, hr, he⟩ := hr'
    have := sat_eval N r W T W0 T0 (hP r hr) hWN hW0 hT0
    rw [he] at this
    simp only at this
    rw [← this]; exact h r hr
  · intro h r hr
    rw [sat_eval N r W T W0 T0 (hP r hr) hWN hW0 hT0]
    cases he : evalRule N T r with
    | none => rfl
    | some r' => exact h r' (by simp only [evalProg, List.mem_filterMap]; exact ⟨r, hr, he⟩)

/-- **theory atoms are evaluated in the total world**: the stable models of `P ∪ E` are the interpretations that are
    good for `E` and whose cut is a stable model of `P` with the fresh body literals replaced by their values in
    the candidate itself -/
theorem stable_iff_eval [DecidableEq α] (X : Interp α) :
    Stable (P ++ E) X ↔ (Good E N X ∧ Stable (evalProg N X P) (cut N X)) := by
  have hcutT : ∀ a, N a = false → cut N X a = X a := by intro a ha; simp [cut, ha]
  constructor
  · intro hs
    have hgood : Good E N X := by
      constructor
      · exact fun r hr => hs.1 r (List.mem_append_right _ hr)
      · intro n hN hX
        obtain ⟨r, hr, hmem, hb⟩ := stable_supported hs n hX
        rcases List.mem_append.mp hr with hrP | hrE
        · have := hP r hrP n hmem
          rw [this] at hN; cases hN
        · exact ⟨r, hrE, hmem, hb⟩
    refine ⟨hgood, ?_, ?_⟩
    · exact (evalProg_sat_iff P E N hP hE X X (cut N X) (cut N X) (fun _ _ => rfl) hcutT hcutT).mp
        (fun r hr => hs.1 r (List.mem_append_left _ hr))
    · intro H0 hle hsat a
      let H := glue N H0 X
      have hH0le : Le H0 X := by
        intro b hb
        have := hle b hb
        simp only [cut, Bool.and_eq_true] at this
        exact this.1
      have hleH : Le H X := by
        intro b hb
        simp only [H, glue] at hb
        split at hb
        · exact hb
        · exact hH0le b hb
      have hHN : ∀ b, N b = true → H b = X b := by intro b hb; simp [H, glue, hb]
      have hH0 : ∀ b, N b = false → H0 b = H b := by intro b hb; simp [H, glue, hb]
      have hsatH : ∀ r ∈ P ++ E, r.sat H X = true := by
        intro r hr
        rcases List.mem_append.mp hr with hrP | hrE
        · exact (evalProg_sat_iff P E N hP hE H X H0 (cut N X) hHN hH0 hcutT).mpr hsat r hrP
        · have hX := hs.1 r hr
          -- as in `eshape_sat_glue`
          rcases hE r hrE with ⟨hc, hp, hn, hnn, hNh⟩ | ⟨hh, hc⟩ | ⟨hc, hp, w, hh, hNw⟩
          · simp only [Rule.sat, Rule.headHolds, hc, if_true, Bool.or_eq_true, Bool.not_eq_true', List.all_eq_true]
            right
            intro b hb
            simp [H, glue, hNh b hb]
          · simp only [Rule.sat, Rule.headHolds, hh, hc, Bool.false_eq_true, if_false, List.any_nil, Bool.or_false,
              Bool.not_eq_true'] at hX ⊢
            cases hb : r.bodyHolds H X
            · rfl
            · rw [body_mono hleH hb] at hX; cases hX
          · simp only [Rule.sat, body_nopos hp, Rule.headHolds, hc, hh, Bool.false_eq_true, if_false, List.any_cons,
              List.any_nil, Bool.or_false] at hX ⊢
            simpa [H, glue, hNw] using hX
      have heq := hs.2 H hleH hsatH a
      by_cases hN : N a = true
      · have h0 : cut N X a = false := by simp [cut, hN]
        rw [h0]
        cases hh : H0 a
        · rfl
        · have := hle a hh; rw [h0] at this; cases this
      · have hN' : N a = false := by
          cases h : N a
          · rfl
          · exact absurd h hN
        rw [hH0 a hN', heq, hcutT a hN']
  · rintro ⟨hgood, hst⟩
    constructor
    · intro r hr
      rcases List.mem_append.mp hr with hrP | hrE
      · exact (evalProg_sat_iff P E N hP hE X X (cut N X) (cut N X) (fun _ _ => rfl) hcutT hcutT).mpr hst.1 r hrP
      · exact hgood.1 r hrE
    · intro H hle hsat a
      -- first the fresh atoms
      have hHN : ∀ b, N b = true → H b = X b := by
        intro b hN
        cases hY : X b
        · cases hh : H b
          · rfl
          · have := hle b hh; rw [hY] at this; cases this
        · obtain ⟨r, hr, hmem, hbody⟩ := hgood.2 b hN hY
          have hrs := hsat r (List.mem_append_right _ hr)
          rcases hE r hr with ⟨hc, hp, hn, hnn, _⟩ | ⟨hh, _⟩ | ⟨hc, hp, w, hh, _⟩
          · simp only [Rule.sat, Rule.bodyHolds, hp, hn, hnn, List.all_nil, Bool.and_self, Bool.not_true, Bool.false_or,
              Rule.headHolds, hc, if_true, List.all_eq_true, Bool.or_eq_true, Bool.not_eq_true'] at hrs
            rcases hrs b hmem with h1 | h1
            · exact h1
            · rw [hY] at h1; cases h1
          · rw [hh] at hmem; cases hmem
          · rw [hh] at hmem
            have haw : b = w := by simpa using hmem
            subst haw
            simp only [Rule.sat, body_nopos hp, hbody, Bool.not_true, Bool.false_or, Rule.headHolds, hc,
              Bool.false_eq_true, if_false, hh, List.any_cons, List.any_nil, Bool.or_false] at hrs
            exact hrs
      -- then the old ones, through the evaluated program
      let H0 : Interp α := cut N H
      have hH0 : ∀ b, N b = false → H0 b = H b := by intro b hb; simp [H0, cut, hb]
      have hle0 : Le H0 (cut N X) := by
        intro b hb
        simp only [H0, cut, Bool.and_eq_true] at hb ⊢
        exact ⟨hle b hb.1, hb.2⟩
      have hsat0 : ∀ r' ∈ evalProg N X P, r'.sat H0 (cut N X) = true :=
        (evalProg_sat_iff P E N hP hE H X H0 (cut N X) hHN hH0 hcutT).mp (fun r hr => hsat r (List.mem_append_left _ hr))
      have heq0 := hst.2 H0 hle0 hsat0 a
      by_cases hN : N a = true
      · exact hHN a hN
      · have hN' : N a = false := by
          cases h : N a
          · rfl
          · exact absurd h hN
        rw [← hH0 a hN', heq0, hcutT a hN']

end

end TelProofs.DefExt
