/-
C06 (c): `translate_elements` builds the conjunction, over the ground elements of a theory atom, of
"condition implies element formula" — whatever the number and order of the elements (it sorts by representation).
-/
import TelModel.BodySem
import TelProofs.PyLemmas

namespace TelProofs
open TelSpec TelModel

variable (h : Nat) (tr : Trace) (lv : Int → Bool) (k : Nat)

theorem all_insertByRep (p : BForm → Bool) (x : BForm) (l : List BForm) :
    (insertByRep x l).all p = (p x && l.all p) := by
  induction l with
  | nil => simp [insertByRep]
  | cons y ys ih =>
    simp only [insertByRep]
    split
    · simp
    · simp only [List.all_cons, ih]
      cases p x <;> cases p y <;> simp

theorem all_sortByRep (p : BForm → Bool) (l : List BForm) : (sortByRep l).all p = l.all p := by
  induction l with
  | nil => rfl
  | cons y ys ih => simp only [sortByRep, List.foldr_cons] at ih ⊢; rw [all_insertByRep, ih]; rfl

theorem sem_foldl_and (f : BForm) (rest : List BForm) :
    (rest.foldl (fun acc x => BForm.bin "&" acc x) f).sem h tr lv k = (f.sem h tr lv k && rest.all fun g => g.sem h tr lv k) := by
  induction rest generalizing f with
  | nil => simp
  | cons g gs ih =>
    simp only [List.foldl_cons, ih, List.all_cons, BForm.sem, binSem]
    simp [Bool.and_assoc]

/-- `translate_conjunction` -/
theorem conj_sem (fs : List BForm) :
    (translateConjunction fs).sem h tr lv k = fs.all fun f => f.sem h tr lv k := by
  unfold translateConjunction
  rw [← all_sortByRep (fun f => f.sem h tr lv k) fs]
  cases sortByRep fs with
  | nil => rfl
  | cons f rest => simp only [sem_foldl_and, List.all_cons]

/-- one element: `condition -> formula`, the condition being a conjunction of program literals -/
def elemSem (f : BForm) (cond : List Int) : Bool := !(cond.all lv) || f.sem h tr lv k

theorem cond_sem (cond : List Int) : (translateConjunction (cond.map BForm.numLit)).sem h tr lv k = cond.all lv := by
  rw [conj_sem]
  simp [List.all_map, BForm.sem, Function.comp_def]

/-- … it means "condition implies element formula" -/
theorem element_sem (e : TElem) (dyn : Bool) (f w : BForm)
    (hf : (if dyn then createDynamicFormula e.term else createFormula e.term) = .ok f)
    (hw : elemFormula e dyn = .ok w) : w.sem h tr lv k = elemSem h tr lv k f e.cond := by
  unfold elemFormula at hw
  rw [hf] at hw
  simp only [ok_bind] at hw
  split at hw
  · cases hw
    simp only [BForm.sem, binSem, cond_sem, elemSem]
    simp
  · rename_i hc
    cases hw
    have : e.cond = [] := by
      cases hcc : e.cond with
      | nil => rfl
      | cons a as => rw [hcc] at hc; simp at hc
    simp [elemSem, this]

/-- **elements_sem**: the formula of a theory atom is the conjunction of its element formulas, for any number of
    elements in any order -/
theorem elements_sem (els : List TElem) (dyn : Bool) (f : BForm) (hf : translateElements els dyn = .ok f) :
    ∃ ws, els.mapM (fun e => elemFormula e dyn) = .ok ws ∧ f.sem h tr lv k = ws.all fun w => w.sem h tr lv k := by
  unfold translateElements at hf
  cases hws : (els.mapM fun e => elemFormula e dyn) with
  | error er => rw [hws] at hf; cases hf
  | ok ws =>
    rw [hws] at hf
    simp only [ok_bind, py_pure] at hf
    cases hf
    exact ⟨ws, rfl, conj_sem h tr lv k ws⟩

end TelProofs
