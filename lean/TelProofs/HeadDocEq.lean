/-
C04 (a): the head `create_formula` (telingo/theory/head.py) implements the documented reading of every operator
admitted in rule heads — for every head-admissible surface formula, the code-level formula built from its theory
term has, in every world of every temporal here-and-there interpretation, the value the specification `tht` gives
the surface formula.
-/
import TelProofs.DocEq
import TelProofs.HeadShift

set_option linter.unusedSimpArgs false
set_option linter.unusedVariables false

namespace TelProofs
open TelSpec TelModel TelModel.Generated

def HeadDocEq (s : SForm) (f : HForm) : Prop :=
  noShift f = true ∧ ∀ (h : Nat) (W T : Trace) (k : Nat), k ≤ h →
    hsem h (withAdmin h W) (withAdmin h T) f k = tht h W T s k

theorem withAdmin_good (h : Nat) (W : Trace) (k : Nat) (a : String) (h4 : a ≠ "__initial") (h5 : a ≠ "__final") :
    withAdmin h W k a = W k a := by simp [withAdmin, h4, h5]

theorem head_doc_eq (s : SForm) (hok : s.headOk = true) (hg : GoodAtoms s) :
    ∃ f, hCreateFormula (toTerm s) = .ok f ∧ HeadDocEq s f := by
  induction s with
  | atom a =>
    obtain ⟨h1, h2, h3, h4, h5⟩ := hg
    refine ⟨.atom true a [], by simp [toTerm, hCreateFormula, hCreateAtom], rfl, ?_⟩
    intro h W T k _
    simp [hsem, atomKey_prop a h1, withAdmin_good h W k a h4 h5, tht]
  | kw k =>
    cases k
    · exact ⟨.const true, by simp [toTerm, kwStr, hCreateFormula, unaryOperators, telOperators, kwName], rfl,
        fun h W T k _ => by simp [hsem, tht]⟩
    · exact ⟨.const false, by simp [toTerm, kwStr, hCreateFormula, unaryOperators, telOperators, kwName], rfl,
        fun h W T k _ => by simp [hsem, tht]⟩
    · exact ⟨.neg (.neg (.atom true "__initial" [])),
        by simp [toTerm, kwStr, hCreateFormula, unaryOperators, telOperators, kwName], rfl,
        fun h W T k _ => by simp [hsem, atomKey, Sym.toStr, withAdmin, tht]⟩
    · exact ⟨.neg (.neg (.atom true "__final" [])),
        by simp [toTerm, kwStr, hCreateFormula, unaryOperators, telOperators, kwName], rfl,
        fun h W T k _ => by simp [hsem, atomKey, Sym.toStr, withAdmin, tht]⟩
  | neg f ih =>
    simp only [SForm.headOk] at hok
    obtain ⟨f', hc, hn, hs⟩ := ih hok hg
    refine ⟨.neg f', by simp [toTerm, hCreateFormula, unaryOperators, hc], by simpa [noShift] using hn, ?_⟩
    intro h W T k hk
    simp only [hsem, hs h T T k hk, tht]
  | bin op l r ihl ihr =>
    cases op with
    | and =>
      simp only [SForm.headOk, Bool.and_eq_true] at hok
      obtain ⟨l', hcl, hnl, hsl⟩ := ihl hok.1 hg.1
      obtain ⟨r', hcr, hnr, hsr⟩ := ihr hok.2 hg.2
      refine ⟨.clause2 l' r' true, by simp [toTerm, binStr, hCreateFormula, binaryOperators, hcl, hcr],
        by simp [noShift, hnl, hnr], ?_⟩
      intro h W T k hk
      simp only [hsem, hsl h W T k hk, hsr h W T k hk, tht]
    | or =>
      simp only [SForm.headOk, Bool.and_eq_true] at hok
      obtain ⟨l', hcl, hnl, hsl⟩ := ihl hok.1 hg.1
      obtain ⟨r', hcr, hnr, hsr⟩ := ihr hok.2 hg.2
      refine ⟨.clause2 l' r' false, by simp [toTerm, binStr, hCreateFormula, binaryOperators, hcl, hcr],
        by simp [noShift, hnl, hnr], ?_⟩
      intro h W T k hk
      simp only [hsem, hsl h W T k hk, hsr h W T k hk, tht]
    | limp => simp [SForm.headOk] at hok
    | rimp => simp [SForm.headOk] at hok
    | equiv => simp [SForm.headOk] at hok
  | prev n w f ih => simp [SForm.headOk] at hok
  | next n w f ih =>
    simp only [SForm.headOk] at hok
    obtain ⟨f', hc, hn, hs⟩ := ih hok hg
    by_cases hn1 : n = 1
    · subst hn1
      refine ⟨.next 1 f' w, ?_, by simpa [noShift] using hn, ?_⟩
      · cases w <;> simp [toTerm, hCreateFormula, unaryOperators, telOperators, pastOps, hc]
      · intro h W T k hk
        simp only [hsem, tht]
        split
        · rename_i hle; exact hs h W T (k + 1) hle
        · rfl
    · by_cases hn0 : n = 0
      · subst hn0
        refine ⟨f', ?_, hn, ?_⟩
        · cases w <;> simp [toTerm, hCreateFormula, binaryOperators, telOperators, pastOps, hc, createOffset_zero]
        · intro h W T k hk
          simp only [tht, Nat.add_zero, hk, if_true]
          exact hs h W T k hk
      · refine ⟨.next n f' w, ?_, by simpa [noShift] using hn, ?_⟩
        · cases w <;> simp [toTerm, hn1, hCreateFormula, binaryOperators, telOperators, pastOps, hc, createOffset_num, hn0]
        · intro h W T k hk
          simp only [hsem, tht]
          split
          · rename_i hle; exact hs h W T (k + n) hle
          · rfl
  | since l r ihl ihr => simp [SForm.headOk] at hok
  | trigger l r ihl ihr => simp [SForm.headOk] at hok
  | evP r ih => simp [SForm.headOk] at hok
  | alP r ih => simp [SForm.headOk] at hok
  | unt l r ihl ihr =>
    simp only [SForm.headOk, Bool.and_eq_true] at hok
    obtain ⟨l', hcl, hnl, hsl⟩ := ihl hok.1 hg.1
    obtain ⟨r', hcr, hnr, hsr⟩ := ihr hok.2 hg.2
    refine ⟨.until2 l' r' true, by simp [toTerm, hCreateFormula, binaryOperators, telOperators, pastOps, hcl, hcr],
      by simp [noShift, hnl, hnr], ?_⟩
    intro h W T k hk
    rw [tht_unt]
    simp only [hsem]
    exact untilB_congr (fun j hj => hsl h W T j hj) (fun j hj => hsr h W T j hj)
  | rel l r ihl ihr =>
    simp only [SForm.headOk, Bool.and_eq_true] at hok
    obtain ⟨l', hcl, hnl, hsl⟩ := ihl hok.1 hg.1
    obtain ⟨r', hcr, hnr, hsr⟩ := ihr hok.2 hg.2
    refine ⟨.until2 l' r' false, by simp [toTerm, hCreateFormula, binaryOperators, telOperators, pastOps, hcl, hcr],
      by simp [noShift, hnl, hnr], ?_⟩
    intro h W T k hk
    rw [tht_rel]
    simp only [hsem]
    exact releaseB_congr (fun j hj => hsl h W T j hj) (fun j hj => hsr h W T j hj)
  | evF r ih =>
    simp only [SForm.headOk] at hok
    obtain ⟨r', hcr, hnr, hsr⟩ := ih hok hg
    refine ⟨.until1 r' true, by simp [toTerm, hCreateFormula, unaryOperators, telOperators, pastOps, hcr],
      by simpa [noShift] using hnr, ?_⟩
    intro h W T k hk
    rw [tht_evF]
    simp only [hsem]
    exact evFB_congr (fun j hj => hsr h W T j hj)
  | alF r ih =>
    simp only [SForm.headOk] at hok
    obtain ⟨r', hcr, hnr, hsr⟩ := ih hok hg
    refine ⟨.until1 r' false, by simp [toTerm, hCreateFormula, unaryOperators, telOperators, pastOps, hcr],
      by simpa [noShift] using hnr, ?_⟩
    intro h W T k hk
    rw [tht_alF]
    simp only [hsem]
    exact alFB_congr (fun j hj => hsr h W T j hj)
  | initially f ih => simp [SForm.headOk] at hok
  | finally_ f ih =>
    simp only [SForm.headOk] at hok
    obtain ⟨f', hc, hn, hs⟩ := ih hok hg
    refine ⟨.until1 (.clause2 (.neg (.atom true "__final" [])) f' false) false,
      by simp [toTerm, hCreateFormula, unaryOperators, telOperators, pastOps, hc], by simpa [noShift] using hn, ?_⟩
    intro h W T k hk
    simp only [hsem, tht]
    have e : (fun j => (!(withAdmin h T j (atomKey "__final" [] true))) || hsem h (withAdmin h W) (withAdmin h T) f' j) =
        (fun j => !(j == h) || hsem h (withAdmin h W) (withAdmin h T) f' j) := by
      funext j; simp [atomKey, Sym.toStr, withAdmin]
    rw [e, alFB_final h _ k hk]
    exact hs h W T h (Nat.le_refl _)
  | seqPrev w l r ihl ihr => simp [SForm.headOk] at hok
  | seqNext w l r ihl ihr =>
    simp only [SForm.headOk, Bool.and_eq_true] at hok
    obtain ⟨l', hcl, hnl, hsl⟩ := ihl hok.1 hg.1
    obtain ⟨r', hcr, hnr, hsr⟩ := ihr hok.2 hg.2
    refine ⟨.clause2 l' (.next 1 r' w) true, ?_, by simp [noShift, hnl, hnr], ?_⟩
    · cases w <;> simp [toTerm, hCreateFormula, binaryOperators, telOperators, pastOps, hcl, hcr]
    · intro h W T k hk
      simp only [hsem, tht, hsl h W T k hk]
      congr 1
      split
      · rename_i hle; exact hsr h W T (k + 1) hle
      · rfl

end TelProofs
