/-
The auxiliary atom of a head formula carries exactly the variables of the formula: two ground instances of the rule
with the same auxiliary atom have the same head formula.
-/
import TelModel.HeadVars

namespace TelProofs
open TelModel

theorem mem_insertU (a x : String) : ∀ l : List String, a ∈ insertU x l ↔ a = x ∨ a ∈ l
  | [] => by simp [insertU]
  | y :: ys => by
    unfold insertU
    by_cases h1 : (x == y) = true
    · have : x = y := by simpa using h1
      subst this
      simp only [h1, if_true, List.mem_cons]
      constructor
      · intro h; exact Or.inr h
      · rintro (h | h)
        · exact Or.inl h
        · exact h
    · simp only [h1, Bool.false_eq_true, if_false]
      by_cases h2 : x < y
      · simp only [h2, if_true, List.mem_cons]
      · simp only [h2, if_false, List.mem_cons, mem_insertU a x ys]
        constructor
        · rintro (h | h | h)
          · exact Or.inr (Or.inl h)
          · exact Or.inl h
          · exact Or.inr (Or.inr h)
        · rintro (h | h | h)
          · exact Or.inr (Or.inl h)
          · exact Or.inl h
          · exact Or.inr (Or.inr h)

theorem mem_foldl_insertU (a : String) : ∀ (xs acc : List String),
    a ∈ xs.foldl (fun acc x => insertU x acc) acc ↔ a ∈ xs ∨ a ∈ acc
  | [], acc => by simp
  | x :: xs, acc => by
    simp only [List.foldl_cons, mem_foldl_insertU a xs, mem_insertU, List.mem_cons]
    constructor
    · rintro (h | h | h)
      · exact Or.inl (Or.inr h)
      · exact Or.inl (Or.inl h)
      · exact Or.inr h
    · rintro ((h | h) | h)
      · exact Or.inr (Or.inl h)
      · exact Or.inl h
      · exact Or.inr (Or.inr h)

/-- `get_variables` returns exactly the variables that occur -/
theorem mem_getVariables (t : HTerm) (x : String) : x ∈ getVariables t ↔ x ∈ t.varsOf := by
  simp [getVariables, mem_foldl_insertU]

/-- insertion keeps the list strictly increasing (hence free of repetitions) -/
theorem insertU_sorted (x : String) : ∀ l : List String, l.Pairwise (· < ·) → (insertU x l).Pairwise (· < ·)
  | [], _ => by simp [insertU]
  | y :: ys, h => by
    unfold insertU
    rw [List.pairwise_cons] at h
    by_cases h1 : (x == y) = true
    · simp only [h1, if_true]; exact List.pairwise_cons.mpr h
    · simp only [h1, Bool.false_eq_true, if_false]
      have hne : x ≠ y := by simpa using h1
      by_cases h2 : x < y
      · simp only [h2, if_true]
        refine List.pairwise_cons.mpr ⟨?_, List.pairwise_cons.mpr h⟩
        intro z hz
        rcases List.mem_cons.mp hz with rfl | hz
        · exact h2
        · exact String.lt_trans h2 (h.1 z hz)
      · simp only [h2, if_false]
        have hyx : y < x := Std.lt_of_le_of_ne (String.not_lt.mp h2) (Ne.symm hne)
        refine List.pairwise_cons.mpr ⟨?_, insertU_sorted x ys h.2⟩
        intro z hz
        rcases (mem_insertU z x ys).mp hz with rfl | hz
        · exact hyx
        · exact h.1 z hz

theorem foldl_insertU_sorted : ∀ (xs acc : List String), acc.Pairwise (· < ·) →
    (xs.foldl (fun acc x => insertU x acc) acc).Pairwise (· < ·)
  | [], acc, h => h
  | x :: xs, acc, h => foldl_insertU_sorted xs (insertU x acc) (insertU_sorted x acc h)

/-- the variable tuple is strictly increasing: no repetition, and an order that depends on the names only -/
theorem getVariables_sorted (t : HTerm) : (getVariables t).Pairwise (· < ·) :=
  foldl_insertU_sorted _ [] List.Pairwise.nil

/-- strictly increasing lists with the same members are equal -/
theorem sorted_ext : ∀ (l m : List String), l.Pairwise (· < ·) → m.Pairwise (· < ·) → (∀ x, x ∈ l ↔ x ∈ m) → l = m
  | [], [], _, _, _ => rfl
  | [], b :: m, _, _, h => by have := (h b).mpr (by simp); simp at this
  | a :: l, [], _, _, h => by have := (h a).mp (by simp); simp at this
  | a :: l, b :: m, hl, hm, h => by
    rw [List.pairwise_cons] at hl hm
    have hab : a = b := by
      have h1 : a = b ∨ a ∈ m := by simpa using (h a).mp (by simp)
      have h2 : b = a ∨ b ∈ l := by simpa using (h b).mpr (by simp)
      rcases h1 with h1 | h1
      · exact h1
      · rcases h2 with h2 | h2
        · exact h2.symm
        · exact absurd (hl.1 b h2) (String.lt_asymm (hm.1 a h1))
    subst hab
    congr 1
    apply sorted_ext l m hl.2 hm.2
    intro x
    constructor
    · intro hx
      have : x = a ∨ x ∈ m := by simpa using (h x).mp (by simp [hx])
      rcases this with rfl | hx'
      · exact absurd (hl.1 x hx) (String.lt_irrefl x)
      · exact hx'
    · intro hx
      have : x = a ∨ x ∈ l := by simpa using (h x).mpr (by simp [hx])
      rcases this with rfl | hx'
      · exact absurd (hm.1 x hx) (String.lt_irrefl x)
      · exact hx'

/-- the variable tuple depends on the *set* of variables only — not on where, how often or in which order they occur -/
theorem getVariables_set (t t' : HTerm) (h : ∀ x, x ∈ t.varsOf ↔ x ∈ t'.varsOf) : getVariables t = getVariables t' :=
  sorted_ext _ _ (getVariables_sorted t) (getVariables_sorted t')
    (fun x => by rw [mem_getVariables, mem_getVariables]; exact h x)

mutual
theorem hsubst_congr (σ σ' : String → HTerm) : ∀ t : HTerm, (∀ x ∈ t.varsOf, σ x = σ' x) → t.subst σ = t.subst σ'
  | .num n, _ => rfl
  | .sym s, _ => rfl
  | .var x, h => by simp only [HTerm.subst]; exact h x (by simp [HTerm.varsOf])
  | .fn name args, h => by
    simp only [HTerm.subst]; rw [hsubstL_congr σ σ' args (by simpa [HTerm.varsOf] using h)]
  | .tuple args, h => by
    simp only [HTerm.subst]; rw [hsubstL_congr σ σ' args (by simpa [HTerm.varsOf] using h)]
  | .seq args, h => by
    simp only [HTerm.subst]; rw [hsubstL_congr σ σ' args (by simpa [HTerm.varsOf] using h)]
theorem hsubstL_congr (σ σ' : String → HTerm) : ∀ ts : List HTerm, (∀ x ∈ HTerm.varsOfL ts, σ x = σ' x) →
    HTerm.substL σ ts = HTerm.substL σ' ts
  | [], _ => rfl
  | t :: ts, h => by
    simp only [HTerm.substL]
    rw [hsubst_congr σ σ' t (fun x hx => h x (by simp [HTerm.varsOfL, hx])),
        hsubstL_congr σ σ' ts (fun x hx => h x (by simp [HTerm.varsOfL, hx]))]
end

/-- **the auxiliary atom identifies the instance**: substitutions that give the auxiliary atom's variable tuple the same
    values give the same instance of the head formula -/
theorem aux_identifies_instance (t : HTerm) (σ σ' : String → HTerm)
    (h : (getVariables t).map σ = (getVariables t).map σ') : t.subst σ = t.subst σ' := by
  apply hsubst_congr
  intro x hx
  have hm : x ∈ getVariables t := (mem_getVariables t x).mpr hx
  exact List.map_inj_left.mp h x hm

end TelProofs
