/-
C07 — temporal formulas are parsed with the documented precedence and associativity.

  * `tables_agree`      the three operator tables that live in the source (`#theory tel` body and head term
                        definitions, `#theory del`, `TheoryParser.table`; all regenerated from /repo on every run)
                        are the documented tables `TelSpec.docBody/docHead/docDel`
  * `*_pairs_triples`   for every operator pair and triple (unary × binary × binary with the unary operator in
                        front of any operand; unary × unary) the stack machine of `TheoryParser.parse` — and the
                        same machine as the model of gringo's parser with the `#theory` tables — reads the token
                        string exactly as the documented precedence-climbing rule `TelSpec.docRead`; the
                        quantifier is this finite set, enumerated completely and evaluated by the kernel
  * `head_sub_body`     the head table is the restriction of the body table: heads and bodies read alike
  * `arith_prefix`      arithmetic in n-fold prefixes is evaluated
-/
import TelProofs.ParserProofs
import TelProofs.ParserBody
import TelProofs.PyLemmas
import TelModel.Term

namespace TelProofs.C07
open TelSpec TelModel TelModel.Generated TelProofs

theorem tables_agree :
    sameEntries (bodyTable.map OpEntry.toDoc) docBody = true ∧
    sameEntries (headTableTheory.map OpEntry.toDoc) docHead = true ∧
    sameEntries (headTablePy.map OpEntry.toDoc) docHead = true ∧
    sameEntries (delTable.map OpEntry.toDoc) docDel = true := TelProofs.tables_agree

theorem head_sub_body : (headTablePy.all fun e => bodyTable.contains e) = true := TelProofs.head_sub_body

theorem head_pairs_triples : allAgree headTablePy docHead = true := TelProofs.head_pairs_triples
theorem head_theory_pairs_triples : allAgree headTableTheory docHead = true := TelProofs.head_theory_pairs_triples
theorem del_pairs_triples : allAgree delTable docDel = true := TelProofs.del_pairs_triples
theorem body_pairs_triples : allAgree bodyTable docBody = true := TelProofs.body_pairs_triples

/-- what the enumeration theorems say about one element list -/
theorem agree_spec (tbl : List OpEntry) (doc : List DocOp) (elems : List UElem) (h : agree tbl doc elems = true) :
    ∃ t, stackParse tbl elems = .ok t ∧ docRead doc (toToks elems) = some t := by
  unfold agree at h
  split at h
  · rename_i t t' h1 h2
    exact ⟨t, h1, by rw [h2, beq_iff_eq.mp h]⟩
  · cases h

/-- arithmetic expressions over non-negative numbers, as they may occur in an n-fold prefix -/
inductive Arith where
  | num (n : Nat)
  | add (a b : Arith)
  | sub (a b : Arith)
  | neg (a : Arith)

def Arith.eval : Arith → Int
  | .num n => n
  | .add a b => a.eval + b.eval
  | .sub a b => a.eval - b.eval
  | .neg a => -a.eval

def Arith.toTerm : Arith → TTerm
  | .num n => .num n
  | .add a b => .fn "+" [a.toTerm, b.toTerm]
  | .sub a b => .fn "-" [a.toTerm, b.toTerm]
  | .neg a => .fn "-" [a.toTerm]

/-- `create_number` evaluates the arithmetic of an n-fold prefix -/
theorem arith_prefix (e : Arith) : createNumber e.toTerm = .ok e.eval := by
  induction e with
  | num n => simp [Arith.toTerm, createNumber, Arith.eval]
  | add a b iha ihb => simp [Arith.toTerm, createNumber, arithmeticOperators, iha, ihb, Arith.eval]
  | sub a b iha ihb => simp [Arith.toTerm, createNumber, arithmeticOperators, iha, ihb, Arith.eval]
  | neg a iha => simp [Arith.toTerm, createNumber, iha, Arith.eval]

/-! ### non-vacuity: `~ 2 > a` is read as `~ (2 > a)`, `a & > b | c` as `(a & (> b)) | c` -/
example : docRead docBody [.op "~", .leaf 0, .op ">", .leaf 1] = some (.un "~" (.bin ">" (.leaf 0) (.leaf 1))) := by decide
example : stackParse headTablePy [⟨[], 0⟩, ⟨["&", ">"], 1⟩, ⟨["|"], 2⟩]
    = .ok (.bin "|" (.bin "&" (.leaf 0) (.un ">" (.leaf 1))) (.leaf 2)) := by rfl

end TelProofs.C07
