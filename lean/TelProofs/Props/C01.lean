/-
C01 — core temporal rules yield exactly the temporal stable models at every horizon.

Specification: `TelSpec.TSM h P T` — temporal stable models (temporal equilibrium logic on traces of
length h+1) of a ground temporal program of the typed fragment.
Model: `TelModel.G P h` — what clingo holds after the incremental history of steps 0..h as `imain`
drives it: per step the instances of the parts selected by the *generated* `partCond`, atoms unknown
at grounding time frozen to false, `__initial(0)`, `__final(h)` the only true external.
Theorem: for every program of the core fragment (every head form × body literal form × part) and
every horizon, the stable models of `G P h` are exactly the embeddings of the temporal stable models.
-/
import TelProofs.CoreEquiv
import TelModel.Generated.Directive
import TelProofs.Enumerator

namespace TelProofs.C01
open TelSpec TelModel TelModel.Generated TelProofs

/-- E2: the part-selection test of `imain`, as regenerated from the source, selects exactly
    always for `t ≥ 0`, dynamic for `t > 0`, initial for `t = 0` (with `t = step - i`) -/
theorem partCond_spec (root : String) (step i : Int) :
    partCond root step i = true ↔
      (root = "always" ∧ 0 ≤ step - i) ∨ (root = "dynamic" ∧ 0 < step - i) ∨ (root = "initial" ∧ step - i = 0) :=
  TelProofs.partCond_spec root step i

/-- the `ground` call of `imain` at step `s` (layer L2 call log) instantiates exactly the part
    instances the ground-program model uses -/
theorem ground_call_eq (P : TProg) (s : Nat) :
    groundParts (partsOf P) s = (selected P s).map fun pt => ⟨pt.1.name, pt.2, (s : Int)⟩ :=
  groundParts_eq_selected P s

/-- the part name as written in a `#program` directive -/
def partName : Part → String
  | .initial => "initial" | .always => "always" | .dynamic => "dynamic" | .final => "final"

/-- E11: `visit_Program`, as regenerated from the source, says what the documentation says: `final` becomes `always`
    with the final flag set, `base` is `initial`, every other name is kept, no flag -/
theorem directive_spec (n : String) :
    Generated.visitProgram n =
      if n = "final" then ("always", true, "always") else if n = "base" then ("initial", false, "initial") else (n, false, n) := by
  unfold Generated.visitProgram
  by_cases h1 : n = "final"
  · subst h1; decide
  · by_cases h2 : n = "base"
    · subst h2; decide
    · simp [h1, h2]

/-- … and the model's rule classification (`rootOf`, the `__final(t)` literal added exactly for the final part) is what
    that directive handling does to the four parts -/
theorem directive_parts (p : Part) :
    Generated.visitProgram (partName p) = ((rootOf p).name, p == .final, (rootOf p).name) := by
  cases p <;> decide

theorem directive_base : Generated.visitProgram "base" = ("initial", false, "initial") := by decide

/-- a ground instance at time `k` means what the temporal rule means at position `k` -/
theorem instance_reading (h : Nat) (W T : Trace) (k : Nat) (hk : k ≤ h) (r : TRule) (hc : ruleCore r = true) :
    (match instAt k (k : Int) none r with
     | some r' => r'.sat (embed h W) (embed h T)
     | none => true) =
    (!(r.body.all (BLit.holds h W T k) && (if r.part == .final then k == h else true)) || r.head.holds h W T k) :=
  inst_sat h W T k hk r hc

/-- **C01**: at every horizon `h`, reached through the incremental history `0..h`, the stable models of
    the accumulated ground program are exactly the temporal stable models (no unsupported atom, no
    missing or extra trace). -/
theorem C01_core (P : TProg) (hc : progCore P = true) (h : Nat) :
    (∀ X, Stable (G P h) X → TSM h P (traceOf X) ∧ X = embed h (traceOf X)) ∧
    (∀ T, TSM h P T → Stable (G P h) (embed h T)) :=
  core_stable_iff P hc h

/-- projected to user atoms: the traces of the answer sets at horizon `h` are the temporal stable models -/
theorem C01_traces (P : TProg) (hc : progCore P = true) (h : Nat) (T : Trace) :
    (∃ X, Stable (G P h) X ∧ TraceEq h (traceOf X) T) ↔ (∃ T', TSM h P T' ∧ TraceEq h T' T) := by
  constructor
  · rintro ⟨X, hs, heq⟩
    exact ⟨traceOf X, ((C01_core P hc h).1 X hs).1, heq⟩
  · rintro ⟨T', hT, heq⟩
    refine ⟨embed h T', (C01_core P hc h).2 T' hT, ?_⟩
    intro k hk a
    rw [traceOf_embed h T' k hk a]
    exact heq k hk a

/-- the oracle of the searches is the specification: `telspec tsm` prints exactly the masks whose trace is a (consistent)
    temporal stable model — for programs with any rule heads incl. `&tel` head formulas and body literals incl. `&tel`,
    over the enumerated atoms, at every horizon (used by the searches of C01, C02, C04, C06, C09, C12, C13, C17) -/
theorem enumerator_is_spec (atoms : List String) (h : Nat) (P : TProg) (hnd : atoms.Nodup)
    (hP : ∀ r ∈ P, ruleOver atoms r = true) (m : Nat) :
    m ∈ tsmMasks h atoms P ↔
      m < 2 ^ (atoms.length * (h + 1)) ∧ TSM h P (maskTrace atoms m) ∧ consistent h atoms (maskTrace atoms m) = true :=
  mem_tsmMasks atoms h P hnd hP m

/-- … and it prints all of them: every consistent temporal stable model appears (as the mask of its trace) -/
theorem enumerator_complete (atoms : List String) (h : Nat) (P : TProg) (hnd : atoms.Nodup)
    (hP : ∀ r ∈ P, ruleOver atoms r = true) (T : Trace) (hT : TSM h P T) (hc : consistent h atoms T = true) :
    traceMask atoms h T ∈ tsmMasks h atoms P ∧ TraceEq h (maskTrace atoms (traceMask atoms h T)) T :=
  tsm_enumerated atoms h P hnd hP T hT hc

/-! ### non-vacuity -/
example : ruleOver ["a", "b"] ⟨.dynamic, .disj ["a", "b"], [.atom .not "a" (-1), .tel .notnot (.since (.atom "a") (.atom "b"))]⟩ = true := by decide


/-- a program using past atoms, `_p`, `&final`, disjunction, choice, all four parts is in the fragment -/
example : progCore [⟨.initial, .choice ["a", "b"], []⟩,
                    ⟨.dynamic, .disj ["a", "b"], [.atom .not "a" (-1), .init .notnot "b"]⟩,
                    ⟨.always, .atom "c" 0, [.atom .pos "a" (-2), .kw .not .kinitial]⟩,
                    ⟨.final, .falsum, [.atom .pos "c" 0, .kw .pos .kfinal]⟩] = true := by decide

end TelProofs.C01
