/-
C04 — `&tel` head formulas derive atoms according to temporal here-and-there semantics.

What is proved (about the model of telingo/theory/head.py, which is tied to the code by comparing
`create_formula`, `shift_formula`, `unfold_formula` of the implementation with the model on generated head
formulas — exact equality of representations at every shift):
  (a) head_doc_eq     the head `create_formula` implements the documented reading: for every head-admissible surface
                      formula (README operator table, any nesting) the code-level formula built from its theory term
                      has the specification's THT value `tht` in every world of every interpretation — `>>`, `;>`, `;>:`,
                      `&initial`/`&final` (double negation), 0-fold and n-fold next included
  (a)+(b)+(c) head_clauses_mean_formula   the clauses emitted d steps after the formula's own step hold exactly when the
                      documented formula holds at its step
  (a') range_adequate / emitted_heads_in_ranges   the time ranges computed for the atoms of a head formula (the recursion of
                      `TheoryAtomTransformer`: next operators move the range, unbounded operators make it a ray, nothing
                      below `~`) cover every atom that stands in a clause of the formula shifted by d steps: the domain rule
                      introduces every atom the step-wise translation can put into a rule head
  (b) unshift_equiv   the formula shifted by d steps (the recursion until → next → shift of `ShiftFormula`)
                      means, d states later, what the formula means now, in every THT world; termination of
                      that recursion is part of the definition's acceptance by Lean
  (c) unfold_cnf      `unfold_formula` is distribution into conjunctive normal form
  (e) emitted_rule_reads_clause / head_as_body / emitted_rules_total   the rule `ClauseToRule` / `translate_clause` emit for a
                      clause — atoms of the current step as head, the negated literal of the body formula of every shifted part
                      (`head_formula_to_body_formula`) — holds in a world (W,T) exactly when the clause holds with its shifted
                      parts read in T (double negation); on total traces all rules of a step hold iff the formula holds
  (d) shift_iff       time-stratified shifting: moving the off-time disjuncts of a clause into the body under
                      default negation (what `translate_clause` does with `TelShift`s) preserves stable models
The end-to-end statement `C04_statement` (answer sets = temporal stable models with head formulas) is kept
visible; it is PARTIAL: (b)–(d) are its formula-level and program-level ingredients, the composition with the
incremental grounding is validated by the search against the brute-force THT equilibrium enumerator.
-/
import TelProofs.HeadShift
import TelProofs.HeadDocEq
import TelProofs.RangeAdequate
import TelProofs.Meta.Shift
import TelProofs.Meta.DefExt
import TelProofs.HeadRuleProofs
import TelSpec.Program

set_option linter.unusedSimpArgs false

namespace TelProofs.C04
open TelSpec TelModel TelProofs

/-- the end-to-end statement (not proved here) -/
def C04_statement (stableOfRun : TProg → Nat → Trace → Prop) : Prop :=
  ∀ (P : TProg) (h : Nat) (T : Trace), stableOfRun P h T ↔ (∃ T', TSM h P T' ∧ TraceEq h T' T)

/-- (b) -/
theorem unshift_equiv (h : Nat) (W T : Trace) (d : Nat) (f : HForm) (k : Nat) (hk : k + d ≤ h)
    (hn : noShift f = true) : hsem h W T (shiftF d f) (k + d) = hsem h W T f k :=
  TelProofs.unshift_equiv h W T d f k hk hn

/-- (c) -/
theorem unfold_cnf (h : Nat) (W T : Trace) (k : Nat) (f : HForm) :
    (unfoldF f).all (fun c => c.any fun x => hsem h W T x k) = hsem h W T f k :=
  TelProofs.unfold_cnf h W T k f

/-- (b)+(c): at step `s0 + d` the clauses the translation emits for a head formula created at `s0` hold
    exactly when the formula holds at `s0` -/
theorem clauses_at_step (h : Nat) (W T : Trace) (d s0 : Nat) (f : HForm) (hk : s0 + d ≤ h) (hn : noShift f = true) :
    (unfoldF (shiftF d f)).all (fun c => c.any fun x => hsem h W T x (s0 + d)) = hsem h W T f s0 := by
  rw [unfold_cnf, unshift_equiv h W T d f s0 hk hn]

/-- (a) the head formula construction implements the documented operator table under THT -/
theorem head_doc_eq (s : SForm) (hok : s.headOk = true) (hg : GoodAtoms s) :
    ∃ f, hCreateFormula (toTerm s) = .ok f ∧ noShift f = true ∧
      ∀ (h : Nat) (W T : Trace) (k : Nat), k ≤ h → hsem h (withAdmin h W) (withAdmin h T) f k = tht h W T s k := by
  obtain ⟨f, hc, hn, hs⟩ := TelProofs.head_doc_eq s hok hg
  exact ⟨f, hc, hn, hs⟩

/-- (a)+(b)+(c): what the translation emits for a documented head formula `d` steps after its own step `s0` holds in a
    world exactly when the documented formula holds there at `s0` -/
theorem head_clauses_mean_formula (s : SForm) (hok : s.headOk = true) (hg : GoodAtoms s) :
    ∃ f, hCreateFormula (toTerm s) = .ok f ∧
      ∀ (h : Nat) (W T : Trace) (d s0 : Nat), s0 + d ≤ h →
        (unfoldF (shiftF d f)).all (fun c => c.any fun x => hsem h (withAdmin h W) (withAdmin h T) x (s0 + d)) =
          tht h W T s s0 := by
  obtain ⟨f, hc, hn, hs⟩ := TelProofs.head_doc_eq s hok hg
  refine ⟨f, hc, ?_⟩
  intro h W T d s0 hk
  rw [clauses_at_step h _ _ d s0 f hk hn]
  exact hs h W T s0 (by omega)

/-- (a') every atom in a clause emitted `d` steps after the formula's own step lies in a range computed for it -/
theorem emitted_heads_in_ranges (d : Nat) (f : HForm) (c : List HForm) (hc : c ∈ unfoldF (shiftF d f))
    (p : Bool) (n : String) (a : List Sym) (hx : HForm.atom p n a ∈ c) :
    ∃ r, (hkey p n a, r) ∈ rangesH 0 false f ∧ r.covers d :=
  TelProofs.emitted_heads_in_ranges d f c hc p n a hx

/-- (e) the rule emitted for a clause (`ClauseToRule` / `translate_clause`: the atoms of the current step as head, the
    negated literal of the body formula `n > f` / `n < f` / `f` for every shifted part `TelShift(n, f)`) holds in a
    here-and-there world exactly when the clause holds with its shifted parts read in the there-world — the clause with
    its off-time parts under double negation; for every clause of every head formula at every distance -/
theorem emitted_rule_reads_clause (h : Nat) (W T : Trace) (lv : Int → Bool) (d : Nat) (f : HForm) (hn : noShift f = true)
    (k : Nat) (hk : k ≤ h) (c : List HForm) (hc : c ∈ unfoldF (shiftF d f)) :
    ruleSat h W T lv k (ruleShape c) = dnegClause h W T k c :=
  TelProofs.emitted_rule_reads_clause h W T lv d f hn k hk c hc

/-- (e') the body formula behind a negated literal is the head formula read classically (`head_formula_to_body_formula`) -/
theorem head_as_body (h : Nat) (T : Trace) (lv : Int → Bool) (f : HForm) (hn : noShift f = true) (k : Nat) :
    (toBody f).sem h T lv k = hsem h T T f k :=
  toBody_sem h T lv f hn k

/-- (b)+(c)+(e): on a total trace, the rules emitted `d` steps after the formula's own step `s0` are all satisfied exactly
    when the formula holds at `s0` -/
theorem emitted_rules_total (h : Nat) (T : Trace) (lv : Int → Bool) (d s0 : Nat) (f : HForm) (hk : s0 + d ≤ h)
    (hn : noShift f = true) :
    (unfoldF (shiftF d f)).all (fun c => ruleSat h T T lv (s0 + d) (ruleShape c)) = hsem h T T f s0 := by
  rw [← clauses_at_step h T T d s0 f hk hn]
  apply DefExt.all_congr
  intro c hc
  exact rule_total h T lv (s0 + d) hk c (unfold_shape _ (shiftF_shifted d f hn) c hc)

/-- (d) -/
theorem shift_iff {β : Type} (time : β → Nat) (P : Set (Meta.Rule β)) (hstrat : ∀ r ∈ P, r.stratified time)
    (T : Set β) : Meta.Stable (Meta.shiftProg time P) T ↔ Meta.Stable P T :=
  Meta.shift_iff time P hstrat T

/-- `~` is default negation: it looks at the "there" world only, so `a | ~a` is a choice -/
theorem neg_is_default (h : Nat) (W T : Trace) (f : HForm) (k : Nat) :
    hsem h W T (.neg f) k = !(hsem h T T f k) := rfl

theorem choice_reading (h : Nat) (W T : Trace) (a : HForm) (k : Nat) :
    hsem h W T (.clause2 a (.neg a) false) k = (hsem h W T a k || !(hsem h T T a k)) := rfl

/-! ### non-vacuity -/
example : (SForm.rel (.atom "a") (.bin .or (.seqNext true (.atom "b") (.finally_ (.atom "a"))) (.neg (.next 2 false (.kw .kfinal))))).headOk = true := rfl

example : rangesH 0 false (.clause2 (.next 2 (.atom true "a" []) false) (.until1 (.next 1 (.atom true "b" []) true) false) true) =
    [("a()", ⟨2, false⟩), ("b()", ⟨1, true⟩)] := by decide
example : noShift (.until2 (.atom true "a" []) (.clause2 (.atom true "b" []) (.neg (.atom true "c" [])) false) true) = true := rfl
example : shiftF 1 (.next 1 (.atom true "a" []) false) = .atom true "a" [] := by simp [shiftF]
example : shiftF 0 (.next 1 (.atom true "a" []) false) = .shift 0 (.next 1 (.atom true "a" []) false) := by simp [shiftF]

end TelProofs.C04
