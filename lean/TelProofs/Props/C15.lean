/-
C15 — failures surface as diagnostics, never as internal errors, crashes or hangs.

In the model every Python exception is a value: `PyErr.runtime _` is a `RuntimeError` telingo raises on
purpose, every other constructor is an internal error (`AssertionError`, `AttributeError`, `IndexError`, …) —
each `assert`, each attribute read on a possibly-`None` value, each list index of the transcribed code has an
explicit failure branch.  Proved: on every input the modelled function ends in a value or a `RuntimeError`:
  * `create_number`, `create_symbol` (all theory terms), `create_atom`, the n-fold prefix
  * `create_formula` for every theory term gringo can produce with the `#theory tel` body table (operator
    names only with an arity the table allows — `gringoOK`, the parser's contract); in particular the
    `assert` at the end of the operator chain, `Previous(None, …)` / `BooleanFormula("&", None, …)` of unary
    sequence operators and `args[-1]` on an empty list are unreachable
  * the test part of path expressions (`create_path(…, check=True)`)
  * `__get_param` for every predicate name and flag combination
  * the solving loop and the option parsers (C08: `loop_no_internal`, `options_never_crash`)
Termination: all these functions are total Lean definitions (structural or well-founded recursion accepted by
the kernel) — no input makes them loop.
PARTIAL: `create_path` / `create_dynamic_formula`, the head `create_formula` and `TheoryParser.parse` are modelled
with their failure branches and compared with the implementation including error classes on near-valid inputs,
but their no-internal-error theorems are not proved here; the AST rewriting of `transformers/` is covered by
the near-valid search on the real code only.
-/
import TelProofs.NoInternal
import TelProofs.Props.C08

namespace TelProofs.C15
open TelSpec TelModel TelModel.Generated TelProofs

theorem no_internal_number (t : TTerm) : NoInternal (createNumber t) := createNumber_noInternal t
theorem no_internal_symbol (t : TTerm) : NoInternal (createSymbol t) := createSymbol_noInternal.1 t
theorem no_internal_atom (t : TTerm) (p : Bool) : NoInternal (createAtom t p) := createAtom_noInternal t p
theorem no_internal_offset (t : TTerm) : NoInternal (createOffset t) := createOffset_noInternal t

/-- body formulas: every term the theory-term parser can hand over -/
theorem no_internal_formula (t : TTerm) (hok : gringoOK bodyTable t = true) : NoInternal (createFormula t) :=
  createFormula_noInternal t hok

theorem no_internal_test (t : TTerm) (hok : gringoOK delTable t = true) : NoInternal (createPathCheck t) :=
  createPathCheck_noInternal t hok

theorem no_internal_get_param (name : String) (rf ff fp : Bool) : NoInternal (getParam name rf ff fp) :=
  getParamL_noInternal name.toList rf ff fp

/-- the solving loop and the option parsers (from C08) -/
theorem no_internal_loop (o : Opts) (res : Nat → SolveResult) (fuel : Nat) : ∃ l, run o res fuel = .ok l :=
  C08.loop_no_internal o res fuel

theorem no_internal_options (o : Opts) (name value : String) : ∀ e, applyOption o name value ≠ .crashed e :=
  C08.options_never_crash o name value

/-! ### non-vacuity: terms the parser produces satisfy `gringoOK`; a malformed prefix ends in RuntimeError -/
example : gringoOK bodyTable (.fn ";>" [.sym "a", .fn ">?" [.fn "~" [.sym "b"]]]) = true := by decide
example : createFormula (.fn ">" [.fn "-" [.num 1], .sym "a"]) = .error (.runtime "number expected") := by rfl
example : gringoOK bodyTable (.fn ";>" [.sym "a"]) = false := by decide

end TelProofs.C15
