/-
C15 — failures surface as diagnostics, never as internal errors, crashes or hangs.

In the model every Python exception is a value: `PyErr.runtime _` is a `RuntimeError` telingo raises on
purpose, every other constructor is an internal error (`AssertionError`, `AttributeError`, `IndexError`, …) —
each `assert`, each attribute read on a possibly-`None` value, each list index of the transcribed code has an
explicit failure branch.  Proved: on every input the modelled function ends in a value or a `RuntimeError`:
  * `create_number`, `create_symbol` (all theory terms), `create_atom`, the n-fold prefix
  * `create_formula` for every theory term gringo can produce with the `#theory tel` body table (operator
    names only with an arity the table allows — `gringoOK`, the parser's contract); in particular the
    `assert` at the end of the operator chain, `Previous(None, …)` / `BooleanFormula("&", None, …)` of unary
    sequence operators and `args[-1]` on an empty list are unreachable
  * `create_path` / `create_dynamic_formula` (every `&del` term gringo can produce with the `#theory del` table) and
    `translate_elements` on top of them (an element without a term never reaches its `terms[0]`:
    `element_without_term_rejected`); the head `create_formula` (theory/head.py)
  * `TheoryParser.parse` (transformers/head.py) on every non-empty unparsed term of the shape clingo's grammar
    produces, with any operator table: the stack never underflows, `__check` never looks up a missing
    operator, the fuel of the model's loops suffices (termination)
  * `__get_param` for every predicate name and flag combination
  * the solving loop and the option parsers (C08: `loop_no_internal`, `options_never_crash`)
Termination: all these functions are total Lean definitions (structural or well-founded recursion accepted by
the kernel) — no input makes them loop.
PARTIAL: the AST rewriting of `transformers/` (other than `__get_param` and `TheoryParser`) and the step-wise
`translate` methods of `theory/` are covered by the error-class correspondence and the near-valid search on the
real code only.
-/
import TelProofs.NoInternal
import TelProofs.TermConvProofs
import TelProofs.Props.C08
import TelProofs.TranslateRecProofs

namespace TelProofs.C15
open TelSpec TelModel TelModel.Generated TelProofs

theorem no_internal_number (t : TTerm) : NoInternal (createNumber t) := createNumber_noInternal t
theorem no_internal_symbol (t : TTerm) : NoInternal (createSymbol t) := createSymbol_noInternal.1 t
theorem no_internal_atom (t : TTerm) (p : Bool) : NoInternal (createAtom t p) := createAtom_noInternal t p
theorem no_internal_offset (t : TTerm) : NoInternal (createOffset t) := createOffset_noInternal t

/-- body formulas: every term the theory-term parser can hand over -/
theorem no_internal_formula (t : TTerm) (hok : gringoOK bodyTable t = true) : NoInternal (createFormula t) :=
  createFormula_noInternal t hok

theorem no_internal_test (t : TTerm) (hok : gringoOK delTable t = true) : NoInternal (createPathCheck t) :=
  createPathCheck_noInternal t hok

/-- `&del` formulas: every term the theory-term parser can hand over -/
theorem no_internal_path (t : TTerm) (hok : gringoOK delTable t = true) : NoInternal (createPath t) :=
  createPath_noInternal t hok

theorem no_internal_dynamic (t : TTerm) (hok : gringoOK delTable t = true) : NoInternal (createDynamicFormula t) :=
  createDynamicFormula_noInternal t hok

/-- `translate_elements`: all elements of a `&tel` / `&del` body atom, with their conditions -/
theorem no_internal_elements (els : List TElem) (dynamic : Bool)
    (hok : ∀ e ∈ els, gringoOK (if dynamic then delTable else bodyTable) e.term = true) :
    NoInternal (translateElements els dynamic) :=
  translateElements_noInternal els dynamic hok

/-- `translate_elements` reads `element.terms[0]` of every element: an element without a term is stopped before, by the
    RuntimeError of `visit_TheoryAtom` (E13, regenerated from the source) — for `&tel` and for `&del` -/
theorem element_without_term_rejected :
    telElemRejected 0 = true ∧ delElemRejected 0 = true := by
  constructor <;> decide

/-- `theory_term_to_term` (transformers/head.py), any operator table: a value or the RuntimeError "invalid term" -/
theorem no_internal_term_conversion (tbl : List OpEntry) (t : HTerm) : NoInternal (convTerm tbl t) :=
  convTerm_noInternal tbl t

/-- head formulas (`&__tel_head` atoms are declared with the body term table) -/
theorem no_internal_head_formula (t : TTerm) (hok : gringoOK bodyTable t = true) : NoInternal (hCreateFormula t) :=
  hCreateFormula_noInternal t hok

/-- `TheoryParser.parse`, any table -/
theorem no_internal_parser (tbl : List OpEntry) (elems : List UElem) (hne : elems ≠ []) (hok : elemsOK true elems) :
    NoInternal (stackParse tbl elems) :=
  stackParse_noInternal tbl elems hne hok

theorem no_internal_get_param (name : String) (rf ff fp : Bool) : NoInternal (getParam name rf ff fp) :=
  getParamL_noInternal name.toList rf ff fp

/-- the solving loop and the option parsers (from C08) -/
theorem no_internal_loop (o : Opts) (res : Nat → SolveResult) (fuel : Nat) : ∃ l, run o res fuel = .ok l :=
  C08.loop_no_internal o res fuel

theorem no_internal_options (o : Opts) (name value : String) : ∀ e, applyOption o name value ≠ .crashed e :=
  C08.options_never_crash o name value

/-! ### non-vacuity: terms the parser produces satisfy `gringoOK`; a malformed prefix ends in RuntimeError -/
example : gringoOK bodyTable (.fn ";>" [.sym "a", .fn ">?" [.fn "~" [.sym "b"]]]) = true := by decide
example : createFormula (.fn ">" [.fn "-" [.num 1], .sym "a"]) = .error (.runtime "number expected") := by rfl
example : gringoOK bodyTable (.fn ";>" [.sym "a"]) = false := by decide
example : gringoOK delTable (.fn ".>?" [.fn ";;" [.fn "?" [.sym "a"], .fn "*" [.fn "&" [.sym "true"]]], .sym "b"]) = true := by decide
example : elemsOK true [⟨[], 0⟩, ⟨["&", ">"], 1⟩, ⟨["|"], 2⟩] := by simp [elemsOK]
example : stackParse headTablePy [⟨["<"], 0⟩] = .error (.runtime "invalid operator in temporal formula") := by rfl

/-! ### the recursion of the step-wise translation (`BodyFormula.translate`), model TelModel/TranslateRec.lean -/

/-- `translate` returns for every graph of (formula, step) pairs in which the pairs that wait for their operands (negation,
    previous / next, Boolean and temporal connectives) point to pairs of smaller rank — cycles through box / diamond pairs
    (the unfolding of an iteration over a path that consumes no state) allowed: no unbounded recursion.  (That the recursion
    is well-founded is what Lean checked to accept the definition of `tr`.)  The pair has a literal afterwards, none is lost. -/
theorem translate_returns {n : Nat} (G : TelModel.TR.Graph n) (hG : G.ok) (fixed : Bool) (k : Fin n) (s : TelModel.TR.St n) :
    (TelModel.TR.tr G hG fixed k s).1.set k = true ∧ s.le (TelModel.TR.tr G hG fixed k s).1 :=
  TRP.translate_returns G hG fixed k s

/-- a pair that has been translated is not translated again: the second call returns the state unchanged -/
theorem translate_idempotent {n : Nat} (G : TelModel.TR.Graph n) (hG : G.ok) (fixed : Bool) (k : Fin n) (s : TelModel.TR.St n) :
    (TelModel.TR.tr G hG fixed k (TelModel.TR.tr G hG fixed k s).1).1 = (TelModel.TR.tr G hG fixed k s).1 :=
  TRP.translate_idempotent G hG fixed k s

/-- With the second look of the Boolean connectives (the repair of D17) the assertion in `StepData.add_literal` never fails.
    `Graph.wok`: a weak rank that never increases along an edge — unfoldings of box / diamond pairs included — under which the
    pairs that take their literal after their operands *without* looking again (since / trigger / until / release) lie strictly
    above their operands; Boolean connectives may lie on cycles. -/
theorem add_literal_assertion_holds {n : Nat} (G : TelModel.TR.Graph n) (hG : G.ok) (hr : G.wok) (k : Fin n)
    (s : TelModel.TR.St n) (h : s.err = false) : (TelModel.TR.tr G hG true k s).1.err = false :=
  TRP.fixed_never_asserts G hG hr k s h

/-- … and without it the assertion fails on every cycle of the shape of D17 (a Boolean pair whose first operand is a box /
    diamond pair that unfolds to the Boolean pair): the repair is necessary, not only sufficient -/
theorem add_literal_assertion_fails_without_second_look {n : Nat} (G : TelModel.TR.Graph n) (hG : G.ok) (k a b : Fin n)
    (r : Bool) (s : TelModel.TR.St n) (hk : G.kind k = .op r a b) (ha : G.kind a = .early k)
    (hsk : s.set k = false) (hsa : s.set a = false) : (TelModel.TR.tr G hG false k s).1.err = true :=
  TRP.unfixed_asserts G hG k a b r s hk ha hsk hsa

end TelProofs.C15
