/-
C10 — the command line prints each answer set as its states, completely and only.

Model: `TelModel.printModel` (transcription of `TelApp.print_model`); clingo's symbol order enters as an
arbitrary ranking.  The byte-level output of the model is compared with the real `print_model` (called
in-process on constructed symbol lists) and the printed states of the real command line are compared with
the `--outf=2` witnesses of the same run (several files, stdin, `#show`, classical negation, threads).
Outside the model: stdout buffering, the file system, thread scheduling of parallel solving.
-/
import TelModel.Print

namespace TelProofs.C10
open TelModel

theorem mem_insertByRank (x y : ShownSym) (l : List ShownSym) : y ∈ insertByRank x l ↔ y = x ∨ y ∈ l := by
  induction l with
  | nil => simp [insertByRank]
  | cons z zs ih =>
    simp only [insertByRank]
    split
    · simp
    · simp only [List.mem_cons, ih]
      constructor
      · rintro (h | h | h)
        · exact Or.inr (Or.inl h)
        · exact Or.inl h
        · exact Or.inr (Or.inr h)
      · rintro (h | h | h)
        · exact Or.inr (Or.inl h)
        · exact Or.inl h
        · exact Or.inr (Or.inr h)

theorem mem_sortByRank (y : ShownSym) (l : List ShownSym) : y ∈ sortByRank l ↔ y ∈ l := by
  induction l with
  | nil => simp [sortByRank]
  | cons z zs ih =>
    simp only [sortByRank, List.foldr_cons] at ih ⊢
    rw [mem_insertByRank, ih]
    simp

theorem length_insertByRank (x : ShownSym) (l : List ShownSym) : (insertByRank x l).length = l.length + 1 := by
  induction l with
  | nil => rfl
  | cons z zs ih => simp only [insertByRank]; split <;> simp [ih]

theorem length_sortByRank (l : List ShownSym) : (sortByRank l).length = l.length := by
  induction l with
  | nil => rfl
  | cons z zs ih => simp only [sortByRank, List.foldr_cons] at ih ⊢; rw [length_insertByRank, ih]; rfl

/-- the states `0..h` are printed, each once, in order -/
theorem print_states (h : Nat) (syms : List ShownSym) :
    (printedStates h syms).map (·.1) = List.range (h + 1) := by
  simp [printedStates, List.map_map, Function.comp_def]

/-- an atom appears under `State k` exactly if it is a shown symbol whose last argument is the number `k`
    and whose name does not start with `__` — whatever order clingo puts the symbols in -/
theorem print_exact (syms : List ShownSym) (k : Nat) (s : ShownSym) :
    s ∈ stateSyms syms k ↔ s ∈ syms ∧ s.timed = some (k : Int) ∧ (s.name.toList.take 2 == ['_', '_']) = false := by
  simp only [stateSyms, stateSyms.startsWithStr2, List.mem_filter, mem_sortByRank, Bool.not_eq_true', beq_iff_eq]
  constructor
  · rintro ⟨⟨h1, h2⟩, h3⟩; exact ⟨h1, h2, h3⟩
  · rintro ⟨h1, h2, h3⟩; exact ⟨⟨h1, h2⟩, h3⟩

/-- no user atom is attached to a wrong state -/
theorem print_state_unique (syms : List ShownSym) (k k' : Nat) (s : ShownSym)
    (h1 : s ∈ stateSyms syms k) (h2 : s ∈ stateSyms syms k') : k = k' := by
  have a := ((print_exact syms k s).mp h1).2.1
  have b := ((print_exact syms k' s).mp h2).2.1
  rw [a] at b
  have : (k : Int) = (k' : Int) := Option.some.inj b
  omega

/-- auxiliary atoms never appear -/
theorem print_no_aux (syms : List ShownSym) (k : Nat) (s : ShownSym) (h : s ∈ stateSyms syms k) :
    (s.name.toList.take 2 == ['_', '_']) = false := ((print_exact syms k s).mp h).2.2

/-- shown terms without a time stamp (no arguments, or a last argument that is not a number) are skipped — they
    do not make printing fail and appear under no state -/
theorem print_untimed_skipped (syms : List ShownSym) (k : Nat) (s : ShownSym) (h : s.timed = none) :
    s ∉ stateSyms syms k := by
  intro hm
  have := ((print_exact syms k s).mp hm).2.1
  rw [h] at this; cases this

/-- nothing is dropped or duplicated: the number of atoms printed under `State k` is the number of shown,
    non-auxiliary symbols stamped `k` -/
theorem print_count (syms : List ShownSym) (k : Nat) :
    (sortByRank (syms.filter fun s => s.timed == some (k : Int))).length =
      (syms.filter fun s => s.timed == some (k : Int)).length := length_sortByRank _

/-! ### non-vacuity -/
example : printModel 1 [⟨true, "p", true, ["1", "0"], some 0, 1⟩, ⟨true, "__final", true, ["1"], some 1, 0⟩,
                        ⟨true, "q", false, ["1"], some 1, 2⟩, ⟨true, "f", true, ["a"], none, 3⟩]
    = " State 0:\n  p(1)\n State 1:\n  -q\n" := by rfl

end TelProofs.C10
