/-
C17 — growing the trace never rewrites the past of past-only programs.
-/
import TelProofs.Prefix

namespace TelProofs.C17
open TelSpec TelModel TelProofs

/-- on the specification: the first h+1 states of a temporal stable model of horizon h+1 of a past-only
    program form a temporal stable model of horizon h -/
theorem tsm_prefix (P : TProg) (hp : progPast P = true) (h : Nat) (T : Trace) (hT : TSM (h+1) P T) : TSM h P T :=
  TelProofs.tsm_prefix P hp h T hT

/-- the same with past temporal formulas (`&tel` body atoms built from `<`, `<:`, `<?`, `<*`, `<<`, `<;`, `<:;`, Boolean
    connectives, `&initial`) in rule bodies: they do not see the horizon, so cutting the trace keeps their value -/
theorem tsm_prefix_tel (P : TProg) (hp : progPastT P = true) (h : Nat) (T : Trace) (hT : TSM (h+1) P T) : TSM h P T :=
  TelProofs.tsm_prefix_tel P hp h T hT

/-- a past-only formula has the same value at every horizon -/
theorem past_formula_horizon_free (h h' : Nat) (f : SForm) (hp : pastF f = true) (T : Trace) (k : Nat) :
    docSem h T f k = docSem h' T f k := tht_horizon h h' f hp T T k

/-- **C17** on the model of the incremental run: every stable model of the program accumulated after steps
    0..h+1, cut to the states 0..h, is a stable model of the program accumulated after steps 0..h — extending
    the horizon only appends a state, however many steps the run has already taken. -/
theorem C17_prefix (P : TProg) (hp : progPast P = true) (h : Nat) (X : Interp) (hs : Stable (G P (h+1)) X) :
    Stable (G P h) (embed h (traceOf X)) :=
  stable_prefix P hp h X hs

/-- iterated: any later horizon, cut to any earlier one -/
theorem C17_prefix_iter (P : TProg) (hp : progPast P = true) (h d : Nat) (X : Interp) (hs : Stable (G P (h+d)) X) :
    Stable (G P h) (embed h (traceOf X)) := by
  induction d generalizing X with
  | zero =>
    have hc := progPast_core P hp
    have := (core_stable_iff P hc h).1 X hs
    rw [← this.2]; exact hs
  | succ d ih =>
    have h1 : Stable (G P (h+d)) (embed (h+d) (traceOf X)) := C17_prefix P hp (h+d) X hs
    have h2 := ih _ h1
    -- traceOf (embed (h+d) T) agrees with T on 0..h+d, hence on 0..h
    have heq : embed h (traceOf (embed (h+d) (traceOf X))) = embed h (traceOf X) := by
      apply embed_congr
      intro k hk a
      exact traceOf_embed (h+d) (traceOf X) k (by omega) a
    rw [heq] at h2; exact h2

/-! ### non-vacuity -/
example : progPast [⟨.initial, .choice ["a"], []⟩, ⟨.dynamic, .atom "b" 0, [.atom .pos "a" (-1), .init .not "b"]⟩,
                    ⟨.always, .falsum, [.atom .pos "b" (-2), .kw .not .kinitial]⟩] = true := by decide

example : progPastT [⟨.initial, .choice ["a"], []⟩,
                     ⟨.dynamic, .atom "b" 0, [.tel .notnot (.since (.atom "a") (.prev 2 true (.atom "b")))]⟩,
                     ⟨.always, .falsum, [.tel .not (.alP (.bin .or (.atom "a") (.kw .kinitial)))]⟩] = true := by decide

end TelProofs.C17
