/-
C09 — every reported answer set is a well-formed finite trace.

Statements about every stable model `X` of `G P h`, the model's accumulated ground program after the
incremental history of steps 0..h (built through the *generated* `partCond`, `assumeCond`; `__final(h)`
is the only true external): time stamps lie in 0..h, exactly state 0 is initial and exactly state h is
final, and a `__future_*` atom is accompanied by its target atom.  For every program of the typed rule
fragment (any heads, any look-ahead depth, any part), every horizon.
-/
import TelProofs.GroundLemmas

set_option linter.unusedSimpArgs false

namespace TelProofs.C09
open TelSpec TelModel TelModel.Generated TelProofs

theorem headOk_mono (P : TProg) {s h : Nat} (hs : s ≤ h) (a : GAtom) (ha : HeadAtomOk P s a) : HeadAtomOk P h a := by
  cases a with
  | user x k => simp only [HeadAtomOk] at ha ⊢; omega
  | initial k => exact ha
  | final k => exact ha
  | future x n k => exact ha

/-- heads of the program solved at horizon `h` -/
theorem G_heads (P : TProg) (h : Nat) : ∀ r ∈ G P h, ∀ a ∈ r.head, HeadAtomOk P h a ∨ a = .final h := by
  intro r hr a ha
  simp only [G, List.mem_append, List.mem_singleton, List.mem_filterMap] at hr
  rcases hr with (hr | hr) | ⟨x, _, hx⟩
  · obtain ⟨s, hs, hg⟩ := (mem_accRules P h r).mp hr
    exact Or.inl (headOk_mono P hs a (groundAt_heads P s r hg a ha))
  · subst hr; simp at ha; exact Or.inr ha
  · split at hx
    · split at hx
      · simp at hx; subst hx; cases ha
      · cases hx
    · cases hx

theorem final_fact_mem (P : TProg) (h : Nat) : ({ head := [.final h] } : GRule) ∈ G P h := by
  simp [G]

theorem initial_fact_mem (P : TProg) (h : Nat) : ({ head := [.initial 0] } : GRule) ∈ G P h := by
  simp only [G, List.mem_append]
  left; left
  refine (mem_accRules P h _).mpr ⟨0, Nat.zero_le _, ?_⟩
  simp only [groundAt, List.mem_flatMap]
  refine ⟨_, initial_selected P, ?_⟩
  simp

/-- every time-stamped user atom of an answer set lies inside the trace -/
theorem times_in_range (P : TProg) (h : Nat) (X : Interp) (hs : Stable (G P h) X) (a : String) (k : Int)
    (hx : X (.user a k) = true) : 0 ≤ k ∧ k ≤ (h : Int) := by
  apply Classical.byContradiction; intro hcon
  let U : GAtom → Bool := fun x => match x with
    | .user _ j => !(decide (0 ≤ j) && decide (j ≤ (h : Int)))
    | _ => false
  have hU : ∀ r ∈ G P h, ∀ x ∈ r.head, U x = false := by
    intro r hr x hxh
    rcases G_heads P h r hr x hxh with hok | hf
    · cases x with
      | user y j => simp only [HeadAtomOk] at hok; simp [U, hok.1, hok.2]
      | _ => rfl
    · subst hf; rfl
  have := stable_unsupported hs U hU (.user a k) (by
    simp only [U, Bool.not_eq_true', Bool.and_eq_false_iff, decide_eq_false_iff_not]
    by_cases h0 : 0 ≤ k
    · right; intro hk; exact hcon ⟨h0, hk⟩
    · left; exact h0)
  rw [this] at hx; cases hx

/-- exactly state 0 is marked initial -/
theorem initial_exact (P : TProg) (h : Nat) (X : Interp) (hs : Stable (G P h) X) (k : Int) :
    X (.initial k) = true ↔ k = 0 := by
  constructor
  · intro hx
    apply Classical.byContradiction; intro hk
    let U : GAtom → Bool := fun x => match x with
      | .initial j => !(decide (j = 0))
      | _ => false
    have hU : ∀ r ∈ G P h, ∀ x ∈ r.head, U x = false := by
      intro r hr x hxh
      rcases G_heads P h r hr x hxh with hok | hf
      · cases x with
        | initial j => simp only [HeadAtomOk] at hok; simp [U, hok]
        | _ => rfl
      · subst hf; rfl
    have := stable_unsupported hs U hU (.initial k) (by simp [U, hk])
    rw [this] at hx; cases hx
  · intro hk; subst hk
    exact stable_fact hs _ (initial_fact_mem P h)

/-- exactly state `h` is marked final -/
theorem final_exact (P : TProg) (h : Nat) (X : Interp) (hs : Stable (G P h) X) (k : Int) :
    X (.final k) = true ↔ k = (h : Int) := by
  constructor
  · intro hx
    apply Classical.byContradiction; intro hk
    let U : GAtom → Bool := fun x => match x with
      | .final j => !(decide (j = (h : Int)))
      | _ => false
    have hU : ∀ r ∈ G P h, ∀ x ∈ r.head, U x = false := by
      intro r hr x hxh
      rcases G_heads P h r hr x hxh with hok | hf
      · cases x with
        | final j => simp only [HeadAtomOk] at hok
        | _ => rfl
      · subst hf; simp [U]
    have := stable_unsupported hs U hU (.final k) (by simp [U, hk])
    rw [this] at hx; cases hx
  · intro hk; subst hk
    exact stable_fact hs _ (final_fact_mem P h)

/-- a true atom occurs in the head of some rule -/
theorem supported (P : TProg) (h : Nat) (X : Interp) (hs : Stable (G P h) X) (a : GAtom) (hx : X a = true) :
    ∃ r ∈ G P h, a ∈ r.head := by
  apply Classical.byContradiction; intro hcon
  have hU : ∀ r ∈ G P h, ∀ x ∈ r.head, (x == a) = false := by
    intro r hr x hxh
    cases hxa : x == a
    · rfl
    · exfalso; apply hcon; exact ⟨r, hr, by rw [← (beq_iff_eq.mp hxa)]; exact hxh⟩
  have := stable_unsupported hs (fun x => x == a) hU a (by simp)
  rw [this] at hx; cases hx

/-- an atom derived through a future head is present at its target state whenever its auxiliary
    `__future_*` atom is; and no `__future_*` atom beyond the horizon is true (none stale). -/
theorem future_target (P : TProg) (h : Nat) (X : Interp) (hs : Stable (G P h) X) (a : String) (n : Nat) (k : Int)
    (hx : X (.future a n k) = true) : k ≤ (h : Int) ∧ X (.user a k) = true := by
  -- supported: occurs in a head, hence well-formed and in `futureAtoms`
  obtain ⟨r, hr, hmem⟩ := supported P h X hs _ hx
  have hok : HeadAtomOk P h (.future a n k) := by
    rcases G_heads P h r hr _ hmem with hok | hf
    · exact hok
    · cases hf
  simp only [HeadAtomOk] at hok
  obtain ⟨hfh, hn, hnk⟩ := hok
  have hracc : r ∈ accRules P h := by
    simp only [G, List.mem_append, List.mem_singleton, List.mem_filterMap] at hr
    rcases hr with (hr | hr) | ⟨x, _, hx'⟩
    · exact hr
    · subst hr; simp at hmem
    · split at hx'
      · split at hx'
        · simp at hx'; subst hx'; cases hmem
        · cases hx'
      · cases hx'
  have hfa : GAtom.future a n k ∈ futureAtoms (accRules P h) := by
    simp only [futureAtoms, List.mem_eraseDups, List.mem_flatMap, List.mem_filter]
    exact ⟨r, hracc, hmem, trivial⟩
  have hkh : k ≤ (h : Int) := by
    apply Classical.byContradiction; intro hgt
    have hc : assumeCond k (h : Int) = true := by simp [assumeCond]; omega
    have hmemc : ({ head := [], pos := [.future a n k] } : GRule) ∈ G P h := by
      simp only [G, List.mem_append, List.mem_filterMap]
      right
      exact ⟨_, hfa, by simp [hc]⟩
    have := stable_constraint hs _ hmemc rfl rfl
    simp [GRule.bodyHolds, hx] at this
  refine ⟨hkh, ?_⟩
  -- the bridge rule of the always part at step k
  have hk0 : 0 ≤ k := by omega
  obtain ⟨kn, hkn⟩ : ∃ kn : Nat, k = (kn : Int) := ⟨k.toNat, by omega⟩
  subst hkn
  have hbridge : ({ head := [.user a (kn : Int)], pos := [.future a n (kn : Int)] } : GRule) ∈ G P h := by
    simp only [G, List.mem_append]
    left; left
    refine (mem_accRules P h _).mpr ⟨kn, by omega, ?_⟩
    simp only [groundAt, List.mem_flatMap]
    refine ⟨_, always_selected P kn, ?_⟩
    simp only [List.mem_append]
    left; right
    simp only [if_true, List.mem_map]
    exact ⟨(a, n), hfh, rfl⟩
  exact stable_derive hs _ hbridge _ rfl rfl (by simp [GRule.bodyHolds, hx])

/-! ### non-vacuity: a program with all kinds of heads has the structure the lemmas use -/

example : (G [⟨.always, .choice ["a"], []⟩, ⟨.dynamic, .atom "b" 1, [.atom .pos "a" (-1)]⟩,
              ⟨.always, .falsum, [.atom .pos "a" 1, .atom .not "b" 0]⟩] 1).length = 9 := by decide

end TelProofs.C09
