/-
C13 — body temporal formulas are pure observers of the trace.

What the translation adds for a body formula is a *definitional extension*: one literal per (formula, step)
constrained by the one-step equations.  For every trace, horizon and set of formulas being translated,
  * `formula_exists`   the equations have a solution (the semantics): mentioning a formula cannot destroy an
                       answer set;
  * `formula_definite` any two solutions agree: it cannot duplicate one, and the formula has a definite truth
                       value in every answer set — hence `:- &tel{f}` and `:- not &tel{f}` split the answer sets
                       into two disjoint classes that together are all of them (`constraint_split`).
For `&del` under normal form: `del_definite`.  That the extension leaves the *projection* of the answer sets
unchanged at the level of stable models (M3/M6 of the design) is PARTIAL: it is validated by the metamorphic
search on the implementation (observer / split, multisets), not by a theorem.
-/
import TelProofs.SemSys
import TelProofs.DelUnique

namespace TelProofs.C13
open TelSpec TelModel TelProofs

/-- a solution exists, for every temporal formula at every state of every trace and horizon -/
theorem formula_exists (h : Nat) (tr : Trace) (lv : Int → Bool) :
    ∃ v : BForm → Nat → Bool, Sys h tr lv v (fun f k => isTel f = true ∧ k ≤ h) :=
  ⟨_, sem_sys h tr lv⟩

/-- … and it is unique -/
theorem formula_definite {h : Nat} {tr : Trace} {lv : Int → Bool} {v v' : BForm → Nat → Bool}
    {S : BForm → Nat → Prop} (s1 : Sys h tr lv v S) (s2 : Sys h tr lv v' S) (f : BForm) (ht : isTel f = true)
    (k : Nat) (hS : S f k) : v f k = v' f k := by
  rw [tel_unique s1 f ht k hS, tel_unique s2 f ht k hS]

theorem del_definite {h : Nat} {tr : Trace} {lv : Int → Bool} {v v' : BForm → Nat → Bool}
    {S : BForm → Nat → Prop} (s1 : Sys h tr lv v S) (s2 : Sys h tr lv v' S) (f : BForm) (hd : isDel f = true)
    (k : Nat) (hS : S f k) : v f k = v' f k := by
  rw [del_unique s1 f hd k hS, del_unique s2 f hd k hS]

/-- the two constraints partition: in every solution the formula literal is true or false, never both,
    and which one is decided by the trace alone -/
theorem constraint_split {h : Nat} {tr : Trace} {lv : Int → Bool} {v : BForm → Nat → Bool}
    {S : BForm → Nat → Prop} (s : Sys h tr lv v S) (f : BForm) (ht : isTel f = true) (k : Nat) (hS : S f k) :
    (v f k = true ∧ f.sem h tr lv k = true) ∨ (v f k = false ∧ f.sem h tr lv k = false) := by
  rw [tel_unique s f ht k hS]
  cases f.sem h tr lv k <;> simp

/-! ### non-vacuity -/
example : isTel (.telN2 false (.atom "a" [] true) (.bin "&" (.prev (.atom "b" [] true) 2 true) (.neg (.const false)))) = true := rfl

end TelProofs.C13
