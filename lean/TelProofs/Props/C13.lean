/-
C13 — body temporal formulas are pure observers of the trace.

What the translation adds for a body formula is a *definitional extension*: one literal per (formula, step)
constrained by the one-step equations.  For every trace, horizon and set of formulas being translated,
  * `formula_exists`   the equations have a solution (the semantics): mentioning a formula cannot destroy an
                       answer set;
  * `formula_definite` any two solutions agree: it cannot duplicate one, and the formula has a definite truth
                       value in every answer set — hence `:- &tel{f}` and `:- not &tel{f}` split the answer sets
                       into two disjoint classes that together are all of them (`constraint_split`).
For `&del` under normal form: `del_definite`.
At the level of stable models (`observer_cut`, `observer_conservative`, generic over the atom type, TelProofs/Meta/DefExt.lean):
if what is added to a ground program `P` consists only of choice rules on fresh atoms, integrity constraints and rules
without positive body that define fresh atoms (`w :- not not t.`), then every stable model of the extended program cut
to the old atoms is a stable model of `P`; and if the added constraints hold exactly when every fresh atom has the value
a function of the old atoms gives it (for telingo: the value of the formula it stands for — the statements above), the
cut is a bijection: nothing is created, destroyed or duplicated.
PARTIAL: the two hypotheses are about the implementation and are checked on it, not derived from a model of its clause
generation: (H1) the recorded backend statements of every run with body formulas have exactly the three shapes
(tools/impl_theory.backend_shape), (H2) in every answer set the recorded literal values solve the equations (L4).
-/
import TelProofs.SemSys
import TelProofs.DelUnique
import TelProofs.Meta.DefExt

namespace TelProofs.C13
open TelSpec TelModel TelProofs

/-- a solution exists, for every temporal formula at every state of every trace and horizon -/
theorem formula_exists (h : Nat) (tr : Trace) (lv : Int → Bool) :
    ∃ v : BForm → Nat → Bool, Sys h tr lv v (fun f k => isTel f = true ∧ k ≤ h) :=
  ⟨_, sem_sys h tr lv⟩

/-- … and it is unique -/
theorem formula_definite {h : Nat} {tr : Trace} {lv : Int → Bool} {v v' : BForm → Nat → Bool}
    {S : BForm → Nat → Prop} (s1 : Sys h tr lv v S) (s2 : Sys h tr lv v' S) (f : BForm) (ht : isTel f = true)
    (k : Nat) (hS : S f k) : v f k = v' f k := by
  rw [tel_unique s1 f ht k hS, tel_unique s2 f ht k hS]

theorem del_definite {h : Nat} {tr : Trace} {lv : Int → Bool} {v v' : BForm → Nat → Bool}
    {S : BForm → Nat → Prop} (s1 : Sys h tr lv v S) (s2 : Sys h tr lv v' S) (f : BForm) (hd : isDel f = true)
    (k : Nat) (hS : S f k) : v f k = v' f k := by
  rw [del_unique s1 f hd k hS, del_unique s2 f hd k hS]

/-- the two constraints partition: in every solution the formula literal is true or false, never both,
    and which one is decided by the trace alone -/
theorem constraint_split {h : Nat} {tr : Trace} {lv : Int → Bool} {v : BForm → Nat → Bool}
    {S : BForm → Nat → Prop} (s : Sys h tr lv v S) (f : BForm) (ht : isTel f = true) (k : Nat) (hS : S f k) :
    (v f k = true ∧ f.sem h tr lv k = true) ∨ (v f k = false ∧ f.sem h tr lv k = false) := by
  rw [tel_unique s f ht k hS]
  cases f.sem h tr lv k <;> simp

/-- cutting: whatever the fresh atoms are constrained to, no answer set of the old program is invented -/
theorem observer_cut {α : Type} (P E : List (DefExt.Rule α)) (N : α → Bool)
    (hP : ∀ r ∈ P, ∀ a ∈ r.atoms, N a = false) (hE : ∀ r ∈ E, DefExt.EShape N r)
    (X : DefExt.Interp α) (hs : DefExt.Stable (P ++ E) X) : DefExt.Stable P (DefExt.cut N X) :=
  DefExt.cut_stable P E N hP hE X hs

/-- **C13 at the level of stable models**: a definitional extension whose fresh atoms are functions of the old atoms
    neither creates, nor destroys, nor duplicates answer sets -/
theorem observer_conservative {α : Type} [DecidableEq α] (P E : List (DefExt.Rule α)) (N : α → Bool)
    (hP : ∀ r ∈ P, ∀ a ∈ r.atoms, N a = false) (hE : ∀ r ∈ E, DefExt.EShape N r)
    (val : DefExt.Interp α → α → Bool)
    (hval : ∀ Y Y' : DefExt.Interp α, (∀ a, N a = false → Y a = Y' a) → ∀ n, val Y n = val Y' n)
    (hsat : ∀ Y : DefExt.Interp α, (∀ r ∈ E, r.sat Y Y = true) ↔ ∀ n, N n = true → Y n = val Y n)
    (hfree : ∀ n, N n = true → ∃ r ∈ E, n ∈ r.head ∧ r.pos = [] ∧ r.neg = [] ∧ r.nneg = []) :
    (∀ X, DefExt.Stable (P ++ E) X → DefExt.Stable P (DefExt.cut N X)) ∧
    (∀ X0, DefExt.Stable P X0 → ∃ X, DefExt.Stable (P ++ E) X ∧ (∀ a, N a = false → X a = X0 a)) ∧
    (∀ X X', DefExt.Stable (P ++ E) X → DefExt.Stable (P ++ E) X' → (∀ a, N a = false → X a = X' a) → ∀ a, X a = X' a) :=
  DefExt.conservative P E N hP hE (DefExt.det_of_function P E N hP hE val hval hsat hfree)

/-! ### non-vacuity (a concrete instance of the hypotheses is proved in TelProofs/Meta/DefExt.lean, `exP` / `exE`) -/
example : isTel (.telN2 false (.atom "a" [] true) (.bin "&" (.prev (.atom "b" [] true) 2 true) (.neg (.const false)))) = true := rfl

end TelProofs.C13
